package main

// C01 — every produced message gets exactly one terminal outcome (structural clauses).

import (
	"fmt"
	"go/token"
	"go/types"
	"strings"

	"golang.org/x/tools/go/ssa"
)

const (
	pInFlight  = "asyncProducer.inFlight"
	pErrorsCh  = "asyncProducer.errors"
	pSuccessCh = "asyncProducer.successes"
	pRetriesCh = "asyncProducer.retries"
	pInputCh   = "asyncProducer.input"
)

func (p *Program) evEmit() Ev { return SendOn(FieldLoad(pErrorsCh, pSuccessCh), nil) }
func (p *Program) evDone() Ev { return p.WG("Done", pInFlight) }
func (p *Program) evAdd() Ev  { return p.WG("Add", pInFlight) }
func (p *Program) evWait() Ev { return p.WG("Wait", pInFlight) }

// msgParamIdx: index in fn.Params of the first *ProducerMessage parameter, -1 if none.
func msgParamIdx(fn *ssa.Function) int {
	for i, pr := range fn.Params {
		if isPtrToNamed(pr.Type(), "ProducerMessage") {
			return i
		}
	}
	return -1
}

// disposers computes, as a least fixed point, the functions f(…, m *ProducerMessage, …) that on
// every path either emit+Done, re-queue m on the retries channel, or hand m to another disposer:
// after a call to one of them the message is accounted for.
func (p *Program) disposers() map[string]int {
	out := map[string]int{} // name -> param index of the message
	for changed := true; changed; {
		changed = false
		for _, fn := range p.Fns {
			name := p.Name(fn)
			if _, ok := out[name]; ok || fn.Parent() != nil {
				continue
			}
			k := msgParamIdx(fn)
			if k < 0 {
				continue
			}
			m := fn.Params[k]
			ev := Or(p.evDone(), SendOn(FieldLoad(pRetriesCh), Same(m)), p.callDisposer(out, Same(m)))
			if esc, _ := WholeFn(fn).Escape(ev); !esc {
				out[name] = k
				changed = true
			}
		}
	}
	return out
}

// callDisposer: a call to a known disposer whose message argument satisfies m.
func (p *Program) callDisposer(d map[string]int, m VM) Ev {
	return func(it Item) bool {
		cc, ok := callCommon(it)
		if !ok {
			return false
		}
		k, ok := d[p.CalleeName(cc)]
		return ok && k < len(cc.Args) && m(cc.Args[k])
	}
}

// batchDisposers: functions f(…, batch []*ProducerMessage, …) that hand every element of batch to
// a disposer (a range loop over the parameter with a disposer call on the element and no early
// exit).  name -> param index.
func (p *Program) batchDisposers(d map[string]int) map[string]int {
	out := map[string]int{}
	for _, fn := range p.Fns {
		if fn.Parent() != nil {
			continue
		}
		for i, pr := range fn.Params {
			if !isSliceOfPtrToNamed(pr.Type(), "ProducerMessage") {
				continue
			}
			fi := Info(fn)
			ok := false
			fi.Each(func(it Item) {
				cc, isCall := callCommon(it)
				if !isCall {
					return
				}
				k, isD := d[p.CalleeName(cc)]
				if !isD || k >= len(cc.Args) {
					return
				}
				if sl, _, isElem := rangeElem(fi, cc.Args[k]); isElem && sameValue(sl, pr) {
					ok = true
				}
			})
			// returnSuccesses: the per-element Done loop
			if !ok {
				for _, l := range fi.Loops {
					r := fi.Iteration(l)
					if len(r.Find(p.evDone())) > 0 && loopRangesOver(fi, l, pr) {
						ok = true
					}
				}
			}
			if ok {
				out[p.Name(fn)] = i
			}
		}
	}
	return out
}

func loopRangesOver(fi *FnInfo, l *Loop, slice ssa.Value) bool {
	found := false
	for b := range l.Blocks {
		for _, in := range b.Instrs {
			if ia, ok := in.(*ssa.IndexAddr); ok && sameValue(ia.X, slice) && idxFromLoop(ia.Index, l) {
				found = true
			}
		}
	}
	return found
}

func init() {
	register(&propDef{
		ID:    "C01",
		Title: "Every produced message gets exactly one terminal outcome",
		Explain: "Decides, on every CFG path of the producer pipeline, the structural necessary conditions of exactly-once outcomes: " +
			"each emit on Errors/Successes is paired with exactly one inFlight.Done (C01.emit/done); no loop that disposes batch elements one by one can leave the batch half-disposed (C01.partial); " +
			"internal markers are Add-ed before they are sent and Done exactly once where consumed (C01.marker-*); every partition set of a produce response is routed to exactly one disposition and the two retriable case lists agree (C01.route); " +
			"retryMessage re-queues or fails, never both or neither, with the budget test guarding the increment (C01.retry); shutdown waits before closing (C01.shutdown); the sync producer stores the expectation before submitting and answers each event once on its own channel (C01.sync); after a transport failure both the failed request and the pending buffer are swept before the buffer is replaced (C01.error-sweep); a buffered message is eventually flushed: the flush timer is armed after every add that needs it and reset with every buffer replacement, the output is enabled exactly when a flush is due (C16.flush, shared — a message that is never flushed never gets its outcome). " +
			"NOT covered: liveness of the retry loop across goroutines, value-dependent behaviour of markers whose budget is exhausted, the idempotent retryBatch hand-off to another broker worker.",
		Rules: []func(*Ctx){c01Emit, c01Partial, c01Markers, c01Route, c01ErrorSweep, c01Retry, c01Shutdown, c01BrokerShutdown, c01Sync, c01Loops, c16Flush, c02Flush, c18ResetOnHandBack, c01ErrLost, c01CloseDrains, c02RetryLevelWidth, c04Aligned, c01AsyncCloseNonBlocking, c18RetryCountKept, c01ShutdownSelects, c01SyncCloseDoesNotDrain, c01FirstPassDefers, c04Accounting},
	})
}

// C01.emit + C01.done
func c01Emit(c *Ctx) {
	p := c.P
	c.Doc("C01.emit", "every send on asyncProducer.errors/successes is followed on every path of its function/iteration by exactly one inFlight.Done and no second emit; exempt only when no inFlight.Add can precede it in the same iteration (then: no Done at all)")
	c.Doc("C01.done", "in every function that emits, each path through the function (or through one iteration of its batch loop) executes inFlight.Done exactly once, whatever Return.Errors/Successes say")
	c.Floor("C01.emit", 3)
	c.Floor("C01.done", 2)
	emit, done, add := p.evEmit(), p.evDone(), p.evAdd()
	for _, fn := range p.Fns {
		fi := Info(fn)
		sites := fi.Find(emit)
		if len(sites) == 0 {
			continue
		}
		regionsDone := map[*ssa.BasicBlock]bool{}
		for _, s := range sites {
			var reg *Region
			label := "function"
			if l := fi.InnermostLoop(itemBlock(s)); l != nil {
				reg = fi.Iteration(l)
				label = "iteration"
			} else {
				reg = WholeFn(fn)
			}
			after := reg.From(s.After())
			// exemption: the region contains an Add and no Add can reach this emit
			exempt := false
			if adds := reg.Find(add); len(adds) > 0 {
				exempt = true
				for _, a := range adds {
					if it, _ := reg.From(a.After()).Reach(IsItem(s), nil); !it.IsZero() {
						exempt = false
					}
				}
			}
			if exempt {
				it, path := after.Reach(done, nil)
				c.Check(it.IsZero(), "C01.emit", fn, "emit-uncounted", s.Instr(),
					"emit for a message that was never counted (no inFlight.Add can precede it in this iteration) and no Done follows",
					"emit on a path without inFlight.Add is followed by inFlight.Done: the counter goes negative / Close returns early", path)
				continue
			}
			esc, path := after.Escape(done)
			second, _ := after.Reach(emit, nil)
			var twoDone Item
			if first, _ := after.Reach(done, nil); !first.IsZero() {
				twoDone, _ = reg.From(first.After()).Reach(done, nil)
			}
			switch {
			case esc:
				c.Fail("C01.emit", fn, "emit", s.Instr(), "emit is not followed by inFlight.Done on every path of its "+label+": Close hangs", path)
			case !second.IsZero():
				c.Fail("C01.emit", fn, "emit", s.Instr(), "a second emit is reachable at "+p.Pos(second.Instr())+": two outcomes for one message", nil)
			case !twoDone.IsZero():
				c.Fail("C01.emit", fn, "emit", s.Instr(), "two inFlight.Done reachable after one emit", nil)
			default:
				c.OK("C01.emit", fn, "emit", s.Instr(), "followed by exactly one inFlight.Done, no second emit ("+label+")")
			}
			// C01.done for the region of a counted emit
			key := reg.Starts[0].B
			if !regionsDone[key] {
				regionsDone[key] = true
				cr := reg.Count(done)
				switch {
				case cr.HasNone():
					c.Fail("C01.done", fn, "done-once", s.Instr(), "a path through the "+label+" executes no inFlight.Done (e.g. with reporting disabled)", cr.NonePath)
				case cr.HasTwo():
					c.Fail("C01.done", fn, "done-once", cr.Second.Instr(), "two inFlight.Done on one path through the "+label, nil)
				default:
					c.OK("C01.done", fn, "done-once", s.Instr(), fmt.Sprintf("exactly one inFlight.Done on every path of the %s (%d Done sites)", label, len(cr.Sites)))
				}
			}
		}
	}
}

// C01.partial
func c01Partial(c *Ctx) {
	p := c.P
	c.Doc("C01.partial", "in every loop over a []*ProducerMessage whose body hands the loop element to a disposer (returnError/retryMessage/…, computed as a fixed point), no path from the disposal leaves the loop: otherwise the rest of the batch never gets an outcome")
	c.Floor("C01.partial", 2)
	d := p.disposers()
	if _, ok := d["asyncProducer.returnError"]; !ok {
		c.Unresolved("C01.partial", "asyncProducer.returnError is not recognised as a disposer")
	}
	if _, ok := d["asyncProducer.retryMessage"]; !ok {
		c.Unresolved("C01.partial", "asyncProducer.retryMessage is not recognised as a disposer")
	}
	for _, fn := range p.Fns {
		fi := Info(fn)
		for _, s := range fi.Find(p.callDisposer(d, AnyV())) {
			cc, _ := callCommon(s)
			k := d[p.CalleeName(cc)]
			_, l, ok := rangeElem(fi, cc.Args[k])
			if !ok {
				continue
			}
			// only when the call is inside the iteration
			reg := fi.Iteration(l)
			if !reg.Allowed[itemBlock(s)] {
				continue
			}
			// a path from the disposal that leaves the loop other than through the header
			leave, path := leavesLoop(s.After(), l)
			c.Check(!leave, "C01.partial", fn, "dispose-element:"+p.CalleeName(cc), s.Instr(),
				"element disposed, loop always continues with the next element",
				"batch element disposed by "+p.CalleeName(cc)+" and then the loop is left with elements remaining: they never get an outcome and inFlight never reaches zero", path)
		}
	}
}

// leavesLoop: from pt, is there a path that reaches a Return or a block outside the natural loop
// without passing through the loop header?
func leavesLoop(pt Pt, l *Loop) (bool, []*ssa.BasicBlock) {
	seen := map[wstate]bool{}
	parent := map[*ssa.BasicBlock]*ssa.BasicBlock{}
	stack := []wstate{{pt.B, pt.I, nil}}
	for len(stack) > 0 {
		s := stack[len(stack)-1]
		stack = stack[:len(stack)-1]
		if seen[s] {
			continue
		}
		seen[s] = true
		dead := false
		for i := s.i; i < len(s.b.Instrs); i++ {
			if _, ok := s.b.Instrs[i].(*ssa.Return); ok {
				return true, pathTo(parent, s.b)
			}
			if isDeadEnd(s.b.Instrs[i]) {
				dead = true
				break
			}
		}
		if dead {
			continue
		}
		for _, succ := range s.b.Succs {
			if succ == l.Head {
				continue
			}
			if !l.Blocks[succ] {
				// leaving the natural loop: a return block or code after the loop
				if _, ok := parent[succ]; !ok {
					parent[succ] = s.b
				}
				return true, pathTo(parent, succ)
			}
			if _, ok := parent[succ]; !ok && succ != s.b {
				parent[succ] = s.b
			}
			stack = append(stack, wstate{succ, 0, nil})
		}
	}
	return false, nil
}

// markerAllocs: allocations &ProducerMessage{…flags: K…} with K a non-zero constant.
type markerAlloc struct {
	fn    *ssa.Function
	alloc *ssa.Alloc
	flag  int64
}

func (p *Program) markerAllocs() []markerAlloc {
	var out []markerAlloc
	for _, fn := range p.Fns {
		for _, b := range fn.Blocks {
			for _, in := range b.Instrs {
				st, ok := in.(*ssa.Store)
				if !ok {
					continue
				}
				fa, ok := st.Addr.(*ssa.FieldAddr)
				if !ok {
					continue
				}
				al, ok := fa.X.(*ssa.Alloc)
				if !ok || !isPtrToNamed(al.Type(), "ProducerMessage") {
					continue
				}
				ch := fieldChain(fa)
				if len(ch) == 0 || ch[len(ch)-1].name != "flags" {
					continue
				}
				k, ok := st.Val.(*ssa.Const)
				if !ok || k.Value == nil || k.Int64() == 0 {
					continue
				}
				out = append(out, markerAlloc{fn, al, k.Int64()})
			}
		}
	}
	return out
}

func flagName(p *Program, k int64) string {
	for _, n := range []string{"syn", "fin", "shutdown"} {
		if v, ok := p.ConstNamed(n); ok && v == k {
			return n
		}
	}
	return fmt.Sprintf("flag(%d)", k)
}

// flagTest: cond is `m.flags & K ==/!= …` ; returns K and whether the true edge means "flag set".
func flagTest(cond ssa.Value) (k int64, setOnTrue bool, msg ssa.Value, ok bool) {
	bo, isB := cond.(*ssa.BinOp)
	if !isB || (bo.Op != token.EQL && bo.Op != token.NEQ) {
		return
	}
	and, isA := bo.X.(*ssa.BinOp)
	other := bo.Y
	if !isA || and.Op != token.AND {
		and, isA = bo.Y.(*ssa.BinOp)
		other = bo.X
		if !isA || and.Op != token.AND {
			return
		}
	}
	var fl ssa.Value
	var kc *ssa.Const
	if cst, isC := and.Y.(*ssa.Const); isC {
		fl, kc = and.X, cst
	} else if cst, isC := and.X.(*ssa.Const); isC {
		fl, kc = and.Y, cst
	} else {
		return
	}
	base, isFl := matchPath(fieldChain(strip(fl)), "ProducerMessage.flags")
	if !isFl || kc.Value == nil {
		return
	}
	oc, isC := other.(*ssa.Const)
	if !isC || oc.Value == nil {
		return
	}
	k = kc.Int64()
	cmpZero := oc.Int64() == 0
	// flags&K == K  (true: set) ; flags&K != 0 (true: set); flags&K == 0 (true: clear); flags&K != K (true: clear)
	setOnTrue = (bo.Op == token.EQL && !cmpZero) || (bo.Op == token.NEQ && cmpZero)
	return k, setOnTrue, base, true
}

// C01.marker-add, C01.marker-done
func c01Markers(c *Ctx) {
	p := c.P
	c.Doc("C01.marker-add", "every internal marker (&ProducerMessage{flags: syn|fin|shutdown}) is counted with inFlight.Add before it is sent")
	c.Doc("C01.marker-done", "every branch taken when a marker flag is set either finds the marker already handed to a disposer or executes inFlight.Done exactly once before the iteration ends")
	c.Floor("C01.marker-add", 4)
	c.Floor("C01.marker-done", 4)
	add, done := p.evAdd(), p.evDone()
	for _, m := range p.markerAllocs() {
		reg := WholeFn(m.fn)
		send := SendOn(AnyV(), Same(m.alloc))
		sends := reg.Find(send)
		name := "marker:" + flagName(p, m.flag)
		if len(sends) == 0 {
			c.Fail("C01.marker-add", m.fn, name, m.alloc, "marker allocated but never sent in this function (cannot check its accounting)", nil)
			continue
		}
		it, path := reg.MustPrecede(add, send)
		c.Check(it.IsZero(), "C01.marker-add", m.fn, name, m.alloc,
			"inFlight.Add precedes the send of the marker on every path",
			"marker can be sent without a preceding inFlight.Add: Close may complete while it is in flight", path)
	}
	d := p.disposers()
	for _, fn := range p.Fns {
		if !p.inFile(fn, "async_producer.go") {
			continue
		}
		fi := Info(fn)
		for _, b := range fn.Blocks {
			iff, ok := lastInstr(b).(*ssa.If)
			if !ok {
				continue
			}
			k, setOnTrue, msg, ok := flagTest(iff.Cond)
			if !ok {
				continue
			}
			l := fi.InnermostLoop(b)
			if l == nil {
				continue
			}
			reg := fi.Iteration(l)
			target := b.Succs[0]
			if !setOnTrue {
				target = b.Succs[1]
			}
			name := "consume:" + flagName(p, k)
			// already handed to a disposer before the test?
			disp := p.callDisposer(d, Same(msg))
			pre, _ := reg.Reach(Is(iff), disp)
			if pre.IsZero() {
				// every path to the test passed a disposer call: nothing more may be done
				it, path := reg.From(Pt{target, 0}).Reach(done, nil)
				c.Check(it.IsZero(), "C01.marker-done", fn, name+":after-disposer", iff,
					"marker already handed to a disposer before the flag test; no further Done", "Done after the marker was already handed to a disposer (double accounting)", path)
				continue
			}
			sub := reg.From(Pt{target, 0})
			ev := Or(done, disp)
			esc, path := sub.Escape(ev)
			if esc {
				// forwarded markers (fin passing through at the current level is handled by this
				// same branch in dispatch; a marker forwarded on a channel is not consumed here)
				fw := SendOn(AnyV(), Same(msg))
				if e2, _ := sub.Escape(Or(ev, fw)); !e2 {
					c.OK("C01.marker-done", fn, name+":forwarded", iff, "marker is forwarded on a channel, disposed or Done on every path")
					continue
				}
				c.Fail("C01.marker-done", fn, name, iff, "a path consumes the marker without inFlight.Done: Close hangs", path)
				continue
			}
			var two Item
			for _, s := range sub.Find(ev) {
				if it, _ := reg.From(s.After()).Reach(ev, nil); !it.IsZero() {
					two = it
				}
			}
			c.Check(two.IsZero(), "C01.marker-done", fn, name, iff, "exactly one Done/disposal on every path after the flag test", "two Done/disposals for one marker", nil)
		}
	}
}

// C01.route
func c01Route(c *Ctx) {
	p := c.P
	c.Doc("C01.route", "each callback handed to produceSet.eachPartition in handleSuccess/handleError disposes the partition's messages exactly once per path (returnSuccesses / returnErrors / retryMessages / go retryBatch / deferral to the retry pass); every switch on block.Err has a disposing default; the retriable case list of the first pass equals that of the second pass")
	c.Floor("C01.route", 5)
	d := p.disposers()
	bd := p.batchDisposers(d)
	for _, n := range []string{"asyncProducer.returnErrors", "asyncProducer.returnSuccesses", "asyncProducer.retryMessages"} {
		if _, ok := bd[n]; !ok {
			c.Unresolved("C01.route", n+" is not recognised as a batch disposer")
		}
	}
	msgs := FieldLoad("partitionSet.msgs")
	batchCall := func(it Item) bool {
		cc, ok := callCommon(it)
		if !ok {
			return false
		}
		k, ok := bd[p.CalleeName(cc)]
		return ok && k < len(cc.Args) && msgs(cc.Args[k])
	}
	goRetryBatch := func(it Item) bool {
		g, ok := it.In.(*ssa.Go)
		if !ok {
			return false
		}
		f := p.FuncOfValue(g.Call.Value)
		if f == nil || p.Name(f) != "asyncProducer.retryBatch" {
			return false
		}
		for _, a := range g.Call.Args {
			if isPtrToNamed(a.Type(), "partitionSet") {
				return true
			}
		}
		return false
	}
	for _, host := range []string{"brokerProducer.handleSuccess", "brokerProducer.handleError"} {
		fn := c.NeedFn("C01.route", host)
		if fn == nil {
			continue
		}
		calls := Info(fn).Find(p.CallTo("produceSet.eachPartition"))
		if len(calls) == 0 {
			c.Unresolved("C01.route", "no eachPartition call in "+host)
		}
		var firstRetriable, secondRetriable []int64
		for ci, call := range calls {
			cb := p.closureArg(call, 1)
			if cb == nil {
				c.Fail("C01.route", fn, "callback", call.Instr(), "eachPartition callback is not a function literal: cannot analyse its routing", nil)
				continue
			}
			// deferral: append to a captured []string (retryTopics)
			deferral := func(it Item) bool {
				st, ok := it.In.(*ssa.Store)
				if !ok {
					return false
				}
				fv, ok := st.Addr.(*ssa.FreeVar)
				if !ok {
					return false
				}
				sl, ok := fv.Type().(*types.Pointer).Elem().Underlying().(*types.Slice)
				return ok && types.Identical(sl.Elem(), types.Typ[types.String])
			}
			ev := Or(batchCall, goRetryBatch, deferral)
			reg := WholeFn(cb)
			cr := reg.Count(ev)
			if cr.HasTwo() {
				// retryMessages(pSet.msgs) then retryMessages(buffer.dropPartition()) is one disposal of the
				// sent set plus one of the buffered set: batchCall only matches pSet.msgs, so two matches are real
				c.Fail("C01.route", cb, "route-once", cr.Second.Instr(), "a partition set is disposed twice on one path (first at "+p.Pos(cr.First.Instr())+")", nil)
				continue
			}
			hasDeferral := len(reg.Find(deferral)) > 0
			cases := constCases(cb, FieldLoad("ProduceResponseBlock.Err"))
			if host == "brokerProducer.handleSuccess" && ci == 0 {
				// first pass: exactly one on every path
				c.Check(!cr.HasNone(), "C01.route", cb, "route-once", call.Instr(),
					fmt.Sprintf("every path disposes or defers the partition set exactly once (%d disposition sites)", len(cr.Sites)),
					"a path through the first-pass callback neither disposes nor defers the partition set: its messages get no outcome", cr.NonePath)
				for tgt, ks := range cases {
					sub := reg.From(Pt{tgt, 0})
					if len(sub.Find(deferral)) > 0 {
						firstRetriable = ks
					}
				}
				if !hasDeferral {
					c.Unresolved("C01.route", "deferral (append to retryTopics) not found in first-pass callback")
				}
			} else if host == "brokerProducer.handleSuccess" {
				// second pass: only the retriable arm disposes; it must dispose exactly once there
				for tgt, ks := range cases {
					sub := reg.From(Pt{tgt, 0})
					if esc, path := sub.Escape(ev); esc {
						c.Fail("C01.route", cb, "retry-arm", tgt.Instrs[0], "retriable arm of the second pass has a path that does not retry the sent set", path)
					} else {
						c.OK("C01.route", cb, "retry-arm", tgt.Instrs[0], "retriable arm retries the sent set exactly once: "+strings.Join(p.kerrNames(ks), ","))
					}
					secondRetriable = ks
				}
				if len(cases) != 1 {
					c.Fail("C01.route", cb, "retry-arm", call.Instr(), fmt.Sprintf("expected one case list on block.Err in the second pass, found %d", len(cases)), nil)
				}
			} else {
				c.Check(!cr.HasNone(), "C01.route", cb, "route-once", call.Instr(),
					"every path disposes the partition set exactly once",
					"a path through the callback does not dispose the partition set", cr.NonePath)
			}
		}
		if host == "brokerProducer.handleSuccess" {
			c.Check(len(firstRetriable) > 0 && sameInts(firstRetriable, secondRetriable), "C01.route", fn, "case-agreement", nil,
				"retriable case lists of both passes agree: "+strings.Join(p.kerrNames(firstRetriable), ","),
				fmt.Sprintf("codes deferred by the first pass %v differ from those retried by the second pass %v: a code in the first list only is never disposed", p.kerrNames(firstRetriable), p.kerrNames(secondRetriable)), nil)
		}
	}
}

// C01.error-sweep: when a produce request fails at the transport level the broker worker gives up on
// everything it holds: the failed request's set and the pending buffer.  Both must be swept, and the buffer
// must not be replaced before it has been.
func c01ErrorSweep(c *Ctx) {
	p := c.P
	rule := "C01.error-sweep"
	c.Doc(rule, "handleError, after bp.closing is set: on every path both the failed request's set (parameter sent) and bp.buffer are swept by produceSet.eachPartition with a callback that disposes the partition's messages; bp.buffer is not replaced (rollOver / store to bp.buffer) before its sweep; in the encoding-error branch the sent set is swept")
	c.Floor(rule, 3)
	fn := c.NeedFn(rule, "brokerProducer.handleError")
	if fn == nil {
		return
	}
	d := p.disposers()
	bd := p.batchDisposers(d)
	disposes := func(cb *ssa.Function) bool {
		if cb == nil {
			return false
		}
		return hasItem(cb, func(it Item) bool {
			cc, ok := callCommon(it)
			if !ok {
				return false
			}
			_, isD := bd[p.CalleeName(cc)]
			return isD
		})
	}
	reg := WholeFn(fn)
	sentParam := ParamN(1)
	isBuf := FieldLoad("brokerProducer.buffer")
	var sentCalls, bufCalls []Item
	for _, sw := range p.sweepsOf(fn) {
		if !disposes(sw.cb) {
			continue
		}
		if sentParam(sw.recv) {
			sentCalls = append(sentCalls, sw.call)
		}
		if isBuf(sw.recv) {
			bufCalls = append(bufCalls, sw.call)
		}
	}
	oneOf := func(items []Item) Ev {
		return func(it Item) bool {
			for _, o := range items {
				if IsItem(o)(it) {
					return true
				}
			}
			return false
		}
	}
	closings := Info(fn).Find(StoreTo(nil, "brokerProducer.closing"))
	if len(closings) == 0 {
		c.Unresolved(rule, "store to bp.closing in handleError")
		return
	}
	replace := Or(p.CallTo("brokerProducer.rollOver"), StoreTo(nil, "brokerProducer.buffer"))
	for _, cl := range closings {
		sub := reg.From(cl.After())
		esc, path := sub.Escape(oneOf(sentCalls))
		c.Check(len(sentCalls) > 0 && !esc, rule, fn, "sent-swept", cl.Instr(), "the failed request's messages are disposed on every path", "after a transport failure a path does not dispose the messages of the failed request: they get no outcome", path)
		esc2, path2 := sub.Escape(oneOf(bufCalls))
		c.Check(len(bufCalls) > 0 && !esc2, rule, fn, "buffer-swept", cl.Instr(), "the pending buffer's messages are disposed on every path", "after a transport failure a path does not dispose the messages waiting in the pending buffer: they get no outcome and Close never returns", path2)
		it, path3 := sub.MustPrecede(oneOf(bufCalls), replace)
		c.Check(it.IsZero(), rule, fn, "buffer-swept-before-replaced", it.Instr(), "bp.buffer is swept before it is replaced", "bp.buffer is replaced (rollOver) before it has been swept: the sweep then visits the fresh, empty buffer and the pending messages get no outcome", path3)
	}
}

// C01.retry
func c01Retry(c *Ctx) {
	p := c.P
	c.Doc("C01.retry", "retryMessage: exactly one of returnError(msg) / p.retries <- msg on every path; the retries++ and the re-queue are guarded by retries < Retry.Max, the failure by retries >= Retry.Max")
	c.Floor("C01.retry", 5)
	fn := c.NeedFn("C01.retry", "asyncProducer.retryMessage")
	if fn == nil {
		return
	}
	k := msgParamIdx(fn)
	m := fn.Params[k]
	reg := WholeFn(fn)
	fail := p.CallWith("asyncProducer.returnError", 1, Same(m))
	requeue := SendOn(FieldLoad(pRetriesCh), Same(m))
	cr := reg.Count(Or(fail, requeue))
	c.Check(!cr.HasNone() && !cr.HasTwo(), "C01.retry", fn, "fail-or-requeue", nil,
		"exactly one of returnError(msg) / retries <- msg on every path", "a path neither fails nor re-queues the message, or does both", cr.NonePath)
	retries := FieldLoadOf("ProducerMessage.retries", Same(m))
	max := FieldLoad("Config.Producer.Retry.Max")
	under := Cmp{token.LSS, retries, max}
	over := Cmp{token.GEQ, retries, max}
	for _, s := range reg.Find(requeue) {
		g, path := reg.Guarded(s, under)
		c.Check(g, "C01.retry", fn, "requeue-guard", s.Instr(), "re-queue guarded by msg.retries < Retry.Max",
			"message re-queued without the budget test msg.retries < Retry.Max (retryState[Max+1] is indexed later: panic / unbounded retries)", path)
	}
	for _, s := range reg.Find(fail) {
		g, path := reg.Guarded(s, over)
		c.Check(g, "C01.retry", fn, "fail-guard", s.Instr(), "failure guarded by msg.retries >= Retry.Max",
			"message failed although budget remains (or test inverted)", path)
	}
	// the retry channel has one sender: a message that enters it with retries == 0 is taken for a first submission
	// by the dispatcher (inFlight counted again, interceptors and partitioner run again)
	var others []string
	for _, f := range p.Fns {
		if f.Pkg != p.Sarama || f == fn {
			continue
		}
		if len(Info(f).Find(SendOn(FieldLoad(pRetriesCh), nil))) > 0 {
			others = append(others, p.Name(f))
		}
	}
	c.Check(len(others) == 0, "C01.retry", fn, "only-retryMessage-requeues", nil, "asyncProducer.retries is sent on only by retryMessage (after the retries++ under the budget test)",
		fmt.Sprintf("%v also send on asyncProducer.retries: a message re-queued without retries++ is treated as a first submission by the dispatcher — inFlight is counted twice (Close never returns), interceptors and the partitioner run again", others), nil)
	// the retry handler never stops taking bounced messages: a broker worker bouncing a batch does not read its own
	// input meanwhile, so a handler that waits for room on p.input without also receiving from p.retries closes a
	// wait cycle (broker worker → retries → handler → input → dispatcher → … → broker worker)
	if rh := c.NeedFn("C01.retry", "asyncProducer.retryHandler"); rh != nil {
		ok := true
		n := 0
		var at ssa.Instruction
		for _, b := range rh.Blocks {
			for _, in := range b.Instrs {
				blocking := false
				hasRecv := false
				switch x := in.(type) {
				case *ssa.Select:
					if !x.Blocking {
						continue
					}
					blocking = true
					for _, st := range x.States {
						if st.Dir == types.RecvOnly && FieldLoad(pRetriesCh)(st.Chan) {
							hasRecv = true
						}
					}
				case *ssa.UnOp:
					if x.Op != token.ARROW {
						continue
					}
					blocking = true
					hasRecv = FieldLoad(pRetriesCh)(x.X)
				case *ssa.Send:
					blocking = true
				default:
					continue
				}
				if blocking {
					n++
					if !hasRecv {
						ok, at = false, in
					}
				}
			}
		}
		c.Check(ok && n > 0, "C01.retry", rh, "handler-always-receives", at, "every blocking operation of retryHandler can receive from p.retries (the channel itself, not a variable that may be nil)",
			"retryHandler can block (waiting for room on p.input) without being able to receive from p.retries: a broker worker that bounces a large batch blocks on p.retries while the partition worker blocks on that broker worker — a wait cycle, the batch never gets its outcomes and Close never returns", nil)
	}
	inc := StoreTo(BinOpOf(token.ADD, retries, ConstInt(1)), "ProducerMessage.retries")
	for _, s := range reg.Find(inc) {
		g, path := reg.Guarded(s, under)
		c.Check(g, "C01.retry", fn, "increment-guard", s.Instr(), "retries++ guarded by msg.retries < Retry.Max", "retries++ outside the budget guard", path)
	}
}

// C01.shutdown
// c01BrokerShutdown: a broker worker that stops hands every message it still buffers to the network goroutine
// (or has its responses handled) first: close(bp.output) is reached only over an edge on which the buffer is empty.
func c01BrokerShutdown(c *Ctx) {
	p := c.P
	rule := "C01.shutdown"
	fn := c.NeedFn(rule, "brokerProducer.shutdown")
	if fn == nil {
		return
	}
	reg := WholeFn(fn)
	cl := reg.Find(CloseOf(FieldLoad("brokerProducer.output")))
	if len(cl) == 0 {
		c.Unresolved(rule, "close(bp.output) in brokerProducer.shutdown")
		return
	}
	empty := Truth{p.ResultOf(0, "produceSet.empty"), true}
	for _, s := range cl {
		g, path := reg.Guarded(s, empty)
		c.Check(g, rule, fn, "drain-until-empty", s.Instr(), "the output channel is closed only once the buffer is empty",
			"brokerProducer.shutdown can close its output while the buffer still holds messages (for instance a partly filled batch that is not \"ready to flush\"): they are never sent and never reported, inFlight never reaches zero and Close blocks forever", path)
		it, pth := reg.MustPrecede(IsItem(s), CloseOf(FieldLoad("brokerProducer.stopchan")))
		c.Check(it.IsZero(), rule, fn, "output-closed-before-stop", s.Instr(), "stopchan is closed after the output channel", "the worker signals that it has stopped before it closed its output", pth)
	}
}

func c01Shutdown(c *Ctx) {
	p := c.P
	c.Doc("C01.shutdown", "asyncProducer.shutdown: inFlight.Wait precedes every close of input/retries/errors/successes; all four are closed on every path")
	c.Floor("C01.shutdown", 4)
	fn := c.NeedFn("C01.shutdown", "asyncProducer.shutdown")
	if fn == nil {
		return
	}
	reg := WholeFn(fn)
	for _, ch := range []string{pInputCh, pRetriesCh, pErrorsCh, pSuccessCh} {
		cl := CloseOf(FieldLoad(ch))
		sites := reg.Find(cl)
		if len(sites) == 0 {
			c.Fail("C01.shutdown", fn, "close:"+ch, nil, "channel is never closed by shutdown: Close() never returns", nil)
			continue
		}
		it, path := reg.MustPrecede(p.evWait(), cl)
		esc, p2 := reg.Escape(cl)
		switch {
		case !it.IsZero():
			c.Fail("C01.shutdown", fn, "close:"+ch, it.Instr(), "channel can be closed before inFlight.Wait(): pending events are sent on a closed channel", path)
		case esc:
			c.Fail("C01.shutdown", fn, "close:"+ch, nil, "a path through shutdown does not close the channel", p2)
		default:
			c.OK("C01.shutdown", fn, "close:"+ch, sites[0].Instr(), "closed on every path, after inFlight.Wait()")
		}
	}
	// other closers of these channels
	for _, f := range p.Fns {
		if f == fn {
			continue
		}
		for _, s := range Info(f).Find(CloseOf(FieldLoad(pInputCh, pRetriesCh, pErrorsCh, pSuccessCh))) {
			c.Fail("C01.shutdown", f, "foreign-close", s.Instr(), "producer channel closed outside shutdown (double close / send on closed channel)", nil)
		}
	}
}

// C01.sync
func c01Sync(c *Ctx) {
	p := c.P
	c.Doc("C01.sync", "sync producer: msg.expectation is stored before the message is submitted; the expectation channel is buffered (cap ≥ 1, constant); each handler answers every received event exactly once on that event's own expectation channel")
	c.Floor("C01.sync", 4)
	inputSend := func(it Item) bool {
		s, ok := it.In.(*ssa.Send)
		if !ok {
			return false
		}
		return p.ResultOf(0, "asyncProducer.Input")(s.Chan)
	}
	for _, name := range []string{"syncProducer.SendMessage", "syncProducer.SendMessages$1"} {
		fn := c.NeedFn("C01.sync", name)
		if fn == nil {
			continue
		}
		fi := Info(fn)
		reg := WholeFn(fn)
		if len(fi.Loops) > 0 {
			reg = fi.Iteration(fi.Loops[0])
		}
		sends := reg.Find(inputSend)
		if len(sends) == 0 {
			c.Unresolved("C01.sync", "send on Input() in "+name)
			continue
		}
		for _, s := range sends {
			msg := s.In.(*ssa.Send).X
			store := StoreTo(nil, "ProducerMessage.expectation")
			storeSame := func(it Item) bool {
				if !store(it) {
					return false
				}
				b, ok := matchPath(fieldChain(it.In.(*ssa.Store).Addr), "ProducerMessage.expectation")
				return ok && sameValue(b, msg)
			}
			it, path := reg.MustPrecede(storeSame, IsItem(s))
			okCap := false
			var mk *ssa.MakeChan
			for _, st := range reg.Find(storeSame) {
				if m, ok := strip(st.In.(*ssa.Store).Val).(*ssa.MakeChan); ok {
					mk = m
					if k, ok := m.Size.(*ssa.Const); ok && k.Value != nil && k.Int64() >= 1 {
						okCap = true
					}
				}
			}
			_ = mk
			switch {
			case !it.IsZero():
				c.Fail("C01.sync", fn, "expectation-before-submit", s.Instr(), "message submitted before msg.expectation is stored: its outcome is delivered to nobody / nil channel", path)
			case !okCap:
				c.Fail("C01.sync", fn, "expectation-before-submit", s.Instr(), "expectation channel is not a fresh channel with constant capacity ≥ 1: the handler goroutine can block forever", nil)
			default:
				c.OK("C01.sync", fn, "expectation-before-submit", s.Instr(), "fresh buffered expectation stored before the message is submitted")
			}
		}
	}
	for _, h := range []struct{ name, src string }{{"syncProducer.handleSuccesses", "asyncProducer.Successes"}, {"syncProducer.handleErrors", "asyncProducer.Errors"}} {
		fn := c.NeedFn("C01.sync", h.name)
		if fn == nil {
			continue
		}
		fi := Info(fn)
		loops, vals := rangeChanLoops(fi, p.ResultOf(0, h.src))
		if len(loops) != 1 {
			c.Unresolved("C01.sync", "range over "+h.src+"() in "+h.name)
			continue
		}
		ev := vals[0]
		reg := fi.Iteration(loops[0])
		// a send on the expectation channel of this very event
		answer := func(it Item) bool {
			s, ok := it.In.(*ssa.Send)
			if !ok {
				return false
			}
			ch := fieldChain(strip(s.Chan))
			if len(ch) == 0 || ch[len(ch)-1].name != "expectation" {
				return false
			}
			// root of the chain must be the received event
			root := ch[0].base
			return sameValue(root, ev)
		}
		cr := reg.Count(answer)
		c.Check(!cr.HasNone() && !cr.HasTwo() && len(cr.Sites) > 0, "C01.sync", fn, "answer-once", nil,
			"every received event is answered exactly once on its own expectation channel",
			"an event is not answered (or answered twice, or on another message's channel): SendMessage blocks forever or returns another message's outcome", cr.NonePath)
	}
}

// C01.loops: the pipeline loops account for every message they receive.
func c01Loops(c *Ctx) {
	p := c.P
	c.Doc("C01.loop", "every stage loop that receives messages (dispatcher, topicProducer.dispatch, partitionProducer.dispatch, brokerProducer.run) disposes of the received message on every path of the iteration: forwards it on a channel, parks it, buffers it, hands it to a disposer or (markers) calls Done — never drops it silently")
	c.Floor("C01.loop", 4)
	d := p.disposers()
	type stage struct {
		fn   string
		from VM
	}
	stages := []stage{
		{"asyncProducer.dispatcher", FieldLoad(pInputCh)},
		{"topicProducer.dispatch", FieldLoad("topicProducer.input")},
		{"partitionProducer.dispatch", FieldLoad("partitionProducer.input")},
		{"brokerProducer.run", FieldLoad("brokerProducer.input")},
	}
	for _, st := range stages {
		fn := c.NeedFn("C01.loop", st.fn)
		if fn == nil {
			continue
		}
		fi := Info(fn)
		var reg *Region
		var msg ssa.Value
		if loops, vals := rangeChanLoops(fi, st.from); len(loops) == 1 {
			reg, msg = fi.Iteration(loops[0]), vals[0]
		} else {
			// select-based loop: the receive case
			for _, it := range fi.Find(RecvFrom(st.from)) {
				if it.Sel == nil {
					continue
				}
				l := fi.InnermostLoop(it.From)
				if l == nil {
					continue
				}
				reg = fi.Iteration(l).From(Pt{it.To, 0})
				// received value: Extract #(2+k) … find the first Extract of the select used as *ProducerMessage
				for _, r := range *it.Sel.Referrers() {
					if ex, ok := r.(*ssa.Extract); ok && isPtrToNamed(ex.Type(), "ProducerMessage") {
						msg = ex
					}
				}
			}
		}
		if reg == nil || msg == nil {
			c.Unresolved("C01.loop", "message loop of "+st.fn)
			continue
		}
		isMsg := Same(msg)
		nilCheck := Cmp{token.EQL, isMsg, IsNil()}
		closedCheck := func(from, to *ssa.BasicBlock) bool {
			// `msg, ok := <-ch; if !ok {…}`: the channel-closed arm carries no message
			iff, ok := lastInstr(from).(*ssa.If)
			if !ok {
				return false
			}
			ex, ok := iff.Cond.(*ssa.Extract)
			if !ok {
				return false
			}
			_, isSel := ex.Tuple.(*ssa.Select)
			return isSel && from.Succs[1] == to
		}
		appendPark := func(it Item) bool {
			s, ok := it.In.(*ssa.Store)
			if !ok {
				return false
			}
			ch := fieldChain(s.Addr)
			if len(ch) == 0 || ch[len(ch)-1].name != "buf" {
				return false
			}
			// value stored is append(buf, msg): slice whose backing gets msg — accept any store to .buf in a block that stores msg into an element
			for _, in := range s.Block().Instrs {
				if st2, ok := in.(*ssa.Store); ok && sameValue(st2.Val, msg) {
					return true
				}
			}
			return false
		}
		dispose := Or(
			p.evDone(),
			p.callDisposer(d, isMsg),
			SendOn(AnyV(), isMsg),
			appendPark,
			p.CallWith("produceSet.add", 1, isMsg),
		)
		r2 := *reg
		r2.Cut = func(from, to *ssa.BasicBlock) bool {
			return Establishes(from, to, nilCheck) || closedCheck(from, to)
		}
		// the dispatcher is where fresh messages are counted: the obligation starts once the
		// message is counted (after inFlight.Add) or known to be counted already (retries != 0);
		// an uncounted message may be refused without any accounting (C01.emit checks that arm)
		if adds := reg.Find(p.evAdd()); len(adds) > 0 {
			r2.Starts = nil
			for _, a := range adds {
				r2.Starts = append(r2.Starts, a.After())
			}
			counted := Cmp{token.NEQ, FieldLoadOf("ProducerMessage.retries", isMsg), ConstInt(0)}
			for _, e := range reg.EstablishingEdges(counted) {
				r2.Starts = append(r2.Starts, Pt{e.To, 0})
			}
		}
		esc, path := r2.Escape(dispose)
		c.Check(!esc, "C01.loop", fn, "no-silent-drop", nil,
			"every path of one iteration forwards, parks, buffers, disposes or accounts the received message",
			"a path of the iteration drops the received message without any disposition: it never gets an outcome", path)
	}
}
