package main

// C10 — malformed or corrupted input yields an error, never a crash or wrong data (structural clauses).

import (
	"fmt"
	"go/token"
	"go/types"
	"math"
	"sort"
	"strings"

	"golang.org/x/tools/go/ssa"
)

func init() {
	register(&propDef{
		ID:    "C10",
		Title: "Malformed or corrupted input yields an error, never a crash or wrong data",
		Explain: "Decides by abstract interpretation of integer bounds (E5) and guard/path rules: every raw-buffer access and every cursor advance inside realDecoder is justified by a `remaining() ≥ need` test that is still valid at the access, bulk read loops by a `remaining() ≥ width·n` test (C10.prim); every make([]T, n)/make(map, n) reachable from the decoders of data the client does not control has a non-negative, input-bounded or small-constant size — facts flow from the getters' own code through computed summaries, are trusted only after the paired error was tested, and respect integer widths of the target architecture (C10.alloc); " +
			"the response header rejects lengths outside (4, MaxResponseSize] and the receive loop sizes its buffer from that checked length (C10.cap); decode/versionedDecode succeed only if the whole buffer was consumed, length and CRC fields report a mismatch as an error (C10.consumed); decoder loops bounded by remaining() > 0 consume input or exit on every iteration (C10.loop-progress). " +
			"no decoding step of the response path whose error is non-nil is answered with `return nil` — after a failed getter the cursor is at the end of the input, so such a swallowed error would let a truncated response through the final length test (C10.err-propagated; the ErrInsufficientData comparison of the truncated-tail handling is the one exempt idiom). " +
			"NOT covered: memory use of decompression, hangs inside third-party codecs, CRC collision strength, semantic validity of decoded values.",
		Rules: []func(*Ctx){c10Prim, c10Alloc, c10Cap, c10Consumed, c10LoopProgress, c10ErrPropagated, c10ErrLost, c09PoolOnce, c10RecordsPerBatch, c04OwnedOutput, c09PoolOnceDeferredClosure, c10MessageSetConsumesOrFlags, c09RecordsFresh, c10DecompressSizeFromPayload, c10NoNilIntoPool},
	})
}

// ---------------------------------------------------------------- C10.prim

type remNeed struct {
	k    int64     // constant need (≥ k)
	v    ssa.Value // value need (v ≤ remaining)
	mulW int64     // with v: w·v ≤ remaining
	sumA ssa.Value // with sumB: a+b ≤ remaining
	sumB ssa.Value
	plus int64 // with v: v+plus ≤ remaining (index needs)
}

func (n remNeed) String() string {
	switch {
	case n.sumA != nil:
		return "remaining ≥ " + n.sumA.Name() + "+" + n.sumB.Name()
	case n.v != nil && n.mulW > 0:
		return fmt.Sprintf("remaining ≥ %d·%s", n.mulW, n.v.Name())
	case n.v != nil && n.plus > 0:
		return fmt.Sprintf("remaining ≥ %s+%d", n.v.Name(), n.plus)
	case n.v != nil:
		return "remaining ≥ " + n.v.Name()
	}
	return fmt.Sprintf("remaining ≥ %d", n.k)
}

type primChecker struct {
	c        *Ctx
	e        *dboundsEngine
	advances map[*ssa.Function]bool // realDecoder methods that may move the cursor
	remAtRet map[string]bool        // getter whose result is ≤ remaining() at return
	depth    int
}

func sameVal(a, b ssa.Value) bool {
	a, b = dStrip(a), dStrip(b)
	if a == b {
		return true
	}
	if c, ok := a.(*ssa.Convert); ok && dStrip(c.X) == b {
		return true
	}
	if c, ok := b.(*ssa.Convert); ok && dStrip(c.X) == a {
		return true
	}
	return false
}

// needExpr: does expression E (the side compared with remaining()) cover the need?
func (pc *primChecker) needExpr(E ssa.Value, n remNeed) bool {
	E = dStrip(E)
	if k, ok := dConstInt(E); ok {
		return n.v == nil && n.sumA == nil && k >= n.k
	}
	switch {
	case n.sumA != nil:
		bo, ok := E.(*ssa.BinOp)
		return ok && bo.Op == token.ADD && ((sameVal(bo.X, n.sumA) && sameVal(bo.Y, n.sumB)) || (sameVal(bo.X, n.sumB) && sameVal(bo.Y, n.sumA)))
	case n.v != nil && n.mulW > 0:
		bo, ok := E.(*ssa.BinOp)
		if !ok || bo.Op != token.MUL {
			return false
		}
		if k, isK := dConstInt(bo.X); isK && k >= n.mulW && sameVal(bo.Y, n.v) {
			return true
		}
		if k, isK := dConstInt(bo.Y); isK && k >= n.mulW && sameVal(bo.X, n.v) {
			return true
		}
		return false
	case n.v != nil && n.plus > 0:
		bo, ok := E.(*ssa.BinOp)
		if !ok || bo.Op != token.ADD {
			return false
		}
		if k, isK := dConstInt(bo.Y); isK && k >= n.plus && sameVal(bo.X, n.v) {
			return true
		}
		if k, isK := dConstInt(bo.X); isK && k >= n.plus && sameVal(bo.Y, n.v) {
			return true
		}
		return false
	case n.v != nil:
		return sameVal(E, n.v)
	}
	return false
}

// establishesRem: edge from→to establishes remaining() ≥ need.
func (pc *primChecker) establishesRem(from, to *ssa.BasicBlock, n remNeed) bool {
	iff, ok := lastInstr(from).(*ssa.If)
	if !ok || len(from.Succs) != 2 || from.Succs[0] == from.Succs[1] {
		return false
	}
	truth := from.Succs[0] == to
	cond := iff.Cond
	for {
		if u, isU := cond.(*ssa.UnOp); isU && u.Op == token.NOT {
			cond, truth = u.X, !truth
			continue
		}
		break
	}
	bo, ok := cond.(*ssa.BinOp)
	if !ok {
		return false
	}
	op := bo.Op
	x, y := bo.X, bo.Y
	if pc.e.isRemaining(y) && !pc.e.isRemaining(x) {
		x, y = y, x
		op = swapOp(op)
	}
	if !pc.e.isRemaining(x) {
		return false
	}
	if !truth {
		op = negOp(op)
	}
	// remaining op E
	switch op {
	case token.GEQ:
		return pc.needExpr(y, n)
	case token.GTR:
		// remaining > E  ⇒ remaining ≥ E+1 ≥ E
		return pc.needExpr(y, n)
	}
	return false
}

// isAdvance: the instruction may move the cursor.
func (pc *primChecker) isAdvance(in ssa.Instruction) bool {
	switch x := in.(type) {
	case *ssa.Store:
		return FieldAddrOf("realDecoder.off")(x.Addr)
	case *ssa.Call:
		if x.Call.IsInvoke() {
			n, _ := NamedOf(x.Call.Value.Type())
			return n == "packetDecoder" || n == "pushDecoder" || n == "dynamicPushDecoder"
		}
		if cal := x.Call.StaticCallee(); cal != nil {
			return pc.advances[cal]
		}
	}
	return false
}

// remValid: every path from entry to site crosses an edge establishing the need, and the cursor
// does not move between that edge and the site.
func (pc *primChecker) remValid(fn *ssa.Function, site ssa.Instruction, n remNeed) (bool, []*ssa.BasicBlock) {
	// remaining ≥ w·v says something only if w·v cannot wrap around: v is narrow by construction (read from a 16- or
	// 32-bit field), or v ≤ remaining is established as well (a 64-bit uvarint count of 2^62 makes 4·v == 0)
	if n.v != nil && n.mulW > 1 {
		b := pc.e.base(dStrip(n.v))
		if !(b.ub == ubK && b.k <= math.MaxInt64/n.mulW) && !narrowInt(n.v) {
			if ok, path := pc.remValid(fn, site, remNeed{v: n.v}); !ok {
				return false, path
			}
		}
	}
	reg := WholeFn(fn)
	r := *reg
	r.Cut = func(from, to *ssa.BasicBlock) bool { return pc.establishesRem(from, to, n) }
	if it, path := r.Reach(Is(site), nil); !it.IsZero() {
		// getter-provided bound: need value is the result of a getter that guarantees ≤ remaining at return
		if n.v != nil && n.mulW == 0 && n.plus == 0 && n.sumA == nil {
			if ok := pc.fromRemGetter(fn, site, n.v); ok {
				return true, nil
			}
			if pc.fromCallSites(fn, site, n.v) {
				return true, nil
			}
		}
		return false, path
	}
	// invalidation: a cursor move reachable from an establishing edge, from which the site is
	// reachable without another establishing edge
	adv := func(it Item) bool { return it.In != nil && it.In != site && pc.isAdvance(it.In) }
	for _, b := range fn.Blocks {
		for _, su := range b.Succs {
			if !pc.establishesRem(b, su, n) {
				continue
			}
			sub := r.From(Pt{su, 0})
			for _, a := range sub.Find(adv) {
				// is a before the site on some path?
				if hit, path := r.From(a.After()).Reach(Is(site), nil); !hit.IsZero() {
					// and a itself reachable from the edge without passing the site
					if pre, _ := r.From(Pt{su, 0}).Reach(IsItem(a), Is(site)); !pre.IsZero() {
						return false, path
					}
				}
			}
		}
	}
	return true, nil
}

// remValidFrozen: like remValid for an access whose bounds were computed from the cursor reading ld: every path to
// the site crosses an edge establishing the need, and the cursor does not move between ld and that edge.
func (pc *primChecker) remValidFrozen(fn *ssa.Function, site ssa.Instruction, n remNeed, ld *ssa.UnOp) (bool, []*ssa.BasicBlock) {
	reg := WholeFn(fn)
	r := *reg
	r.Cut = func(from, to *ssa.BasicBlock) bool { return pc.establishesRem(from, to, n) }
	if it, path := r.Reach(Is(site), nil); !it.IsZero() {
		return false, path
	}
	adv := func(it Item) bool { return it.In != nil && pc.isAdvance(it.In) }
	after := Item{In: ld}.After()
	for _, b := range fn.Blocks {
		for _, su := range b.Succs {
			if !pc.establishesRem(b, su, n) {
				continue
			}
			test := lastInstr(b)
			for _, a := range reg.From(after).Find(adv) {
				if hit, path := reg.From(a.After()).Reach(Is(test), nil); !hit.IsZero() {
					if pre, _ := reg.From(after).Reach(IsItem(a), Is(test)); !pre.IsZero() {
						return false, path
					}
				}
			}
		}
	}
	return true, nil
}

// fromCallSites: v is a parameter of a private helper of the decoder; the cursor does not move between the
// helper's entry and the site, and every call site of the helper passes an argument for which
// remaining() ≥ arg is validly established at the call.
func (pc *primChecker) fromCallSites(fn *ssa.Function, site ssa.Instruction, v ssa.Value) bool {
	pr, ok := dStrip(v).(*ssa.Parameter)
	if !ok || pr.Parent() != fn {
		return false
	}
	sites := pc.e.helperCallSites(fn)
	if len(sites) == 0 || pc.depth > 3 {
		return false
	}
	idx := -1
	for i, q := range fn.Params {
		if q == pr {
			idx = i
		}
	}
	adv := func(it Item) bool { return it.In != nil && it.In != site && pc.isAdvance(it.In) }
	reg := WholeFn(fn)
	for _, a := range reg.Find(adv) {
		if hit, _ := reg.From(a.After()).Reach(Is(site), nil); !hit.IsZero() {
			if pre, _ := reg.Reach(IsItem(a), Is(site)); !pre.IsZero() {
				return false
			}
		}
	}
	pc.depth++
	defer func() { pc.depth-- }()
	for _, cl := range sites {
		if idx >= len(cl.Call.Args) {
			return false
		}
		if ok, _ := pc.remValid(cl.Parent(), cl, remNeed{v: cl.Call.Args[idx]}); !ok {
			return false
		}
	}
	return true
}

// fromRemGetter: v is result #0 of a realDecoder getter that returns a value ≤ remaining(), its
// error was tested, and the cursor did not move between the call and the site.
func (pc *primChecker) fromRemGetter(fn *ssa.Function, site ssa.Instruction, v ssa.Value) bool {
	v = dStrip(v)
	if cv, ok := v.(*ssa.Convert); ok {
		v = dStrip(cv.X)
	}
	ex, ok := v.(*ssa.Extract)
	if !ok || ex.Index != 0 {
		return false
	}
	c, ok := ex.Tuple.(*ssa.Call)
	if !ok {
		return false
	}
	cal := c.Call.StaticCallee()
	if cal == nil || !pc.remAtRet[cal.Name()] || !pc.e.errOK(c, site.Block()) {
		return false
	}
	adv := func(it Item) bool {
		return it.In != nil && it.In != site && it.In != ssa.Instruction(c) && pc.isAdvance(it.In)
	}
	reg := WholeFn(fn).From(Item{In: c}.After())
	for _, a := range reg.Find(adv) {
		if hit, _ := reg.From(a.After()).Reach(Is(site), nil); !hit.IsZero() {
			if pre, _ := reg.Reach(IsItem(a), Is(site)); !pre.IsZero() {
				return false
			}
		}
	}
	return true
}

func c10Prim(c *Ctx) {
	p := c.P
	rule := "C10.prim"
	c.Doc(rule, "inside realDecoder: every read of rd.raw (index, slice, binary.BigEndian.UintN(rd.raw[rd.off:])) and every advance of rd.off is dominated by a still-valid test `remaining() ≥ need` (need = the bytes read / the length used, which must also be ≥ 0), or happens in a bulk loop over n elements of width w preceded by `remaining() ≥ w·n`; results of binary.Varint/Uvarint are trusted to satisfy |n| ≤ len(buf)")
	c.Floor(rule, 40)
	e := newDBounds(p)
	pc := &primChecker{c: c, e: e, advances: map[*ssa.Function]bool{}, remAtRet: map[string]bool{}}
	// which realDecoder methods move the cursor (transitively)
	for changed := true; changed; {
		changed = false
		for _, fn := range e.realDec {
			if pc.advances[fn] {
				continue
			}
			for _, b := range fn.Blocks {
				for _, in := range b.Instrs {
					if pc.isAdvance(in) {
						pc.advances[fn] = true
						changed = true
					}
				}
			}
		}
	}
	raw := FieldLoad("realDecoder.raw")
	off := FieldLoad("realDecoder.off")
	isVarintN := func(v ssa.Value) bool {
		ex, ok := dStrip(v).(*ssa.Extract)
		if !ok || ex.Index != 1 {
			return false
		}
		cl, ok := ex.Tuple.(*ssa.Call)
		if !ok {
			return false
		}
		n := p.CalleeName(&cl.Call)
		return n == "encoding/binary.Varint" || n == "encoding/binary.Uvarint"
	}
	// remAtRet summaries: successful returns whose value is tested ≤ remaining() and still valid
	names := make([]string, 0, len(e.realDec))
	for n := range e.realDec {
		names = append(names, n)
	}
	sort.Strings(names)
	for _, name := range names {
		fn := e.realDec[name]
		if fn.Signature.Results().Len() != 2 {
			continue
		}
		if _, _, ok := e.width(fn.Signature.Results().At(0).Type()); !ok {
			continue
		}
		all, any := true, false
		for _, b := range fn.Blocks {
			ret, ok := lastInstr(b).(*ssa.Return)
			if !ok || IsRecoverBlock(b) {
				continue
			}
			rv := RetVals(ret)
			if !e.mayBeNilErr(rv[1], b) {
				continue
			}
			any = true
			if f := e.evalAt(rv[0], b); f.ub == ubK && f.k <= 0 {
				continue // constant ≤ 0 is ≤ remaining
			}
			if ok, _ := pc.remValid(fn, ret, remNeed{v: rv[0]}); !ok {
				all = false
			}
		}
		if any && all {
			pc.remAtRet[name] = true
		}
	}

	for _, name := range names {
		fn := e.realDec[name]
		fi := Info(fn)
		report := func(ok bool, construct string, at ssa.Instruction, need remNeed, lbNeed ssa.Value, path []*ssa.BasicBlock, extra string) {
			detail := need.String()
			if lbNeed != nil {
				f := e.evalAt(lbNeed, at.Block())
				detail += fmt.Sprintf(" and %s ≥ 0 (have %s)", lbNeed.Name(), f)
				if f.lb < 0 {
					ok = false
					extra += "; the length can be negative"
				}
			}
			c.Check(ok, rule, fn, construct, at, "justified by "+detail, "not justified by a valid test "+detail+extra+": a short or corrupted input makes this access panic (index/slice out of range) or moves the cursor past the buffer", path)
		}
		// bulk loops: loop over ret = make([]T, n), body reads width w once and advances by w once
		bulk := map[*Loop]bool{}
		for _, l := range fi.Loops {
			// the number of iterations: `range make([]T, n)` (bound len(x) in the head), or a counted loop
			// `for i := 0; i < n; i++` with n fixed before the loop
			var count ssa.Value
			for _, in := range l.Head.Instrs {
				if bo, ok := in.(*ssa.BinOp); ok && bo.Op == token.LSS {
					if cl, ok := bo.Y.(*ssa.Call); ok {
						if bi, ok := cl.Call.Value.(*ssa.Builtin); ok && bi.Name() == "len" {
							if mk, ok := cl.Call.Args[0].(*ssa.MakeSlice); ok {
								count = mk.Len
							}
						}
					} else if phi, ok := bo.X.(*ssa.Phi); ok && phi.Block() == l.Head && countsUpFromZero(phi, l) {
						if yi, isInstr := bo.Y.(ssa.Instruction); !isInstr || !l.Blocks[yi.Block()] {
							count = bo.Y
						}
					}
				}
			}
			if count == nil {
				continue
			}
			reg := fi.Iteration(l)
			stores := reg.Find(func(it Item) bool { st, ok := it.In.(*ssa.Store); return ok && FieldAddrOf("realDecoder.off")(st.Addr) })
			if len(stores) != 1 {
				continue
			}
			st := stores[0].In.(*ssa.Store)
			bo, ok := st.Val.(*ssa.BinOp)
			if !ok || bo.Op != token.ADD || !off(bo.X) {
				continue
			}
			w, ok := dConstInt(bo.Y)
			if !ok || w <= 0 {
				continue
			}
			cr := reg.Count(IsItem(stores[0]))
			if cr.HasTwo() {
				continue
			}
			// guard before the loop: remaining ≥ w·n, valid at loop entry
			entry := l.Head.Instrs[0]
			okG, path := pc.remValid(fn, entry, remNeed{v: count, mulW: w})
			lenF := e.evalAt(count, l.Head)
			c.Check(okG && lenF.lb >= 0, rule, fn, fmt.Sprintf("bulk-loop:w=%d", w), st,
				fmt.Sprintf("bulk read of n×%d bytes preceded by a valid test remaining ≥ %d·n with n ≥ 0", w, w),
				fmt.Sprintf("bulk read loop (n elements of %d bytes) is not preceded by a valid test remaining() ≥ %d·n (n %s): a length larger than the input makes binary.BigEndian read past the buffer (panic)", w, w, lenF), path)
			if okG {
				bulk[l] = true
			}
		}
		inBulk := func(in ssa.Instruction) bool {
			for l := range bulk {
				if l.Blocks[in.Block()] {
					return true
				}
			}
			return false
		}
		for _, b := range fn.Blocks {
			for _, in := range b.Instrs {
				switch x := in.(type) {
				case *ssa.Store:
					if !FieldAddrOf("realDecoder.off")(x.Addr) {
						continue
					}
					if _, isAlloc := fieldChain(x.Addr)[0].base.(*ssa.Alloc); isAlloc {
						continue
					}
					if inBulk(x) {
						continue
					}
					v := x.Val
					if LenOf(raw)(v) {
						c.OK(rule, fn, "advance:to-end", x, "cursor set to len(raw)")
						continue
					}
					bo, ok := v.(*ssa.BinOp)
					if !ok || !off(bo.X) {
						c.Fail(rule, fn, "advance:unrecognised", x, "unrecognised update of rd.off (cannot be justified): "+describe(v), nil)
						continue
					}
					if bo.Op == token.SUB && isVarintN(bo.Y) {
						c.OK(rule, fn, "advance:varint-overflow", x, "rd.off -= n with n<0 from binary.(U)varint (|n| ≤ len(buf), trusted contract)")
						continue
					}
					if bo.Op != token.ADD {
						c.Fail(rule, fn, "advance:unrecognised", x, "rd.off updated by a non-additive expression", nil)
						continue
					}
					if isVarintN(bo.Y) {
						c.OK(rule, fn, "advance:varint", x, "rd.off += n with n>0 bytes consumed by binary.(U)varint (≤ len(buf), trusted contract)")
						continue
					}
					if k, isK := dConstInt(bo.Y); isK {
						ok, path := pc.remValid(fn, x, remNeed{k: k})
						report(ok, fmt.Sprintf("advance:+%d", k), x, remNeed{k: k}, nil, path, "")
						continue
					}
					if ph, isPhi := bo.Y.(*ssa.Phi); isPhi {
						// each alternative separately: a constant 0 needs nothing, the others need their own test
						okAll := true
						var path []*ssa.BasicBlock
						for i, ed := range ph.Edges {
							if k, isK := dConstInt(dStrip(ed)); isK && k == 0 {
								continue
							}
							if pc.establishesRem(ph.Block().Preds[i], ph.Block(), remNeed{v: ed}) {
								continue // the edge into the merge is the test itself
							}
							ok3, pth := pc.remValid(fn, lastInstr(ph.Block().Preds[i]), remNeed{v: ed})
							if !ok3 {
								okAll, path = false, pth
							}
						}
						report(okAll, "advance:+n", x, remNeed{v: bo.Y}, bo.Y, path, "")
						continue
					}
					ok2, path := pc.remValid(fn, x, remNeed{v: bo.Y})
					report(ok2, "advance:+n", x, remNeed{v: bo.Y}, bo.Y, path, "")
				case *ssa.Slice:
					if !raw(x.X) {
						continue
					}
					if inBulk(x) {
						continue
					}
					switch {
					case x.High == nil && x.Low != nil && off(x.Low):
						// raw[off:] — safe by the cursor invariant; what consumes it decides the need
						need := int64(0)
						for _, r := range *x.Referrers() {
							if cl, ok := r.(*ssa.Call); ok {
								switch p.CalleeName(&cl.Call) {
								case "(encoding/binary.bigEndian).Uint16":
									need = 2
								case "(encoding/binary.bigEndian).Uint32":
									need = 4
								case "(encoding/binary.bigEndian).Uint64":
									need = 8
								}
							}
						}
						if need == 0 {
							c.OK(rule, fn, "slice:raw[off:]", x, "raw[off:] handed to a length-checking consumer (binary.Varint/Uvarint)")
							continue
						}
						ok, path := pc.remValid(fn, x, remNeed{k: need})
						report(ok, fmt.Sprintf("read:%d-bytes", need), x, remNeed{k: need}, nil, path, "")
					case x.Low != nil && x.High != nil && off(x.Low) && off(x.High):
						// raw[start:off] after an advance: start is an earlier value of the cursor
						c.OK(rule, fn, "slice:raw[start:off]", x, "raw[start:off] between two cursor values (the advance between them is justified separately)")
					case x.Low != nil && x.High != nil && off(x.Low):
						// raw[off : off+n]
						hb, ok := x.High.(*ssa.BinOp)
						if ok && hb.Op == token.ADD && off(hb.X) {
							ok2, path := pc.remValid(fn, x, remNeed{v: hb.Y})
							if !ok2 {
								// start and end were computed from ONE earlier reading of the cursor (`start, end := off,
								// off+n`): what the cursor does after the bound test does not matter, what matters is that it
								// did not move between that reading and the test
								ld, isLd := x.Low.(*ssa.UnOp)
								ld2, isLd2 := hb.X.(*ssa.UnOp)
								sameReading := isLd && isLd2 && ld.Block() == ld2.Block()
								if sameReading && ld != ld2 {
									// two readings of the cursor with nothing that moves it in between
									in := false
									for _, i := range ld.Block().Instrs {
										if i == ssa.Instruction(ld) || i == ssa.Instruction(ld2) {
											if in {
												break
											}
											in = true
											continue
										}
										if in && pc.isAdvance(i) {
											sameReading = false
										}
									}
								}
								if sameReading {
									if ok3, _ := pc.remValidFrozen(fn, x, remNeed{v: hb.Y}, ld); ok3 {
										ok2, path = true, nil
									}
								}
							}
							report(ok2, "slice:raw[off:off+n]", x, remNeed{v: hb.Y}, hb.Y, path, "")
						} else {
							c.Fail(rule, fn, "slice:unrecognised", x, "unrecognised slice of rd.raw", nil)
						}
					case x.Low != nil && x.High != nil && off(x.High):
						// raw[start:off] after an advance: start is an earlier value of off
						c.Check(off(x.Low), rule, fn, "slice:raw[start:off]", x, "raw[start:off] between two cursor values (each justified separately)", "raw[start:off] with a start that is not an earlier cursor value", nil)
					case x.Low != nil && x.High != nil:
						// raw[L : L+len] with L = off+offset (peek)
						lb, ok1 := x.Low.(*ssa.BinOp)
						hb, ok2 := x.High.(*ssa.BinOp)
						if ok1 && ok2 && lb.Op == token.ADD && off(lb.X) && hb.Op == token.ADD && sameVal(hb.X, lb) {
							okG, path := pc.remValid(fn, x, remNeed{sumA: lb.Y, sumB: hb.Y})
							nonNeg := pc.paramsNonNegAtCalls(fn, lb.Y, hb.Y)
							report(okG && nonNeg, "slice:peek", x, remNeed{sumA: lb.Y, sumB: hb.Y}, nil, path, map[bool]string{true: "", false: "; offset/length are not provably non-negative at the call sites"}[nonNeg])
						} else {
							c.Fail(rule, fn, "slice:unrecognised", x, "unrecognised slice of rd.raw", nil)
						}
					default:
						c.Fail(rule, fn, "slice:unrecognised", x, "unrecognised slice of rd.raw", nil)
					}
				case *ssa.IndexAddr:
					if !raw(x.X) {
						continue
					}
					if off(x.Index) {
						ok, path := pc.remValid(fn, x, remNeed{k: 1})
						report(ok, "index:raw[off]", x, remNeed{k: 1}, nil, path, "")
					} else if bo, ok := x.Index.(*ssa.BinOp); ok && bo.Op == token.ADD && off(bo.X) {
						okG, path := pc.remValid(fn, x, remNeed{v: bo.Y, plus: 1})
						nonNeg := pc.paramsNonNegAtCalls(fn, bo.Y)
						report(okG && nonNeg, "index:raw[off+o]", x, remNeed{v: bo.Y, plus: 1}, nil, path, "")
					} else {
						c.Fail(rule, fn, "index:unrecognised", x, "unrecognised index into rd.raw", nil)
					}
				}
			}
		}
	}
	var sn []string
	for n, f := range e.summaries {
		sn = append(sn, n+"↦"+f.String()+map[bool]string{true: "≤rem", false: ""}[pc.remAtRet[n]])
	}
	sort.Strings(sn)
	c.Notes = append(c.Notes, "getter summaries computed from real_decoder.go: "+strings.Join(sn, "; "))
}

// paramsNonNegAtCalls: each value is a parameter of fn that is a non-negative constant at every
// static call site of fn (interface invokes by method name included).
func (pc *primChecker) paramsNonNegAtCalls(fn *ssa.Function, vals ...ssa.Value) bool {
	p := pc.c.P
	for _, v := range vals {
		pr, ok := dStrip(v).(*ssa.Parameter)
		if !ok {
			if k, isK := dConstInt(dStrip(v)); isK && k >= 0 {
				continue
			}
			return false
		}
		idx := -1
		for i, q := range fn.Params {
			if q == pr {
				idx = i
			}
		}
		for _, f := range p.Fns {
			for _, b := range f.Blocks {
				for _, in := range b.Instrs {
					cl, ok := in.(*ssa.Call)
					if !ok {
						continue
					}
					var arg ssa.Value
					if cl.Call.IsInvoke() && cl.Call.Method.Name() == fn.Name() {
						if n, _ := NamedOf(cl.Call.Value.Type()); n == "packetDecoder" && idx-1 < len(cl.Call.Args) && idx >= 1 {
							arg = cl.Call.Args[idx-1]
						}
					} else if cl.Call.StaticCallee() == fn && idx < len(cl.Call.Args) {
						arg = cl.Call.Args[idx]
					}
					if arg == nil {
						continue
					}
					if k, isK := dConstInt(dStrip(arg)); !isK || k < 0 {
						return false
					}
				}
			}
		}
	}
	return true
}

// ---------------------------------------------------------------- C10.alloc

func c10Alloc(c *Ctx) {
	p := c.P
	rule := "C10.alloc"
	c.Doc(rule, "every make([]T, n[, m]) and make(map, n) in the functions reachable from the decoders of untrusted data (response bodies, headers, record batches, message sets, group member data, SASL/GSSAPI readers) has n ≥ 0 and n bounded by the input or by a small constant")
	c.Floor(rule, 30)
	e := newDBounds(p)
	reach := p.decodeReachable()
	var fns []*ssa.Function
	for f := range reach {
		fns = append(fns, f)
	}
	sort.Slice(fns, func(i, j int) bool { return p.Name(fns[i]) < p.Name(fns[j]) })
	nf := 0
	for _, fn := range fns {
		if fn.Name() == "encode" || strings.HasPrefix(p.Name(fn), "prepEncoder.") || strings.HasPrefix(p.Name(fn), "realEncoder.") {
			continue
		}
		nf++
		for _, b := range fn.Blocks {
			for _, in := range b.Instrs {
				var sizes []ssa.Value
				kind := ""
				switch x := in.(type) {
				case *ssa.MakeSlice:
					sizes = []ssa.Value{x.Len}
					if x.Cap != x.Len {
						sizes = append(sizes, x.Cap)
					}
					kind = "make([]" + types.TypeString(x.Type().Underlying().(*types.Slice).Elem(), func(*types.Package) string { return "" }) + ")"
				case *ssa.MakeMap:
					if x.Reserve == nil {
						continue
					}
					sizes = []ssa.Value{x.Reserve}
					kind = "make(map)"
				default:
					continue
				}
				ok := true
				var worst dfact
				var detail []string
				if derivesFrom(sizes[0], FieldLoad("responseHeader.length"), 0) {
					continue // validated by responseHeader.decode and checked by C10.cap
				}
				for _, s := range sizes {
					if _, isK := dConstInt(dStrip(s)); isK {
						continue
					}
					f := e.evalAt(s, b)
					needLB := kind != "make(map)"
					if (needLB && f.lb < 0) || f.ub == ubInf {
						ok = false
						worst = f
					}
					detail = append(detail, describeSize(p, s)+" ∈ "+f.String())
				}
				if len(detail) == 0 {
					continue // constant sizes
				}
				why := "size " + strings.Join(detail, ", ")
				bad := ""
				if !ok {
					switch {
					case worst.lb < 0 && worst.ub == ubInf:
						bad = "can be negative (panic: makeslice: len out of range) and is not bounded by the input (multi-GB allocation from a few bytes)"
					case worst.lb < 0:
						bad = "can be negative: a length of -1 (null array) or any corrupted negative count panics with makeslice: len out of range"
					default:
						bad = "is not bounded by the input: a few bytes can demand a multi-GB allocation"
					}
				}
				c.Check(ok, rule, fn, kind, in, why, "allocation "+why+" taken from the wire "+bad, nil)
			}
		}
	}
	c.Notes = append(c.Notes, fmt.Sprintf("%s: %d functions reachable from the decode roots analysed", rule, nf))
}

// derivesFrom: v is computed from a value matching m (operands walked to a small depth).
func derivesFrom(v ssa.Value, m VM, d int) bool {
	if d > 6 {
		return false
	}
	if m(v) {
		return true
	}
	if ins, ok := v.(ssa.Instruction); ok {
		for _, op := range ins.Operands(nil) {
			if *op != nil && derivesFrom(*op, m, d+1) {
				return true
			}
		}
	}
	return false
}

func describeSize(p *Program, v ssa.Value) string {
	v = dStrip(v)
	if cv, ok := v.(*ssa.Convert); ok {
		v = dStrip(cv.X)
	}
	if ex, ok := v.(*ssa.Extract); ok {
		if cl, ok := ex.Tuple.(*ssa.Call); ok {
			n := p.CalleeName(&cl.Call)
			if cl.Call.IsInvoke() {
				n = cl.Call.Method.Name()
			}
			return n + "()"
		}
	}
	if s := PathOf(v); s != "" {
		return s
	}
	return v.Name()
}

// ---------------------------------------------------------------- C10.cap / consumed / loop-progress

func c10Cap(c *Ctx) {
	p := c.P
	rule := "C10.cap"
	c.Doc(rule, "responseHeader.decode returns nil only under 4 < length ≤ MaxResponseSize; responseReceiver allocates the body from that decoded length")
	c.Floor(rule, 2)
	if fn := c.NeedFn(rule, "responseHeader.decode"); fn != nil {
		reg := WholeFn(fn)
		length := FieldLoad("responseHeader.length")
		maxResp := GlobalLoad("MaxResponseSize")
		for _, r := range reg.Find(ReturnNilErr()) {
			g1, p1 := reg.Guarded(r, Cmp{token.GTR, length, ConstInt(4)})
			g2, p2 := reg.Guarded(r, Cmp{token.LEQ, length, maxResp})
			c.Check(g1, rule, fn, "length>4", r.Instr(), "success only under length > 4", "a response header with length ≤ 4 is accepted: the receive loop computes a negative body size (panic)", p1)
			c.Check(g2, rule, fn, "length<=MaxResponseSize", r.Instr(), "success only under length ≤ MaxResponseSize", "a response header with a length above MaxResponseSize is accepted: the receive loop allocates whatever the peer announces", p2)
		}
		// every return whose error may be nil counts: also `return err` with err possibly nil
		e := newDBounds(p)
		for _, b := range fn.Blocks {
			ret, ok := lastInstr(b).(*ssa.Return)
			if !ok || IsRecoverBlock(b) {
				continue
			}
			rv := RetVals(ret)
			if ReturnNilErr()(Item{In: ret}) || !e.mayBeNilErr(rv[len(rv)-1], b) {
				continue
			}
			g1, p1 := reg.Guarded(Item{In: ret}, Cmp{token.GTR, length, ConstInt(4)})
			g2, _ := reg.Guarded(Item{In: ret}, Cmp{token.LEQ, length, maxResp})
			c.Check(g1 && g2, rule, fn, "possibly-nil-return", ret, "a return that may carry a nil error is also behind the length checks", "a return whose error may be nil is reachable without the length checks", p1)
		}
	}
	if fn := c.NeedFn(rule, "Broker.responseReceiver"); fn != nil {
		n := 0
		for _, b := range fn.Blocks {
			for _, in := range b.Instrs {
				mk, ok := in.(*ssa.MakeSlice)
				if !ok {
					continue
				}
				if _, isK := dConstInt(dStrip(mk.Len)); isK {
					continue
				}
				// header buffer: size from getHeaderLength (8 or 9)
				if derivesFrom(mk.Len, func(v ssa.Value) bool {
					cl, ok := v.(*ssa.Call)
					return ok && p.CalleeName(&cl.Call) == "getHeaderLength"
				}, 0) && !derivesFrom(mk.Len, FieldLoad("responseHeader.length"), 0) {
					continue
				}
				n++
				uses := derivesFrom(mk.Len, FieldLoad("responseHeader.length"), 0)
				// decoded header success dominates
				g, path := WholeFn(fn).Guarded(Item{In: mk}, Cmp{token.EQL, p.ResultOf(0, "versionedDecode"), IsNil()})
				c.Check(uses && g, rule, fn, "body-size-from-checked-length", mk, "body buffer sized from the header length that decode validated", "the body buffer is not sized from the validated header length (or is allocated although the header failed to decode)", path)
			}
		}
		if n == 0 {
			c.Fail(rule, fn, "body-size-from-checked-length", nil, "no variable-size body allocation found in the receive loop", nil)
		}
	}
}

func c10Consumed(c *Ctx) {
	_ = c.P
	rule := "C10.consumed"
	c.Doc(rule, "decode/versionedDecode return nil (for a non-nil buffer) only under helper.off == len(buf) after a nil decode error; lengthField.check and crc32Field.check return nil only when the stored and the computed value are equal")
	c.Floor(rule, 4)
	for _, name := range []string{"decode", "versionedDecode"} {
		fn := c.NeedFn(rule, name)
		if fn == nil {
			continue
		}
		reg := WholeFn(fn)
		for _, r := range reg.Find(ReturnNilErr()) {
			// exempt the `buf == nil` early return
			if g, _ := reg.Guarded(r, Cmp{token.EQL, ParamN(0), IsNil()}); g {
				continue
			}
			g1, p1 := reg.Guarded(r, Cmp{token.EQL, FieldLoad("realDecoder.off"), LenOf(ParamN(0))})
			derr := func(v ssa.Value) bool {
				cl, ok := v.(*ssa.Call)
				return ok && cl.Call.IsInvoke() && cl.Call.Method.Name() == "decode"
			}
			g2, p2 := reg.Guarded(r, Cmp{token.EQL, derr, IsNil()})
			path := p1
			if g1 {
				path = p2
			}
			c.Check(g1 && g2, rule, fn, "whole-buffer-consumed", r.Instr(), "nil only if the decoder succeeded and consumed the whole buffer", name+" can report success although the decoder failed or left trailing bytes (a length that disagrees with the data goes unnoticed)", path)
		}
	}
	for _, name := range []string{"lengthField.check", "crc32Field.check", "varintLengthField.check"} {
		fn := c.NeedFn(rule, name)
		if fn == nil {
			continue
		}
		reg := WholeFn(fn)
		n := 0
		for _, r := range reg.Find(ReturnNilErr()) {
			n++
			// some equality test between two integer values must dominate
			eq := func(from, to *ssa.BasicBlock) bool {
				iff, ok := lastInstr(from).(*ssa.If)
				if !ok || len(from.Succs) != 2 {
					return false
				}
				bo, ok := iff.Cond.(*ssa.BinOp)
				if !ok {
					return false
				}
				if b, isB := bo.X.Type().Underlying().(*types.Basic); !isB || b.Info()&types.IsInteger == 0 {
					return false // only comparisons of the stored vs computed integer count
				}
				if bo.Op == token.EQL && from.Succs[0] == to {
					return true
				}
				return bo.Op == token.NEQ && from.Succs[1] == to
			}
			r2 := *reg
			r2.Cut = eq
			it, path := r2.Reach(IsItem(r), nil)
			c.Check(it.IsZero(), rule, fn, "mismatch-is-error", r.Instr(), "nil only behind an equality test of stored vs computed value", name+" can return nil without comparing the stored value with the computed one: corrupted data surfaces as different records", path)
		}
		if n == 0 {
			c.Fail(rule, fn, "mismatch-is-error", nil, "no successful return", nil)
		}
	}
}

func c10LoopProgress(c *Ctx) {
	p := c.P
	rule := "C10.loop-progress"
	c.Doc(rule, "every decode loop whose condition is remaining() > 0 consumes input (calls a getter / nested decode) or leaves the loop on every path of its body")
	c.Floor(rule, 2)
	e := newDBounds(p)
	reach := p.decodeReachable()
	n := 0
	for fn := range reach {
		fi := Info(fn)
		for _, l := range fi.Loops {
			iff, ok := lastInstr(l.Head).(*ssa.If)
			if !ok {
				continue
			}
			bo, ok := iff.Cond.(*ssa.BinOp)
			if !ok || !(e.isRemaining(bo.X) || e.isRemaining(bo.Y)) {
				continue
			}
			n++
			reg := fi.Iteration(l)
			reg.NoExitEnd = true
			consume := func(it Item) bool {
				cc, ok := callCommon(it)
				if !ok {
					return false
				}
				if cc.IsInvoke() {
					nn, _ := NamedOf(cc.Value.Type())
					return nn == "packetDecoder" && cc.Method.Name() != "remaining"
				}
				if cal := cc.StaticCallee(); cal != nil {
					return cal.Name() == "decode" || (cal.Signature.Recv() != nil && isPtrToNamed(cal.Signature.Recv().Type(), "realDecoder") && cal.Name() != "remaining")
				}
				return false
			}
			esc, path := reg.Escape(Or(consume, IsReturn()))
			c.Check(!esc, rule, fn, "consumes-or-exits", iff, "every iteration consumes input or leaves the loop", "a path of the loop body returns to the loop test without consuming input: a crafted message makes the decoder spin forever", path)
		}
	}
	if n == 0 {
		c.Fail(rule, nil, "loops", nil, "no remaining()-bounded decode loop found", nil)
	}
}

// ---------------------------------------------------------------- C10.err-propagated

// c10ErrPropagated: a decoding step that reports an error must not be answered with success.  After a failed
// getter the cursor of realDecoder sits at the end of the input, so the top-level "all bytes consumed" test
// passes: a decode method that returns nil there hands a half-filled value to the caller as if it were valid.
func c10ErrPropagated(c *Ctx) {
	p := c.P
	rule := "C10.err-propagated"
	c.Doc(rule, "every decode function reachable from the response path: after a packetDecoder getter, a nested decode or a pop() returned a non-nil error, no `return nil` is reachable — unless the error was compared with ErrInsufficientData on that path (the tabled truncated-tail handling of fetch responses and message sets)")
	c.Floor(rule, 400)
	dr := p.decodeReachable()
	var fns []*ssa.Function
	for f := range dr {
		fns = append(fns, f)
	}
	sort.Slice(fns, func(i, j int) bool { return p.Name(fns[i]) < p.Name(fns[j]) })
	isErrT := func(t types.Type) bool { return t.String() == "error" }
	insufficient := p.ErrVal("ErrInsufficientData")
	for _, fn := range fns {
		if fn.Signature.Results().Len() == 0 || !isErrT(fn.Signature.Results().At(fn.Signature.Results().Len()-1).Type()) {
			continue
		}
		fi := Info(fn)
		reg := WholeFn(fn)
		fi.Each(func(it Item) {
			cl, ok := it.In.(*ssa.Call)
			if !ok {
				return
			}
			// calls that read from the decoder: interface methods of packetDecoder/pushDecoder, realDecoder methods,
			// nested decode methods
			decoding := false
			if cl.Call.IsInvoke() {
				n, _ := NamedOf(cl.Call.Value.Type())
				decoding = n == "packetDecoder" || n == "pushDecoder" || n == "dynamicPushDecoder" || n == "protocolBody" && cl.Call.Method.Name() == "decode" || n == "versionedDecoder" || n == "decoder"
			} else if cal := cl.Call.StaticCallee(); cal != nil && dr[cal] {
				decoding = true
			}
			if !decoding {
				return
			}
			res := cl.Call.Signature().Results()
			if res.Len() == 0 || !isErrT(res.At(res.Len()-1).Type()) {
				return
			}
			var errV ssa.Value = cl
			if res.Len() > 1 {
				errV = nil
				for _, r := range *cl.Referrers() {
					if ex, ok := r.(*ssa.Extract); ok && ex.Index == res.Len()-1 {
						errV = ex
					}
				}
			}
			if errV == nil {
				c.Fail(rule, fn, "error-ignored:"+p.CalleeName(&cl.Call), cl, "the error result of a decoding step is never looked at: a truncated input is decoded as if it were complete", nil)
				return
			}
			failed := Cmp{token.NEQ, Same(errV), IsNil()}
			bad := ""
			var path []*ssa.BasicBlock
			var at ssa.Instruction = cl
			for _, e := range reg.EstablishingEdges(failed) {
				sub := *reg.From(Pt{e.To, 0})
				// the truncated-tail idiom: the error is compared with ErrInsufficientData
				sub.Cut = func(from, to *ssa.BasicBlock) bool {
					return Establishes(from, to, Cmp{token.EQL, Same(errV), insufficient})
				}
				if r, pth := sub.Reach(ReturnNilErr(), func(x Item) bool {
					// the error variable is assigned anew (a later step) before the return: not this error any more
					return false
				}); !r.IsZero() {
					// a later test of a *different* error that is nil does not excuse this one; but the return must
					// be reachable without another failing step having been detected: accept only direct returns
					bad, path, at = "returns nil although this decoding step failed", pth, r.Instr()
				}
			}
			c.Check(bad == "", rule, fn, "err:"+p.CalleeName(&cl.Call), at, "a failure of this decoding step is never answered with success",
				"the function "+bad+": after the failure the cursor is at the end of the input, so the caller's all-bytes-consumed test passes and a truncated or corrupt response is accepted with partly filled fields", path)
		})
	}
}

// countsUpFromZero: φ(0, φ+1) in the head of l — the induction variable of a loop counting 0, 1, 2, …
func countsUpFromZero(phi *ssa.Phi, l *Loop) bool {
	zero, step := false, false
	for i, e := range phi.Edges {
		pred := phi.Block().Preds[i]
		if !l.Blocks[pred] {
			if k, ok := dConstInt(e); ok && k == 0 {
				zero = true
				continue
			}
			return false
		}
		bo, ok := e.(*ssa.BinOp)
		if !ok || bo.Op != token.ADD || bo.X != ssa.Value(phi) {
			return false
		}
		if k, ok := dConstInt(bo.Y); !ok || k != 1 {
			return false
		}
		step = true
	}
	return zero && step
}

// C10.records-per-batch: each batch of a records field has its format sniffed from its own magic byte.
func c10RecordsPerBatch(c *Ctx) {
	p := c.P
	rule := "C10.records-per-batch"
	c.Doc(rule, "every Records value that FetchResponseBlock.decode (and ProduceRequest's records decoding) hands to Records.decode starts with recordsType unset: Records.decode sniffs the magic byte only when the type is unknown, so a type carried over from the previous batch makes a legacy message set be parsed as a record batch or the reverse — the decoder then spins without consuming (never returns) or returns half of the records without an error")
	c.Floor(rule, 1)
	n := 0
	for _, fn := range p.Fns {
		if rootOf(fn).Pkg != p.Sarama || !hasItem(fn, p.CallTo("Records.decode")) {
			continue
		}
		for _, l := range p.literalsOf(fn, "Records") {
			n++
			v := l.fields["recordsType"]
			ok := v == nil
			if !ok {
				if k, isC := dConstInt(v); isC && k == 0 {
					ok = true
				}
			}
			c.Check(ok, rule, fn, "type-unset", l.alloc, "the Records value to decode has no format preset", "a Records value is handed to decode with its format already set from elsewhere ("+describeOr(v)+"): the magic byte of this batch is not looked at", nil)
		}
	}
	if n == 0 {
		c.Unresolved(rule, "Records literals in functions that call Records.decode")
	}
}

func describeOr(v ssa.Value) string {
	if v == nil {
		return "unset"
	}
	return describe(v)
}

// narrowInt: v is (a conversion of) an integer of at most 32 bits — a small multiple of it cannot wrap in 64 bits.
func narrowInt(v ssa.Value) bool {
	for d := 0; d < 6; d++ {
		if b, ok := v.Type().Underlying().(*types.Basic); ok {
			switch b.Kind() {
			case types.Int8, types.Int16, types.Int32, types.Uint8, types.Uint16, types.Uint32:
				return true
			}
		}
		switch x := v.(type) {
		case *ssa.Convert:
			v = x.X
		case *ssa.ChangeType:
			v = x.X
		case *ssa.Phi:
			// a merge of narrow values (and constants) is narrow
			for _, e := range x.Edges {
				if _, isC := e.(*ssa.Const); isC {
					continue
				}
				if e == ssa.Value(x) || !narrowInt(e) {
					return false
				}
			}
			return true
		default:
			// the result of an immediately-invoked literal (an inlined-back helper) is what the literal returns; a
			// local variable assigned once is the value assigned
			w := throughCell(strip(v))
			if w == v {
				return false
			}
			v = w
		}
	}
	return false
}
