package main

// C13 — assignments are balanced, and the sticky strategy is sticky.
//
// Taken whole the property is numeric (sizes differ by at most one, fixed point of re-planning) and is
// not decided.  Four of its clauses have a structural necessary condition in the shape of the code; those
// are decided here and nothing else is claimed.

import (
	"fmt"
	"go/constant"
	"go/token"
	"go/types"

	"golang.org/x/tools/go/ssa"
)

func init() {
	register(&propDef{
		ID:    "C13",
		Title: "Assignments are balanced, and the sticky strategy is sticky",
		Explain: "PARTIAL — structural necessary conditions only. Decided: (range) the slice of partitions a member gets is partitions[f(i):f(i+1)] with one and the same rounding function f of the member's index, so consecutive ranges are contiguous and telescope over the topic (C13.range-telescoping); (round-robin) the member examined and assigned is members[i % n] at every point, and the cursor advances by exactly one after every assignment and every skipped member (C13.rr-cursor); " +
			"(sticky, no pairwise swap) every move of a partition goes through reassignPartition, which moves the partition chosen by movements.getTheActualPartitionToBeMoved for the same (old owner, new owner) pair, that function looks the reverse pair (new → old) up in the topic's movement record and returns one of its partitions when present, and processPartitionMovement records every move (C13.swap-guard); " +
			"(sticky, prior state) of the owners claiming a partition in user data the one with the highest generation becomes the current owner and the next one the previous owner (C13.generation-order). " +
			"(sticky, balance test) isBalanced examines every member: the loops that look for a partition a lighter member could take from a heavier one are left only when they are exhausted or with the verdict `false` — an early `break` declares the assignment balanced without having looked at the remaining members (C13.balance-test). " +
			"Shared with C08: the eligibility guards of the three strategies (C08.eligible) — a remembered partition that no longer exists, kept in a member's working list, counts towards its size and can never be moved, so the plan stays unbalanced. " +
			"NOT decided: that range sizes / round-robin totals differ by at most one (floating-point and modular arithmetic), balance in Kafka's sense, the fixed point of re-planning, keep-on-leave and no-shuffle-on-join — these are relations over the algorithm's outputs for all inputs and need execution or a solver.",
		Rules: []func(*Ctx){c13Range, c13RoundRobin, c13SwapGuard, c13Generation, c13BalanceTest, c08Rules, c08ErrLost, c13AllClaims, c13FreshFlag, c13MovementsPerPlan, c13BalanceAlways, c13SortRound, c13MovementBookkeeping, c13IsBalancedSortsItself, c08FixedRestoredLast, c15Pair, c15SortedWritable, c13SortedSearch, c13ScoreExact, c13HeapInitialised, c15ReadSets, c13UserDataFallback},
	})
}

// shiftEq: b is the expression a with exactly the sub-expression `x` replaced by `x + 1` (x any value that
// both expressions share); shared sub-expressions are the same SSA value or structurally equal.
func shiftEq(a, b ssa.Value, shifted *int, depth int) bool {
	if depth > 12 {
		return false
	}
	if a == b {
		return true
	}
	if bo, ok := b.(*ssa.BinOp); ok && bo.Op == token.ADD && bo.X == a {
		if k, ok := bo.Y.(*ssa.Const); ok && k.Value != nil && constant.Compare(k.Value, token.EQL, constant.MakeInt64(1)) {
			*shifted++
			return true
		}
	}
	switch x := a.(type) {
	case *ssa.Const:
		y, ok := b.(*ssa.Const)
		return ok && x.Value != nil && y.Value != nil && constant.Compare(x.Value, token.EQL, y.Value)
	case *ssa.BinOp:
		y, ok := b.(*ssa.BinOp)
		return ok && x.Op == y.Op && shiftEq(x.X, y.X, shifted, depth+1) && shiftEq(x.Y, y.Y, shifted, depth+1)
	case *ssa.Convert:
		y, ok := b.(*ssa.Convert)
		return ok && x.Type() == y.Type() && shiftEq(x.X, y.X, shifted, depth+1)
	case *ssa.Call:
		y, ok := b.(*ssa.Call)
		if !ok || x.Call.IsInvoke() || y.Call.IsInvoke() || x.Call.StaticCallee() == nil || x.Call.StaticCallee() != y.Call.StaticCallee() || len(x.Call.Args) != len(y.Call.Args) {
			return false
		}
		for i := range x.Call.Args {
			if !shiftEq(x.Call.Args[i], y.Call.Args[i], shifted, depth+1) {
				return false
			}
		}
		return true
	}
	return false
}

// dependsOn: v is computed (through arithmetic, conversions and pure calls) from w.
func dependsOn(v, w ssa.Value, depth int) bool {
	if v == w {
		return true
	}
	if depth > 12 {
		return false
	}
	switch x := v.(type) {
	case *ssa.BinOp:
		return dependsOn(x.X, w, depth+1) || dependsOn(x.Y, w, depth+1)
	case *ssa.Convert:
		return dependsOn(x.X, w, depth+1)
	case *ssa.Call:
		for _, a := range x.Call.Args {
			if dependsOn(a, w, depth+1) {
				return true
			}
		}
	}
	return false
}

func c13Range(c *Ctx) {
	p := c.P
	rule := "C13.range-telescoping"
	c.Doc(rule, "the range strategy's core function (the function literal that calls plan.Add with a sub-slice of its partitions parameter inside a loop over its memberIDs parameter): the sub-slice is partitions[lo:hi] where hi is the expression lo with the member's index i replaced by i+1, lo depends on i, and the member added is memberIDs[i] for the same i")
	c.Floor(rule, 1)
	n := 0
	for _, fn := range p.Fns {
		if fn.Pkg != p.Sarama || fn.Parent() == nil || len(fn.Params) != 4 {
			continue
		}
		fi := Info(fn)
		for _, s := range fi.Find(p.CallTo("BalanceStrategyPlan.Add")) {
			a := callArgs(s)
			if len(a) < 4 {
				continue
			}
			sl, ok := strip(a[3]).(*ssa.Slice)
			if !ok || !ParamN(3)(sl.X) {
				continue
			}
			n++
			// the member: memberIDs[i] in a loop over memberIDs
			msl, l, isElem := rangeElem(fi, a[1])
			okMember := isElem && ParamN(1)(msl)
			var idx ssa.Value
			if okMember {
				if u, ok := strip(a[1]).(*ssa.UnOp); ok {
					if ia, ok := u.X.(*ssa.IndexAddr); ok {
						idx = ia.Index
					}
				}
			}
			shifted := 0
			okShape := sl.Low != nil && sl.High != nil && shiftEq(sl.Low, sl.High, &shifted, 0) && shifted == 1
			okDep := false
			if idx != nil && sl.Low != nil {
				// lo depends on the index through a conversion of it
				okDep = dependsOnConv(sl.Low, idx, 0)
			}
			_ = l
			c.Check(okMember && okShape && okDep, rule, fn, "slice-bounds", s.Instr(), "member i gets partitions[f(i):f(i+1)] for one rounding function f",
				"the range strategy's bounds are not f(i) and f(i+1) of one and the same function of the member's index: consecutive ranges can overlap or leave a gap (a partition assigned twice or to nobody), and sizes drift", nil)
		}
	}
	if n == 0 {
		c.Unresolved(rule, "function literal adding a sub-slice of its partitions parameter (range strategy core)")
	}
}

// dependsOnConv: like dependsOn, the index may appear converted (float64(i)).
func dependsOnConv(v, idx ssa.Value, depth int) bool {
	if v == idx {
		return true
	}
	if depth > 12 {
		return false
	}
	switch x := v.(type) {
	case *ssa.BinOp:
		return dependsOnConv(x.X, idx, depth+1) || dependsOnConv(x.Y, idx, depth+1)
	case *ssa.Convert:
		return dependsOnConv(x.X, idx, depth+1)
	case *ssa.Call:
		for _, a := range x.Call.Args {
			if dependsOnConv(a, idx, depth+1) {
				return true
			}
		}
	}
	return false
}

func c13RoundRobin(c *Ctx) {
	p := c.P
	rule := "C13.rr-cursor"
	c.Doc(rule, "roundRobinBalancer.Plan: every value the candidate member takes is members[i % n] for the cursor value i current at that point, n = len(members); the member handed to plan.Add is that candidate; on every path from plan.Add to the next topic-partition the cursor is advanced by exactly 1, and by exactly 1 per skipped member")
	c.Floor(rule, 3)
	fn := c.NeedFn(rule, "roundRobinBalancer.Plan")
	if fn == nil {
		return
	}
	fi := Info(fn)
	adds := fi.Find(p.CallTo("BalanceStrategyPlan.Add"))
	if len(adds) != 1 {
		c.Unresolved(rule, "plan.Add in round-robin Plan")
		return
	}
	add := adds[0]
	a := callArgs(add)
	// the candidate cell: m.memberID is read from it
	var cell *ssa.Alloc
	if u, ok := strip(a[1]).(*ssa.UnOp); ok {
		if fa, ok := u.X.(*ssa.FieldAddr); ok {
			cell, _ = fa.X.(*ssa.Alloc)
		}
	}
	if cell == nil {
		c.Unresolved(rule, "candidate member variable (m) read by plan.Add")
		return
	}
	outer := fi.InnermostLoop(itemBlock(add))
	for _, l2 := range fi.Loops {
		if l2.Blocks[itemBlock(add)] && outer != nil && len(l2.Blocks) > len(outer.Blocks) {
			outer = l2
		}
	}
	if outer == nil {
		c.Unresolved(rule, "loop over the sorted topic-partitions")
		return
	}
	// cursor phis: integer phis in the loop headers named i
	isOne := func(v ssa.Value) bool {
		k, ok := v.(*ssa.Const)
		return ok && k.Value != nil && constant.Compare(k.Value, token.EQL, constant.MakeInt64(1))
	}
	// the cursor: integer phis (at the loop heads) that are used, directly or after `+ 1`, as the left operand of
	// `… % len(members)` in the index of a candidate assignment — whatever the variable is called
	cursorPhis := map[*ssa.Phi]bool{}
	for _, r := range *cell.Referrers() {
		st, ok := r.(*ssa.Store)
		if !ok || st.Addr != ssa.Value(cell) {
			continue
		}
		if u, ok := st.Val.(*ssa.UnOp); ok && u.Op == token.MUL {
			if ia, ok := u.X.(*ssa.IndexAddr); ok {
				if bo, ok := ia.Index.(*ssa.BinOp); ok && bo.Op == token.REM {
					v := bo.X
					if b2, ok := v.(*ssa.BinOp); ok && b2.Op == token.ADD {
						v = b2.X
					}
					if ph, ok := v.(*ssa.Phi); ok {
						cursorPhis[ph] = true
						for _, e := range ph.Edges {
							if p2, ok := e.(*ssa.Phi); ok {
								cursorPhis[p2] = true
							}
						}
					}
				}
			}
		}
	}
	// every store into the candidate cell
	nStores := 0
	for _, r := range *cell.Referrers() {
		st, ok := r.(*ssa.Store)
		if !ok || st.Addr != ssa.Value(cell) {
			continue
		}
		nStores++
		good := false
		var cursor ssa.Value
		if u, ok := st.Val.(*ssa.UnOp); ok && u.Op == token.MUL {
			if ia, ok := u.X.(*ssa.IndexAddr); ok {
				if bo, ok := ia.Index.(*ssa.BinOp); ok && bo.Op == token.REM {
					if cl, ok := bo.Y.(*ssa.Call); ok {
						if bi, ok := cl.Call.Value.(*ssa.Builtin); ok && bi.Name() == "len" && sameSliceVar(cl.Call.Args[0], ia.X) {
							cursor = bo.X
							good = true
						}
					}
				}
			}
		}
		// the cursor value used is the one that flows on (it reaches a cursor phi from this block, or is one)
		if good {
			flows := false
			if ph, ok := cursor.(*ssa.Phi); ok && cursorPhis[ph] {
				flows = true
			}
			for _, su := range st.Block().Succs {
				for _, in := range su.Instrs {
					ph, ok := in.(*ssa.Phi)
					if !ok {
						break
					}
					for i, pr := range su.Preds {
						if pr == st.Block() && ph.Edges[i] == cursor {
							flows = true
						}
					}
				}
			}
			good = flows
		}
		c.Check(good, rule, fn, "candidate-is-members[i%n]", st, "the candidate member is members[i % len(members)] for the current cursor i",
			"the candidate member is not members[i % n] for the cursor value that is carried on: the rotation skips or repeats members and totals drift apart", nil)
	}
	if nStores == 0 {
		c.Unresolved(rule, "assignment of the candidate member")
	}
	// cursor advance after Add: the outer header's cursor phi takes, on the back edge, (current cursor)+1
	okAdvance := false
	for _, in := range outer.Head.Instrs {
		ph, ok := in.(*ssa.Phi)
		if !ok {
			break
		}
		if !cursorPhis[ph] {
			continue
		}
		okAdvance = true
		for i, pr := range outer.Head.Preds {
			if !outer.Blocks[pr] {
				continue // entry edge
			}
			bo, ok := ph.Edges[i].(*ssa.BinOp)
			if !ok || bo.Op != token.ADD || !isOne(bo.Y) {
				okAdvance = false
				continue
			}
			// the operand is the cursor current at plan.Add: the outer phi itself or the skip loop's phi fed by it
			cur := bo.X
			okCur := cur == ssa.Value(ph)
			if ip, ok := cur.(*ssa.Phi); ok && cursorPhis[ip] {
				okCur = true
				for _, e := range ip.Edges {
					if e == ssa.Value(ph) {
						continue
					}
					b2, ok := e.(*ssa.BinOp)
					if !ok || b2.Op != token.ADD || !isOne(b2.Y) || b2.X != ssa.Value(ip) {
						okCur = false // the skip loop advances the cursor by something other than one
					}
				}
			}
			if !okCur {
				okAdvance = false
			}
		}
	}
	c.Check(okAdvance, rule, fn, "cursor-advances-by-one", add.Instr(), "after every assignment, and for every skipped member, the cursor advances by exactly one",
		"the round-robin cursor is not advanced by exactly one per assignment / skipped member: consecutive partitions go to the same member or members are skipped, so totals of members with identical subscriptions differ by more than one", nil)
	// exactly one Add per iteration is C08's roundrobin:each-partition-once; restated here for the cursor: the advance is on every path
	reg := fi.Iteration(outer)
	cr := reg.Count(IsItem(add))
	c.Check(!cr.HasNone() && !cr.HasTwo(), rule, fn, "one-assignment-per-partition", add.Instr(), "each topic-partition is assigned exactly once per iteration", "a topic-partition can be skipped or assigned twice in one iteration", cr.NonePath)
}

func sameSliceVar(a, b ssa.Value) bool {
	return samePath(a, b)
}

func c13SwapGuard(c *Ctx) {
	p := c.P
	rule := "C13.swap-guard"
	c.Doc(rule, "processPartitionMovement is called only by reassignPartition, with the partition returned by movements.getTheActualPartitionToBeMoved(partition, currentPartitionConsumer[partition], newConsumer) and the same newConsumer; getTheActualPartitionToBeMoved looks up the pair {Src: newConsumer, Dst: old owner} (the reverse of the move) in the topic's record and returns a partition ranged from that record when it exists; processPartitionMovement calls movements.movePartition(partition, old owner, newConsumer) on every path")
	c.Floor(rule, 6)
	// (a) who may call
	nCalls := 0
	for _, fn := range p.Fns {
		if fn.Pkg != p.Sarama {
			continue
		}
		for _, s := range Info(fn).Find(p.CallTo("stickyBalanceStrategy.processPartitionMovement")) {
			nCalls++
			a := callArgs(s)
			ok := p.Name(fn) == "stickyBalanceStrategy.reassignPartition"
			detail := "a partition is moved without consulting the movement record (called from " + p.Name(fn) + ")"
			if shapes := p.stickyMoveShapes(); ok && shapes != nil && shapes.isHandBack(p, s) {
				c.OK(rule, fn, "hand-back-to-earlier-owner", s.Instr(), "the requested partition returns to the member it came from in this plan, under owner(chosen) != owner(partition): together with the chosen partition's move both are back where the plan found them — no exchange between two members")
				continue
			}
			if ok {
				ok = false
				detail = "the partition moved is not the one chosen by getTheActualPartitionToBeMoved for this (old owner, new owner) pair"
				callee := s.In.(*ssa.Call).Call.StaticCallee()
				iPart, iNew := paramIdxByName(callee, "partition", 1), paramIdxByName(callee, "newConsumer", 2)
				hPart, hOwners, hNew := paramIdxByName(fn, "partition", 1), paramIdxByName(fn, "currentPartitionConsumer", 4), paramIdxByName(fn, "newConsumer", 5)
				if cl, isC := strip(a[iPart]).(*ssa.Call); isC && p.CalleeName(&cl.Call) == "partitionMovements.getTheActualPartitionToBeMoved" && len(cl.Call.Args) == 4 {
					lk, isL := strip(cl.Call.Args[2]).(*ssa.Lookup)
					ok = ParamN(hPart)(cl.Call.Args[1]) && isL && ParamN(hOwners)(lk.X) && ParamN(hPart)(lk.Index) && ParamN(hNew)(cl.Call.Args[3]) && ParamN(hNew)(a[iNew])
				}
			}
			c.Check(ok, rule, fn, "move-through-record", s.Instr(), "the move goes through reassignPartition and moves the partition the movement record chose", detail+": two members can swap partitions of one topic (A→B and B→A), which the sticky contract forbids", nil)
		}
	}
	if nCalls == 0 {
		c.Unresolved(rule, "call of processPartitionMovement")
	}
	// (b) every move recorded
	if fn := c.NeedFn(rule, "stickyBalanceStrategy.processPartitionMovement"); fn != nil {
		rec := func(it Item) bool {
			if !p.CallTo("partitionMovements.movePartition")(it) {
				return false
			}
			a := callArgs(it)
			if len(a) != 4 {
				return false
			}
			iPart, iNew, iOwners := paramIdxByName(fn, "partition", 1), paramIdxByName(fn, "newConsumer", 2), paramIdxByName(fn, "currentPartitionConsumer", 5)
			lk, isL := strip(a[2]).(*ssa.Lookup)
			return ParamN(iPart)(a[1]) && isL && ParamN(iOwners)(lk.X) && ParamN(iPart)(lk.Index) && ParamN(iNew)(a[3])
		}
		esc, path := WholeFn(fn).Escape(rec)
		c.Check(!esc, rule, fn, "move-recorded", nil, "movePartition(partition, old owner, new owner) on every path", "a move is not recorded (or recorded with other members) in the movement record: later reverse moves are not recognised", path)
	}
	// (b2) what is recorded: the net movement of the partition within this plan
	if fn := c.NeedFn(rule, "partitionMovements.movePartition"); fn != nil {
		reg := WholeFn(fn)
		existed := Truth{func(v ssa.Value) bool {
			ex, ok := v.(*ssa.Extract)
			if !ok || ex.Index != 1 {
				return false
			}
			lk, ok := ex.Tuple.(*ssa.Lookup)
			return ok && FieldLoad("partitionMovements.Movements")(lk.X)
		}, true}
		removed := p.ResultOf(0, "partitionMovements.removeMovementRecordOfPartition")
		prevSrc := func(v ssa.Value) bool {
			// existingPair.SrcMemberID: field of the removed record (through its local cell)
			ch := fieldChain(strip(v))
			if len(ch) == 0 || ch[len(ch)-1].name != "SrcMemberID" {
				return false
			}
			base := ch[0].base
			if al, ok := base.(*ssa.Alloc); ok {
				for _, r := range *al.Referrers() {
					if st, ok := r.(*ssa.Store); ok && st.Addr == ssa.Value(al) && removed(st.Val) {
						return true
					}
				}
				return false
			}
			return removed(base)
		}
		adds := reg.Find(p.CallTo("partitionMovements.addPartitionMovementRecord"))
		if len(adds) == 0 {
			c.Unresolved(rule, "addPartitionMovementRecord in movePartition")
		}
		for _, a := range adds {
			args := callArgs(a)
			f := structLitFields(args[2])
			onExisting, _ := reg.Guarded(a, existed)
			var ok bool
			var want string
			if onExisting {
				want = "{Src: the recorded movement's source, Dst: newConsumer}"
				notBack, _ := reg.Guarded(a, Cmp{token.NEQ, prevSrc, ParamN(3)})
				ok = f != nil && f["SrcMemberID"] != nil && prevSrc(f["SrcMemberID"]) && f["DstMemberID"] != nil && ParamN(3)(f["DstMemberID"]) && notBack
			} else {
				want = "{Src: oldConsumer, Dst: newConsumer}"
				ok = f != nil && f["SrcMemberID"] != nil && ParamN(2)(f["SrcMemberID"]) && f["DstMemberID"] != nil && ParamN(3)(f["DstMemberID"])
			}
			c.Check(ok, rule, fn, "net-movement-recorded:"+map[bool]string{true: "moved-before", false: "first-move"}[onExisting], a.Instr(), "the record written is "+want,
				"the movement recorded for a partition is not "+want+": a partition that moved twice in one plan is remembered by its last hop instead of its net movement, so the reverse-pair lookup misses it and two members swap partitions of one topic", nil)
		}
	}
	// (c) reverse pair
	if fn := c.NeedFn(rule, "partitionMovements.getTheActualPartitionToBeMoved"); fn != nil {
		fi := Info(fn)
		var pairCell *ssa.Alloc
		okSrc, okDst := false, false
		fi.Each(func(it Item) {
			st, ok := it.In.(*ssa.Store)
			if !ok {
				return
			}
			fa, ok := st.Addr.(*ssa.FieldAddr)
			if !ok {
				return
			}
			al, ok := fa.X.(*ssa.Alloc)
			if !ok {
				return
			}
			if n, _ := NamedOf(al.Type().Underlying().(*types.Pointer).Elem()); n != "consumerPair" {
				return
			}
			pairCell = al
			switch {
			case FieldAddrOf("consumerPair.SrcMemberID")(st.Addr):
				okSrc = ParamN(3)(st.Val)
			case FieldAddrOf("consumerPair.DstMemberID")(st.Addr):
				// the old owner: the parameter, or the source of the partition's recorded movement
				// — i.e. a merge of both: the bare parameter alone is the CURRENT owner, which for a partition that
				// already moved in this plan is not where it started
				isSrcOfRecorded := func(v ssa.Value) bool {
					switch x := strip(v).(type) {
					case *ssa.Field:
						if st, ok := x.X.Type().Underlying().(*types.Struct); ok {
							return st.Field(x.Field).Name() == "SrcMemberID"
						}
					case *ssa.UnOp:
						if fa, ok := x.X.(*ssa.FieldAddr); ok {
							if _, n, _, ok := ownerField(fa); ok {
								return n == "SrcMemberID"
							}
						}
					}
					return false
				}
				okDst = !ParamN(3)(st.Val) && phiHasEdge(st.Val, ParamN(2)) && phiHasEdge(st.Val, isSrcOfRecorded)
			}
		})
		c.Check(pairCell != nil && okSrc && okDst, rule, fn, "reverse-pair", nil, "the pair looked up is {Src: newConsumer, Dst: old owner}", "the pair looked up in the movement record is not the reverse of the move being made: a swap A→B / B→A within a topic is not detected", nil)
		// the partition returned when the reverse pair exists comes from ranging the record
		okRet := false
		for _, b := range fn.Blocks {
			r, ok := lastInstr(b).(*ssa.Return)
			if !ok || IsRecoverBlock(b) {
				continue
			}
			v := RetVals(r)[0]
			if ph, ok := v.(*ssa.Phi); ok {
				for _, e := range ph.Edges {
					if ex, ok := e.(*ssa.Extract); ok {
						if nx, ok := ex.Tuple.(*ssa.Next); ok {
							if rg, ok := nx.Iter.(*ssa.Range); ok {
								x := strip(rg.X)
								// the record looked up with the comma-ok form and ranged afterwards
								if ex2, isEx := x.(*ssa.Extract); isEx && ex2.Index == 0 {
									x = strip(ex2.Tuple)
								}
								if lk, ok := x.(*ssa.Lookup); ok && pairCell != nil && canon(lk.Index) == ssa.Value(pairCell) {
									okRet = true
								}
							}
						}
					}
				}
			}
		}
		c.Check(okRet, rule, fn, "returns-reverse-partition", nil, "when the reverse pair is recorded, a partition of that record is returned", "the partition of the recorded reverse move is not the one returned: the swap is not undone", nil)
	}
}

func phiHasEdge(v ssa.Value, m VM) bool {
	ph, ok := v.(*ssa.Phi)
	if !ok {
		return false
	}
	for _, e := range ph.Edges {
		if m(e) {
			return true
		}
	}
	return false
}

func c13Generation(c *Ctx) {
	p := c.P
	rule := "C13.generation-order"
	c.Doc(rule, "prepopulateCurrentAssignments: the generations claiming a partition are sorted in decreasing order (sort.Sort(sort.Reverse(sort.IntSlice(g)))) before use; the current owner is consumers[g[0]] and the previous owner consumers[g[1]], recorded only when len(g) > 1")
	c.Floor(rule, 3)
	fn := c.NeedFn(rule, "prepopulateCurrentAssignments")
	if fn == nil {
		return
	}
	fi := Info(fn)
	// the sort
	var sorted ssa.Value
	sortCall := func(it Item) bool {
		if !p.CallTo("sort.Sort")(it) {
			return false
		}
		a := callArgs(it)
		rv, ok := strip(a[0]).(*ssa.Call)
		if !ok || p.CalleeName(&rv.Call) != "sort.Reverse" {
			return false
		}
		// sort.IntSlice(g) converted to sort.Interface
		var inner ssa.Value = rv.Call.Args[0]
		isInt := false
		for d := 0; d < 4; d++ {
			if n, _ := NamedOf(inner.Type()); n == "IntSlice" {
				isInt = true
			}
			switch x := inner.(type) {
			case *ssa.MakeInterface:
				inner = x.X
				continue
			case *ssa.ChangeType:
				inner = x.X
				continue
			}
			break
		}
		if !isInt {
			return false
		}
		sorted = canon(inner)
		return true
	}
	sorts := fi.Find(sortCall)
	c.Check(len(sorts) == 1, rule, fn, "sorted-descending", nil, "generations sorted with sort.Sort(sort.Reverse(sort.IntSlice(…)))", "the generations claiming a partition are not sorted in decreasing order: a stale (lower-generation) owner can win over the latest one", nil)
	if len(sorts) != 1 {
		return
	}
	l := fi.InnermostLoop(itemBlock(sorts[0]))
	if l == nil {
		c.Unresolved(rule, "loop over partitions in prepopulateCurrentAssignments")
		return
	}
	reg := fi.Iteration(l)
	// g[k] loads of the sorted slice
	gAt := func(k int64) VM {
		return func(v ssa.Value) bool {
			u, ok := strip(v).(*ssa.UnOp)
			if !ok || u.Op != token.MUL {
				return false
			}
			ia, ok := u.X.(*ssa.IndexAddr)
			if !ok || !ConstInt(k)(ia.Index) {
				return false
			}
			return canon(ia.X) == sorted || samePath(ia.X, sorted)
		}
	}
	lookupAt := func(k int64) VM {
		return func(v ssa.Value) bool {
			lk, ok := strip(v).(*ssa.Lookup)
			return ok && gAt(k)(lk.Index)
		}
	}
	// current owner: key of the currentAssignment updates
	cur := reg.Find(func(it Item) bool {
		mu, ok := it.In.(*ssa.MapUpdate)
		if !ok {
			return false
		}
		n, _ := NamedOf(mu.Value.Type())
		_ = n
		mt, isM := mu.Map.Type().Underlying().(*types.Map)
		if !isM {
			return false
		}
		if _, isSl := mt.Elem().Underlying().(*types.Slice); !isSl {
			return false
		}
		return true
	})
	okCur := len(cur) > 0
	for _, s := range cur {
		if !lookupAt(0)(s.In.(*ssa.MapUpdate).Key) {
			okCur = false
		}
		if it, _ := reg.MustPrecede(IsItem(sorts[0]), IsItem(s)); !it.IsZero() {
			okCur = false
		}
	}
	c.Check(okCur, rule, fn, "current-owner-is-highest", nil, "the current owner is consumers[g[0]] after the sort", "the current owner of a partition claimed by several members is not the claimant with the highest generation", nil)
	// previous owner
	okPrev, nPrev := true, 0
	fi.Each(func(it Item) {
		st, ok := it.In.(*ssa.Store)
		if !ok || !reg.Allowed[st.Block()] {
			return
		}
		if FieldAddrOf("consumerGenerationPair.MemberID")(st.Addr) {
			nPrev++
			if !lookupAt(1)(st.Val) {
				okPrev = false
			}
			g, _ := reg.Guarded(Item{In: st}, Cmp{token.GTR, LenOf(func(v ssa.Value) bool { return canon(v) == sorted || samePath(v, sorted) }), ConstInt(1)})
			if !g {
				okPrev = false
			}
		}
		if FieldAddrOf("consumerGenerationPair.Generation")(st.Addr) && !gAt(1)(st.Val) {
			okPrev = false
		}
	})
	c.Check(okPrev && nPrev > 0, rule, fn, "previous-owner-is-second", nil, "the previous owner is consumers[g[1]] with generation g[1], recorded only when there are two claimants", "the previous owner recorded for a partition is not the second-highest generation's claimant (or is recorded without one existing)", nil)
}

// c13BalanceTest: isBalanced answers "true" only after it has looked at every member and every partition
// that member could get.
func c13BalanceTest(c *Ctx) {
	rule := "C13.balance-test"
	c.Doc(rule, "isBalanced: every loop whose body can return false (the search for a counter-example) is left only through its own header, i.e. when the collection is exhausted, or by returning false; `return true` occurs only before those loops (the min/max shortcut) or after them")
	c.Floor(rule, 2)
	fn := c.NeedFn(rule, "isBalanced")
	if fn == nil {
		return
	}
	fi := Info(fn)
	retFalse := func(b *ssa.BasicBlock) bool {
		r, ok := lastInstr(b).(*ssa.Return)
		return ok && len(r.Results) == 1 && ConstBool(false)(RetVals(r)[0])
	}
	n := 0
	for _, l := range fi.Loops {
		// only loops that search for a counter-example
		has := false
		for b := range l.Blocks {
			for _, s := range b.Succs {
				if retFalse(s) || retFalse(b) {
					has = true
				}
			}
		}
		if !has {
			continue
		}
		n++
		var bad *ssa.BasicBlock
		for b := range l.Blocks {
			if b == l.Head {
				continue
			}
			for _, s := range b.Succs {
				if l.Blocks[s] || retFalse(s) {
					continue
				}
				// leaving the loop from its body to something that is not `return false`: a break (or return true)
				// unless the target is the header of an enclosing loop (continue of the outer loop)
				outerHead := false
				for _, l2 := range fi.Loops {
					if l2 != l && l2.Head == s && l2.Blocks[l.Head] {
						outerHead = true
					}
				}
				if !outerHead {
					bad = b
				}
			}
		}
		var at ssa.Instruction
		if bad != nil {
			at = lastInstr(bad)
		}
		c.Check(bad == nil, rule, fn, "search-loop-exhaustive", at, "the search loop is left only when exhausted or with `false`",
			"a loop of isBalanced that searches for a partition a lighter member could take is left early (break / return true) from its body: members that were not examined are taken to be balanced, reassignment stops and a member keeps partitions that another one with two fewer could take", nil)
	}
	if n == 0 {
		c.Unresolved(rule, "search loops of isBalanced (loops that can return false)")
	}
}

// ---------------------------------------------------------------- the sticky "hand back" move (F22)

// stickyMoveShapes recognises, inside stickyBalanceStrategy.reassignPartition, the values
//
//	consumer := currentPartitionConsumer[partition]
//	chosen   := movements.getTheActualPartitionToBeMoved(partition, consumer, newConsumer)
//	owner    := currentPartitionConsumer[chosen]
//
// by their construction from the function's parameters (whatever the locals are called).
type stickyMoveShapes struct {
	fn                      *ssa.Function
	hPart, hOwners, hNew    int
	consumer, chosen, owner VM
}

func (p *Program) stickyMoveShapes() *stickyMoveShapes {
	fn := p.Fn("stickyBalanceStrategy.reassignPartition")
	if fn == nil {
		return nil
	}
	m := &stickyMoveShapes{fn: fn}
	m.hPart, m.hOwners, m.hNew = paramIdxByName(fn, "partition", 1), paramIdxByName(fn, "currentPartitionConsumer", 4), paramIdxByName(fn, "newConsumer", 5)
	m.consumer = func(v ssa.Value) bool {
		lk, ok := strip(v).(*ssa.Lookup)
		return ok && ParamN(m.hOwners)(lk.X) && ParamN(m.hPart)(lk.Index)
	}
	m.chosen = func(v ssa.Value) bool {
		cl, ok := strip(v).(*ssa.Call)
		return ok && p.CalleeName(&cl.Call) == "partitionMovements.getTheActualPartitionToBeMoved" && len(cl.Call.Args) == 4 &&
			ParamN(m.hPart)(cl.Call.Args[1]) && m.consumer(cl.Call.Args[2]) && ParamN(m.hNew)(cl.Call.Args[3])
	}
	m.owner = func(v ssa.Value) bool {
		lk, ok := strip(v).(*ssa.Lookup)
		return ok && ParamN(m.hOwners)(lk.X) && m.chosen(lk.Index)
	}
	return m
}

// isHandBack: the call (in reassignPartition) is processPartitionMovement(partition, owner, …) under owner != consumer:
// the requested partition goes back to the member it came from earlier in this plan, because the partition the
// movement record chose to travel in its place sits on that member and not on the requested partition's current owner.
// Under that guard chosen ≠ partition (their owners differ), so chosen was taken from the reverse record
// {newConsumer → owner} of the same topic: owner holds a partition of that topic (it is subscribed, hence eligible for
// `partition`, which it owned when this plan started) and took part in an earlier move of this plan (so it is a
// participating member, not one set aside as fixed).
func (m *stickyMoveShapes) isHandBack(p *Program, s Item) bool {
	cl, ok := s.In.(*ssa.Call)
	if !ok || cl.Parent() != m.fn || p.CalleeName(&cl.Call) != "stickyBalanceStrategy.processPartitionMovement" {
		return false
	}
	callee := cl.Call.StaticCallee()
	a := cl.Call.Args
	iPart, iNew := paramIdxByName(callee, "partition", 1), paramIdxByName(callee, "newConsumer", 2)
	if iPart >= len(a) || iNew >= len(a) || !ParamN(m.hPart)(a[iPart]) || !m.owner(a[iNew]) {
		return false
	}
	g, _ := WholeFn(m.fn).Guarded(s, Cmp{token.NEQ, m.owner, m.consumer})
	return g
}

// C13.all-claims: every claim of every member's user data is looked at.
func c13AllClaims(c *Ctx) {
	rule := "C13.all-claims"
	c.Doc(rule, "prepopulateCurrentAssignments: each of its loops (over the members, over one member's claimed partitions, over the partitions' claimants) is left only when its range is exhausted, or by returning an error — no `break`: a record that is skipped (a partition claimed twice for one generation) must not take the member's remaining claims with it, or undisputed partitions lose their owner and move although nothing about the group changed")
	c.Floor(rule, 3)
	fn := c.NeedFn(rule, "prepopulateCurrentAssignments")
	if fn == nil {
		return
	}
	fi := Info(fn)
	if len(fi.Loops) < 3 {
		c.Unresolved(rule, fmt.Sprintf("loops of prepopulateCurrentAssignments (found %d)", len(fi.Loops)))
	}
	for i, l := range fi.Loops {
		var bad *ssa.BasicBlock
		for b := range l.Blocks {
			if b == l.Head {
				continue
			}
			for _, succ := range b.Succs {
				if l.Blocks[succ] {
					continue
				}
				// leaving the loop from its body: fine only if nothing but an error return follows
				if it, _ := WholeFn(fn).From(Pt{succ, 0}).Reach(ReturnNilErr(), nil); !it.IsZero() {
					bad = b
				}
			}
		}
		var at ssa.Instruction
		if bad != nil {
			at = lastInstr(bad)
		} else if len(l.Head.Instrs) > 0 {
			at = l.Head.Instrs[0]
		}
		c.Check(bad == nil, rule, fn, fmt.Sprintf("loop#%d-runs-to-the-end", i), at, "the loop is left only at the end of its range (or with an error)", "a loop of prepopulateCurrentAssignments can be left early without an error (a break): the remaining claims of that member (or the remaining members) are dropped, their partitions count as unowned and are handed to whoever is lightest — partitions move between members although members, subscriptions and partitions are unchanged", nil)
	}
}

// C13.fresh-flag: "no existing assignment" is decided from the current owners, not from anything else.
func c13FreshFlag(c *Ctx) {
	p := c.P
	rule := "C13.fresh-flag"
	c.Doc(rule, "stickyBalanceStrategy.Plan: the flag handed to sortPartitions as isFreshAssignment is true exactly where len(currentAssignment) == 0 was established, currentAssignment being the first result of prepopulateCurrentAssignments (the owners claimed in user data).  With the flag wrongly true, partitions are sorted by name instead of heaviest-owner-first, and on a join partitions move between old members")
	c.Floor(rule, 1)
	fn := c.NeedFn(rule, "stickyBalanceStrategy.Plan")
	sp := p.Fn("sortPartitions")
	if fn == nil || sp == nil {
		if sp == nil {
			c.Unresolved(rule, "sortPartitions")
		}
		return
	}
	calls := Info(fn).Find(p.CallTo("sortPartitions"))
	if len(calls) == 0 {
		c.Unresolved(rule, "call of sortPartitions in Plan")
		return
	}
	iFlag := paramIdxByName(sp, "isFreshAssignment", 2)
	owners := p.ResultOf(0, "prepopulateCurrentAssignments")
	empty := Cmp{token.EQL, LenOf(owners), ConstInt(0)}
	nonEmpty := AnyOf{Cmp{token.NEQ, LenOf(owners), ConstInt(0)}, Cmp{token.GTR, LenOf(owners), ConstInt(0)}}
	reg := WholeFn(fn)
	for _, s := range calls {
		a := callArgs(s)
		if iFlag >= len(a) {
			continue
		}
		v := a[iFlag]
		ph, isPhi := v.(*ssa.Phi)
		if !isPhi {
			// the comparison itself
			bo, ok := v.(*ssa.BinOp)
			c.Check(ok && empty.holds(bo, false), rule, fn, "flag-is-no-current-owners", s.Instr(), "isFreshAssignment is len(currentAssignment) == 0", "the value passed as isFreshAssignment ("+describe(v)+") is not the test len(currentAssignment) == 0 on the owners returned by prepopulateCurrentAssignments", nil)
			continue
		}
		for i, e := range ph.Edges {
			pred := ph.Block().Preds[i]
			k, isC := e.(*ssa.Const)
			if !isC {
				c.Fail(rule, fn, "flag-is-no-current-owners", s.Instr(), "isFreshAssignment is merged from a non-constant", nil)
				continue
			}
			want := Pred(nonEmpty)
			name := "false-where-owners-exist"
			if ConstBool(true)(k) {
				want, name = empty, "true-where-no-owners"
			}
			ok := guardedAt(reg, pred, ph.Block(), want)
			c.Check(ok, rule, fn, name, s.Instr(), "isFreshAssignment is "+k.String()+" exactly under the matching test of len(currentAssignment)", "isFreshAssignment is set to "+k.String()+" on a path that has not established the matching test of len(currentAssignment) (the owners returned by prepopulateCurrentAssignments): a re-plan with existing owners is treated as a fresh assignment (or the reverse), partitions are sorted in the wrong order and move between old members when somebody joins", nil)
		}
	}
}

// C13.movements-per-plan: the movement record describes the current plan only.
func c13MovementsPerPlan(c *Ctx) {
	p := c.P
	rule := "C13.movements-per-plan"
	c.Doc(rule, "stickyBalanceStrategy.Plan stores a fresh partitionMovements value (both maps made anew) into s.movements on every path before anything of the plan is computed (prepopulateCurrentAssignments, balance): the strategy value is shared by all rebalances of a process, and records left from an earlier plan make getTheActualPartitionToBeMoved substitute partitions that have nothing to do with this plan (partitions moved between old members, partitions that no longer exist assigned, members named \"\")")
	c.Floor(rule, 1)
	fn := c.NeedFn(rule, "stickyBalanceStrategy.Plan")
	if fn == nil {
		return
	}
	fresh := func(it Item) bool {
		st, ok := it.In.(*ssa.Store)
		if !ok || !StoreTo(nil, "stickyBalanceStrategy.movements")(it) {
			return false
		}
		// the value stored: a struct whose map fields are made here
		v := st.Val
		if u, ok := v.(*ssa.UnOp); ok && u.Op == token.MUL {
			if al, ok := u.X.(*ssa.Alloc); ok {
				made := 0
				for _, l := range p.literalsOf(fn, "partitionMovements") {
					if l.alloc == al {
						for _, fv := range l.fields {
							if _, isMake := fv.(*ssa.MakeMap); isMake {
								made++
							}
						}
					}
				}
				return made >= 2
			}
		}
		return false
	}
	reg := WholeFn(fn)
	// literalsOf looks at *T allocations; the composite literal of a struct value is an Alloc of the struct too
	first := p.CallTo("prepopulateCurrentAssignments")
	if len(reg.Find(first)) == 0 {
		c.Unresolved(rule, "prepopulateCurrentAssignments call in Plan")
		return
	}
	it, path := reg.MustPrecede(fresh, first)
	c.Check(it.IsZero(), rule, fn, "reset-before-planning", nil, "s.movements is reset on every path before planning starts", "Plan can start with the movement records of an earlier plan (s.movements is not reset on every path): stale records steer getTheActualPartitionToBeMoved", path)
}
