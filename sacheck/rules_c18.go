package main

// C18 — interceptors run exactly once per message and cannot break the pipeline.

import (
	"fmt"
	"go/constant"
	"go/token"
	"go/types"
	"sort"
	"strings"

	"golang.org/x/tools/go/ssa"
)

func init() {
	register(&propDef{
		ID:    "C18",
		Title: "Interceptors run exactly once per message and cannot break the pipeline",
		Explain: "Decides on every path: the producer dispatcher applies interceptors only on a message's first pass (guard msg.retries == 0, which also excludes the internal markers) (C18.once-producer); in the consumer feeder every send of a message on Messages() is preceded by exactly one application of the interceptors to that element — in particular the slow-reader loop, which restarts at the element the outer loop already intercepted, must not intercept it again (C18.once-consumer); " +
			"OnSend/OnConsume are invoked only inside the recover wrapper, whose deferred closure calls recover() (C18.contained); interceptor slices are walked in index order (C18.order). " +
			"NOT covered: what an interceptor does to the message; panics outside the interceptor call itself.",
		Rules: []func(*Ctx){c18Producer, c18Consumer, c18Contained, c01Retry, c18ResetOnHandBack, c01ErrLost, c18RetryCountKept, c05ClearResetsAll, c18HandlerCannotPanic, c02RetryLevelWidth, c18ConfigSliceNotWritten},
	})
}

func c18Producer(c *Ctx) {
	p := c.P
	rule := "C18.once-producer"
	c.Doc(rule, "every call of ProducerMessage.safelyApplyInterceptor in the dispatcher loop is guarded by msg.retries == 0 for the received message")
	c.Floor(rule, 1)
	fn := c.NeedFn(rule, "asyncProducer.dispatcher")
	if fn == nil {
		return
	}
	fi := Info(fn)
	loops, vals := rangeChanLoops(fi, FieldLoad(pInputCh))
	if len(loops) != 1 {
		c.Unresolved(rule, "range p.input loop")
		return
	}
	reg, msg := fi.Iteration(loops[0]), vals[0]
	sites := reg.Find(p.CallTo("ProducerMessage.safelyApplyInterceptor"))
	if len(sites) == 0 {
		c.Unresolved(rule, "interceptor application in the dispatcher")
	}
	for _, s := range sites {
		g, path := reg.Guarded(s, Cmp{token.EQL, FieldLoadOf("ProducerMessage.retries", Same(msg)), ConstInt(0)})
		c.Check(g, rule, fn, "first-pass-only", s.Instr(), "interceptors applied only under msg.retries == 0 (first pass; internal fin markers re-enter with retries > 0)",
			"producer interceptors run on every pass through the dispatcher: a retried message (and the internal fin marker) is intercepted again", path)
	}
	// who else applies producer interceptors
	for _, f := range p.Fns {
		if f != fn && hasItem(f, p.CallTo("ProducerMessage.safelyApplyInterceptor")) {
			c.Fail(rule, f, "foreign-application", nil, "producer interceptors applied outside the dispatcher", nil)
		}
	}
}

// evalIdxCond: if cond compares the induction value of loop l with an integer constant, evaluate it
// for the given index value; ok=false if the condition is not of that form.
func evalIdxCond(cond ssa.Value, l *Loop, idxVal int64, atLeast bool) (val bool, ok bool) {
	bo, isB := cond.(*ssa.BinOp)
	if !isB {
		return false, false
	}
	var k *ssa.Const
	op := bo.Op
	if cst, isC := bo.Y.(*ssa.Const); isC && idxFromLoop(bo.X, l) {
		k = cst
	} else if cst, isC := bo.X.(*ssa.Const); isC && idxFromLoop(bo.Y, l) {
		k = cst
		op = swapOp(op)
	}
	var kv int64
	if k == nil {
		// an index that does not start at 0 (`for j := from; …`): a comparison with the very value it starts at is a
		// comparison of the relative position with 0
		rel := func(idx, other ssa.Value) bool {
			if !idxFromLoop(idx, l) {
				return false
			}
			init := loopIndexInit(idx, l)
			return init != nil && sameValue(init, other)
		}
		switch {
		case rel(bo.X, bo.Y):
		case rel(bo.Y, bo.X):
			op = swapOp(op)
		default:
			return false, false
		}
		kv = 0
	} else {
		if k.Value == nil || k.Value.Kind() != constant.Int {
			return false, false
		}
		kv = k.Int64()
		// a comparison with a constant says something about the relative position only if the index starts at 0
		idx := bo.X
		if _, isC := bo.X.(*ssa.Const); isC {
			idx = bo.Y
		}
		if init := loopIndexInit(idx, l); init != nil {
			// (a range loop's hidden index starts at the constant -1 and is incremented before use)
			if _, isC := init.(*ssa.Const); !isC {
				return false, false
			}
		}
	}
	if !atLeast {
		switch op {
		case token.EQL:
			return idxVal == kv, true
		case token.NEQ:
			return idxVal != kv, true
		case token.LSS:
			return idxVal < kv, true
		case token.LEQ:
			return idxVal <= kv, true
		case token.GTR:
			return idxVal > kv, true
		case token.GEQ:
			return idxVal >= kv, true
		}
		return false, false
	}
	// idx ranges over [idxVal, ∞): decide only when the answer is the same for all of them
	switch op {
	case token.GTR:
		if idxVal > kv {
			return true, true
		}
	case token.GEQ:
		if idxVal >= kv {
			return true, true
		}
	case token.LSS:
		if idxVal >= kv {
			return false, true
		}
	case token.LEQ:
		if idxVal > kv {
			return false, true
		}
	case token.EQL:
		if idxVal > kv {
			return false, true
		}
	case token.NEQ:
		if idxVal > kv {
			return true, true
		}
	}
	return false, false
}

func c18Consumer(c *Ctx) {
	p := c.P
	rule := "C18.once-consumer"
	c.Doc(rule, "responseFeeder: every send of an element of msgs on child.messages is preceded by exactly one child.interceptors(element); for the slow-reader loop over msgs[i:], the first element is the one the outer loop already intercepted (branches on the inner index are evaluated for index 0 and for index ≥ 1 separately)")
	c.Floor(rule, 2)
	fn := c.NeedFn(rule, "partitionConsumer.responseFeeder")
	if fn == nil {
		return
	}
	fi := Info(fn)
	// "the interceptors are applied to elem": child.interceptors(elem), or that helper written out — a range loop
	// over conf.Consumer.Interceptors whose body calls elem.safelyApplyInterceptor(…); the loop as a whole is one
	// application and is represented by the len(...) of its header
	type writtenOut struct {
		anchor ssa.Instruction
		elem   ssa.Value
	}
	var loops []writtenOut
	for _, l := range fi.Loops {
		var lenCall *ssa.Call
		for _, in := range l.Head.Instrs {
			if bo, ok := in.(*ssa.BinOp); ok && bo.Op == token.LSS {
				if cl, ok := bo.Y.(*ssa.Call); ok {
					if bi, ok := cl.Call.Value.(*ssa.Builtin); ok && bi.Name() == "len" && FieldLoad("Config.Consumer.Interceptors")(cl.Call.Args[0]) {
						lenCall = cl
					}
				}
			}
		}
		if lenCall == nil {
			continue
		}
		for _, s := range fi.Iteration(l).Find(p.CallTo("ConsumerMessage.safelyApplyInterceptor")) {
			loops = append(loops, writtenOut{lenCall, callArgs(s)[0]})
		}
	}
	icallAny := func(it Item) bool {
		if p.CallTo("partitionConsumer.interceptors")(it) {
			return true
		}
		for _, w := range loops {
			if it.In == w.anchor {
				return true
			}
		}
		return false
	}
	icallArg := func(it Item) ssa.Value {
		if p.CallTo("partitionConsumer.interceptors")(it) {
			return callArgs(it)[1]
		}
		for _, w := range loops {
			if it.In == w.anchor {
				return w.elem
			}
		}
		return nil
	}
	icall := func(elem VM) Ev {
		return func(it Item) bool { return icallAny(it) && elem(icallArg(it)) }
	}
	sends := fi.Find(SendOn(FieldLoad("partitionConsumer.messages"), nil))
	if len(sends) < 2 {
		c.Unresolved(rule, "sends on child.messages in responseFeeder")
		return
	}
	// element description: (loop, base slice is msgs itself or msgs[i:] of an outer loop)
	type elemInfo struct {
		loop  *Loop
		outer *Loop // non-nil: the element is msgs[outerIdx + innerIdx]
		val   ssa.Value
	}
	classify := func(v ssa.Value) (elemInfo, bool) {
		// the value sent may be a phi/cell: take the element loads that flow into it
		for _, e := range phiEdges(canonLoadThrough(v)) {
			sl, l, ok := rangeElem(fi, e)
			if !ok {
				// msgs[i+j]
				u, isU := strip(e).(*ssa.UnOp)
				if !isU {
					continue
				}
				ia, isIA := u.X.(*ssa.IndexAddr)
				if !isIA {
					continue
				}
				if bo, isB := ia.Index.(*ssa.BinOp); isB && bo.Op == token.ADD {
					for _, lo := range fi.Loops {
						for _, li := range fi.Loops {
							if lo != li && ((idxFromLoop(bo.X, lo) && idxFromLoop(bo.Y, li)) || (idxFromLoop(bo.Y, lo) && idxFromLoop(bo.X, li))) && lo.Head.Dominates(li.Head) {
								return elemInfo{loop: li, outer: lo, val: e}, true
							}
						}
					}
				}
				continue
			}
			// msgs[j] in a loop `for j := i; …` whose index starts at the index of an enclosing loop
			if u, isU := strip(e).(*ssa.UnOp); isU {
				if ia, isIA := u.X.(*ssa.IndexAddr); isIA && l != nil {
					if init := loopIndexInit(ia.Index, l); init != nil {
						for _, lo := range fi.Loops {
							if lo != l && idxFromLoop(init, lo) && lo.Head.Dominates(l.Head) {
								return elemInfo{loop: l, outer: lo, val: e}, true
							}
						}
					}
				}
			}
			if s2, isS := sl.(*ssa.Slice); isS && s2.Low != nil {
				for _, lo := range fi.Loops {
					if lo != l && idxFromLoop(s2.Low, lo) {
						return elemInfo{loop: l, outer: lo, val: e}, true
					}
				}
				return elemInfo{}, false
			}
			return elemInfo{loop: l, val: e}, true
		}
		return elemInfo{}, false
	}
	for _, s := range sends {
		var v ssa.Value
		if s.Sel != nil {
			v = s.Sel.States[s.Case].Send
		} else {
			v = s.In.(*ssa.Send).X
		}
		ei, ok := classify(v)
		if !ok {
			c.Fail(rule, fn, "send", s.Instr(), "cannot relate the message sent on child.messages to an element of msgs (unrecognised loop shape): interceptor accounting undecidable", nil)
			continue
		}
		// which loop is the send in?  A send inside a loop nested in the loop over msgs must send the element at
		// (outer index + inner index): sending msgs[j] there replays the head of the response and never delivers its tail
		if sl := fi.InnermostLoop(itemBlock(s)); sl != nil && ei.loop != nil {
			// nested in another loop that itself walks the messages of the response (the loop of another send)
			nested := false
			for _, s2 := range sends {
				var v2 ssa.Value
				if s2.Sel != nil {
					v2 = s2.Sel.States[s2.Case].Send
				} else {
					v2 = s2.In.(*ssa.Send).X
				}
				if e2, ok2 := classify(v2); ok2 && e2.loop != nil && e2.loop != sl && (e2.loop.Blocks[sl.Head] || e2.loop.Head.Dominates(sl.Head)) && !sl.Blocks[e2.loop.Head] {
					nested = true
				}
			}
			if ei.outer == nil && nested && ei.loop == sl {
				c.Fail("C03.feeder-elements", fn, "inner-loop-element", s.Instr(), "the loop that hands over the rest of a response after a reader stall sends an element indexed from the start of the response, not from the element the feeder was blocked on: already delivered messages are delivered again and the tail of the response is lost", nil)
				continue
			}
			c.OK("C03.feeder-elements", fn, "send-element", s.Instr(), "the message sent is the element of the response at the feeder's current position")
		}
		if ei.outer == nil {
			// outer loop send: exactly one interception of this element before the send
			reg := fi.Iteration(ei.loop)
			ic := icall(Same(ei.val))
			it, path := reg.MustPrecede(ic, IsItem(s))
			two := false
			for _, a := range reg.Find(ic) {
				if b, _ := reg.From(a.After()).Reach(ic, IsItem(s)); !b.IsZero() {
					// a second interception reachable before the send
					if x, _ := reg.From(b.After()).Reach(IsItem(s), nil); !x.IsZero() {
						two = true
					}
				}
			}
			c.Check(it.IsZero() && !two, rule, fn, "outer-send", s.Instr(), "element intercepted exactly once before it is sent",
				"a message can be sent on Messages() without (or with two) interceptor applications", path)
			continue
		}
		// inner (slow-reader) loop: element index = outer index + j
		outerReg := fi.Iteration(ei.outer)
		outerElemIC := func(it Item) bool {
			if !icallAny(it) {
				return false
			}
			_, l, ok := rangeElem(fi, icallArg(it))
			return ok && l == ei.outer
		}
		innerIC := func(it Item) bool {
			if !icallAny(it) {
				return false
			}
			e2, ok := classify(icallArg(it))
			return ok && e2.loop == ei.loop
		}
		// does the outer interception precede the inner loop on every path?
		innerEntry := Pt{ei.loop.Head, 0}
		pre, _ := outerReg.Reach(func(it Item) bool { return it.In != nil && it.In.Block() == innerEntry.B }, outerElemIC)
		outerAlready := pre.IsZero()
		inner := fi.Iteration(ei.loop)
		for _, phase := range []struct {
			name    string
			idx     int64
			atLeast bool
			want    int
		}{{"first-element", 0, false, 0}, {"later-elements", 1, true, 1}} {
			want := phase.want
			if phase.name == "first-element" && !outerAlready {
				want = 1
			}
			r := *inner
			r.Cut = func(from, to *ssa.BasicBlock) bool {
				iff, ok := lastInstr(from).(*ssa.If)
				if !ok {
					return false
				}
				val, ok := evalIdxCond(iff.Cond, ei.loop, phase.idx, phase.atLeast)
				if !ok {
					return false
				}
				return (val && to == from.Succs[1] && from.Succs[0] != to) || (!val && to == from.Succs[0] && from.Succs[1] != to)
			}
			hit, path := r.Reach(IsItem(s), innerIC) // send reachable without interception
			n := len(r.Find(innerIC))
			var bad string
			switch {
			case want == 0 && n > 0:
				// interception reachable in this phase and then the send?
				for _, a := range r.Find(innerIC) {
					if x, _ := r.From(a.After()).Reach(IsItem(s), nil); !x.IsZero() {
						bad = "the element the outer loop already intercepted is intercepted again by the slow-reader loop before it is sent (interceptor applied twice to the message the reader was blocked on)"
					}
				}
			case want == 1 && !hit.IsZero():
				bad = "an element can be sent by the slow-reader loop without having been intercepted"
			}
			c.Check(bad == "", rule, fn, "inner-send:"+phase.name, s.Instr(),
				fmt.Sprintf("%s of the slow-reader loop: %d interceptor application(s) before the send, as required (outer application precedes the loop: %v)", phase.name, want, outerAlready), bad, path)
		}
	}
}

// canonLoadThrough: a value read back from a local cell (variable assigned in several places):
// resolve to the phi/values stored, one level.
func canonLoadThrough(v ssa.Value) ssa.Value { return strip(v) }

func c18Contained(c *Ctx) {
	p := c.P
	rule := "C18.contained"
	c.Doc(rule, "OnSend/OnConsume are invoked only inside safelyApplyInterceptor, after a deferred closure that calls recover() was installed; the interceptor slices are ranged in index order")
	c.Floor(rule, 4)
	for _, w := range []struct{ fn, method string }{{"ProducerMessage.safelyApplyInterceptor", "ProducerInterceptor.OnSend"}, {"ConsumerMessage.safelyApplyInterceptor", "ConsumerInterceptor.OnConsume"}} {
		fn := c.NeedFn(rule, w.fn)
		if fn == nil {
			continue
		}
		reg := WholeFn(fn)
		call := p.CallTo(w.method)
		deferRecover := func(it Item) bool {
			d, ok := it.In.(*ssa.Defer)
			if !ok {
				return false
			}
			f := p.FuncOfValue(d.Call.Value)
			return f != nil && hasItem(f, func(it Item) bool {
				cc, ok := callCommon(it)
				if !ok {
					return false
				}
				b, ok := cc.Value.(*ssa.Builtin)
				return ok && b.Name() == "recover"
			})
		}
		if len(reg.Find(call)) == 0 {
			c.Unresolved(rule, w.method+" call in "+w.fn)
			continue
		}
		it, path := reg.MustPrecede(deferRecover, call)
		c.Check(it.IsZero(), rule, fn, "recover-installed", nil, "a deferred recover() is installed before "+w.method,
			w.method+" can run without a deferred recover(): a panicking interceptor kills the pipeline goroutine", path)
		var others []string
		for _, f := range p.Fns {
			if f != fn && hasItem(f, call) {
				others = append(others, p.Name(f))
			}
		}
		sort.Strings(others)
		c.Check(len(others) == 0, rule, fn, "only-wrapper-calls:"+w.method, nil, w.method+" is invoked only by the recover wrapper", w.method+" is also invoked unprotected by "+strings.Join(others, ", "), nil)
	}
}

// C18.reset-on-hand-back (shared with C01): a message handed back to the application starts from scratch if it is
// submitted again.
func c18ResetOnHandBack(c *Ctx) {
	p := c.P
	rule := "C18.reset-on-hand-back"
	c.Doc(rule, "asyncProducer.returnError / returnSuccesses: before a message is sent on the errors / successes channel, its retries and flags fields are set to 0 on the message object itself — a store through the message pointer, or a call of a function that on every path stores 0 to those fields through the pointer parameter it is given (ProducerMessage.clear with a pointer receiver).  The dispatcher takes retries == 0 for 'first pass of an application message': a message handed back with its old count and submitted again is not intercepted, not counted in flight and not partitioned")
	c.Floor(rule, 2)
	// resets(f, k): does function f, on every path, store 0 to <param k>.field?
	mustReset := func(f *ssa.Function, k int, field string) bool {
		if f == nil || f.Blocks == nil || k >= len(f.Params) {
			return false
		}
		if _, isPtr := f.Params[k].Type().Underlying().(*types.Pointer); !isPtr {
			return false
		}
		ev := func(it Item) bool {
			st, ok := it.In.(*ssa.Store)
			if !ok || !ConstInt(0)(st.Val) {
				return false
			}
			fa, ok := st.Addr.(*ssa.FieldAddr)
			if !ok || canon(fa.X) != ssa.Value(f.Params[k]) && paramOfCell(canon(fa.X)) != f.Params[k] {
				return false
			}
			_, name, _, ok := ownerField(fa)
			return ok && name == field
		}
		esc, _ := WholeFn(f).Escape(ev)
		return !esc
	}
	resetOf := func(msg ssa.Value, field string) Ev {
		return func(it Item) bool {
			switch x := it.In.(type) {
			case *ssa.Store:
				if !ConstInt(0)(x.Val) {
					return false
				}
				fa, ok := x.Addr.(*ssa.FieldAddr)
				if !ok || !sameValue(fa.X, msg) {
					return false
				}
				_, name, _, ok := ownerField(fa)
				return ok && name == field
			case *ssa.Call:
				f := x.Call.StaticCallee()
				if f == nil {
					return false
				}
				for i, a := range x.Call.Args {
					if sameValue(a, msg) && mustReset(f, i, field) {
						return true
					}
				}
			}
			return false
		}
	}
	// every function of the producer that sends on one of the two channels (returnError and returnSuccesses today; the
	// dispatcher's rejection of input after shutdown hands back a message that never got further than `retries == 0`)
	type site struct{ fn, ch string }
	sites := []site{{"asyncProducer.returnError", "asyncProducer.errors"}, {"asyncProducer.returnSuccesses", "asyncProducer.successes"}}
	for _, ch := range []string{"asyncProducer.errors", "asyncProducer.successes"} {
		for _, f := range p.Fns {
			if f.Blocks == nil || rootOf(f).Pkg != p.Sarama || !p.inFile(f, "async_producer.go") {
				continue
			}
			n := p.Name(f)
			if n == "asyncProducer.returnError" || n == "asyncProducer.returnSuccesses" || n == "asyncProducer.dispatcher" {
				continue
			}
			if hasItem(f, SendOn(FieldLoad(ch), nil)) {
				sites = append(sites, site{n, ch})
			}
		}
	}
	for _, t := range sites {
		fn := c.NeedFn(rule, t.fn)
		if fn == nil {
			continue
		}
		fi := Info(fn)
		sends := fi.Find(SendOn(FieldLoad(t.ch), nil))
		if len(sends) == 0 {
			c.Unresolved(rule, "send on "+t.ch+" in "+t.fn)
			continue
		}
		for _, s := range sends {
			snd, isSend := s.In.(*ssa.Send)
			if !isSend {
				c.Fail(rule, fn, "reset-before-send:"+t.ch, s.Instr(), "a message is handed back on "+t.ch+" from a select case: not analysed", nil)
				continue
			}
			// the message handed back: the value sent, or the Msg field of the ProducerError literal sent
			var msg ssa.Value
			if isPtrToNamed(snd.X.Type(), "ProducerMessage") {
				msg = snd.X
			} else {
				for _, l := range p.literalsOf(fn, "ProducerError") {
					if l.fields["Msg"] != nil {
						msg = l.fields["Msg"]
					}
				}
			}
			if msg == nil {
				c.Unresolved(rule, "the message handed back by "+t.fn)
				continue
			}
			reg := WholeFn(fn)
			if l := fi.InnermostLoop(snd.Block()); l != nil {
				reg = fi.Iteration(l)
			}
			var bad []string
			var wpath []*ssa.BasicBlock
			for _, field := range []string{"retries", "flags"} {
				if it, path := reg.Reach(IsItem(s), resetOf(msg, field)); !it.IsZero() {
					bad = append(bad, field)
					wpath = path
				}
			}
			c.Check(len(bad) == 0, rule, fn, "reset-before-send:"+t.ch, snd, "retries and flags are reset on the message before it is handed back", "a message can be handed back on "+t.ch+" without "+strings.Join(bad, "/")+" having been reset on the message object itself (a reset applied to a copy of the struct does nothing): if the application submits the message again the dispatcher takes it for an internal retry — interceptors are skipped, it is not counted in flight (negative WaitGroup later) and not partitioned", wpath)
		}
	}
}

// loopIndexInit: the value the index φ of loop l (idx itself, or the φ idx is derived from) has on entry to the loop.
func loopIndexInit(idx ssa.Value, l *Loop) ssa.Value {
	ph, ok := idx.(*ssa.Phi)
	if !ok {
		if bo, isB := idx.(*ssa.BinOp); isB {
			ph, ok = bo.X.(*ssa.Phi)
		}
	}
	if !ok || ph == nil || ph.Block() != l.Head {
		return nil
	}
	for i, pr := range ph.Block().Preds {
		if !l.Blocks[pr] && i < len(ph.Edges) {
			return ph.Edges[i]
		}
	}
	return nil
}
