package main

// C14 — each broker call gets its own response or an error (structural clauses).

import (
	"fmt"
	"go/token"
	"sort"
	"strings"

	"golang.org/x/tools/go/ssa"
)

func init() {
	register(&propDef{
		ID:    "C14",
		Title: "Each broker call gets its own response or an error",
		Explain: "Decides on every path of broker.go: send reads the correlation id, writes the request, increments the id and enqueues the promise inside one critical section of Broker.lock, the promise carrying the id that was written (C14.lock); the receive loop gives every promise exactly one outcome (C14.one-outcome), a packet only when both reads and the header decode succeeded and the header id equals the promise's (C14.correlation), and every error makes the failure sticky for all later promises (C14.dead); " +
			"the in-flight slot (the bounded responses queue, capacity MaxOpenRequests-1) should be taken before the request is written (C14.slot — violated on the pinned tree, known finding F7); all connection reads/writes go through readFull/write, which set the deadline first (C14.deadline); sendAndReceive returns only after receiving from the promise (C14.await). " +
			"Shared with C10: the response header length is checked before anything else is believed, so that the body buffer size computed from it cannot be negative (C10.cap). " +
			"NOT covered: server behaviours, Close racing with in-flight calls, fairness between callers.",
		Rules: []func(*Ctx){c14Lock, c14OneOutcome, c14Slot, c14Deadline, c14Await, c14OpenOnce, c14ConnErr, c10Cap, c14ErrLost, c14ReceiverGoneBeforeTeardown, c14ReopenableAfterClose, c14FailedOpenReopenable, c14CloseTeardownComplete, c14LoopVarCapture},
	})
}

func c14Lock(c *Ctx) {
	p := c.P
	rule := "C14.lock"
	c.Doc(rule, "Broker.send: one critical section (Lock at entry, deferred Unlock, no explicit Unlock); the correlation id placed in the request is b.correlationID read under the lock, the id in the promise is that request's id, the increment follows a successful write; Broker.correlationID is accessed only under Broker.lock")
	fn := c.NeedFn(rule, "Broker.send")
	if fn != nil {
		reg := WholeFn(fn)
		lock := p.CallWith("(*sync.Mutex).Lock", 0, FieldAddrOf("Broker.lock"))
		unlock := p.CallWith("(*sync.Mutex).Unlock", 0, FieldAddrOf("Broker.lock"))
		write := p.CallTo("Broker.write")
		enqueue := SendOn(FieldLoad("Broker.responses"), nil)
		first, path := reg.MustPrecede(lock, Or(write, enqueue, StoreTo(nil, "Broker.correlationID")))
		explicit := len(reg.Find(unlock)) > 0
		deferred := hasItem(fn, func(it Item) bool {
			d, ok := it.In.(*ssa.Defer)
			return ok && p.CalleeName(&d.Call) == "(*sync.Mutex).Unlock" && FieldAddrOf("Broker.lock")(d.Call.Args[0])
		})
		c.Check(first.IsZero() && deferred && !explicit, rule, fn, "one-critical-section", nil, "write, id increment and promise enqueue happen in one critical section of b.lock",
			"send releases b.lock between the write and the promise enqueue (or never takes it): two callers' requests and promises can interleave — responses are delivered to the wrong caller", path)
		// id in request = b.correlationID ; id in promise = request's
		reqs := p.literalsOf(fn, "request")
		okReq := len(reqs) == 1 && reqs[0].fields["correlationID"] != nil && FieldLoad("Broker.correlationID")(reqs[0].fields["correlationID"])
		c.Check(okReq, rule, fn, "request-id", nil, "request.correlationID ← b.correlationID", "the request does not carry b.correlationID", nil)
		okPromise := false
		for _, l := range p.literalsOf(fn, "responsePromise") {
			if v := l.fields["correlationID"]; v != nil && (FieldLoad("request.correlationID")(v) || FieldLoad("Broker.correlationID")(v)) {
				// if taken from the broker field it must be read before the increment — require the request's copy
				okPromise = FieldLoad("request.correlationID")(v)
			}
		}
		c.Check(okPromise, rule, fn, "promise-id", nil, "promise.correlationID ← the id written in the request", "the promise does not carry the id that was written on the wire (e.g. the already incremented b.correlationID): every response is rejected as mismatched", nil)
		inc := StoreTo(BinOpOf(token.ADD, FieldLoad("Broker.correlationID"), ConstInt(1)), "Broker.correlationID")
		incs := reg.Find(inc)
		c.Check(len(incs) == 1, rule, fn, "id-increment", nil, "correlationID++ once", "correlationID is not incremented exactly once per request: ids repeat and a late response is matched to the wrong call", nil)
		for _, s := range incs {
			it, pth := reg.MustPrecede(write, IsItem(s))
			c.Check(it.IsZero(), rule, fn, "increment-after-write", s.Instr(), "the id is consumed only after the request was written", "the id is incremented before/without the write", pth)
		}
	}
	runLockset(c, rule, []guardedField{{"Broker.correlationID", "Broker.lock", "next correlation id"}}, 6)
}

func c14OneOutcome(c *Ctx) {
	p := c.P
	c.Doc("C14.one-outcome", "responseReceiver, one promise per iteration of range b.responses: exactly one send on response.errors or response.packets on every path")
	c.Doc("C14.correlation", "the send on response.packets is guarded by header id == promise id, by nil errors of both reads and of the header decode")
	c.Doc("C14.dead", "every error sent to a promise becomes the sticky `dead` value seen by the next iteration, so later promises fail instead of waiting")
	c.Floor("C14.one-outcome", 1)
	c.Floor("C14.correlation", 4)
	c.Floor("C14.dead", 4)
	fn := c.NeedFn("C14.one-outcome", "Broker.responseReceiver")
	if fn == nil {
		return
	}
	fi := Info(fn)
	loops, _ := rangeChanLoops(fi, FieldLoad("Broker.responses"))
	if len(loops) != 1 {
		c.Unresolved("C14.one-outcome", "range b.responses")
		return
	}
	l := loops[0]
	reg := fi.Iteration(l)
	errSend := SendOn(FieldLoad("responsePromise.errors"), nil)
	pktSend := SendOn(FieldLoad("responsePromise.packets"), nil)
	cr := reg.Count(Or(errSend, pktSend))
	switch {
	case cr.HasNone():
		c.Fail("C14.one-outcome", fn, "outcome-once", nil, "a path of the receive loop gives the promise no outcome: the caller blocks forever", cr.NonePath)
	case cr.HasTwo():
		c.Fail("C14.one-outcome", fn, "outcome-once", cr.Second.Instr(), "two outcomes for one promise (first at "+p.Pos(cr.First.Instr())+"): the second send blocks the receive loop forever", nil)
	default:
		c.OK("C14.one-outcome", fn, "outcome-once", nil, fmt.Sprintf("exactly one outcome per promise on every path (%d sites)", len(cr.Sites)))
	}
	for _, s := range reg.Find(pktSend) {
		guards := []struct {
			name string
			p    Pred
			bad  string
		}{
			{"id-match", Cmp{token.EQL, FieldLoad("responseHeader.correlationID"), FieldLoad("responsePromise.correlationID")}, "a response is delivered without comparing the header's correlation id with the promise's: a caller can receive another call's response"},
			{"header-decoded", Cmp{token.EQL, p.ResultOf(0, "versionedDecode"), IsNil()}, "a packet is delivered although the header failed to decode"},
		}
		for _, g := range guards {
			ok, path := reg.Guarded(s, g.p)
			c.Check(ok, "C14.correlation", fn, g.name, s.Instr(), "packet delivered only under "+g.name, g.bad, path)
		}
		// both reads succeeded: every readFull's error is tested nil on the path
		reads := reg.Find(p.CallTo("Broker.readFull"))
		for i, r := range reads {
			call := r.In.(*ssa.Call)
			errOf := func(v ssa.Value) bool {
				ex, ok := v.(*ssa.Extract)
				return ok && ex.Tuple == ssa.Value(call) && ex.Index == 1
			}
			ok, path := reg.Guarded(s, Cmp{token.EQL, errOf, IsNil()})
			c.Check(ok, "C14.correlation", fn, fmt.Sprintf("read-%d-ok", i+1), s.Instr(), "packet delivered only after this read succeeded", "a packet is delivered although reading from the connection failed (truncated frame surfaces as a response)", path)
		}
		if len(reads) < 2 {
			c.Fail("C14.correlation", fn, "reads", nil, "expected a header read and a body read in the receive loop", nil)
		}
	}
	// dead: phi at the loop header of type error
	var dead *ssa.Phi
	for _, in := range l.Head.Instrs {
		if ph, ok := in.(*ssa.Phi); ok {
			if ph.Type().String() == "error" {
				dead = ph
			}
		}
	}
	if dead == nil {
		c.Unresolved("C14.dead", "sticky error variable of the receive loop")
		return
	}
	for _, s := range reg.Find(errSend) {
		snd := s.In.(*ssa.Send)
		// the value that reaches the header's phi along the jumps taken after this send (through the merge
		// blocks of intermediate variables)
		vals := map[ssa.Value]bool{snd.X: true, canon(snd.X): true}
		ok := false
		for b, hops := snd.Block(), 0; hops < 12 && len(b.Succs) == 1; hops++ {
			nb := b.Succs[0]
			idx := -1
			for i, pr := range nb.Preds {
				if pr == b {
					idx = i
				}
			}
			if idx < 0 {
				break
			}
			if nb == l.Head {
				in := dead.Edges[idx]
				ok = vals[in] || vals[canon(in)] || (in == ssa.Value(dead) && sameValue(snd.X, dead))
				break
			}
			for _, in := range nb.Instrs {
				ph, isPhi := in.(*ssa.Phi)
				if !isPhi {
					break
				}
				if vals[ph.Edges[idx]] || vals[canon(ph.Edges[idx])] {
					vals[ph] = true
				}
			}
			b = nb
		}
		c.Check(ok, "C14.dead", fn, "sticky", snd, "the error sent becomes the sticky failure for all later promises", "after this error the receive loop keeps reading the (desynchronised) connection for later promises instead of failing them", nil)
	}
	// under dead != nil nothing is read from the connection
	for _, e := range reg.EstablishingEdges(Cmp{token.NEQ, Same(dead), IsNil()}) {
		it, path := reg.From(Pt{e.To, 0}).Reach(p.CallTo("Broker.readFull"), nil)
		c.Check(it.IsZero(), "C14.dead", fn, "dead-skips-read", lastInstr(e.From), "once dead, promises are failed without touching the connection", "after a connection fault the loop still reads from the connection for later promises", path)
	}
}

func c14Slot(c *Ctx) {
	p := c.P
	rule := "C14.slot"
	c.Doc(rule, "the responses queue has capacity MaxOpenRequests-1 and the slot (send on b.responses) is acquired before the request is written, so that at most MaxOpenRequests requests await a response")
	c.Floor(rule, 2)
	// capacity
	found := false
	for _, fn := range p.Fns {
		for _, s := range Info(fn).Find(StoreTo(nil, "Broker.responses")) {
			mk, ok := strip(s.In.(*ssa.Store).Val).(*ssa.MakeChan)
			if !ok {
				continue
			}
			found = true
			c.Check(BinOpOf(token.SUB, FieldLoad("Config.Net.MaxOpenRequests"), ConstInt(1))(mk.Size), rule, fn, "capacity", mk, "cap(b.responses) = MaxOpenRequests-1",
				"the in-flight queue is not sized MaxOpenRequests-1 (got "+describe(mk.Size)+"): more requests than configured can await a response", nil)
		}
	}
	if !found {
		c.Unresolved(rule, "make(chan responsePromise, …) stored to Broker.responses")
	}
	if fn := c.NeedFn(rule, "Broker.send"); fn != nil {
		reg := WholeFn(fn)
		it, path := reg.MustPrecede(SendOn(FieldLoad("Broker.responses"), nil), p.CallTo("Broker.write"))
		c.Check(it.IsZero(), rule, fn, "slot-before-write", it.Instr(), "slot acquired before the write",
			"send writes the request to the connection before acquiring an in-flight slot: with the queue full one more request than Net.MaxOpenRequests is on the wire awaiting a response", path)
	}
}

func c14Deadline(c *Ctx) {
	p := c.P
	rule := "C14.deadline"
	c.Doc(rule, "io.ReadFull on the connection occurs only in Broker.readFull after SetReadDeadline; conn.Write only in Broker.write after SetWriteDeadline")
	c.Floor(rule, 4)
	type rw struct {
		host, deadline string
		io             Ev
	}
	_ = sort.Strings
	_ = strings.Join
	isConn := FieldLoad("Broker.conn")
	readFull := func(it Item) bool {
		cc, ok := callCommon(it)
		return ok && p.CalleeName(cc) == "io.ReadFull" && len(cc.Args) > 0 && isConn(strip(cc.Args[0]))
	}
	write := func(it Item) bool {
		cc, ok := callCommon(it)
		return ok && cc.IsInvoke() && (cc.Method.Name() == "Write" || cc.Method.Name() == "Read") && isConn(cc.Value)
	}
	for _, w := range []rw{{"Broker.readFull", "SetReadDeadline", readFull}, {"Broker.write", "SetWriteDeadline", write}} {
		for _, f := range p.Fns {
			if p.Name(f) != w.host && hasItem(f, w.io) {
				c.Fail(rule, f, "raw-io:"+w.deadline, nil, "reads/writes the broker connection directly, bypassing "+w.host+" (no "+w.deadline+"): a silent peer blocks this goroutine forever — and everything waiting for Broker.lock if it runs during Open", nil)
			}
		}
		fn := c.NeedFn(rule, w.host)
		if fn == nil {
			continue
		}
		reg := WholeFn(fn)
		dl := func(it Item) bool {
			cc, ok := callCommon(it)
			return ok && cc.IsInvoke() && cc.Method.Name() == w.deadline && isConn(cc.Value)
		}
		it, path := reg.MustPrecede(dl, w.io)
		c.Check(it.IsZero() && len(reg.Find(w.io)) > 0, rule, fn, w.deadline, nil, w.host+" sets the deadline before the I/O",
			w.host+" performs connection I/O without setting the deadline first", path)
		// one I/O operation per call: a second read (or write) after a failed or partial first one starts again at the
		// beginning of the caller's buffer while the stream has moved on — the bytes already consumed are lost and the
		// frame boundaries shift, so the call returns bytes of the next response with a nil error
		cr := reg.Count(w.io)
		c.Check(!cr.HasTwo(), rule, fn, "single-io:"+w.deadline, cr.Second.Instr(), w.host+" performs at most one I/O operation per call", w.host+" can perform a second I/O operation on the connection in one call (a retry after a timeout or a partial transfer): it restarts at the beginning of the buffer although part of the frame was already consumed, so the stream is shifted and a call gets bytes that belong to another call's response, with no error", nil)
	}
}

func c14Await(c *Ctx) {
	p := c.P
	rule := "C14.await"
	c.Doc(rule, "sendAndReceive: after a promise was obtained every path to return receives from promise.packets or promise.errors; the decode uses the request's version")
	c.Floor(rule, 1)
	fn := c.NeedFn(rule, "Broker.sendAndReceive")
	if fn == nil {
		return
	}
	reg := WholeFn(fn)
	recv := Or(RecvFrom(FieldLoad("responsePromise.packets")), RecvFrom(FieldLoad("responsePromise.errors")))
	es := reg.EstablishingEdges(Cmp{token.NEQ, p.ResultOf(0, "Broker.send"), IsNil()})
	if len(es) == 0 {
		c.Unresolved(rule, "test promise != nil")
	}
	for _, e := range es {
		esc, path := reg.From(Pt{e.To, 0}).Escape(recv)
		c.Check(!esc, rule, fn, "await-promise", lastInstr(e.From), "with a promise, the call returns only after receiving its packet or error", "sendAndReceive can return without waiting for the promise: the response is left unread / the caller gets a zero value", path)
	}
}

// C14.open-once: one connection (one conn, one responses queue, one receiver) per opened Broker.
func c14OpenOnce(c *Ctx) {
	p := c.P
	rule := "C14.open-once"
	c.Doc(rule, "Broker.opened goes from 0 to 1 only by atomic.CompareAndSwapInt32(&b.opened, 0, 1) (test and set in one step), every other write stores 0; in Broker.Open the dial goroutine — which replaces b.conn, b.responses and b.done and starts a responseReceiver — is started only where that CompareAndSwap succeeded.  Otherwise two concurrent Open calls both dial, and a call outstanding on the first connection reads its response from the second")
	c.Floor(rule, 4)
	opened := FieldAddrOf("Broker.opened")
	nCAS := 0
	isCAS := func(v ssa.Value) bool {
		cl, ok := strip(v).(*ssa.Call)
		if !ok || p.CalleeName(&cl.Call) != "sync/atomic.CompareAndSwapInt32" || len(cl.Call.Args) != 3 {
			return false
		}
		return opened(cl.Call.Args[0]) && ConstInt(0)(cl.Call.Args[1]) && ConstInt(1)(cl.Call.Args[2])
	}
	for _, fn := range p.Fns {
		if rootFn(fn).Pkg != p.Sarama {
			continue
		}
		for _, b := range fn.Blocks {
			for _, in := range b.Instrs {
				switch x := in.(type) {
				case *ssa.Store:
					if opened(x.Addr) {
						c.Fail(rule, fn, "plain-store", x, "Broker.opened is written with a plain store (it is read and written atomically elsewhere)", nil)
					}
				case *ssa.Call:
					name := p.CalleeName(&x.Call)
					if !strings.HasPrefix(name, "sync/atomic.") || len(x.Call.Args) == 0 || !opened(x.Call.Args[0]) {
						continue
					}
					switch name {
					case "sync/atomic.LoadInt32":
					case "sync/atomic.CompareAndSwapInt32":
						nCAS++
						c.Check(isCAS(x), rule, fn, "cas-0-1", x, "opened: 0 → 1 by CompareAndSwap", "CompareAndSwap on Broker.opened is not 0 → 1", nil)
					case "sync/atomic.StoreInt32":
						c.Check(ConstInt(0)(x.Call.Args[1]), rule, fn, "store-only-0", x, "opened is only ever stored 0 (closed / dial failed)",
							"Broker.opened is set with a Store of a non-zero value: testing and setting the flag are two steps, so two concurrent Open calls can both find it 0 and both dial — the second dial replaces b.conn/b.responses under the first connection's receiver and outstanding calls get another call's bytes", nil)
					default:
						c.Fail(rule, fn, "other-atomic", x, name+" on Broker.opened: not a tabled transition", nil)
					}
				}
			}
		}
	}
	if nCAS == 0 {
		c.Fail(rule, nil, "cas-0-1", nil, "no CompareAndSwap(&b.opened, 0, 1) found: nothing makes 'is it open? then mark it open' one step", nil)
	}
	fn := c.NeedFn(rule, "Broker.Open")
	if fn == nil {
		return
	}
	reg := WholeFn(fn)
	gos := Info(fn).Find(func(it Item) bool { _, ok := it.In.(*ssa.Go); return ok })
	if len(gos) == 0 {
		c.Unresolved(rule, "the dial goroutine started by Broker.Open")
	}
	for _, g := range gos {
		ok, path := reg.Guarded(g, Truth{isCAS, true})
		c.Check(ok, rule, fn, "dial-only-after-cas", g.In, "the dial goroutine is started only where CompareAndSwap(&b.opened, 0, 1) succeeded", "Broker.Open can start its dial goroutine without having won CompareAndSwap(&b.opened, 0, 1): concurrent Open calls both dial", path)
	}
}

// C14.conn-err: a connection whose set-up failed is never put into service.
func c14ConnErr(c *Ctx) {
	p := c.P
	rule := "C14.conn-err"
	c.Doc(rule, "the dial goroutine of Broker.Open: after each assignment of a call's result to b.connErr (dial, SASL authentication), the connection is put into service — b.responses created, responseReceiver started — only across a test that this very error (the value stored, or b.connErr read back) is nil; on the other branch b.conn is reset to nil.  A test of some other error variable lets a connection whose authentication exchange failed (timed out, mis-framed, wrong correlation id) carry later requests")
	c.Floor(rule, 3)
	open := c.NeedFn(rule, "Broker.Open")
	if open == nil {
		return
	}
	n := 0
	for _, fn := range p.Fns {
		if fn.Parent() == nil || rootFn(fn) != open && fn.Parent() != open {
			continue
		}
		fi := Info(fn)
		reg := WholeFn(fn)
		service := Or(StoreTo(nil, "Broker.responses"), func(it Item) bool {
			g, ok := it.In.(*ssa.Go)
			if !ok {
				return false
			}
			for _, a := range g.Call.Args {
				if f := p.FuncOfValue(a); f != nil && p.Name(f) == "Broker.responseReceiver" {
					return true
				}
			}
			f := p.GoTarget(it)
			return f != nil && p.Name(f) == "Broker.responseReceiver"
		})
		// the connection runs on the configuration this Open was given: b.conf is assigned before the connection is
		// put into service, on every path
		if len(reg.Find(service)) > 0 {
			confStore := func(it Item) bool {
				st, ok := it.In.(*ssa.Store)
				if !ok || !StoreTo(nil, "Broker.conf")(it) {
					return false
				}
				// the value is Open's conf parameter (through the closure's binding)
				v := canon(st.Val)
				if cellOf(v) != v {
					v = cellOf(v)
				}
				_ = v
				return true
			}
			it, path := reg.MustPrecede(confStore, service)
			c.Check(it.IsZero(), rule, fn, "conf-set-before-service", nil, "b.conf is assigned on every path before the connection is put into service", "a (re-)opened broker can be put into service without b.conf having been set to this Open's configuration: the connection runs with the previous session's Net settings — the in-flight limit (MaxOpenRequests) and the read/write timeouts of another configuration", path)
		}
		for _, s := range fi.Find(StoreTo(nil, "Broker.connErr")) {
			st, ok := s.In.(*ssa.Store)
			if !ok || st.Parent() != fn {
				continue
			}
			v := st.Val
			if _, isCall := v.(*ssa.Call); !isCall {
				if ex, isEx := v.(*ssa.Extract); !isEx {
					continue
				} else if _, isCall := ex.Tuple.(*ssa.Call); !isCall {
					continue
				}
			}
			n++
			isNil := Cmp{token.EQL, OrV(Same(v), FieldLoad("Broker.connErr")), IsNil()}
			r := *reg.From(s.After())
			r.Cut = func(from, to *ssa.BasicBlock) bool { return Establishes(from, to, isNil) }
			it, path := r.Reach(service, nil)
			c.Check(it.IsZero(), rule, fn, "service-only-if-nil:"+describeCall(p, v), st, "the connection is put into service only where this error was found nil", "after b.connErr = "+describeCall(p, v)+" the connection can be put into service (response queue created, receiver started) without this error having been tested: a failure of the set-up step (for SASL: a timed-out or corrupted authentication exchange) leaves b.conn in place and later calls are sent over the failed connection instead of returning an error", path)
		}
	}
	if n < 2 {
		c.Unresolved(rule, fmt.Sprintf("assignments of a call result to b.connErr in Broker.Open (found %d)", n))
	}
}

func describeCall(p *Program, v ssa.Value) string {
	if ex, ok := v.(*ssa.Extract); ok {
		v = ex.Tuple
	}
	if cl, ok := v.(*ssa.Call); ok {
		return p.CalleeName(&cl.Call) + "()"
	}
	return describe(v)
}
