package main

// C06 — committed offsets are marked offsets, and no mark is lost (structural clauses).

import (
	"go/token"
	"sort"
	"strings"

	"golang.org/x/tools/go/ssa"
)

const (
	pomOffset   = "partitionOffsetManager.offset"
	pomMetadata = "partitionOffsetManager.metadata"
	pomDirty    = "partitionOffsetManager.dirty"
	pomDone     = "partitionOffsetManager.done"
)

func init() {
	register(&propDef{
		ID:    "C06",
		Title: "Committed offsets are marked offsets, and no mark is lost",
		Explain: "Decides on every path of offset_manager.go: the pending position is written only by MarkOffset under offset > pom.offset and by ResetOffset under offset <= pom.offset, each time with metadata and dirty = true (C06.monotone); dirty is cleared only when position and metadata still equal what was committed (C06.keep-dirty); a commit carries pom.offset/pom.metadata of dirty partitions read under the partition lock and the response is matched against the request's own block (C06.commit-what-was-marked); the request identifies the group, member and generation of this manager (C06.identity); " +
			"Close stops the loop, marks the partitions closed, then flushes in a loop bounded by Offsets.Retry.Max before the forced release (C06.close); NextOffset returns the position if ≥ 0 else the configured initial one (C06.next); only an ErrNoError answer can clear dirty and missing blocks are reported (C06.errors); pom/om state is accessed under its lock (C06.lock, lockset analysis). " +
			"under a consumer group the session's MarkOffset/ResetOffset/MarkMessage/Commit hand every call on to the partition's offset manager, whatever the state of the session context (C06.session-forwards). " +
			"NOT covered: that a later commit is actually issued (ticker/liveness), coordinator fault classes beyond their code paths.",
		Rules: []func(*Ctx){c06Monotone, c06KeepDirty, c06Commit, c06Identity, c06Close, c06Remaining, c06Next, c06Errors, c06Lock, c06Version, c06ErrLost, c06Recover, c06ManageOnce, c06ScanBeforeNil, c06FinalFlushIgnoresClosing, c06LoopGoneBeforeFlush, c06RefreshReregisters, c06EveryFlushAttempts, c06CloseOnCommitError, c06FinalFlushExits, c06SessionForwards, c06DeferUnlockInLoop, c06RecursiveLock},
	})
}

func c06Monotone(c *Ctx) {
	p := c.P
	rule := "C06.monotone"
	c.Doc(rule, "every store to pom.offset outside the constructor is in MarkOffset guarded by offset > pom.offset or in ResetOffset guarded by offset <= pom.offset (offset = the parameter, which is also the value stored); the metadata store and dirty = true follow on the same path")
	c.Floor(rule, 5)
	var writers []string
	for _, fn := range p.Fns {
		fi := Info(fn)
		for _, s := range fi.Find(StoreTo(nil, pomOffset)) {
			st := s.In.(*ssa.Store)
			base, _ := matchPath(fieldChain(st.Addr), pomOffset)
			if _, isAlloc := base.(*ssa.Alloc); isAlloc {
				continue // composite literal in the constructor: object not yet shared
			}
			name := p.Name(fn)
			writers = append(writers, name)
			var guard Pred
			switch name {
			case "partitionOffsetManager.MarkOffset":
				guard = Cmp{token.GTR, Same(st.Val), FieldLoad(pomOffset)}
			case "partitionOffsetManager.ResetOffset":
				guard = Cmp{token.LEQ, Same(st.Val), FieldLoad(pomOffset)}
			default:
				c.Fail(rule, fn, "foreign-writer", st, "pom.offset written outside MarkOffset/ResetOffset: the pending position can move without a mark", nil)
				continue
			}
			isParam := ParamN(1)(st.Val)
			reg := WholeFn(fn)
			g, path := reg.Guarded(s, guard)
			c.Check(g && isParam, rule, fn, "guard", st, "position stored only under the monotonicity test, and it is the caller's offset",
				"pom.offset can be stored without the direction test (MarkOffset must never lower, ResetOffset never raise the pending position)", path)
			esc1, p1 := reg.From(s.After()).Escape(StoreTo(ConstBool(true), pomDirty))
			c.Check(!esc1, rule, fn, "dirty-follows", st, "dirty = true follows the store", "a new position is stored without setting dirty: it is never committed", p1)
			esc2, p2 := reg.From(s.After()).Escape(StoreTo(ParamN(2), pomMetadata))
			c.Check(!esc2, rule, fn, "metadata-follows", st, "the metadata of the same call is stored with it", "position stored without its metadata: a commit pairs the new offset with stale metadata", p2)
		}
	}
	sort.Strings(writers)
	c.Check(len(writers) == 2, rule, nil, "writers", nil, "writers of pom.offset: "+strings.Join(writers, ", "), "expected exactly MarkOffset and ResetOffset to write pom.offset, found: "+strings.Join(writers, ", "), nil)
}

func c06KeepDirty(c *Ctx) {
	p := c.P
	rule := "C06.keep-dirty"
	c.Doc(rule, "every store dirty = false is guarded by pom.offset == <committed offset> and pom.metadata == <committed metadata> (the parameters of updateCommitted)")
	c.Floor(rule, 1)
	n := 0
	for _, fn := range p.Fns {
		for _, s := range Info(fn).Find(StoreTo(ConstBool(false), pomDirty)) {
			st := s.In.(*ssa.Store)
			base, _ := matchPath(fieldChain(st.Addr), pomDirty)
			if _, isAlloc := base.(*ssa.Alloc); isAlloc {
				continue
			}
			n++
			reg := WholeFn(fn)
			g1, p1 := reg.Guarded(s, Cmp{token.EQL, FieldLoad(pomOffset), ParamN(1)})
			g2, p2 := reg.Guarded(s, Cmp{token.EQL, FieldLoad(pomMetadata), ParamN(2)})
			path := p1
			if g1 {
				path = p2
			}
			c.Check(g1 && g2, rule, fn, "clear-guard", st, "dirty cleared only if offset and metadata still equal what was committed",
				"dirty is cleared without comparing the current position/metadata with the committed ones: a mark made while the commit was in flight is lost", path)
		}
	}
	if n == 0 {
		c.Fail(rule, nil, "clear-guard", nil, "dirty is never cleared (every tick re-commits everything) — or the clearing site is not recognised", nil)
	}
}

func c06Commit(c *Ctx) {
	p := c.P
	rule := "C06.commit-what-was-marked"
	c.Doc(rule, "constructRequest: AddBlock(pom.topic, pom.partition, pom.offset, ts, pom.metadata) of one partition manager, guarded by pom.dirty; handleResponse: updateCommitted receives offset/metadata of the request's block for that same partition")
	c.Floor(rule, 3)
	if fn := c.NeedFn(rule, "offsetManager.constructRequest"); fn != nil {
		calls := Info(fn).Find(p.CallTo("OffsetCommitRequest.AddBlock"))
		if len(calls) == 0 {
			c.Unresolved(rule, "AddBlock in constructRequest")
		}
		for _, s := range calls {
			a := callArgs(s)
			want := map[int]string{1: "partitionOffsetManager.topic", 2: "partitionOffsetManager.partition", 3: pomOffset, 5: pomMetadata}
			ok := len(a) == 6
			var base ssa.Value
			for i, path := range want {
				if !ok {
					break
				}
				if !FieldLoad(path)(a[i]) {
					ok = false
					break
				}
				b, _ := matchPath(fieldChain(strip(a[i])), path)
				if base == nil {
					base = b
				} else if !sameValue(base, b) {
					ok = false
				}
			}
			c.Check(ok, rule, fn, "block-args", s.Instr(), "block ← (topic, partition, offset, metadata) of one partition manager", "the commit block is not built from the pending offset/metadata of the partition it names", nil)
			g, path := WholeFn(fn).Guarded(s, Truth{FieldLoad(pomDirty), true})
			c.Check(g, rule, fn, "only-dirty", s.Instr(), "only dirty partitions are committed", "a partition is committed without the dirty test", path)
		}
	}
	if fn := c.NeedFn(rule, "offsetManager.handleResponse"); fn != nil {
		calls := Info(fn).Find(p.CallTo("partitionOffsetManager.updateCommitted"))
		if len(calls) == 0 {
			c.Fail(rule, fn, "ack-from-request-block", nil, "handleResponse never calls updateCommitted: dirty is never cleared", nil)
		}
		for _, s := range calls {
			a := callArgs(s)
			ok := len(a) == 3 && FieldLoad("offsetCommitRequestBlock.offset")(a[1]) && FieldLoad("offsetCommitRequestBlock.metadata")(a[2])
			if ok {
				b1, _ := matchPath(fieldChain(strip(a[1])), "offsetCommitRequestBlock.offset")
				b2, _ := matchPath(fieldChain(strip(a[2])), "offsetCommitRequestBlock.metadata")
				ok = sameValue(b1, b2)
				// the block is req.blocks[pom.topic][pom.partition] for the receiver pom
				if lk, isL := strip(b1).(*ssa.Lookup); ok && isL {
					okIdx := FieldLoadOf("partitionOffsetManager.partition", Same(a[0]))(lk.Index)
					lk2, isL2 := strip(lk.X).(*ssa.Lookup)
					ok = okIdx && isL2 && FieldLoadOf("partitionOffsetManager.topic", Same(a[0]))(lk2.Index) && FieldLoadOf("OffsetCommitRequest.blocks", ParamN(2))(lk2.X)
				} else if ok {
					// or the other way round: the request's blocks are ranged, and the partition manager is the one
					// registered under the very keys of the block: for t, bs := range req.blocks { for p, b := range bs {
					// pom := om.poms[t][p] … pom.updateCommitted(b.offset, b.metadata) } }
					ok = false
					mapRangeKV := func(v ssa.Value, idx int) (*ssa.Next, bool) {
						ex, isEx := strip(v).(*ssa.Extract)
						if !isEx || ex.Index != idx {
							return nil, false
						}
						nx, isN := ex.Tuple.(*ssa.Next)
						return nx, isN
					}
					rangedOver := func(nx *ssa.Next) ssa.Value {
						if rg, isR := nx.Iter.(*ssa.Range); isR {
							return strip(rg.X)
						}
						return nil
					}
					if inner, ok1 := mapRangeKV(b1, 2); ok1 {
						if outer, ok2 := mapRangeKV(rangedOver(inner), 2); ok2 && FieldLoadOf("OffsetCommitRequest.blocks", ParamN(2))(rangedOver(outer)) {
							recv := strip(a[0])
							if ex, isEx := recv.(*ssa.Extract); isEx && ex.Index == 0 {
								recv = strip(ex.Tuple)
							}
							if lk, isL := recv.(*ssa.Lookup); isL {
								kp, okp := mapRangeKV(lk.Index, 1)
								lkx := strip(lk.X)
								if ex, isEx := lkx.(*ssa.Extract); isEx && ex.Index == 0 {
									lkx = strip(ex.Tuple)
								}
								if lk2, isL2 := lkx.(*ssa.Lookup); isL2 && okp && kp == inner {
									kt, okt := mapRangeKV(lk2.Index, 1)
									ok = okt && kt == outer && FieldLoad("offsetManager.poms")(lk2.X)
								}
							}
						}
					}
				}
			}
			c.Check(ok, rule, fn, "ack-from-request-block", s.Instr(), "updateCommitted(offset, metadata) of req.blocks[pom.topic][pom.partition]",
				"the acknowledged position handed to updateCommitted is not the one this request carried for that partition (e.g. the current pom.offset): a mark made during the commit is cleared and lost", nil)
		}
	}
}

func c06Identity(c *Ctx) {
	p := c.P
	rule := "C06.identity"
	c.Doc(rule, "every OffsetCommitRequest built by the offset manager carries ConsumerGroup ← om.group, ConsumerID ← om.memberID, ConsumerGroupGeneration ← om.generation")
	c.Floor(rule, 3)
	fn := c.NeedFn(rule, "offsetManager.constructRequest")
	if fn == nil {
		return
	}
	lits := p.literalsOf(fn, "OffsetCommitRequest")
	if len(lits) == 0 {
		c.Unresolved(rule, "OffsetCommitRequest literal")
	}
	// one obligation per identity field (however many literals build the request)
	for _, f := range []struct{ field, src string }{
		{"ConsumerGroup", "offsetManager.group"}, {"ConsumerID", "offsetManager.memberID"}, {"ConsumerGroupGeneration", "offsetManager.generation"},
	} {
		ok := len(lits) > 0
		var at ssa.Instruction
		for _, l := range lits {
			if l.fields[f.field] == nil || !FieldLoad(f.src)(l.fields[f.field]) {
				ok, at = false, l.alloc
			}
		}
		c.Check(ok, rule, fn, "request-identity:"+f.field, at, f.field+" ← "+f.src+" in every request literal", "a commit request does not carry the manager's "+f.field+" ("+f.src+"): the coordinator rejects it or accepts a fenced member's commit", nil)
	}
}

// c06Remaining: Close stops its final flush loop when releasePOMs(false) reports 0.  That number must be the count
// over ALL topics: it is accumulated across the loop over om.poms, never overwritten inside it.
func c06Remaining(c *Ctx) {
	rule := "C06.close"
	fn := c.NeedFn(rule, "offsetManager.releasePOMs")
	if fn == nil {
		return
	}
	fi := Info(fn)
	if len(fi.Loops) == 0 {
		c.Unresolved(rule, "loop over om.poms in releasePOMs")
		return
	}
	// the result: a cell (the function defers the unlock) or a phi
	var cell *ssa.Alloc
	var retVal ssa.Value
	for _, b := range fn.Blocks {
		if r, ok := lastInstr(b).(*ssa.Return); ok && !IsRecoverBlock(b) && len(r.Results) == 1 {
			retVal = r.Results[0]
			if u, ok := r.Results[0].(*ssa.UnOp); ok {
				cell, _ = u.X.(*ssa.Alloc)
			}
		}
	}
	bad := ""
	var at ssa.Instruction
	nStores := 0
	if cell != nil {
		for _, r := range *cell.Referrers() {
			st, ok := r.(*ssa.Store)
			if !ok || st.Addr != ssa.Value(cell) {
				continue
			}
			if fi.InnermostLoop(st.Block()) == nil {
				continue
			}
			nStores++
			// the new value is computed from the old one
			dep := false
			var walk func(v ssa.Value, d int)
			walk = func(v ssa.Value, d int) {
				if d > 8 || dep {
					return
				}
				switch x := v.(type) {
				case *ssa.UnOp:
					if x.X == ssa.Value(cell) {
						dep = true
						return
					}
					walk(x.X, d+1)
				case *ssa.BinOp:
					walk(x.X, d+1)
					walk(x.Y, d+1)
				case *ssa.Phi:
					for _, e := range x.Edges {
						walk(e, d+1)
					}
				case *ssa.Convert:
					walk(x.X, d+1)
				}
			}
			walk(st.Val, 0)
			if !dep {
				bad, at = "the count is overwritten inside the loop over the topics ("+describe(st.Val)+")", st
			}
		}
	}
	if nStores == 0 {
		// an unnamed result: the returned value (directly, or through the cell a function with defers spills its
		// results into) is a local that the loop over the topics carries from one iteration to the next
		var vals []ssa.Value
		if cell != nil {
			for _, r := range *cell.Referrers() {
				if st, ok := r.(*ssa.Store); ok && st.Addr == ssa.Value(cell) {
					vals = append(vals, st.Val)
				}
			}
		} else if retVal != nil {
			vals = append(vals, retVal)
		}
		for _, v := range vals {
			ph, ok := v.(*ssa.Phi)
			if !ok {
				continue
			}
			l := fi.InnermostLoop(ph.Block())
			if l == nil || l.Head != ph.Block() {
				continue
			}
			for i, e := range ph.Edges {
				if !l.Blocks[ph.Block().Preds[i]] || e == ssa.Value(ph) {
					continue
				}
				nStores++
				if !flowsFrom(e, ph, 8) {
					bad, at = "the count is overwritten inside the loop over the topics ("+describe(e)+")", firstInstrOf(ph.Block().Preds[i])
				}
			}
		}
	}
	if nStores == 0 && bad == "" {
		bad = "the result is never updated inside the loop over the topics"
	}
	c.Check(bad == "", rule, fn, "remaining-counts-all-topics", at, "the number releasePOMs returns is accumulated over all topics", bad+": releasePOMs reports the remaining partitions of one topic only, so Close can end its final flush loop while partitions of another topic are still dirty — their last mark is force-released and never committed", nil)
}

func c06Close(c *Ctx) {
	p := c.P
	rule := "C06.close"
	c.Doc(rule, "offsetManager.Close runs inside closeOnce.Do: close(closing) first, then (auto-commit) <-closed, asyncClosePOMs, a flush loop {flushToBroker; releasePOMs(false)} whose condition is bounded by Offsets.Retry.Max, and finally releasePOMs(true) on every path")
	c.Floor(rule, 5)
	fn := c.NeedFn(rule, "offsetManager.Close")
	if fn == nil {
		return
	}
	var body *ssa.Function
	for _, s := range Info(fn).Find(p.CallTo("(*sync.Once).Do")) {
		body = p.closureArg(s, 1)
	}
	if body == nil {
		c.Fail(rule, fn, "once", nil, "Close does not run its body through closeOnce.Do: a second Close closes the closing channel again (panic)", nil)
		return
	}
	c.OK(rule, fn, "once", nil, "body runs inside closeOnce.Do")
	reg := WholeFn(body)
	fi := Info(body)
	closeClosing := CloseOf(FieldLoad("offsetManager.closing"))
	async := p.CallTo("offsetManager.asyncClosePOMs")
	flush := p.CallTo("offsetManager.flushToBroker")
	relSoft := p.CallWith("offsetManager.releasePOMs", 1, ConstBool(false))
	relForce := p.CallWith("offsetManager.releasePOMs", 1, ConstBool(true))
	it, path := reg.MustPrecede(closeClosing, Or(async, flush, relForce, RecvFrom(FieldLoad("offsetManager.closed"))))
	c.Check(it.IsZero() && len(reg.Find(closeClosing)) == 1, rule, body, "stop-loop-first", nil, "close(closing) precedes everything else", "Close flushes/releases before stopping the commit loop (concurrent commits during the final flush)", path)
	it2, path2 := reg.MustPrecede(async, flush)
	c.Check(it2.IsZero() && len(reg.Find(flush)) > 0, rule, body, "mark-closed-before-flush", nil, "asyncClosePOMs precedes the final flush", "the final flush runs before the partitions are marked done (or there is no final flush): marks made up to Close are not committed", path2)
	// the flush is in a loop bounded by Retry.Max, followed by releasePOMs(false)
	okLoop := false
	for _, f := range reg.Find(flush) {
		l := fi.InnermostLoop(itemBlock(f))
		if l == nil {
			continue
		}
		if iff, ok := lastInstr(l.Head).(*ssa.If); ok {
			if bo, ok := iff.Cond.(*ssa.BinOp); ok && (bo.Op == token.LEQ || bo.Op == token.LSS) && FieldLoad("Config.Consumer.Offsets.Retry.Max")(bo.Y) {
				if esc, _ := fi.Iteration(l).From(f.After()).Escape(relSoft); !esc {
					okLoop = true
				}
			}
		}
		// loop condition may sit in a separate for.loop block
		for b := range l.Blocks {
			if iff, ok := lastInstr(b).(*ssa.If); ok {
				if bo, ok := iff.Cond.(*ssa.BinOp); ok && (bo.Op == token.LEQ || bo.Op == token.LSS) && FieldLoad("Config.Consumer.Offsets.Retry.Max")(bo.Y) {
					if esc, _ := fi.Iteration(l).From(f.After()).Escape(relSoft); !esc {
						okLoop = true
					}
				}
			}
		}
		g, p3 := reg.Guarded(f, Truth{FieldLoad("Config.Consumer.Offsets.AutoCommit.Enable"), true})
		c.Check(g, rule, body, "flush-only-autocommit", f.Instr(), "final flush only with auto-commit enabled", "Close commits although auto-commit is disabled", p3)
	}
	c.Check(okLoop, rule, body, "bounded-flush-loop", nil, "flushToBroker; releasePOMs(false) repeated in a loop bounded by Offsets.Retry.Max", "the final flush is not retried up to Offsets.Retry.Max with release of the clean partitions after each attempt", nil)
	esc, p4 := reg.Escape(relForce)
	it5, p5 := reg.MustPrecede(async, relForce)
	c.Check(!esc && it5.IsZero(), rule, body, "forced-release-last", nil, "releasePOMs(true) on every path, after the partitions were marked done", "Close can return without releasing the partition managers (their Errors channels are never closed: PartitionOffsetManager.Close blocks forever)", append(p4, p5...))
}

func c06Next(c *Ctx) {
	rule := "C06.next"
	c.Doc(rule, "NextOffset returns (pom.offset, pom.metadata) only under pom.offset >= 0, otherwise conf.Consumer.Offsets.Initial")
	c.Floor(rule, 2)
	fn := c.NeedFn(rule, "partitionOffsetManager.NextOffset")
	if fn == nil {
		return
	}
	reg := WholeFn(fn)
	for _, b := range fn.Blocks {
		r, ok := lastInstr(b).(*ssa.Return)
		if !ok || len(r.Results) != 2 || IsRecoverBlock(b) {
			continue
		}
		rv := RetVals(r)
		switch {
		case FieldLoad(pomOffset)(rv[0]):
			g, path := reg.Guarded(Item{In: r}, Cmp{token.GEQ, FieldLoad(pomOffset), ConstInt(0)})
			c.Check(g && FieldLoad(pomMetadata)(rv[1]), rule, fn, "stored-position", r, "stored position returned only when >= 0, with its metadata", "NextOffset returns the stored offset without the >= 0 test (a partition without commit starts at -1) or without its metadata", path)
		case FieldLoad("Config.Consumer.Offsets.Initial")(rv[0]):
			c.OK(rule, fn, "initial-position", r, "otherwise the configured initial position")
		default:
			c.Fail(rule, fn, "other-return", r, "NextOffset returns neither the stored position nor Consumer.Offsets.Initial", nil)
		}
	}
}

func c06Errors(c *Ctx) {
	p := c.P
	rule := "C06.errors"
	c.Doc(rule, "handleResponse: updateCommitted is reachable only under err == ErrNoError; a partition of the request that has no answer is reported with ErrIncompleteResponse and not acknowledged")
	c.Floor(rule, 2)
	fn := c.NeedFn(rule, "offsetManager.handleResponse")
	if fn == nil {
		return
	}
	fi := Info(fn)
	upd := p.CallTo("partitionOffsetManager.updateCommitted")
	kerr := func(v ssa.Value) bool {
		n, _ := NamedOf(v.Type())
		return n == "KError"
	}
	noErr, _ := p.ConstNamed("ErrNoError")
	for _, s := range fi.Find(upd) {
		l := fi.InnermostLoop(itemBlock(s))
		reg := WholeFn(fn)
		if l != nil {
			reg = fi.Iteration(l)
		}
		g, path := reg.Guarded(s, Cmp{token.EQL, kerr, ConstInt(noErr)})
		c.Check(g, rule, fn, "ack-only-on-noerror", s.Instr(), "acknowledged only under err == ErrNoError", "a partition whose commit failed can be acknowledged (dirty cleared): its mark is never committed", path)
		// missing answers
		incomplete := func(it Item) bool {
			cc, ok := callCommon(it)
			return ok && p.CalleeName(cc) == "partitionOffsetManager.handleError" && p.ErrVal("ErrIncompleteResponse")(cc.Args[1])
		}
		n := 0
		missing := AnyOf{Cmp{token.EQL, func(v ssa.Value) bool {
			lk, ok := strip(v).(*ssa.Lookup)
			return ok && FieldLoad("OffsetCommitResponse.Errors")(lk.X)
		}, IsNil()}, Truth{func(v ssa.Value) bool {
			ex, ok := v.(*ssa.Extract)
			if !ok || ex.Index != 1 {
				return false
			}
			_, isL := ex.Tuple.(*ssa.Lookup)
			return isL
		}, false}}
		for _, e := range reg.EstablishingEdges(missing) {
			n++
			sub := reg.From(Pt{e.To, 0})
			it, _ := sub.Reach(upd, nil)
			esc, pth := sub.Escape(incomplete)
			c.Check(it.IsZero() && !esc, rule, fn, "missing-block-reported", lastInstr(e.From), "a partition without answer is reported (ErrIncompleteResponse) and stays dirty", "a partition missing from the commit response is silently skipped or acknowledged", pth)
		}
		if n == 0 {
			c.Fail(rule, fn, "missing-block-reported", nil, "handleResponse does not test for partitions missing from the response", nil)
		}
	}
}

func c06Lock(c *Ctx) {
	runLockset(c, "C06.lock", []guardedField{
		{"partitionOffsetManager.offset", "partitionOffsetManager.lock", "pending position"},
		{"partitionOffsetManager.metadata", "partitionOffsetManager.lock", "pending metadata"},
		{"partitionOffsetManager.dirty", "partitionOffsetManager.lock", "uncommitted flag"},
		{"partitionOffsetManager.done", "partitionOffsetManager.lock", "closed flag"},
		{"offsetManager.poms", "offsetManager.pomsLock", "partition managers"},
		{"offsetManager.broker", "offsetManager.brokerLock", "cached coordinator"},
	}, 6)
}

// flowsFrom: v is computed from w through arithmetic, conversions and merges.
func flowsFrom(v, w ssa.Value, depth int) bool {
	if v == w {
		return true
	}
	if depth <= 0 {
		return false
	}
	switch x := v.(type) {
	case *ssa.UnOp:
		return flowsFrom(x.X, w, depth-1)
	case *ssa.BinOp:
		return flowsFrom(x.X, w, depth-1) || flowsFrom(x.Y, w, depth-1)
	case *ssa.Convert:
		return flowsFrom(x.X, w, depth-1)
	case *ssa.Phi:
		for _, e := range x.Edges {
			if e != v && flowsFrom(e, w, depth-1) {
				return true
			}
		}
	}
	return false
}

func firstInstrOf(b *ssa.BasicBlock) ssa.Instruction {
	if len(b.Instrs) == 0 {
		return nil
	}
	return b.Instrs[0]
}

// C06.recover: a commit that failed at the connection level makes the next attempt look the coordinator up again.
func c06Recover(c *Ctx) {
	p := c.P
	rule := "C06.recover"
	c.Doc(rule, "offsetManager.flushToBroker: on every path on which Broker.CommitOffset returned an error, the cached coordinator is released (om.releaseCoordinator(broker), for the broker the commit was sent to) before the function returns — whatever the error is: the broker object is shared with the client and the consumer group, which close it on their own errors, and only a released coordinator is looked up (and re-opened) again; otherwise every later commit, the final ones of Close included, fails locally and the marks are never stored")
	c.Floor(rule, 1)
	fn := c.NeedFn(rule, "offsetManager.flushToBroker")
	if fn == nil {
		return
	}
	reg := WholeFn(fn)
	commits := reg.Find(p.CallTo("Broker.CommitOffset"))
	if len(commits) == 0 {
		c.Unresolved(rule, "Broker.CommitOffset in flushToBroker")
	}
	for _, s := range commits {
		cl, ok := s.In.(*ssa.Call)
		if !ok {
			continue
		}
		var errV ssa.Value
		for _, r := range *cl.Referrers() {
			if ex, ok := r.(*ssa.Extract); ok && ex.Index == 1 {
				errV = ex
			}
		}
		if errV == nil {
			c.Fail(rule, fn, "release-on-commit-error", cl, "the error of CommitOffset is not looked at", nil)
			continue
		}
		broker := cl.Call.Args[0]
		release := func(it Item) bool {
			cc, ok := callCommon(it)
			return ok && p.CalleeName(cc) == "offsetManager.releaseCoordinator" && len(cc.Args) == 2 && sameValue(cc.Args[1], broker)
		}
		bad := false
		var wpath []*ssa.BasicBlock
		edges := reg.EstablishingEdges(Cmp{token.NEQ, Same(errV), IsNil()})
		if len(edges) == 0 {
			bad = true
		}
		for _, e := range edges {
			if esc, path := reg.From(Pt{e.To, 0}).Escape(release); esc {
				bad, wpath = true, path
			}
		}
		c.Check(!bad, rule, fn, "release-on-commit-error", cl, "a failed CommitOffset releases the cached coordinator on every path", "after a failed CommitOffset the cached coordinator can be kept (for some errors): if the shared broker object was closed by the consumer group or the client, every later commit fails with the same local error without the coordinator ever being looked up again — marks made afterwards are never committed, not even by Close", wpath)
	}
}

// C06.manage-once: a partition's offset manager is never replaced while it is still registered.
func c06ManageOnce(c *Ctx) {
	p := c.P
	rule := "C06.manage-once"
	c.Doc(rule, "offsetManager.ManagePartition stores the new partition manager into om.poms[topic][partition] only where that slot was just found empty (lookup == nil for the same key): a manager that is still registered — closed or not — may hold a mark that no commit has carried yet, and only the commit cycle (releasePOMs, once it is clean) may remove it")
	c.Floor(rule, 1)
	fn := c.NeedFn(rule, "offsetManager.ManagePartition")
	if fn == nil {
		return
	}
	n := 0
	for _, s := range Info(fn).Find(func(it Item) bool {
		mu, ok := it.In.(*ssa.MapUpdate)
		return ok && isPtrToNamed(mu.Value.Type(), "partitionOffsetManager")
	}) {
		n++
		mu := s.In.(*ssa.MapUpdate)
		sameSlot := func(v ssa.Value) bool {
			lk, ok := strip(v).(*ssa.Lookup)
			return ok && samePath(lk.X, mu.Map) && samePath(lk.Index, mu.Key)
		}
		// `m[k] == nil`, or `_, taken := m[k]; !taken`
		empty := AnyOf{Cmp{token.EQL, sameSlot, IsNil()}, Truth{func(v ssa.Value) bool {
			ex, ok := v.(*ssa.Extract)
			return ok && ex.Index == 1 && sameSlot(ex.Tuple)
		}, false}}
		g, path := WholeFn(fn).Guarded(s, empty)
		c.Check(g, rule, fn, "slot-empty-before-store", mu, "the new manager is stored only into an empty slot", "ManagePartition can replace a partition manager that is still registered (for instance one that was closed but not yet flushed): its pending mark is dropped from the table and no later commit — not even the final one of Close — carries it", path)
	}
	if n == 0 {
		c.Unresolved(rule, "store of the new partitionOffsetManager in ManagePartition")
	}
	_ = p
}
