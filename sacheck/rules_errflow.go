package main

import (
	"fmt"
	"go/ast"
	"go/token"
	"go/types"
	"strings"

	"golang.org/x/tools/go/ast/astutil"
	"golang.org/x/tools/go/ssa"
)

// Error values that cannot influence anything: assigned to a named variable and overwritten before being read, or
// produced inside a loop and looked at only after the loop (so that a later iteration's success hides an earlier
// failure).  Explicitly discarded errors (`_ = f()`, a bare call statement) are the author's decision and not reported.

type lostErr struct {
	at   ssa.Instruction
	kind string // "overwritten" | "carried"
	call string
}

var errorType = types.Universe.Lookup("error").Type()

func (p *Program) lostErrors(fn *ssa.Function) []lostErr {
	var out []lostErr
	if fn.Blocks == nil {
		return nil
	}
	fi := Info(fn)
	for _, b := range fn.Blocks {
		for _, in := range b.Instrs {
			cl, ok := in.(*ssa.Call)
			if !ok {
				continue
			}
			res := cl.Call.Signature().Results()
			if res.Len() == 0 || !types.Identical(res.At(res.Len()-1).Type(), errorType) {
				continue
			}
			var ev ssa.Value
			if res.Len() == 1 {
				ev = cl
			} else {
				for _, r := range *cl.Referrers() {
					if ex, ok := r.(*ssa.Extract); ok && ex.Index == res.Len()-1 {
						ev = ex
					}
				}
			}
			name := p.CalleeName(&cl.Call)
			// the variable lives in a cell (a named result of a function that defers, an address-taken local): the
			// error is stored, and on some path the cell is stored again before anything loads it
			if ev != nil {
				for _, r := range *ev.Referrers() {
					st, ok := r.(*ssa.Store)
					if !ok || st.Val != ev {
						continue
					}
					cell, ok := st.Addr.(*ssa.Alloc)
					if !ok || !plainCell(cell) {
						continue
					}
					load := func(it Item) bool {
						u, ok := it.In.(*ssa.UnOp)
						return ok && u.Op == token.MUL && u.X == ssa.Value(cell)
					}
					again := func(it Item) bool {
						s2, ok := it.In.(*ssa.Store)
						return ok && s2.Addr == ssa.Value(cell)
					}
					if it, _ := WholeFn(fn).From(Item{In: st}.After()).Reach(again, load); !it.IsZero() {
						out = append(out, lostErr{cl, "overwritten", name})
					}
				}
			}
			if ev == nil || len(*ev.Referrers()) == 0 {
				// no use at all: distinguish "assigned to a variable that is overwritten" from "discarded on purpose"
				if p.assignedToNamedError(cl) {
					out = append(out, lostErr{cl, "overwritten", name})
				}
				continue
			}
			// uses that happen in the same iteration (or outside any loop): everything but the way round the back edge
			loops := map[*ssa.BasicBlock]bool{} // heads of the loops containing the call
			for _, l := range fi.Loops {
				if l.Blocks[b] {
					loops[l.Head] = true
				}
			}
			if len(loops) == 0 {
				continue
			}
			seen := map[ssa.Value]bool{}
			var timely func(v ssa.Value) bool
			timely = func(v ssa.Value) bool {
				if seen[v] {
					return false
				}
				seen[v] = true
				for _, r := range *v.Referrers() {
					switch x := r.(type) {
					case *ssa.Phi:
						if loops[x.Block()] {
							// carried to the next iteration / to after the loop — unless the loop's own condition, evaluated
							// in the head before anything else happens, is what looks at it (`for x, err = f(); err == nil; …`)
							testedInHead := false
							for _, r2 := range *x.Referrers() {
								if _, isPhi := r2.(*ssa.Phi); !isPhi && r2.Block() == x.Block() {
									testedInHead = true
								}
							}
							if testedInHead {
								return true
							}
							continue
						}
						if timely(x) {
							return true
						}
					case *ssa.MakeInterface, *ssa.ChangeInterface, *ssa.ChangeType:
						if timely(x.(ssa.Value)) {
							return true
						}
					default:
						return true
					}
				}
				return false
			}
			if !timely(ev) {
				out = append(out, lostErr{cl, "carried", name})
			}
		}
	}
	return out
}

// assignedToNamedError: the call is the right-hand side of an assignment (or definition) whose left-hand side for the
// error result is a named variable (not the blank identifier).
func (p *Program) assignedToNamedError(cl *ssa.Call) bool {
	pos := cl.Pos()
	if pos == token.NoPos {
		return false
	}
	for _, pkg := range p.Pkgs {
		for _, f := range pkg.Syntax {
			if f.Pos() > pos || pos > f.End() {
				continue
			}
			path, _ := astutil.PathEnclosingInterval(f, pos, pos)
			var call *ast.CallExpr
			for _, n := range path {
				if c, ok := n.(*ast.CallExpr); ok && call == nil {
					call = c
				}
				as, ok := n.(*ast.AssignStmt)
				if !ok {
					continue
				}
				if call == nil || len(as.Rhs) != 1 || ast.Unparen(as.Rhs[0]) != ast.Expr(call) || len(as.Lhs) == 0 {
					return false
				}
				id, ok := as.Lhs[len(as.Lhs)-1].(*ast.Ident)
				return ok && id.Name != "_"
			}
			return false
		}
	}
	return false
}

// errLostRule: rule "<prop>.err-not-lost" over the functions declared in the given files (nil = all of package sarama
// and mocks).
func errLostRule(c *Ctx, rule string, floor int, files []string) {
	p := c.P
	c.Doc(rule, "in the functions of "+describeFiles(files)+": an error returned by a call and assigned to a named variable is read before that variable is assigned again (an `err = f()` immediately followed by `x, err = g()` drops f's verdict), and an error produced inside a loop is looked at in the same iteration, not only after the loop (where a later iteration's success has replaced an earlier failure).  Errors discarded on purpose (`_ = f()`, a bare call statement) are not concerned")
	c.Floor(rule, 1)
	n := 0
	for _, fn := range p.Fns {
		root := rootOf(fn)
		if root.Pkg != p.Sarama && root.Pkg != p.Mocks {
			continue
		}
		if files != nil {
			in := false
			for _, f := range files {
				if p.inFile(fn, f) {
					in = true
				}
			}
			if !in {
				continue
			}
		}
		// count what is examined: calls whose last result is an error
		for _, b := range fn.Blocks {
			for _, in := range b.Instrs {
				if cl, ok := in.(*ssa.Call); ok {
					res := cl.Call.Signature().Results()
					if res.Len() > 0 && types.Identical(res.At(res.Len()-1).Type(), errorType) {
						n++
					}
				}
			}
		}
		for _, l := range p.lostErrors(fn) {
			msg := "the error returned by " + l.call + " is assigned to a variable that is assigned again before it is read: the failure is never seen (for a checksum or length check: corrupted input is accepted)"
			if l.kind == "carried" {
				msg = "the error returned by " + l.call + " inside a loop is only looked at after the loop (or in the next iteration): when a later iteration succeeds, the earlier failure is forgotten and its partial result is used as if it were complete"
			}
			c.Fail(rule, fn, "lost:"+l.call, l.at, msg, nil)
		}
	}
	c.OK(rule, nil, "examined", nil, fmt.Sprintf("%d error-returning calls examined", n))
	if n < floor {
		c.Unresolved(rule, fmt.Sprintf("error-returning calls in scope (found %d)", n))
	}
}

func describeFiles(files []string) string {
	if files == nil {
		return "the package"
	}
	return strings.Join(files, ", ")
}

var codecFiles = []string{"*_request.go", "*_response.go", "message.go", "message_set.go", "record.go", "record_batch.go", "records.go", "control_record.go",
	"real_decoder.go", "real_encoder.go", "prep_encoder.go", "encoder_decoder.go", "length_field.go", "crc32_field.go", "compress.go", "decompress.go",
	"request.go", "response_header.go", "consumer_metadata_request.go", "sticky_assignor_user_data.go", "consumer_group_members.go"}

func c10ErrLost(c *Ctx) { errLostRule(c, "C10.err-not-lost", 400, codecFiles) }
func c08ErrLost(c *Ctx) {
	errLostRule(c, "C08.err-not-lost", 10, []string{"consumer_group.go", "balance_strategy.go"})
}
func c06ErrLost(c *Ctx) { errLostRule(c, "C06.err-not-lost", 10, []string{"offset_manager.go"}) }
func c07ErrLost(c *Ctx) {
	errLostRule(c, "C07.err-not-lost", 20, []string{"consumer_group.go", "offset_manager.go"})
}
func c03ErrLost(c *Ctx) { errLostRule(c, "C03.err-not-lost", 10, []string{"consumer.go"}) }
func c01ErrLost(c *Ctx) {
	errLostRule(c, "C01.err-not-lost", 10, []string{"async_producer.go", "produce_set.go", "sync_producer.go"})
}
func c14ErrLost(c *Ctx) { errLostRule(c, "C14.err-not-lost", 30, []string{"broker.go"}) }
func c15ErrLost(c *Ctx) { errLostRule(c, "C15.err-not-lost", 15, []string{"client.go"}) }
func c19ErrLost(c *Ctx) { errLostRule(c, "C19.err-not-lost", 40, []string{"admin.go"}) }
func c20ErrLost(c *Ctx) {
	errLostRule(c, "C20.err-not-lost", 3, []string{"mocks/async_producer.go", "mocks/sync_producer.go", "mocks/consumer.go", "mocks/mocks.go"})
}

// plainCell: a local variable cell that is only loaded and stored in its own function (not captured by a closure, its
// address not passed on).
func plainCell(a *ssa.Alloc) bool {
	for _, r := range *a.Referrers() {
		switch x := r.(type) {
		case *ssa.Store:
			if x.Addr != ssa.Value(a) {
				return false
			}
		case *ssa.UnOp:
			if x.Op != token.MUL {
				return false
			}
		default:
			return false
		}
	}
	return true
}
