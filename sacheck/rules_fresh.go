package main

import (
	"fmt"
	"go/token"
	"go/types"

	"golang.org/x/tools/go/ssa"
)

// Rules against "optimisations" that reuse, cache or skip (round-10 seeds): a request object built for one call and
// kept for the next, a scan skipped on the strength of a flag, a list shared instead of owned, a trigger armed only
// when "needed", a shutdown test skipped when there is "nothing to wait for".

// allocLeaves: the allocations a value can denote through merges; ok=false if some leaf is something else.
func allocLeaves(v ssa.Value, fn *ssa.Function) (allocs []*ssa.Alloc, ok bool) {
	ok = true
	seen := map[ssa.Value]bool{}
	var walk func(x ssa.Value, d int)
	walk = func(x ssa.Value, d int) {
		if seen[x] || d > 8 {
			return
		}
		seen[x] = true
		x = strip(x)
		switch y := x.(type) {
		case *ssa.Alloc:
			if rootOf(y.Parent()) == rootOf(fn) {
				allocs = append(allocs, y)
				return
			}
			ok = false
		case *ssa.Phi:
			for _, e := range y.Edges {
				walk(e, d+1)
			}
		case *ssa.UnOp:
			// a local variable cell holding the pointer: everything stored there
			if al, isA := y.X.(*ssa.Alloc); isA && y.Op == token.MUL && plainCell(al) {
				for _, r := range *al.Referrers() {
					if st, isS := r.(*ssa.Store); isS && st.Addr == ssa.Value(al) {
						walk(st.Val, d+1)
					}
				}
				return
			}
			ok = false
		default:
			ok = false
		}
	}
	walk(v, 0)
	return allocs, ok && len(allocs) > 0
}

// freshRequestRule: the request handed to the broker is built in this very call.
func freshRequestRule(c *Ctx, rule string, sites []struct{ fn, call string }, why string) {
	p := c.P
	for _, s := range sites {
		fn := c.NeedFn(rule, s.fn)
		if fn == nil {
			continue
		}
		calls := Info(fn).Find(p.CallTo(s.call))
		if len(calls) == 0 {
			c.Unresolved(rule, "call of "+s.call+" in "+s.fn)
			continue
		}
		for _, cl := range calls {
			a := callArgs(cl)
			if len(a) < 2 {
				continue
			}
			_, ok := allocLeaves(a[1], fn)
			c.Check(ok, rule, fn, "fresh-request:"+s.call, cl.Instr(), "the request passed to "+s.call+" is built in this call", "the request passed to "+s.call+" is not (on every path) one built in this call — "+describe(a[1])+": "+why, nil)
		}
	}
}

// C07.identity / fresh-request: group requests are built per call from the member id and generation handed in.
func c07FreshRequests(c *Ctx) {
	rule := "C07.identity"
	freshRequestRule(c, rule, []struct{ fn, call string }{
		{"consumerGroup.heartbeatRequest", "Broker.Heartbeat"},
		{"consumerGroup.joinGroupRequest", "Broker.JoinGroup"},
		{"consumerGroup.syncGroupRequest", "Broker.SyncGroup"},
	}, "a request kept from an earlier call carries that call's member id / generation; the coordinator answers ILLEGAL_GENERATION or UNKNOWN_MEMBER and the session ends although nothing happened")
}

// C03.request / fresh-request: every fetch carries the partitions' current offsets and fetch sizes.
func c03FreshFetchRequest(c *Ctx) {
	rule := "C03.request"
	freshRequestRule(c, rule, []struct{ fn, call string }{
		{"brokerConsumer.fetchNewMessages", "Broker.Fetch"},
	}, "a fetch request kept from the previous round carries the previous per-partition byte budget: after a partial trailing record the consumer doubles child.fetchSize, but the broker keeps being asked with the old size — the record is never delivered (or skipped as too large)")
}

// C06.commit-what-was-marked / scan: constructRequest decides from the partitions themselves.
func c06ScanBeforeNil(c *Ctx) {
	rule := "C06.commit-what-was-marked"
	fn := c.NeedFn(rule, "offsetManager.constructRequest")
	if fn == nil {
		return
	}
	fi := Info(fn)
	// the outermost loop over om.poms
	var outer *Loop
	for _, l := range fi.Loops {
		if outer == nil || len(l.Blocks) > len(outer.Blocks) {
			outer = l
		}
	}
	if outer == nil {
		c.Unresolved(rule, "the loop over om.poms in constructRequest")
		return
	}
	reg := WholeFn(fn)
	r := *reg
	r.Cut = func(from, to *ssa.BasicBlock) bool { return to == outer.Head }
	nilRet := func(it Item) bool {
		ret, ok := it.In.(*ssa.Return)
		if !ok || IsRecoverBlock(ret.Block()) {
			return false
		}
		rv := RetVals(ret)
		return len(rv) == 1 && IsNil()(rv[0])
	}
	it, path := r.Reach(nilRet, nil)
	c.Check(it.IsZero(), rule, fn, "nothing-to-commit-only-after-scan", it.Instr(), "constructRequest answers 'nothing to commit' only after looking at every partition's dirty flag", "constructRequest can return nil without having looked at the partitions (a shortcut on some manager-level flag): a mark or reset that arrived while an earlier commit was in flight keeps its partition dirty, but if the shortcut says 'nothing pending' no later commit — the final ones of Close included — sends it", path)
}

// C12.dying / dispatcher: every redispatch attempt of a partition consumer looks at dying first.
func c12DispatcherObservesDying(c *Ctx) {
	p := c.P
	rule := "C12.dying"
	fn := c.NeedFn(rule, "partitionConsumer.dispatcher")
	if fn == nil {
		return
	}
	fi := Info(fn)
	loops, _ := rangeChanLoops(fi, FieldLoad("partitionConsumer.trigger"))
	if len(loops) == 0 {
		c.Unresolved(rule, "range child.trigger loop of the dispatcher")
		return
	}
	reg := fi.Iteration(loops[0])
	dying := FieldLoad("partitionConsumer.dying")
	looks := func(it Item) bool {
		switch x := it.In.(type) {
		case *ssa.Select:
			for _, st := range x.States {
				if st.Dir == types.RecvOnly && dying(st.Chan) {
					return true
				}
			}
		case *ssa.UnOp:
			return x.Op == token.ARROW && dying(x.X)
		}
		return false
	}
	next := p.CallTo("partitionConsumer.dispatch")
	if len(reg.Find(next)) == 0 {
		c.Unresolved(rule, "call of dispatch in the dispatcher loop")
		return
	}
	it, path := reg.MustPrecede(looks, next)
	c.Check(it.IsZero(), rule, fn, "redispatch-observes-dying", it.Instr(), "every redispatch attempt is preceded by a look at child.dying", "the dispatcher can start a redispatch attempt without having looked at child.dying (for instance when the configured backoff is zero): while the cluster is unreachable the attempts fail and re-trigger for ever, Close/AsyncClose is never noticed, Messages() and Errors() are never closed", path)
}

// C13.balance-always: a sticky plan is always run through the balancer.
func c13BalanceAlways(c *Ctx) {
	p := c.P
	rule := "C13.balance-always"
	c.Doc(rule, "stickyBalanceStrategy.Plan: every path to a successful return passes the call of s.balance (after sortPartitions): there is no shortcut for 'nothing changed' — whether the retained assignment is balanced depends on the subscriptions too (a member that widened its subscription, a deleted topic), which no cheap test of members and partitions covers")
	c.Floor(rule, 1)
	fn := c.NeedFn(rule, "stickyBalanceStrategy.Plan")
	if fn == nil {
		return
	}
	reg := WholeFn(fn)
	bal := p.CallTo("stickyBalanceStrategy.balance")
	if len(reg.Find(bal)) == 0 {
		c.Fail(rule, fn, "balance-on-every-path", nil, "Plan never calls s.balance", nil)
		return
	}
	it, path := reg.MustPrecede(bal, ReturnNilErr())
	c.Check(it.IsZero(), rule, fn, "balance-on-every-path", it.Instr(), "every successful return of Plan follows a call of s.balance", "Plan can return a plan without having run s.balance (a 'nothing changed' shortcut): a retained assignment that is no longer balanced — a member subscribed to more topics than before, a topic gone — is handed back as it is", path)
}

// C08.eligible / owned lists: a member's list of potential partitions is its own.
func c08OwnedPotentialLists(c *Ctx) {
	p := c.P
	rule := "C08.eligible"
	fn := c.NeedFn(rule, "stickyBalanceStrategy.Plan")
	if fn == nil {
		return
	}
	// the map handed to sortPartitions / balance as consumer2AllPotentialPartitions
	var theMap ssa.Value
	for _, callee := range []string{"sortPartitions", "stickyBalanceStrategy.balance"} {
		cf := p.Fn(callee)
		if cf == nil {
			continue
		}
		for _, s := range Info(fn).Find(p.CallTo(callee)) {
			a := callArgs(s)
			if i := paramIdxByName(cf, "consumer2AllPotentialPartitions", -1); i >= 0 && i < len(a) {
				theMap = a[i]
			}
		}
	}
	if theMap == nil {
		c.Unresolved(rule, "the consumer2AllPotentialPartitions argument in Plan")
		return
	}
	n := 0
	for _, s := range Info(fn).Find(MapUpdateOn(func(v ssa.Value) bool { return sameValue(v, theMap) })) {
		mu := s.In.(*ssa.MapUpdate)
		n++
		ok := false
		switch x := strip(mu.Value).(type) {
		case *ssa.MakeSlice:
			ok = true
		case *ssa.Slice:
			// make([]T, k) with constant k: a slice of a new array
			_, ok = x.X.(*ssa.Alloc)
		case *ssa.Call:
			if b, isB := x.Call.Value.(*ssa.Builtin); isB && b.Name() == "append" && len(x.Call.Args) > 0 {
				if lk, isL := strip(x.Call.Args[0]).(*ssa.Lookup); isL && sameValue(lk.X, theMap) && samePath(lk.Index, mu.Key) {
					ok = true
				}
			}
		case *ssa.Const:
			ok = x.Value == nil
		}
		c.Check(ok, rule, fn, "sticky:potential-list-owned", mu, "a member's potential-partition list is a slice made for it, or its own list appended to", "a member's list of potential partitions is taken from somewhere else ("+describe(mu.Value)+") instead of being made for that member: lists of different members share a backing array, an append for one overwrites the other's entries, and eligibility (who may be given which partition) no longer matches the subscriptions — partitions are assigned to nobody or to members not subscribed to their topic", nil)
	}
	if n < 2 {
		c.Unresolved(rule, fmt.Sprintf("stores into consumer2AllPotentialPartitions in Plan (found %d)", n))
	}
}
