package main

import (
	"encoding/json"
	"flag"
	"fmt"
	"os"
	"os/exec"
	"path/filepath"
	"runtime/debug"
	"sort"
	"strconv"
	"strings"
	"time"
)

type propDef struct {
	ID      string
	Title   string
	Explain string // what is decided and what is not
	Assume  []string
	Rules   []func(c *Ctx)
}

var registry = map[string]*propDef{}

func register(d *propDef) { registry[d.ID] = d }

type mutantEdit struct {
	File string `json:"file"`
	Old  string `json:"old"`
	New  string `json:"new"`
	Line int    `json:"line,omitempty"` // 1-based line where Old starts once the earlier edits are applied (disambiguates repeated text)
}

type mutant struct {
	Name   string       `json:"name"`
	File   string       `json:"file"`
	Old    string       `json:"old"`
	New    string       `json:"new"`
	Edits  []mutantEdit `json:"edits,omitempty"` // multi-hunk / multi-file mutants (seeded changes)
	Expect []string     `json:"expect"`          // rule ids (prefix match) one of which must report a violation
	Note   string       `json:"note,omitempty"`
}

type mutantResult struct {
	Name   string   `json:"name"`
	Status string   `json:"status"` // killed | survived | skipped | error
	By     []string `json:"by,omitempty"`
	Detail string   `json:"detail,omitempty"`
	Expect []string `json:"expect,omitempty"`
}

func main() {
	prop := flag.String("prop", "", "property id (C01..C20)")
	tier := flag.String("tier", "quick", "quick|thorough")
	repo := flag.String("repo", "/repo", "repository root")
	verif := flag.String("verif", "/verif", "verif root")
	replay := flag.String("replay", "", "replay file: re-evaluate that obligation")
	mutFile := flag.String("mutant", "", "internal: evaluate one mutant file and print the violated rule keys as JSON")
	goarch := flag.String("goarch", "", "GOARCH for loading (default host)")
	genInv := flag.Bool("gen-inventory", false, "print the function inventory of the tree at -repo and exit")
	flag.BoolVar(&noNormalise, "no-normalise", false, "debugging: do not inline functions that are missing from the inventory")
	verbose := flag.Bool("v", false, "print every obligation")
	flag.Parse()
	if *genInv {
		noNormalise = true
		if err := genInventory(*repo); err != nil {
			fmt.Fprintln(os.Stderr, err)
			os.Exit(2)
		}
		return
	}

	if t := os.Getenv("VERIF_TIER"); t != "" && !flagSet("tier") {
		*tier = t
	}
	seed := 0
	if s := os.Getenv("VERIF_SEED"); s != "" {
		seed, _ = strconv.Atoi(s)
	}
	if *replay != "" {
		os.Exit(doReplay(*replay, *repo, *verif))
	}
	def := registry[*prop]
	if def == nil {
		var ids []string
		for id := range registry {
			ids = append(ids, id)
		}
		sort.Strings(ids)
		fmt.Fprintf(os.Stderr, "unknown property %q; have %v\n", *prop, ids)
		os.Exit(2)
	}
	start := time.Now()

	if *mutFile != "" {
		os.Exit(runMutantChild(def, *mutFile, *repo, *goarch))
	}

	known, err := loadKnown(filepath.Join(*verif, "known-findings.txt"))
	if err != nil {
		fmt.Printf("VIOLATION property=%s replay=%s\n", def.ID, writeFatalReplay(*verif, def.ID, "known-findings unreadable: "+err.Error()))
		os.Exit(1)
	}

	arches := []string{*goarch}
	if *tier == "thorough" {
		arches = []string{*goarch, "386"}
	}
	var all []*Obligation
	var ctx0 *Ctx
	var prog0 *Program
	for ai, arch := range arches {
		p, err := Load(*repo, arch, nil)
		if err != nil {
			fmt.Printf("sacheck: %v\n", err)
			fmt.Printf("VIOLATION property=%s replay=%s\n", def.ID, writeFatalReplay(*verif, def.ID, err.Error()))
			writeEvidence(*verif, def, nil, nil, *tier, seed, start, 1, 0, nil, "load failed: "+err.Error())
			os.Exit(1)
		}
		if p.Normalised != nil && ai == 0 {
			r := p.Normalised
			fmt.Printf("sacheck: %d function(s) are not in the frozen inventory; %d call site(s) inlined, %d helper(s) removed, %d kept as they are (%d rounds).  Positions below refer to the normalised source, written to %s\n",
				len(r.NewFuncs), len(r.Inlined), len(r.Deleted), len(r.Kept), r.Iterations, filepath.Join(*verif, "evidence", "normalised"))
			for _, k := range r.Kept {
				fmt.Printf("sacheck:   kept: %s\n", k)
			}
			dir := filepath.Join(*verif, "evidence", "normalised")
			_ = os.RemoveAll(dir)
			for name, content := range normOverlay {
				rel, err := filepath.Rel(*repo, name)
				if err != nil || strings.HasPrefix(rel, "..") {
					continue
				}
				if orig, err := os.ReadFile(name); err == nil && string(orig) == string(content) {
					continue
				}
				_ = os.MkdirAll(filepath.Dir(filepath.Join(dir, rel)), 0o755)
				_ = os.WriteFile(filepath.Join(dir, rel), content, 0o644)
			}
		}
		c := runRules(def, p)
		if p.Normalised != nil {
			c.Notes = append(c.Notes, fmt.Sprintf("normalisation against inventory.txt: new functions %v; inlined %v; removed %v; kept %v", p.Normalised.NewFuncs, p.Normalised.Inlined, p.Normalised.Deleted, p.Normalised.Kept))
		}
		if ai == 0 {
			ctx0, prog0 = c, p
			all = append(all, c.Obls...)
		} else {
			// second architecture: only new non-ok verdicts are added (same keys otherwise)
			have := map[string]string{}
			for _, o := range all {
				have[o.Key] = o.Status
			}
			for _, o := range c.Obls {
				if st, ok := have[o.Key]; !ok || (st == "ok" && o.Status != "ok") {
					o.Key = o.Key + "@" + arch
					o.Detail = "[GOARCH=" + arch + "] " + o.Detail
					all = append(all, o)
				}
			}
			ctx0.Notes = append(ctx0.Notes, fmt.Sprintf("second pass GOARCH=%s: %d obligations re-evaluated", arch, len(c.Obls)))
		}
	}
	ctx0.Obls = all

	// known findings
	usedKnown := map[string]bool{}
	for _, o := range ctx0.Obls {
		if o.Status == "ok" {
			continue
		}
		for _, k := range known {
			if k.Prop == def.ID && k.Key == strings.SplitN(o.Key, "@", 2)[0] {
				o.Status = "known"
				usedKnown[k.Key] = true
				fmt.Printf("KNOWN-FINDING: property=%s %s — %s (%s %s)\n", def.ID, k.Key, k.Text, o.Func, o.Pos)
			}
		}
	}
	for _, k := range known {
		if k.Prop == def.ID && !usedKnown[k.Key] {
			ctx0.Notes = append(ctx0.Notes, "known finding no longer reported by any rule (repaired or construct gone): "+k.Key)
		}
	}

	nviol := 0
	for _, o := range ctx0.Obls {
		if *verbose || o.Status != "ok" {
			fmt.Printf("  [%s] %s %s %s — %s\n", o.Status, o.Key, o.Func, o.Pos, o.Detail)
		}
		if o.Status == "violation" || o.Status == "unresolved" {
			nviol++
		}
	}

	// thorough: self-test with in-memory mutants
	var mres []mutantResult
	if *tier == "thorough" {
		mres = runSelfTest(def, *repo, *verif)
	}

	n := 0
	for _, o := range ctx0.Obls {
		if o.Status == "violation" || o.Status == "unresolved" {
			n++
			rf := filepath.Join(*verif, "evidence", "replay", fmt.Sprintf("%s-%d.json", def.ID, n))
			_ = writeJSON(rf, map[string]interface{}{"property": def.ID, "obligation": o, "repo": *repo,
				"how": "sacheck -replay <this file> re-evaluates the rule on the current tree and reports the obligation with this key"})
			fmt.Printf("VIOLATION property=%s replay=%s\n", def.ID, rf)
		}
	}
	writeEvidence(*verif, def, ctx0, prog0, *tier, seed, start, nviol, len(arches), mres, "")
	for _, s := range ctx0.summaries() {
		fmt.Printf("  rule %-28s instances=%-3d floor=%-3d ok=%-3d known=%d violated=%d\n", s.Rule, s.Instances, s.Floor, s.Discharged, s.Known, s.Violated)
	}
	fmt.Printf("sacheck %s tier=%s: %d obligations, %d violations, %.1fs\n", def.ID, *tier, len(ctx0.Obls), nviol, time.Since(start).Seconds())
	if nviol > 0 {
		os.Exit(1)
	}
}

func flagSet(name string) bool {
	set := false
	flag.Visit(func(f *flag.Flag) {
		if f.Name == name {
			set = true
		}
	})
	return set
}

func runRules(def *propDef, p *Program) *Ctx {
	c := NewCtx(p, def.ID)
	for i, r := range def.Rules {
		func() {
			defer func() {
				if e := recover(); e != nil {
					c.Obls = append(c.Obls, &Obligation{Rule: def.ID + ".internal", Key: c.mkKey(def.ID+".internal", "", fmt.Sprintf("panic-in-rule-%d", i)),
						Status: "unresolved", Detail: fmt.Sprintf("analysis panic: %v\n%s", e, firstLines(string(debug.Stack()), 14))})
				}
			}()
			r(c)
		}()
	}
	c.finishFloors()
	return c
}

func firstLines(s string, n int) string {
	ls := strings.Split(s, "\n")
	if len(ls) > n {
		ls = ls[:n]
	}
	return strings.Join(ls, "\n")
}

func writeFatalReplay(verif, id, msg string) string {
	rf := filepath.Join(verif, "evidence", "replay", id+"-fatal.json")
	_ = writeJSON(rf, map[string]string{"property": id, "kind": "unresolved", "detail": msg})
	return rf
}

func writeEvidence(verif string, def *propDef, c *Ctx, p *Program, tier string, seed int, start time.Time, nviol, passes int, mres []mutantResult, fatal string) {
	cov := map[string]interface{}{}
	expl := def.Explain
	if fatal != "" {
		expl = "CHECK FAILED BEFORE ANALYSIS: " + fatal + " — " + expl
	}
	cov["explanation"] = expl
	cov["checker_cmd"] = "/verif/check.sh " + def.ID + " " + tier
	obl, dis := 0, 0
	var samples []interface{}
	distinct := map[string]bool{}
	if c != nil {
		for _, o := range c.Obls {
			obl++
			if o.Status == "ok" {
				dis++
			}
			distinct[o.Rule+"|"+o.Func] = true
		}
		// samples: first obligation of every rule, plus every non-ok one
		seenRule := map[string]bool{}
		for _, o := range c.Obls {
			if !seenRule[o.Rule] || o.Status != "ok" {
				seenRule[o.Rule] = true
				if len(samples) < 60 {
					samples = append(samples, o)
				}
			}
		}
		cov["rules"] = c.summaries()
		fns := make([]string, 0, len(c.FnsSeen))
		for f := range c.FnsSeen {
			fns = append(fns, f)
		}
		sort.Strings(fns)
		cov["functions_with_obligations"] = fns
		if len(c.Notes) > 0 {
			cov["notes"] = c.Notes
		}
	}
	if p != nil {
		cov["analysed"] = map[string]interface{}{
			"packages":        []string{saramaPath, saramaPath + "/mocks"},
			"function_bodies": len(p.Fns),
			"basic_blocks":    p.Blocks,
			"instructions":    p.Instrs,
			"load_passes":     passes,
			"source":          "working tree of " + p.Repo + " loaded with go/packages (LoadSyntax) at run time; SSA built with go/ssa",
		}
	}
	cov["obligations"] = obl
	cov["discharged"] = dis
	cov["evaluations"] = obl
	cov["distinct_nontrivial"] = len(distinct)
	cov["rule"] = "one obligation per rule instance (rule × function × construct) found in the SSA of the current tree; distinct = distinct (rule, function) pairs; every obligation is non-trivial in that it is attached to a matched construct (rules that match nothing fail their floor)"
	if len(samples) == 0 {
		samples = append(samples, "none: analysis did not run")
	}
	cov["samples"] = samples
	tb := []string{"go/types + go/ssa (x/tools v0.29.0) model of the source", "rule tables in /verif/sacheck/rules_*.go", "/verif/known-findings.txt", "/verif/sacheck/inventory.txt (frozen function inventory)"}
	if p != nil && p.Normalised != nil {
		tb = append(tb, "source-level inliner of golang.org/x/tools v0.29.0 (copied under sacheck/xt) and the de-literalisation pass of normalise.go, both followed by a full type-check")
		cov["normalisation"] = p.Normalised
	}
	cov["trusted_base"] = tb
	if mres != nil {
		killed, silent, equiv := 0, 0, 0
		for _, m := range mres {
			if m.Status == "killed" {
				killed++
			}
			if m.Status == "silent" {
				silent++
			}
			if len(m.Expect) == 1 && m.Expect[0] == "NONE" {
				equiv++
			}
		}
		cov["selftest"] = map[string]interface{}{"mutants": len(mres) - equiv, "killed": killed, "equivalent_variants": equiv, "equivalent_variants_silent": silent, "results": mres,
			"note": "in-memory source mutants (go/packages overlay); outcome is informational and never changes the exit status"}
	}
	ev := map[string]interface{}{
		"property_id": def.ID,
		"tier":        tier,
		"seed":        seed,
		"level":       "other",
		"coverage":    cov,
		"assumptions": append([]string{"static analysis of the source as loaded; no execution", "structural necessary conditions only: see coverage.explanation for what is not covered"}, def.Assume...),
		"wall_s":      time.Since(start).Seconds(),
		"violations":  nviol,
	}
	if err := writeJSON(filepath.Join(verif, "evidence", def.ID+".json"), ev); err != nil {
		fmt.Fprintf(os.Stderr, "sacheck: cannot write evidence: %v\n", err)
	}
}

// ---------------------------------------------------------------- self-test (thorough)

func loadMutants(verif, id string) []mutant {
	dir := filepath.Join(verif, "mutants", id)
	ents, err := os.ReadDir(dir)
	if err != nil {
		return nil
	}
	var out []mutant
	for _, e := range ents {
		if !strings.HasSuffix(e.Name(), ".json") {
			continue
		}
		b, err := os.ReadFile(filepath.Join(dir, e.Name()))
		if err != nil {
			continue
		}
		var m mutant
		if json.Unmarshal(b, &m) != nil {
			continue
		}
		if m.Name == "" {
			m.Name = strings.TrimSuffix(e.Name(), ".json")
		}
		out = append(out, m)
	}
	sort.Slice(out, func(i, j int) bool { return out[i].Name < out[j].Name })
	return out
}

func runSelfTest(def *propDef, repo, verif string) []mutantResult {
	self, err := os.Executable()
	if err != nil {
		return []mutantResult{{Name: "*", Status: "error", Detail: err.Error()}}
	}
	muts := loadMutants(verif, def.ID)
	res := make([]mutantResult, len(muts))
	sem := make(chan struct{}, 8)
	done := make(chan int, len(muts))
	for i, m := range muts {
		go func(i int, m mutant) {
			sem <- struct{}{}
			defer func() { <-sem; done <- i }()
			res[i] = runOneMutant(self, def, repo, verif, m)
		}(i, m)
	}
	for range muts {
		<-done
	}
	for _, r := range res {
		fmt.Printf("  selftest %-40s %s %v %s\n", r.Name, r.Status, r.By, r.Detail)
	}
	return res
}

func runOneMutant(self string, def *propDef, repo, verif string, m mutant) mutantResult {
	mf := filepath.Join(verif, "mutants", def.ID, m.Name+".json")
	cmd := exec.Command(self, "-prop", def.ID, "-repo", repo, "-verif", verif, "-mutant", mf)
	out, err := cmd.Output()
	r := mutantResult{Name: m.Name, Expect: m.Expect}
	var child struct {
		Status   string   `json:"status"`
		Detail   string   `json:"detail"`
		Violated []string `json:"violated"`
	}
	if jerr := json.Unmarshal(out, &child); jerr != nil {
		r.Status = "error"
		r.Detail = fmt.Sprintf("child: %v %v", err, jerr)
		return r
	}
	switch child.Status {
	case "skipped", "error":
		r.Status, r.Detail = child.Status, child.Detail
	default:
		if len(m.Expect) == 1 && m.Expect[0] == "NONE" {
			// behaviour-preserving variant: the check must stay silent
			if len(child.Violated) == 0 {
				r.Status = "silent"
			} else {
				r.Status = "false-alarm"
				r.Detail = fmt.Sprintf("violations reported on a behaviour-preserving variant: %v", child.Violated)
			}
			return r
		}
		for _, k := range child.Violated {
			match := len(m.Expect) == 0
			for _, e := range m.Expect {
				if strings.HasPrefix(k, e) {
					match = true
				}
			}
			if match {
				r.By = append(r.By, k)
			}
		}
		if len(r.By) > 0 {
			r.Status = "killed"
		} else {
			r.Status = "survived"
			r.Detail = fmt.Sprintf("violations reported: %v", child.Violated)
		}
	}
	return r
}

// runMutantChild: apply the mutant in memory, run the rules, print JSON.
func runMutantChild(def *propDef, mf, repo, goarch string) int {
	emit := func(status, detail string, v []string) int {
		b, _ := json.Marshal(map[string]interface{}{"status": status, "detail": detail, "violated": v})
		fmt.Println(string(b))
		return 0
	}
	b, err := os.ReadFile(mf)
	if err != nil {
		return emit("error", err.Error(), nil)
	}
	var m mutant
	if err := json.Unmarshal(b, &m); err != nil {
		return emit("error", err.Error(), nil)
	}
	edits := m.Edits
	if m.File != "" {
		edits = append([]mutantEdit{{m.File, m.Old, m.New, 0}}, edits...)
	}
	overlay := map[string][]byte{}
	for _, e := range edits {
		abs := filepath.Join(repo, e.File)
		cur, ok := overlay[abs]
		if !ok {
			b, err := os.ReadFile(abs)
			if err != nil && e.Old != "" {
				return emit("skipped", "file missing: "+e.File, nil)
			}
			cur = b // a file the mutant adds starts empty
		}
		n := strings.Count(string(cur), e.Old)
		if n == 0 || (n > 1 && e.Line == 0) {
			return emit("skipped", fmt.Sprintf("hunk does not apply to %s (%d occurrences of the old text)", e.File, n), nil)
		}
		at := strings.Index(string(cur), e.Old)
		if n > 1 {
			// the occurrence starting nearest to the recorded line
			best, bestD := -1, 1<<30
			for off := 0; ; {
				i := strings.Index(string(cur)[off:], e.Old)
				if i < 0 {
					break
				}
				ln := 1 + strings.Count(string(cur)[:off+i], "\n")
				d := ln - e.Line
				if d < 0 {
					d = -d
				}
				if d < bestD {
					best, bestD = off+i, d
				}
				off += i + 1
			}
			at = best
		}
		overlay[abs] = []byte(string(cur)[:at] + e.New + string(cur)[at+len(e.Old):])
	}
	// baseline verdicts on the unmutated tree, to report only what the mutant adds
	base, err := Load(repo, goarch, nil)
	if err != nil {
		return emit("error", "baseline load: "+err.Error(), nil)
	}
	bc := runRules(def, base)
	baseBad := map[string]bool{}
	for _, o := range bc.Obls {
		if o.Status != "ok" {
			baseBad[o.Key] = true
		}
	}
	resetCaches()
	p, err := Load(repo, goarch, overlay)
	if err != nil {
		return emit("error", "mutant does not type-check: "+err.Error(), nil)
	}
	c := runRules(def, p)
	var v []string
	for _, o := range c.Obls {
		if o.Status != "ok" && !baseBad[o.Key] {
			v = append(v, o.Key)
		}
	}
	return emit("ran", "", v)
}

func doReplay(file, repo, verif string) int {
	b, err := os.ReadFile(file)
	if err != nil {
		fmt.Println("replay:", err)
		return 2
	}
	var r struct {
		Property   string      `json:"property"`
		Obligation *Obligation `json:"obligation"`
		Detail     string      `json:"detail"`
	}
	if err := json.Unmarshal(b, &r); err != nil {
		fmt.Println("replay:", err)
		return 2
	}
	def := registry[r.Property]
	if def == nil {
		fmt.Println("replay: unknown property", r.Property)
		return 2
	}
	p, err := Load(repo, "", nil)
	if err != nil {
		fmt.Println("replay: load failed:", err)
		fmt.Printf("VIOLATION property=%s replay=%s\n", def.ID, file)
		return 1
	}
	c := runRules(def, p)
	if r.Obligation == nil {
		fmt.Println("replay: fatal replay (", r.Detail, "): tree now loads")
		return 0
	}
	for _, o := range c.Obls {
		if o.Key == r.Obligation.Key {
			fmt.Printf("replay: %s -> [%s] %s %s — %s\n", o.Key, o.Status, o.Func, o.Pos, o.Detail)
			for _, s := range o.Path {
				fmt.Println("    via", s)
			}
			if o.Status != "ok" {
				fmt.Printf("VIOLATION property=%s replay=%s\n", def.ID, file)
				return 1
			}
			return 0
		}
	}
	fmt.Printf("replay: obligation %s is no longer produced on this tree\n", r.Obligation.Key)
	return 0
}
