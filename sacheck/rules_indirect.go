package main

import (
	"go/token"
	"go/types"

	"golang.org/x/tools/go/ssa"
)

// Rules for helpers the anchored code relies on (round-13 seeds: the change is made in a utility, not in the function
// the property names).

// nestedMapCreatedOnlyIfMissing: in fn, a map stored as a map's value (m[k] = make(map…) / map literal) is stored only
// where m[k] was found missing.
func nestedMapCreatedOnlyIfMissing(c *Ctx, rule string, fn *ssa.Function, floor int, why string) {
	fi := Info(fn)
	n := 0
	for _, s := range fi.Find(func(it Item) bool { _, ok := it.In.(*ssa.MapUpdate); return ok }) {
		mu := s.In.(*ssa.MapUpdate)
		if _, isMap := mu.Value.Type().Underlying().(*types.Map); !isMap {
			continue
		}
		// a freshly made map (possibly merged with the looked-up one)
		fresh := false
		seen := map[ssa.Value]bool{}
		var walk func(v ssa.Value, d int)
		walk = func(v ssa.Value, d int) {
			v = throughCell(v)
			if seen[v] || d > 4 {
				return
			}
			seen[v] = true
			switch x := v.(type) {
			case *ssa.MakeMap:
				fresh = true
			case *ssa.Phi:
				for _, e := range x.Edges {
					walk(e, d+1)
				}
			}
		}
		walk(mu.Value, 0)
		if !fresh {
			continue
		}
		n++
		sameLookup := func(v ssa.Value) bool {
			lk, ok := strip(v).(*ssa.Lookup)
			return ok && samePath(lk.X, mu.Map) && samePath(lk.Index, mu.Key)
		}
		missing := AnyOf{Cmp{token.EQL, sameLookup, IsNil()}, Truth{func(v ssa.Value) bool {
			ex, ok := v.(*ssa.Extract)
			return ok && ex.Index == 1 && sameLookup(ex.Tuple)
		}, false}}
		ok, path := WholeFn(fn).Guarded(s, missing)
		c.Check(ok, rule, fn, "nested-map-created-only-if-missing", mu, "the inner map is created only where the entry is missing", "an inner map is stored without the test that the entry is missing: "+why, path)
	}
	if n < floor {
		c.Unresolved(rule, "creations of the nested maps in "+c.P.Name(fn))
	}
}

// C13.swap-guard / movement-record bookkeeping (also C08).
func c13MovementBookkeeping(c *Ctx) {
	p := c.P
	rule := "C13.swap-guard"
	if fn := c.NeedFn(rule, "partitionMovements.addPartitionMovementRecord"); fn != nil {
		nestedMapCreatedOnlyIfMissing(c, rule, fn, 2, "the set of partitions that moved between this pair of members in this plan is replaced by the one just moved — when that record is removed the pair disappears although others moved the same way, getTheActualPartitionToBeMoved no longer redirects the reverse move to one of them, and two members swap partitions of one topic")
	}
	if fn := c.NeedFn(rule, "partitionMovements.removeMovementRecordOfPartition"); fn != nil {
		reg := WholeFn(fn)
		byTopic := FieldLoad("partitionMovements.PartitionMovementsByTopic")
		// the removal of the partition from the pair's set
		innerDelete := func(it Item) bool {
			mu, ok := it.In.(*ssa.MapUpdate)
			_ = mu
			if ok {
				return false
			}
			cc, ok := callCommon(it)
			if !ok {
				return false
			}
			b, isB := cc.Value.(*ssa.Builtin)
			if !isB || b.Name() != "delete" || len(cc.Args) != 2 {
				return false
			}
			n, _ := NamedOf(cc.Args[1].Type())
			mt, isMap := cc.Args[0].Type().Underlying().(*types.Map)
			if !isMap {
				return false
			}
			_, valIsBool := mt.Elem().Underlying().(*types.Basic)
			return n == "topicPartitionAssignment" && valIsBool && !FieldLoad("partitionMovements.Movements")(cc.Args[0])
		}
		// the removal of the pair from the topic's map
		pairDelete := func(it Item) bool {
			cc, ok := callCommon(it)
			if !ok {
				return false
			}
			b, isB := cc.Value.(*ssa.Builtin)
			if !isB || b.Name() != "delete" || len(cc.Args) != 2 {
				return false
			}
			n, _ := NamedOf(cc.Args[1].Type())
			return n == "consumerPair"
		}
		_ = byTopic
		if len(reg.Find(innerDelete)) == 0 || len(reg.Find(pairDelete)) == 0 {
			c.Unresolved(rule, "the two deletes of removeMovementRecordOfPartition")
			return
		}
		esc, path := reg.Escape(innerDelete)
		c.Check(!esc, rule, fn, "record-removed-on-every-path", nil, "the partition is taken out of its pair's set on every path", "removeMovementRecordOfPartition can return without taking the partition out of its pair's set", path)
		// the emptiness test that decides about the pair looks at the set after the removal
		for _, s := range reg.Find(pairDelete) {
			it, pth := reg.Reach(IsItem(s), innerDelete)
			c.Check(it.IsZero(), rule, fn, "pair-dropped-after-removal", s.Instr(), "the pair is dropped only after the partition was removed from its set", "the (source, destination) pair can be dropped (or kept) on a test made before the partition was removed from its set: an empty set stays behind under the pair's key — getTheActualPartitionToBeMoved takes a present key for a recorded partition and returns the zero partition {\"\",0}: a real partition is handed to member \"\" and a member is given topic \"\"", pth)
		}
		for _, e := range reg.EstablishingEdges(Cmp{token.EQL, LenOf(func(v ssa.Value) bool {
			lk, ok := strip(v).(*ssa.Lookup)
			if !ok {
				return false
			}
			n, _ := NamedOf(lk.Index.Type())
			return n == "consumerPair"
		}), ConstInt(0)}) {
			if esc2, pth := reg.From(Pt{e.To, 0}).Escape(pairDelete); esc2 {
				c.Fail(rule, fn, "empty-pair-dropped", lastInstr(e.From), "a pair whose set was found empty is not dropped on every path: the stale empty set makes getTheActualPartitionToBeMoved return the zero partition", pth)
			}
		}
	}
	_ = p
}

// C11.advance / every-batch-counted: numRecords counts every batch of the block, control batches included.
func c11EveryBatchCounted(c *Ctx) {
	p := c.P
	rule := "C11.advance"
	fn := c.NeedFn(rule, "FetchResponseBlock.numRecords")
	if fn == nil {
		return
	}
	fi := Info(fn)
	count := p.CallTo("Records.numRecords")
	sites := fi.Find(count)
	if len(sites) == 0 {
		c.Unresolved(rule, "Records.numRecords in FetchResponseBlock.numRecords")
		return
	}
	for _, s := range sites {
		l := fi.InnermostLoop(s.Instr().Block())
		if l == nil {
			c.Fail(rule, fn, "every-batch-counted", s.Instr(), "FetchResponseBlock.numRecords does not count its record sets in a loop", nil)
			continue
		}
		esc, path := fi.Iteration(l).Escape(IsItem(s))
		c.Check(!esc, rule, fn, "every-batch-counted", s.Instr(), "every record set of the block is counted", "FetchResponseBlock.numRecords can skip a record set (control batches, say): parseResponse takes a block that counts 0 records for 'nothing to walk' and returns before parseRecords, the only thing that moves child.offset past a control batch — a response that holds only a commit/abort marker is fetched again and again, the partition stalls without an error", path)
	}
}

// C12.handshakes / closed-test-before-send: handleError of a consumer group looks at c.closed before, and apart from,
// its send on c.errors.
func c12ClosedTestApartFromSend(c *Ctx) {
	rule := "C12.dying"
	fn := c.NeedFn(rule, "consumerGroup.handleError")
	if fn == nil {
		return
	}
	closed := FieldLoad("consumerGroup.closed")
	errs := FieldLoad("consumerGroup.errors")
	n := 0
	for _, b := range fn.Blocks {
		for _, in := range b.Instrs {
			sel, ok := in.(*ssa.Select)
			if !ok {
				continue
			}
			sends, looks := false, false
			for _, st := range sel.States {
				if st.Dir == types.SendOnly && errs(st.Chan) {
					sends = true
				}
				if st.Dir == types.RecvOnly && closed(st.Chan) {
					looks = true
				}
			}
			if !sends {
				continue
			}
			n++
			c.Check(!looks, rule, fn, "closed-test-apart-from-send", sel, "the select that sends on c.errors has no case on c.closed", "one select both receives from c.closed and sends on c.errors: Close closes c.closed first and c.errors later, so after Close both cases are ready and Go picks one at random — about half of the late error reports (the detached forwarders of partition and offset-manager errors are not joined by Close) send on the closed channel and panic", nil)
			// and it is reached only where c.closed was found open
			idxOfClosedSelect := func(v ssa.Value) bool {
				ex, ok := v.(*ssa.Extract)
				if !ok || ex.Index != 0 {
					return false
				}
				s2, ok := ex.Tuple.(*ssa.Select)
				if !ok || s2 == sel || len(s2.States) != 1 {
					return false
				}
				return s2.States[0].Dir == types.RecvOnly && closed(s2.States[0].Chan)
			}
			g, path := WholeFn(fn).Guarded(Item{In: sel}, Cmp{token.NEQ, idxOfClosedSelect, ConstInt(0)})
			c.Check(g, rule, fn, "closed-test-before-send", sel, "the send on c.errors is reached only where a non-blocking look at c.closed found it open", "the send on c.errors is not preceded by a separate non-blocking look at c.closed: after Close the channel is closed and the send panics", path)
		}
	}
	for _, b := range fn.Blocks {
		for _, in := range b.Instrs {
			if s, ok := in.(*ssa.Send); ok && errs(s.Chan) {
				n++
				c.Fail(rule, fn, "closed-test-apart-from-send", in, "handleError sends on c.errors with a blocking send: with Return.Errors and nobody reading, the session's goroutines block for ever", nil)
			}
		}
	}
	if n == 0 {
		c.Unresolved(rule, "the send on c.errors in consumerGroup.handleError")
	}
}

// C06.recover / refresh-reregisters: a coordinator refresh registers the broker it was told about, whatever the cache says.
func c06RefreshReregisters(c *Ctx) {
	p := c.P
	rule := "C06.recover"
	fn := c.NeedFn(rule, "client.RefreshCoordinator")
	if fn == nil {
		return
	}
	reg := WholeFn(fn)
	regBroker := p.CallTo("client.registerBroker")
	if len(reg.Find(regBroker)) == 0 {
		c.Fail(rule, fn, "refresh-reregisters", nil, "client.RefreshCoordinator never registers the coordinator it was told about", nil)
		return
	}
	it, path := reg.MustPrecede(regBroker, ReturnNilErr())
	c.Check(it.IsZero(), rule, fn, "refresh-reregisters", it.Instr(), "every successful RefreshCoordinator registers the broker named in the answer", "client.RefreshCoordinator can succeed without registering the broker named in the answer (a 'same id as cached' shortcut): registerBroker is what replaces a broker object whose address changed — a coordinator that came back under the same id on another address is never dialled, every commit (the final ones of Close included) fails locally and the marks are lost", path)
}

// C14.open-once / reopenable-after-close (also C15): a closed broker can be opened again, whatever conn.Close said.
func c14ReopenableAfterClose(c *Ctx) {
	rule := "C14.open-once"
	fn := c.NeedFn(rule, "Broker.Close")
	if fn == nil {
		return
	}
	reg := WholeFn(fn)
	torn := reg.Find(StoreTo(IsNil(), "Broker.conn"))
	if len(torn) == 0 {
		c.Unresolved(rule, "b.conn = nil in Broker.Close")
		return
	}
	reopen := func(it Item) bool {
		cc, ok := callCommon(it)
		if !ok || len(cc.Args) != 2 {
			return false
		}
		f := cc.StaticCallee()
		if f == nil || f.Pkg == nil || f.Pkg.Pkg.Path() != "sync/atomic" || f.Name() != "StoreInt32" {
			return false
		}
		return FieldAddrOf("Broker.opened")(cc.Args[0]) && ConstInt(0)(cc.Args[1])
	}
	for _, s := range torn {
		esc, path := reg.From(s.After()).Escape(reopen)
		c.Check(!esc, rule, fn, "reopenable-after-close", s.Instr(), "once the connection state is reset, b.opened is reset on every path", "Broker.Close can return with the connection state reset but b.opened still 1 (an early return when conn.Close reported an error — a TLS close-notify to a peer that is gone, say): every later Open answers ErrAlreadyConnected and every request ErrNotConnected; the client recycles such a seed broker for ever through its dead-seeds list and a refresh fails although the broker is reachable", path)
	}
}

// C18.once-producer / retry-count-kept-until-requeue (also C01.retry): what goes back into the pipeline still says it
// is a retry.
func c18RetryCountKept(c *Ctx) {
	p := c.P
	rule := "C18.once-producer"
	fn := c.NeedFn(rule, "asyncProducer.retryMessage")
	if fn == nil {
		return
	}
	reg := WholeFn(fn)
	sends := reg.Find(SendOn(FieldLoad("asyncProducer.retries"), nil))
	if len(sends) == 0 {
		c.Unresolved(rule, "send on p.retries in retryMessage")
		return
	}
	for _, s := range sends {
		snd, ok := s.In.(*ssa.Send)
		if !ok {
			continue
		}
		msg := snd.X
		resets := func(it Item) bool {
			switch x := it.In.(type) {
			case *ssa.Store:
				fa, ok := x.Addr.(*ssa.FieldAddr)
				if !ok || !sameValue(fa.X, msg) {
					return false
				}
				_, name, _, ok := ownerField(fa)
				return ok && (name == "retries" || name == "flags") && ConstInt(0)(x.Val)
			case *ssa.Call:
				if p.CalleeName(&x.Call) == "ProducerMessage.clear" && len(x.Call.Args) > 0 && sameValue(x.Call.Args[0], msg) {
					return true
				}
			}
			return false
		}
		bad := false
		var at ssa.Instruction
		for _, r := range reg.Find(resets) {
			if it, _ := reg.From(r.After()).Reach(IsItem(s), nil); !it.IsZero() {
				bad, at = true, r.Instr()
			}
		}
		c.Check(!bad, rule, fn, "retry-count-kept-until-requeue", at, "the message re-queued on p.retries keeps its retry count and flags", "retryMessage resets the message's retries/flags (msg.clear()) before re-queueing it: it re-enters the dispatcher with retries == 0, is taken for a new submission — the whole interceptor chain runs on it again and it is counted in flight twice (Close hangs)", nil)
	}
}

// C20.partition / partitioner-kept-per-topic: the mock keeps the partitioner it made for a topic.
func c20PartitionerKept(c *Ctx) {
	p := c.P
	rule := "C20.partition"
	fn := c.NeedFn(rule, "mocks.SyncProducer.partitioner")
	if fn == nil {
		return
	}
	reg := WholeFn(fn)
	made := reg.Find(func(it Item) bool {
		cl, ok := it.In.(*ssa.Call)
		if !ok {
			return false
		}
		// sp.newPartitioner(topic): a call through the field (a PartitionerConstructor value)
		if cl.Call.IsInvoke() || cl.Call.StaticCallee() != nil {
			return false
		}
		return FieldLoad("SyncProducer.newPartitioner")(cl.Call.Value)
	})
	if len(made) == 0 {
		c.Unresolved(rule, "the construction of a topic's partitioner in mocks.SyncProducer.partitioner")
		return
	}
	kept := MapUpdateOn(FieldLoad("SyncProducer.partitioners"))
	for _, s := range made {
		esc, path := reg.From(s.After()).Escape(kept)
		c.Check(!esc, rule, fn, "partitioner-kept-per-topic", s.Instr(), "a partitioner made for a topic is stored for that topic on every path", "the partitioner made for a topic is not always kept (only for some kinds of partitioner): one that carries state — round-robin, random with its own source, a custom one — is rebuilt for every message and starts again from its initial state, so the mock does not choose partitions like the configured partitioner (round-robin gives 0, 0, 0, …) and disagrees with the real producer and the async mock", path)
	}
	_ = p
}
