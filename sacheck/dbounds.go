package main

// E5: decoder bounds.  A small abstract interpretation over SSA integers:
//   lower bound ∈ {−∞, ≥−1, ≥0, ≥1},  upper bound ∈ {+∞, ≤ input (bounded by the bytes remaining at
//   some point, hence by the input length), ≤ small constant}.
// Facts come from constants, conversions (with bit widths), arithmetic, branch conditions along the
// dominator tree, and from summaries of the getters computed from real_decoder.go by the same
// analysis.  Getter results are only trusted where the paired error was tested nil.

import (
	"fmt"
	"go/constant"
	"go/token"
	"go/types"
	"sort"
	"strings"

	"golang.org/x/tools/go/ssa"
)

const (
	lbNegInf = -(1 << 62)
	ubInf    = 0
	ubIn     = 1 // ≤ bytes remaining in the input when it was checked
	ubK      = 2 // ≤ k
	smallK   = 1 << 20
)

type dfact struct {
	lb int64 // v ≥ lb (lbNegInf: unknown)
	ub int   // ubInf | ubIn (O(input): bounded by the bytes of input, up to small constant factors/offsets) | ubK (≤ k)
	k  int64
}

var dTop = dfact{lbNegInf, ubInf, 0}

func (f dfact) String() string {
	l := fmt.Sprintf("≥%d", f.lb)
	if f.lb == lbNegInf {
		l = "−∞"
	}
	u := "+∞"
	switch f.ub {
	case ubIn:
		u = "≤input"
	case ubK:
		u = fmt.Sprintf("≤%d", f.k)
	}
	return "[" + l + ", " + u + "]"
}

func (a dfact) join(b dfact) dfact {
	r := a
	if b.lb < r.lb {
		r.lb = b.lb
	}
	switch {
	case a.ub == ubInf || b.ub == ubInf:
		r.ub = ubInf
	case a.ub == ubIn || b.ub == ubIn:
		r.ub = ubIn
	default:
		r.ub = ubK
		if b.k > a.k {
			r.k = b.k
		}
	}
	return r
}

func constFact(i int64) dfact {
	f := dfact{i, ubK, i}
	if i > smallK {
		f.ub = ubInf
	}
	return f
}

type dboundsEngine struct {
	useBlk    *ssa.BasicBlock          // block of the outermost query (where the value is finally used)
	fnSum     map[*ssa.Function]*dfact // summaries of other integer-valued functions (nil while being computed)
	p         *Program
	sizes     types.Sizes
	summaries map[string]dfact // realDecoder method name → fact of result 0 on success
	depth     int
	realDec   map[string]*ssa.Function
}

// helperCallSites: fn is a private helper of the decoder — an unexported realDecoder method that is not
// part of any interface of the package and is referenced only as the callee of plain calls; returns those
// calls (nil if fn is not such a helper).  Preconditions of a helper are discharged at its call sites.
func (e *dboundsEngine) helperCallSites(fn *ssa.Function) []*ssa.Call {
	if fn == nil || e.realDec[fn.Name()] != fn || token.IsExported(fn.Name()) || !e.p.onlyStaticallyCalled(fn) {
		return nil
	}
	sc := e.p.Sarama.Pkg.Scope()
	for _, n := range sc.Names() {
		tn, ok := sc.Lookup(n).(*types.TypeName)
		if !ok {
			continue
		}
		if it, ok := tn.Type().Underlying().(*types.Interface); ok {
			for i := 0; i < it.NumMethods(); i++ {
				if it.Method(i).Name() == fn.Name() {
					return nil
				}
			}
		}
	}
	var out []*ssa.Call
	for _, f := range e.p.Fns {
		for _, b := range f.Blocks {
			for _, in := range b.Instrs {
				if cl, ok := in.(*ssa.Call); ok && cl.Call.StaticCallee() == fn {
					if e.realDec[f.Name()] != f {
						return nil // called from outside the decoder: not a private helper
					}
					out = append(out, cl)
				}
			}
		}
	}
	return out
}

func newDBounds(p *Program) *dboundsEngine {
	e := &dboundsEngine{p: p, summaries: map[string]dfact{}, realDec: map[string]*ssa.Function{}}
	e.sizes = p.Pkgs[0].TypesSizes
	if e.sizes == nil {
		e.sizes = types.SizesFor("gc", "amd64")
	}
	for _, fn := range p.Fns {
		if fn.Parent() == nil && fn.Signature.Recv() != nil && isPtrToNamed(fn.Signature.Recv().Type(), "realDecoder") {
			e.realDec[fn.Name()] = fn
		}
	}
	// summaries to a fixed point (top-down: missing = unknown)
	names := make([]string, 0, len(e.realDec))
	for n := range e.realDec {
		names = append(names, n)
	}
	sort.Strings(names)
	for iter := 0; iter < 5; iter++ {
		changed := false
		for _, n := range names {
			if f, ok := e.summarise(e.realDec[n]); ok {
				if old, had := e.summaries[n]; !had || old != f {
					e.summaries[n] = f
					changed = true
				}
			}
		}
		if !changed {
			break
		}
	}
	return e
}

func dConstInt(v ssa.Value) (int64, bool) {
	c, ok := v.(*ssa.Const)
	if !ok || c.Value == nil || c.Value.Kind() != constant.Int {
		return 0, false
	}
	i, exact := constant.Int64Val(c.Value)
	if !exact {
		return 0, false
	}
	return i, true
}

func dStrip(v ssa.Value) ssa.Value {
	for {
		if x, ok := v.(*ssa.ChangeType); ok {
			v = x.X
			continue
		}
		return v
	}
}

func (e *dboundsEngine) isRemaining(v ssa.Value) bool {
	v = dStrip(v)
	if c, ok := v.(*ssa.Convert); ok {
		return e.isRemaining(c.X)
	}
	c, ok := v.(*ssa.Call)
	if !ok {
		return false
	}
	if c.Call.IsInvoke() {
		return c.Call.Method.Name() == "remaining"
	}
	if cal := c.Call.StaticCallee(); cal != nil {
		return cal.Name() == "remaining" && cal.Signature.Recv() != nil
	}
	return false
}

func (e *dboundsEngine) width(t types.Type) (bits int64, unsigned bool, ok bool) {
	b, isB := t.Underlying().(*types.Basic)
	if !isB || b.Info()&types.IsInteger == 0 {
		return 0, false, false
	}
	return e.sizes.Sizeof(b) * 8, b.Info()&types.IsUnsigned != 0, true
}

func (e *dboundsEngine) base(v ssa.Value) dfact {
	e.depth++
	defer func() { e.depth-- }()
	if e.depth > 40 {
		return dTop
	}
	switch x := v.(type) {
	case *ssa.Const:
		if i, ok := dConstInt(x); ok {
			return constFact(i)
		}
	case *ssa.Parameter:
		// parameter of a private helper of the decoder: the join of the argument over all its call sites
		sites := e.helperCallSites(x.Parent())
		if sites == nil {
			return dTop
		}
		idx := -1
		for i, q := range x.Parent().Params {
			if q == x {
				idx = i
			}
		}
		var out dfact
		saved := e.useBlk
		for i, cl := range sites {
			if idx < 0 || idx >= len(cl.Call.Args) {
				e.useBlk = saved
				return dTop
			}
			e.useBlk = cl.Block()
			f := e.evalAt(cl.Call.Args[idx], cl.Block())
			if i == 0 {
				out = f
			} else {
				out = out.join(f)
			}
		}
		e.useBlk = saved
		return out
	case *ssa.ChangeType:
		return e.evalAt(x.X, x.Block())
	case *ssa.Convert:
		in := e.evalAt(x.X, x.Block())
		fw, fu, ok1 := e.width(x.X.Type())
		tw, tu, ok2 := e.width(x.Type())
		if !ok1 || !ok2 {
			return dTop
		}
		maxT := int64(1<<62 - 1)
		if tw < 63 {
			if tu {
				maxT = int64(1)<<uint(tw) - 1
			} else {
				maxT = int64(1)<<uint(tw-1) - 1
			}
		}
		fits := in.ub == ubK && in.k <= maxT
		switch {
		case fu && !tu: // unsigned → signed
			if fits {
				if in.lb < 0 {
					in.lb = 0
				}
				return in
			}
			if tw > fw { // wider: value in [0, 2^fw), bounds of the operand carry over
				r := in
				if r.lb < 0 {
					r.lb = 0
				}
				if r.ub == ubInf && fw <= 16 {
					r.ub, r.k = ubK, int64(1)<<uint(fw)-1
				}
				return r
			}
			return dTop // same or narrower width: may wrap negative
		case !fu && tu: // signed → unsigned: a negative value becomes huge
			if in.lb >= 0 {
				if in.ub == ubK && !fits {
					return dfact{0, ubInf, 0}
				}
				return in
			}
			return dfact{0, ubInf, 0}
		case fu && tu:
			if tw >= fw || fits {
				if in.lb < 0 {
					in.lb = 0
				}
				return in
			}
			return dfact{0, ubK, maxT}
		default: // signed → signed
			if tw >= fw {
				return in
			}
			if fits && in.lb >= -1 {
				return in
			}
			return dTop // narrowing may wrap
		}
	case *ssa.BinOp:
		_, unsignedT, _ := e.width(x.Type())
		clampU := func(f dfact) dfact {
			if unsignedT && f.lb < 0 {
				f.lb = 0
			}
			return f
		}
		addK := func(in dfact, k int64) dfact {
			if in.lb != lbNegInf {
				in.lb += k
			}
			switch in.ub {
			case ubK:
				in.k += k
				if in.k > smallK {
					in.ub = ubInf
				}
			case ubIn:
				if k > smallK {
					in.ub = ubInf
				}
			}
			return in
		}
		mulK := func(in dfact, k int64) dfact {
			if in.lb != lbNegInf {
				if in.lb >= 0 {
					in.lb *= k
				} else {
					in.lb = lbNegInf
				}
			}
			switch in.ub {
			case ubK:
				in.k *= k
				if in.k > smallK {
					in.ub = ubInf
				}
			case ubIn:
				if k > 64 {
					in.ub = ubInf
				}
			}
			return in
		}
		if k, ok := dConstInt(x.Y); ok {
			in := e.evalAt(x.X, x.Block())
			switch x.Op {
			case token.SUB:
				if k >= 0 {
					if unsignedT && (in.lb == lbNegInf || in.lb < k) {
						return dfact{0, ubInf, 0} // may wrap around
					}
					if in.lb != lbNegInf {
						in.lb -= k
					}
					return in // upper bound only shrinks
				}
			case token.ADD:
				if k >= 0 {
					return clampU(addK(in, k))
				}
			case token.MUL:
				if k > 0 {
					return clampU(mulK(in, k))
				}
			case token.AND:
				if k >= 0 {
					return dfact{0, ubK, k}.capSmall()
				}
			case token.SHR:
				if in.lb >= 0 {
					in.lb = 0
					return in
				}
			case token.QUO:
				if k > 0 && in.lb >= 0 {
					in.lb = 0
					return in
				}
			case token.REM:
				if k > 0 {
					f := dfact{lbNegInf, ubK, k}.capSmall()
					if in.lb >= 0 || unsignedT {
						f.lb = 0
					}
					return f
				}
			}
		}
		if k, ok := dConstInt(x.X); ok && x.Op == token.MUL && k > 0 {
			return clampU(mulK(e.evalAt(x.Y, x.Block()), k))
		}
		if x.Op == token.SUB && e.isLenMinusOff(x) {
			return dfact{0, ubIn, 0}
		}
		if x.Op == token.ADD {
			// sum of two bounded non-negative quantities
			a, b := e.evalAt(x.X, x.Block()), e.evalAt(x.Y, x.Block())
			if a.lb >= 0 && b.lb >= 0 && a.ub != ubInf && b.ub != ubInf {
				r := dfact{a.lb + b.lb, ubIn, 0}
				if a.ub == ubK && b.ub == ubK {
					r.ub, r.k = ubK, a.k+b.k
					r = r.capSmall()
					if r.ub == ubInf {
						r.ub = ubIn
					}
				}
				return r
			}
		}
		if unsignedT {
			return dfact{0, ubInf, 0}
		}
	case *ssa.Phi:
		r, first := dTop, true
		for i, ed := range x.Edges {
			if ed == ssa.Value(x) {
				continue
			}
			f := e.evalEdge(ed, x.Block().Preds[i], x.Block())
			if first {
				r, first = f, false
			} else {
				r = r.join(f)
			}
		}
		return r
	case *ssa.Extract:
		if c, ok := x.Tuple.(*ssa.Call); ok {
			return e.callFact(c, x.Index)
		}
	case *ssa.Call:
		if b, ok := x.Call.Value.(*ssa.Builtin); ok && (b.Name() == "len" || b.Name() == "cap") {
			return dfact{0, ubIn, 0}
		}
		switch e.p.CalleeName(&x.Call) {
		case "encoding/binary.PutVarint", "encoding/binary.PutUvarint":
			return dfact{1, ubK, 10} // trusted library contract: bytes written
		}
		return e.callFact(x, 0)
	}
	return dTop
}

func (f dfact) capSmall() dfact {
	if f.ub == ubK && f.k > smallK {
		f.ub = ubInf
	}
	return f
}

// isLenMinusOff: len(rd.raw) - rd.off, the body of remaining().
func (e *dboundsEngine) isLenMinusOff(x *ssa.BinOp) bool {
	return LenOf(FieldLoad("realDecoder.raw"))(x.X) && FieldLoad("realDecoder.off")(x.Y)
}

// callFact: fact of the idx-th result of a call (getter summaries, remaining()).
func (e *dboundsEngine) callFact(c *ssa.Call, idx int) dfact {
	if idx != 0 {
		return dTop
	}
	name := ""
	if c.Call.IsInvoke() {
		if n, _ := NamedOf(c.Call.Value.Type()); n == "packetDecoder" {
			name = c.Call.Method.Name()
		}
	} else if cal := c.Call.StaticCallee(); cal != nil && cal.Signature.Recv() != nil && isPtrToNamed(cal.Signature.Recv().Type(), "realDecoder") {
		name = cal.Name()
	}
	if name == "" {
		return e.genericCallFact(c)
	}
	if name == "remaining" {
		return dfact{0, ubIn, 0}
	}
	if f, ok := e.summaries[name]; ok {
		return f
	}
	return dTop
}

// refine f (a fact about v) by taking the edge from→to.
func (e *dboundsEngine) refine(f dfact, v ssa.Value, from, to *ssa.BasicBlock) dfact {
	iff, ok := lastInstr(from).(*ssa.If)
	if !ok || len(from.Succs) != 2 || from.Succs[0] == from.Succs[1] {
		return f
	}
	truth := from.Succs[0] == to
	cond := iff.Cond
	for {
		if u, isU := cond.(*ssa.UnOp); isU && u.Op == token.NOT {
			cond, truth = u.X, !truth
			continue
		}
		break
	}
	bo, ok := cond.(*ssa.BinOp)
	if !ok {
		return f
	}
	op := bo.Op
	x, y := bo.X, bo.Y
	// is operand `a` the value v (possibly converted to a wider type), or k*v?
	same := func(a ssa.Value) (isV bool, mult int64) {
		a = dStrip(a)
		if a == v {
			return true, 1
		}
		if cv, ok := a.(*ssa.Convert); ok && dStrip(cv.X) == v {
			// only a widening or same-width signed conversion preserves the comparison
			fw, fu, ok1 := e.width(cv.X.Type())
			tw, tu, ok2 := e.width(cv.Type())
			if ok1 && ok2 && tw >= fw && fu == tu {
				return true, 1
			}
			return false, 0
		}
		if b, ok := a.(*ssa.BinOp); ok && b.Op == token.MUL {
			if k, isK := dConstInt(b.X); isK && k > 0 && dStrip(b.Y) == v {
				return true, k
			}
			if k, isK := dConstInt(b.Y); isK && k > 0 && dStrip(b.X) == v {
				return true, k
			}
		}
		return false, 0
	}
	xs, _ := same(x)
	ys, _ := same(y)
	if !xs && !ys {
		return f
	}
	if ys && !xs {
		x, y = y, x
		op = swapOp(op)
	}
	if !truth {
		op = negOp(op)
	}
	if e.isRemaining(y) || e.isInputLen(y) {
		if op == token.LEQ || op == token.LSS {
			if f.ub == ubInf {
				f.ub = ubIn
			}
		}
		return f
	}
	if isCapGlobal(y) {
		if op == token.LEQ || op == token.LSS {
			if f.ub == ubInf {
				f.ub = ubIn // bounded by MaxResponseSize / MaxRequestSize: the cap the property allows
			}
		}
		return f
	}
	if k, ok := dConstInt(y); ok {
		switch op {
		case token.GEQ:
			if f.lb == lbNegInf || f.lb < k {
				f.lb = k
			}
		case token.GTR:
			if f.lb == lbNegInf || f.lb < k+1 {
				f.lb = k + 1
			}
		case token.LEQ, token.LSS:
			kk := k
			if op == token.LSS {
				kk = k - 1
			}
			if kk <= smallK && (f.ub == ubInf || f.ub == ubIn || (f.ub == ubK && kk < f.k)) {
				f.ub, f.k = ubK, kk
			}
		case token.NEQ:
			if f.lb == k {
				f.lb = k + 1
			}
		case token.EQL:
			return constFact(k)
		}
	}
	return f
}

// isCapGlobal: the configured response/request size cap (possibly converted).
func isCapGlobal(v ssa.Value) bool {
	v = dStrip(v)
	if c, ok := v.(*ssa.Convert); ok {
		v = dStrip(c.X)
	}
	u, ok := v.(*ssa.UnOp)
	if !ok || u.Op != token.MUL {
		return false
	}
	g, ok := u.X.(*ssa.Global)
	return ok && (g.Name() == "MaxResponseSize" || g.Name() == "MaxRequestSize")
}

// isInputLen: len(buf) of a byte slice (an input-bounded quantity).
func (e *dboundsEngine) isInputLen(v ssa.Value) bool {
	v = dStrip(v)
	if c, ok := v.(*ssa.Convert); ok {
		v = c.X
	}
	c, ok := v.(*ssa.Call)
	if !ok {
		return false
	}
	b, ok := c.Call.Value.(*ssa.Builtin)
	return ok && b.Name() == "len"
}

// errOK: the use at block blk of result #0 of call c is dominated by the test "its error == nil".
func (e *dboundsEngine) errOK(c *ssa.Call, blk *ssa.BasicBlock) bool {
	sig := c.Call.Signature()
	n := sig.Results().Len()
	if n < 2 || sig.Results().At(n-1).Type().String() != "error" {
		return true
	}
	var errV ssa.Value
	for _, r := range *c.Referrers() {
		if ex, ok := r.(*ssa.Extract); ok && ex.Index == n-1 {
			errV = ex
		}
	}
	if errV == nil {
		return false // error discarded
	}
	isErr := func(v ssa.Value) bool {
		if v == errV {
			return true
		}
		// err stored to a named result cell and reloaded
		if u, ok := v.(*ssa.UnOp); ok && u.Op == token.MUL {
			if al, ok := u.X.(*ssa.Alloc); ok {
				for _, r := range *al.Referrers() {
					if st, ok := r.(*ssa.Store); ok && st.Val == errV {
						return true
					}
				}
			}
		}
		if ph, ok := v.(*ssa.Phi); ok {
			for _, ed := range ph.Edges {
				if ed == errV {
					return true
				}
			}
		}
		return false
	}
	for d := blk; d != nil; d = d.Idom() {
		if len(d.Preds) == 1 && Establishes(d.Preds[0], d, Cmp{token.EQL, isErr, IsNil()}) {
			return true
		}
		if d == c.Block() {
			break
		}
	}
	return false
}

func (e *dboundsEngine) evalEdge(v ssa.Value, pred, to *ssa.BasicBlock) dfact {
	f := e.evalAt(v, pred)
	return e.refine(f, dStrip(v), pred, to)
}

// evalAt: fact about v valid in block blk (branch conditions on the dominator chain applied).
func (e *dboundsEngine) evalAt(v ssa.Value, blk *ssa.BasicBlock) dfact {
	v = dStrip(v)
	if e.depth == 0 {
		e.useBlk = blk
	}
	f := e.base(v)
	// getter results are only meaningful where the error was tested (at the use, possibly after a
	// phi that merges the results and errors of alternative getters)
	if ex, ok := v.(*ssa.Extract); ok {
		if c, ok := ex.Tuple.(*ssa.Call); ok && ex.Index == 0 && !e.errOK(c, blk) && !(e.useBlk != nil && e.errOK(c, e.useBlk)) {
			f = dTop
		}
	}
	if _, unsigned, ok := e.width(v.Type()); ok && unsigned && f.lb < 0 {
		f.lb = 0
	}
	var defBlk *ssa.BasicBlock
	if in, ok := v.(ssa.Instruction); ok {
		defBlk = in.Block()
	}
	var chain []*ssa.BasicBlock
	for d := blk; d != nil; d = d.Idom() {
		chain = append(chain, d)
		if d == defBlk {
			break
		}
	}
	for i := len(chain) - 1; i >= 0; i-- {
		d := chain[i]
		if len(d.Preds) == 1 {
			f = e.refine(f, v, d.Preds[0], d)
		}
	}
	return f
}

// summarise: join of result #0 over the successful returns of a realDecoder method.
func (e *dboundsEngine) summarise(fn *ssa.Function) (dfact, bool) {
	if fn.Signature.Results().Len() != 2 {
		return dfact{}, false
	}
	if _, _, ok := e.width(fn.Signature.Results().At(0).Type()); !ok {
		return dfact{}, false
	}
	r, first := dTop, true
	for _, b := range fn.Blocks {
		ret, ok := lastInstr(b).(*ssa.Return)
		if !ok || IsRecoverBlock(b) {
			continue
		}
		rv := RetVals(ret)
		if !e.mayBeNilErr(rv[1], b) {
			continue
		}
		f := e.evalAt(rv[0], b)
		if first {
			r, first = f, false
		} else {
			r = r.join(f)
		}
	}
	if first {
		return dfact{}, false
	}
	return r, true
}

// mayBeNilErr: can this returned error value be nil?  Constants, sentinel globals and errors tested
// non-nil on a dominating edge cannot.
func (e *dboundsEngine) mayBeNilErr(v ssa.Value, blk *ssa.BasicBlock) bool {
	switch x := v.(type) {
	case *ssa.Const:
		return x.Value == nil
	case *ssa.MakeInterface:
		return false
	case *ssa.UnOp:
		if _, isG := x.X.(*ssa.Global); isG {
			return false
		}
	}
	for d := blk; d != nil; d = d.Idom() {
		if len(d.Preds) == 1 && Establishes(d.Preds[0], d, Cmp{token.NEQ, func(w ssa.Value) bool { return w == v }, IsNil()}) {
			return false
		}
	}
	return true
}

// decodeRoots: decode methods of non-request types plus realDecoder methods; closure over static calls.
func (p *Program) decodeReachable() map[*ssa.Function]bool {
	out := map[*ssa.Function]bool{}
	var work []*ssa.Function
	add := func(f *ssa.Function) {
		if f == nil || out[f] || f.Blocks == nil || (f.Pkg != p.Sarama && (f.Parent() == nil || rootFn(f).Pkg != p.Sarama)) {
			return
		}
		if p.inFile(f, "mockbroker.go") || p.inFile(f, "mockresponses.go") || p.inFile(f, "mockkerberos.go") {
			return
		}
		out[f] = true
		work = append(work, f)
	}
	for _, fn := range p.Fns {
		if fn.Parent() != nil || fn.Signature.Recv() == nil {
			continue
		}
		rn, _ := NamedOf(fn.Signature.Recv().Type())
		if rn == "realDecoder" {
			add(fn)
			continue
		}
		if fn.Name() != "decode" {
			continue
		}
		if strings.HasSuffix(rn, "Request") || rn == "request" || strings.HasPrefix(rn, "Mock") {
			continue
		}
		if ps := p.Fset.Position(fn.Pos()); strings.HasSuffix(ps.Filename, "_request.go") {
			continue // helper types of requests: decoded only by the mock broker
		}
		add(fn)
	}
	for _, n := range []string{"decode", "versionedDecode", "decompress", "Broker.responseReceiver", "Broker.sendAndReceiveSASLHandshake",
		"Broker.sendAndReceiveSASLSCRAMv1", "Broker.receiveSaslAuthenticateResponse", "Broker.receiveSASLServerResponse", "Broker.receiveSASLOAuthBearerServerResponse", "GSSAPIKerberosAuth.readPackage"} {
		add(p.Fn(n))
	}
	for len(work) > 0 {
		f := work[0]
		work = work[1:]
		for _, a := range f.AnonFuncs {
			add(a)
		}
		for _, b := range f.Blocks {
			for _, in := range b.Instrs {
				if ci, ok := in.(ssa.CallInstruction); ok {
					if cal := ci.Common().StaticCallee(); cal != nil {
						rn := ""
						if cal.Signature.Recv() != nil {
							rn, _ = NamedOf(cal.Signature.Recv().Type())
						}
						if strings.HasSuffix(rn, "Request") && cal.Name() == "decode" {
							continue
						}
						if ps := p.Fset.Position(cal.Pos()); cal.Name() == "decode" && strings.HasSuffix(ps.Filename, "_request.go") {
							continue
						}
						add(cal)
					}
				}
			}
		}
	}
	return out
}

// genericCallFact: result #0 of a call to an integer-valued function of the package (static callee),
// or of an interface method implemented in the package (join over the implementations).
func (e *dboundsEngine) genericCallFact(c *ssa.Call) dfact {
	if e.fnSum == nil {
		e.fnSum = map[*ssa.Function]*dfact{}
	}
	var cands []*ssa.Function
	if c.Call.IsInvoke() {
		if _, pk := NamedOf(c.Call.Value.Type()); pk != saramaPath {
			return dTop
		}
		for _, f := range e.p.Fns {
			if f.Parent() == nil && f.Signature.Recv() != nil && f.Name() == c.Call.Method.Name() && types.Identical(f.Signature.Results(), c.Call.Signature().Results()) {
				cands = append(cands, f)
			}
		}
	} else if cal := c.Call.StaticCallee(); cal != nil && cal.Pkg == e.p.Sarama && cal.Blocks != nil {
		cands = []*ssa.Function{cal}
	}
	if len(cands) == 0 {
		return dTop
	}
	r, first := dTop, true
	for _, f := range cands {
		sf := e.funcSummary(f)
		if first {
			r, first = sf, false
		} else {
			r = r.join(sf)
		}
	}
	return r
}

func (e *dboundsEngine) funcSummary(f *ssa.Function) dfact {
	if s, ok := e.fnSum[f]; ok {
		if s == nil {
			return dTop // recursion
		}
		return *s
	}
	e.fnSum[f] = nil
	res := f.Signature.Results()
	if res.Len() == 0 {
		return dTop
	}
	if _, _, ok := e.width(res.At(0).Type()); !ok {
		return dTop
	}
	r, first := dTop, true
	for _, b := range f.Blocks {
		ret, ok := lastInstr(b).(*ssa.Return)
		if !ok || IsRecoverBlock(b) {
			continue
		}
		rv := RetVals(ret)
		if res.Len() >= 2 && res.At(res.Len()-1).Type().String() == "error" && !e.mayBeNilErr(rv[len(rv)-1], b) {
			continue
		}
		fct := e.evalAt(rv[0], b)
		if first {
			r, first = fct, false
		} else {
			r = r.join(fct)
		}
	}
	e.fnSum[f] = &r
	return r
}
