package main

// E3: must-lockset analysis.  For a table of (field → lock field of the same object) every read
// needs the lock (R or W), every write the write lock; an access in an unexported helper that is
// only ever called statically becomes an entry requirement checked at its call sites, transitively.

import (
	"fmt"
	"go/token"
	"go/types"
	"sort"
	"strings"

	"golang.org/x/tools/go/ssa"
)

type guardedField struct {
	Field  string // "Owner.field"
	Lock   string // "Owner.lockField" (same owner)
	Reason string
}

type lockKey struct {
	base ssa.Value
	lock string // lock field name
}
type lockset map[lockKey]int // 1 = R, 2 = W

func (l lockset) clone() lockset {
	r := lockset{}
	for k, v := range l {
		r[k] = v
	}
	return r
}

func lsMeet(a, b lockset) lockset {
	r := lockset{}
	for k, v := range a {
		if w, ok := b[k]; ok {
			if w < v {
				v = w
			}
			r[k] = v
		}
	}
	return r
}

func lsEq(a, b lockset) bool {
	if len(a) != len(b) {
		return false
	}
	for k, v := range a {
		if b[k] != v {
			return false
		}
	}
	return true
}

// ownerField: (owner type name, field name, canonical base) of a FieldAddr.
func ownerField(v ssa.Value) (owner, name string, base ssa.Value, ok bool) {
	fa, isFA := v.(*ssa.FieldAddr)
	if !isFA {
		return
	}
	pt, isP := fa.X.Type().Underlying().(*types.Pointer)
	if !isP {
		return
	}
	st, isS := pt.Elem().Underlying().(*types.Struct)
	if !isS {
		return
	}
	owner, _ = NamedOf(pt.Elem())
	return owner, st.Field(fa.Field).Name(), canon(fa.X), true
}

func lockOp(in ssa.Instruction) (lockKey, string, bool) {
	c, ok := in.(ssa.CallInstruction)
	if !ok {
		return lockKey{}, "", false
	}
	cal := c.Common().StaticCallee()
	if cal == nil || cal.Pkg == nil || cal.Pkg.Pkg.Path() != "sync" {
		return lockKey{}, "", false
	}
	name := cal.Name()
	switch name {
	case "Lock", "Unlock", "RLock", "RUnlock":
	default:
		return lockKey{}, "", false
	}
	if len(c.Common().Args) == 0 {
		return lockKey{}, "", false
	}
	_, f, base, ok := ownerField(c.Common().Args[0])
	if !ok {
		return lockKey{}, "", false
	}
	return lockKey{base, f}, name, true
}

type lockReq struct {
	paramIdx int
	lock     string
	mode     int
	site     string
}

type lockMiss struct {
	own  bool // the function takes this lock itself (in too weak a mode / too late): never a requirement
	in   ssa.Instruction
	base ssa.Value
	lock string
	mode int
	what string
}

type locksetEngine struct {
	p        *Program
	guarded  map[string]string // "Owner.field" -> lock field name
	requires map[*ssa.Function][]lockReq
	accesses int
	perField map[string]int
}

func (e *locksetEngine) analyse(fn *ssa.Function, count bool) []lockMiss {
	in := map[*ssa.BasicBlock]lockset{}
	entry := lockset{}
	locked := map[lockKey]bool{}
	for _, b := range fn.Blocks {
		for _, i := range b.Instrs {
			if k, op, ok := lockOp(i); ok && (op == "Lock" || op == "RLock") {
				if _, isDefer := i.(*ssa.Defer); !isDefer {
					locked[k] = true
				}
			}
		}
	}
	// a function that defers Unlock of a lock it never takes starts with the lock held (hand-off idiom)
	for _, b := range fn.Blocks {
		for _, i := range b.Instrs {
			if d, isDefer := i.(*ssa.Defer); isDefer {
				if k, op, ok := lockOp(d); ok && op == "Unlock" && !locked[k] {
					entry[k] = 2
				}
			}
		}
	}
	in[fn.Blocks[0]] = entry
	work := []*ssa.BasicBlock{fn.Blocks[0]}
	out := map[*ssa.BasicBlock]lockset{}
	transfer := func(b *ssa.BasicBlock, s lockset, visit func(i ssa.Instruction, s lockset)) lockset {
		s = s.clone()
		for _, i := range b.Instrs {
			if visit != nil {
				visit(i, s)
			}
			if _, isDefer := i.(*ssa.Defer); isDefer {
				continue
			}
			if _, isGo := i.(*ssa.Go); isGo {
				continue
			}
			if k, op, ok := lockOp(i); ok {
				switch op {
				case "Lock":
					s[k] = 2
				case "RLock":
					if s[k] < 1 {
						s[k] = 1
					}
				case "Unlock", "RUnlock":
					delete(s, k)
				}
			}
		}
		return s
	}
	for len(work) > 0 {
		b := work[0]
		work = work[1:]
		o := transfer(b, in[b], nil)
		if prev, ok := out[b]; ok && lsEq(prev, o) {
			continue
		}
		out[b] = o
		for _, s := range b.Succs {
			if cur, ok := in[s]; ok {
				m := lsMeet(cur, o)
				if !lsEq(m, cur) {
					in[s] = m
					work = append(work, s)
				} else if _, done := out[s]; !done {
					work = append(work, s)
				}
			} else {
				in[s] = o.clone()
				work = append(work, s)
			}
		}
	}
	var misses []lockMiss
	for _, b := range fn.Blocks {
		st, ok := in[b]
		if !ok {
			continue
		}
		transfer(b, st, func(i ssa.Instruction, s lockset) {
			switch x := i.(type) {
			case *ssa.UnOp:
				if x.Op != token.MUL {
					return
				}
				owner, name, base, ok := ownerField(x.X)
				if !ok {
					return
				}
				lk, ok := e.guarded[owner+"."+name]
				if !ok {
					return
				}
				mode := 1
				for _, ref := range *x.Referrers() {
					switch r := ref.(type) {
					case *ssa.MapUpdate:
						if r.Map == ssa.Value(x) {
							mode = 2
						}
					case *ssa.Call:
						if bi, ok := r.Call.Value.(*ssa.Builtin); ok && bi.Name() == "delete" && len(r.Call.Args) > 0 && r.Call.Args[0] == ssa.Value(x) {
							mode = 2
						}
					}
				}
				if count {
					e.accesses++
					e.perField[owner+"."+name]++
				}
				if s[lockKey{base, lk}] < mode {
					w := "read of "
					if mode == 2 {
						w = "map write through "
					}
					misses = append(misses, lockMiss{locked[lockKey{base, lk}], i, base, lk, mode, w + owner + "." + name})
				}
			case *ssa.Store:
				owner, name, base, ok := ownerField(x.Addr)
				if !ok {
					return
				}
				lk, ok := e.guarded[owner+"."+name]
				if !ok {
					return
				}
				if count {
					e.accesses++
					e.perField[owner+"."+name]++
				}
				if s[lockKey{base, lk}] < 2 {
					misses = append(misses, lockMiss{locked[lockKey{base, lk}], i, base, lk, 2, "write of " + owner + "." + name})
				}
			case *ssa.Call:
				cal := x.Call.StaticCallee()
				if cal == nil {
					return
				}
				for _, r := range e.requires[cal] {
					if r.paramIdx >= len(x.Call.Args) {
						continue
					}
					a := canon(x.Call.Args[r.paramIdx])
					if s[lockKey{a, r.lock}] < r.mode {
						misses = append(misses, lockMiss{locked[lockKey{a, r.lock}], i, a, r.lock, r.mode, "call of " + e.p.Name(cal) + " which needs " + r.lock + " [" + r.site + "]"})
					}
				}
			}
		})
	}
	return misses
}

func lsFresh(v ssa.Value) bool {
	switch x := v.(type) {
	case *ssa.Alloc:
		// an object allocated here (new(T), &T{…}); a cell holding a pointer (spilled parameter,
		// captured variable) is not a fresh object
		_, isPtrCell := x.Type().(*types.Pointer).Elem().Underlying().(*types.Pointer)
		return !isPtrCell
	case *ssa.Phi:
		for _, e := range x.Edges {
			if !lsFresh(e) {
				return false
			}
		}
		return true
	}
	return false
}

// onlyStaticallyCalled: every reference to fn is the callee of a plain call (not go, not defer,
// not a method value / function value).
func (p *Program) onlyStaticallyCalled(fn *ssa.Function) bool {
	if p.refStatic == nil {
		p.refStatic = map[*ssa.Function]int{}
		p.refOther = map[*ssa.Function]bool{}
		for _, f := range p.Fns {
			for _, b := range f.Blocks {
				for _, in := range b.Instrs {
					for _, op := range in.Operands(nil) {
						g, ok := (*op).(*ssa.Function)
						if !ok {
							continue
						}
						if c, isCall := in.(*ssa.Call); isCall && c.Call.Value == ssa.Value(g) {
							p.refStatic[g]++
						} else {
							p.refOther[g] = true
						}
					}
					if mc, ok := in.(*ssa.MakeClosure); ok {
						if w, ok := mc.Fn.(*ssa.Function); ok && w.Synthetic != "" {
							p.refOther[p.unwrapSynthetic(w)] = true
						}
					}
				}
			}
		}
	}
	return p.refStatic[fn] > 0 && !p.refOther[fn]
}

// paramOfCell: the parameter a base value denotes — the parameter itself, or the local cell it was
// spilled to because a closure captures it.
func paramOfCell(v ssa.Value) *ssa.Parameter {
	switch x := v.(type) {
	case *ssa.Parameter:
		return x
	case *ssa.Alloc:
		var pr *ssa.Parameter
		n := 0
		for _, r := range *x.Referrers() {
			if st, ok := r.(*ssa.Store); ok && st.Addr == ssa.Value(x) {
				n++
				pr, _ = st.Val.(*ssa.Parameter)
			}
		}
		if n == 1 {
			return pr
		}
	}
	return nil
}

func runLockset(c *Ctx, rule string, table []guardedField, floor int) {
	p := c.P
	c.Doc(rule, "must-lockset analysis: every access to a tabled field happens with the tabled lock of the same object held (write lock for writes and map updates); accesses in unexported, only-statically-called helpers become entry requirements checked at every call site, transitively; objects not yet published (allocated in the same function) are exempt")
	e := &locksetEngine{p: p, guarded: map[string]string{}, requires: map[*ssa.Function][]lockReq{}, perField: map[string]int{}}
	for _, g := range table {
		parts := strings.Split(g.Lock, ".")
		e.guarded[g.Field] = parts[len(parts)-1]
		// anchors must exist
		if !p.fieldExists(g.Field) || !p.fieldExists(g.Lock) {
			c.Unresolved(rule, "guarded-by entry "+g.Field+" / "+g.Lock)
		}
	}
	static := map[*ssa.Function]bool{}
	for _, fn := range p.Fns {
		if fn.Parent() == nil && !token.IsExported(fn.Name()) && p.onlyStaticallyCalled(fn) {
			static[fn] = true
		}
	}
	final := map[string]lockMiss{}
	finalFn := map[string]*ssa.Function{}
	for iter := 0; iter < 8; iter++ {
		changed := false
		final = map[string]lockMiss{}
		for _, fn := range p.Fns {
			for _, m := range e.analyse(fn, false) {
				if lsFresh(m.base) {
					continue
				}
				if pr := paramOfCell(m.base); pr != nil && static[fn] && !m.own {
					idx := -1
					for i, q := range fn.Params {
						if q == pr {
							idx = i
						}
					}
					dup := false
					for _, r := range e.requires[fn] {
						if r.paramIdx == idx && r.lock == m.lock && r.mode >= m.mode {
							dup = true
						}
					}
					if !dup {
						e.requires[fn] = append(e.requires[fn], lockReq{idx, m.lock, m.mode, p.Name(fn) + ": " + m.what + " at " + p.Pos(m.in)})
						changed = true
					}
					continue
				}
				key := fmt.Sprintf("%s|%s|%s", p.Name(fn), m.what, p.Pos(m.in))
				final[key] = m
				finalFn[key] = fn
			}
		}
		if !changed {
			break
		}
	}
	// count accesses once
	for _, fn := range p.Fns {
		e.analyse(fn, true)
	}
	keys := make([]string, 0, len(final))
	for k := range final {
		keys = append(keys, k)
	}
	sort.Strings(keys)
	for _, k := range keys {
		m := final[k]
		mode := "read"
		if m.mode == 2 {
			mode = "write"
		}
		construct := m.what
		if i := strings.Index(construct, " ["); i >= 0 {
			construct = construct[:i] // the requirement's origin (with its position) is detail, not identity
		}
		construct = strings.ReplaceAll(construct, " ", "_")
		c.Fail(rule, finalFn[k], construct, m.in, m.what+" without holding "+m.lock+" ("+mode+" mode) of the same object: data race with the lock's other users", nil)
	}
	// one obligation per tabled field: all its accesses hold the lock
	bad := map[string]bool{}
	for _, k := range keys {
		for _, g := range table {
			if strings.Contains(final[k].what, g.Field) {
				bad[g.Field] = true
			}
		}
	}
	for _, g := range table {
		if e.perField[g.Field] == 0 {
			c.Fail(rule, nil, "field:"+g.Field, nil, "no access to the tabled field found (anchor drifted)", nil)
			continue
		}
		if !bad[g.Field] {
			c.OK(rule, nil, "field:"+g.Field, nil, fmt.Sprintf("%d accesses, all under %s (%s)", e.perField[g.Field], g.Lock, g.Reason))
		}
	}
	var reqs []string
	for f, rs := range e.requires {
		for _, r := range rs {
			reqs = append(reqs, fmt.Sprintf("%s needs %s (mode %d)", p.Name(f), r.lock, r.mode))
		}
	}
	sort.Strings(reqs)
	if len(reqs) > 0 {
		c.Notes = append(c.Notes, rule+": inferred entry requirements, all checked at call sites: "+strings.Join(reqs, "; "))
	}
	c.Floor(rule, floor)
}

func (p *Program) fieldExists(path string) bool {
	parts := strings.Split(path, ".")
	if len(parts) != 2 {
		return false
	}
	for _, sp := range []*ssa.Package{p.Sarama, p.Mocks} {
		obj := sp.Pkg.Scope().Lookup(parts[0])
		if obj == nil {
			continue
		}
		st, ok := obj.Type().Underlying().(*types.Struct)
		if !ok {
			continue
		}
		for i := 0; i < st.NumFields(); i++ {
			if st.Field(i).Name() == parts[1] {
				return true
			}
		}
	}
	return false
}
