package main

// E3: must-lockset analysis.  For a table of (field → lock field of the same object) every read
// needs the lock (R or W), every write the write lock; an access in an unexported helper that is
// only ever called statically becomes an entry requirement checked at its call sites, transitively.

import (
	"fmt"
	"go/token"
	"go/types"
	"sort"
	"strings"

	"golang.org/x/tools/go/ssa"
)

type guardedField struct {
	Field  string // "Owner.field"
	Lock   string // "Owner.lockField" (same owner)
	Reason string
}

type lockKey struct {
	base ssa.Value
	lock string // lock field name
}
type lockset map[lockKey]int // 1 = R, 2 = W

func (l lockset) clone() lockset {
	r := lockset{}
	for k, v := range l {
		r[k] = v
	}
	return r
}

func lsMeet(a, b lockset) lockset {
	r := lockset{}
	for k, v := range a {
		if w, ok := b[k]; ok {
			if w < v {
				v = w
			}
			r[k] = v
		}
	}
	return r
}

func lsEq(a, b lockset) bool {
	if len(a) != len(b) {
		return false
	}
	for k, v := range a {
		if b[k] != v {
			return false
		}
	}
	return true
}

// ownerField: (owner type name, field name, canonical base) of a FieldAddr.
func ownerField(v ssa.Value) (owner, name string, base ssa.Value, ok bool) {
	fa, isFA := v.(*ssa.FieldAddr)
	if !isFA {
		return
	}
	pt, isP := fa.X.Type().Underlying().(*types.Pointer)
	if !isP {
		return
	}
	st, isS := pt.Elem().Underlying().(*types.Struct)
	if !isS {
		return
	}
	owner, _ = NamedOf(pt.Elem())
	return owner, st.Field(fa.Field).Name(), canon(fa.X), true
}

func lockOp(in ssa.Instruction) (lockKey, string, bool) {
	c, ok := in.(ssa.CallInstruction)
	if !ok {
		return lockKey{}, "", false
	}
	cal := c.Common().StaticCallee()
	if cal == nil || cal.Pkg == nil || cal.Pkg.Pkg.Path() != "sync" {
		return lockKey{}, "", false
	}
	name := cal.Name()
	switch name {
	case "Lock", "Unlock", "RLock", "RUnlock":
	default:
		return lockKey{}, "", false
	}
	if len(c.Common().Args) == 0 {
		return lockKey{}, "", false
	}
	_, f, base, ok := ownerField(c.Common().Args[0])
	if !ok {
		return lockKey{}, "", false
	}
	return lockKey{base, f}, name, true
}

type lockReq struct {
	paramIdx int
	lock     string
	mode     int
	site     string
}

type lockMiss struct {
	own  bool // the function takes this lock itself (in too weak a mode / too late): never a requirement
	in   ssa.Instruction
	base ssa.Value
	lock string
	mode int
	what string
}

type locksetEngine struct {
	p        *Program
	guarded  map[string]string // "Owner.field" -> lock field name
	requires map[*ssa.Function][]lockReq
	accesses int
	perField map[string]int
	// hook, when set, is shown every instruction with the locks that are certainly held before it
	hook func(i ssa.Instruction, held lockset)
}

// heldLocks runs the must-lockset dataflow over fn and shows visit every instruction together with the locks that are
// certainly held when it executes (keys: canonical base object, lock field name; 1 = read, 2 = write).
func heldLocks(p *Program, fn *ssa.Function, visit func(i ssa.Instruction, held lockset)) {
	e := &locksetEngine{p: p, guarded: map[string]string{}, requires: map[*ssa.Function][]lockReq{}, perField: map[string]int{}, hook: visit}
	e.analyse(fn, false)
}

func (e *locksetEngine) analyse(fn *ssa.Function, count bool) []lockMiss {
	in := map[*ssa.BasicBlock]lockset{}
	entry := lockset{}
	locked := map[lockKey]bool{}
	for _, b := range fn.Blocks {
		for _, i := range b.Instrs {
			if k, op, ok := lockOp(i); ok && (op == "Lock" || op == "RLock") {
				if _, isDefer := i.(*ssa.Defer); !isDefer {
					locked[k] = true
				}
			}
		}
	}
	// a function that defers Unlock of a lock it never takes starts with the lock held (hand-off idiom)
	for _, b := range fn.Blocks {
		for _, i := range b.Instrs {
			if d, isDefer := i.(*ssa.Defer); isDefer {
				if k, op, ok := lockOp(d); ok && op == "Unlock" && !locked[k] {
					entry[k] = 2
				}
			}
		}
	}
	// an immediately-invoked literal (what is left of a helper that was inlined back) runs with the locks its caller
	// holds at the call; its captured variables are the caller's (canon resolves them), so the keys agree
	if cl := iifeCall(fn); cl != nil && fn.Parent() != nil && fn.Parent().Blocks != nil {
		heldLocks(e.p, fn.Parent(), func(i ssa.Instruction, held lockset) {
			if i == ssa.Instruction(cl) {
				for k, v := range held {
					if entry[k] < v {
						entry[k] = v
					}
				}
			}
		})
	}
	in[fn.Blocks[0]] = entry
	work := []*ssa.BasicBlock{fn.Blocks[0]}
	out := map[*ssa.BasicBlock]lockset{}
	transfer := func(b *ssa.BasicBlock, s lockset, visit func(i ssa.Instruction, s lockset)) lockset {
		s = s.clone()
		for _, i := range b.Instrs {
			if visit != nil {
				visit(i, s)
			}
			if _, isDefer := i.(*ssa.Defer); isDefer {
				continue
			}
			if _, isGo := i.(*ssa.Go); isGo {
				continue
			}
			if k, op, ok := lockOp(i); ok {
				switch op {
				case "Lock":
					s[k] = 2
				case "RLock":
					if s[k] < 1 {
						s[k] = 1
					}
				case "Unlock", "RUnlock":
					delete(s, k)
				}
			}
		}
		return s
	}
	for len(work) > 0 {
		b := work[0]
		work = work[1:]
		o := transfer(b, in[b], nil)
		if prev, ok := out[b]; ok && lsEq(prev, o) {
			continue
		}
		out[b] = o
		for _, s := range b.Succs {
			if cur, ok := in[s]; ok {
				m := lsMeet(cur, o)
				if !lsEq(m, cur) {
					in[s] = m
					work = append(work, s)
				} else if _, done := out[s]; !done {
					work = append(work, s)
				}
			} else {
				in[s] = o.clone()
				work = append(work, s)
			}
		}
	}
	var misses []lockMiss
	for _, b := range fn.Blocks {
		st, ok := in[b]
		if !ok {
			continue
		}
		transfer(b, st, func(i ssa.Instruction, s lockset) {
			if e.hook != nil {
				e.hook(i, s)
			}
			switch x := i.(type) {
			case *ssa.UnOp:
				if x.Op != token.MUL {
					return
				}
				owner, name, base, ok := ownerField(x.X)
				if !ok {
					return
				}
				lk, ok := e.guarded[owner+"."+name]
				if !ok {
					return
				}
				mode := 1
				for _, ref := range *x.Referrers() {
					switch r := ref.(type) {
					case *ssa.MapUpdate:
						if r.Map == ssa.Value(x) {
							mode = 2
						}
					case *ssa.Call:
						if bi, ok := r.Call.Value.(*ssa.Builtin); ok && bi.Name() == "delete" && len(r.Call.Args) > 0 && r.Call.Args[0] == ssa.Value(x) {
							mode = 2
						}
					}
				}
				if count {
					e.accesses++
					e.perField[owner+"."+name]++
				}
				if s[lockKey{base, lk}] < mode {
					w := "read of "
					if mode == 2 {
						w = "map write through "
					}
					misses = append(misses, lockMiss{locked[lockKey{base, lk}], i, base, lk, mode, w + owner + "." + name})
				}
			case *ssa.Store:
				owner, name, base, ok := ownerField(x.Addr)
				if !ok {
					return
				}
				lk, ok := e.guarded[owner+"."+name]
				if !ok {
					return
				}
				if count {
					e.accesses++
					e.perField[owner+"."+name]++
				}
				if s[lockKey{base, lk}] < 2 {
					misses = append(misses, lockMiss{locked[lockKey{base, lk}], i, base, lk, 2, "write of " + owner + "." + name})
				}
			case *ssa.Call:
				cal := x.Call.StaticCallee()
				if cal == nil {
					return
				}
				for _, r := range e.requires[cal] {
					if r.paramIdx >= len(x.Call.Args) {
						continue
					}
					a := canon(x.Call.Args[r.paramIdx])
					if s[lockKey{a, r.lock}] < r.mode {
						misses = append(misses, lockMiss{locked[lockKey{a, r.lock}], i, a, r.lock, r.mode, "call of " + e.p.Name(cal) + " which needs " + r.lock + " [" + r.site + "]"})
					}
				}
			}
		})
	}
	return misses
}

func lsFresh(v ssa.Value) bool {
	switch x := v.(type) {
	case *ssa.Alloc:
		// an object allocated here (new(T), &T{…}); a cell holding a pointer (spilled parameter,
		// captured variable) is not a fresh object
		_, isPtrCell := x.Type().(*types.Pointer).Elem().Underlying().(*types.Pointer)
		return !isPtrCell
	case *ssa.Phi:
		for _, e := range x.Edges {
			if !lsFresh(e) {
				return false
			}
		}
		return true
	}
	return false
}

// onlyStaticallyCalled: every reference to fn is the callee of a plain call (not go, not defer,
// not a method value / function value).
func (p *Program) onlyStaticallyCalled(fn *ssa.Function) bool {
	if p.refStatic == nil {
		p.refStatic = map[*ssa.Function]int{}
		p.refOther = map[*ssa.Function]bool{}
		for _, f := range p.Fns {
			for _, b := range f.Blocks {
				for _, in := range b.Instrs {
					for _, op := range in.Operands(nil) {
						g, ok := (*op).(*ssa.Function)
						if !ok {
							continue
						}
						if c, isCall := in.(*ssa.Call); isCall && c.Call.Value == ssa.Value(g) {
							p.refStatic[g]++
						} else {
							p.refOther[g] = true
						}
					}
					if mc, ok := in.(*ssa.MakeClosure); ok {
						if w, ok := mc.Fn.(*ssa.Function); ok && w.Synthetic != "" {
							p.refOther[p.unwrapSynthetic(w)] = true
						}
					}
				}
			}
		}
	}
	return p.refStatic[fn] > 0 && !p.refOther[fn]
}

// paramOfCell: the parameter a base value denotes — the parameter itself, or the local cell it was
// spilled to because a closure captures it.
func paramOfCell(v ssa.Value) *ssa.Parameter {
	switch x := v.(type) {
	case *ssa.Parameter:
		return x
	case *ssa.Alloc:
		var pr *ssa.Parameter
		n := 0
		for _, r := range *x.Referrers() {
			if st, ok := r.(*ssa.Store); ok && st.Addr == ssa.Value(x) {
				n++
				pr, _ = st.Val.(*ssa.Parameter)
			}
		}
		if n == 1 {
			return pr
		}
	}
	return nil
}

func runLockset(c *Ctx, rule string, table []guardedField, floor int) {
	p := c.P
	c.Doc(rule, "must-lockset analysis: every access to a tabled field happens with the tabled lock of the same object held (write lock for writes and map updates); accesses in unexported, only-statically-called helpers become entry requirements checked at every call site, transitively; objects not yet published (allocated in the same function) are exempt")
	e := &locksetEngine{p: p, guarded: map[string]string{}, requires: map[*ssa.Function][]lockReq{}, perField: map[string]int{}}
	for _, g := range table {
		parts := strings.Split(g.Lock, ".")
		e.guarded[g.Field] = parts[len(parts)-1]
		// anchors must exist
		if !p.fieldExists(g.Field) || !p.fieldExists(g.Lock) {
			c.Unresolved(rule, "guarded-by entry "+g.Field+" / "+g.Lock)
		}
	}
	static := map[*ssa.Function]bool{}
	for _, fn := range p.Fns {
		if fn.Parent() == nil && !token.IsExported(fn.Name()) && p.onlyStaticallyCalled(fn) {
			static[fn] = true
		}
	}
	final := map[string]lockMiss{}
	finalFn := map[string]*ssa.Function{}
	for iter := 0; iter < 8; iter++ {
		changed := false
		final = map[string]lockMiss{}
		for _, fn := range p.Fns {
			for _, m := range e.analyse(fn, false) {
				if lsFresh(m.base) {
					continue
				}
				if pr := paramOfCell(m.base); pr != nil && static[fn] && !m.own {
					idx := -1
					for i, q := range fn.Params {
						if q == pr {
							idx = i
						}
					}
					dup := false
					for _, r := range e.requires[fn] {
						if r.paramIdx == idx && r.lock == m.lock && r.mode >= m.mode {
							dup = true
						}
					}
					if !dup {
						e.requires[fn] = append(e.requires[fn], lockReq{idx, m.lock, m.mode, p.Name(fn) + ": " + m.what + " at " + p.Pos(m.in)})
						changed = true
					}
					continue
				}
				key := fmt.Sprintf("%s|%s|%s", p.Name(fn), m.what, p.Pos(m.in))
				final[key] = m
				finalFn[key] = fn
			}
		}
		if !changed {
			break
		}
	}
	// count accesses once
	for _, fn := range p.Fns {
		e.analyse(fn, true)
	}
	keys := make([]string, 0, len(final))
	for k := range final {
		keys = append(keys, k)
	}
	sort.Strings(keys)
	for _, k := range keys {
		m := final[k]
		mode := "read"
		if m.mode == 2 {
			mode = "write"
		}
		construct := m.what
		if i := strings.Index(construct, " ["); i >= 0 {
			construct = construct[:i] // the requirement's origin (with its position) is detail, not identity
		}
		construct = strings.ReplaceAll(construct, " ", "_")
		c.Fail(rule, finalFn[k], construct, m.in, m.what+" without holding "+m.lock+" ("+mode+" mode) of the same object: data race with the lock's other users", nil)
	}
	// one obligation per tabled field: all its accesses hold the lock
	bad := map[string]bool{}
	for _, k := range keys {
		for _, g := range table {
			if strings.Contains(final[k].what, g.Field) {
				bad[g.Field] = true
			}
		}
	}
	for _, g := range table {
		if e.perField[g.Field] == 0 {
			c.Fail(rule, nil, "field:"+g.Field, nil, "no access to the tabled field found (anchor drifted)", nil)
			continue
		}
		if !bad[g.Field] {
			c.OK(rule, nil, "field:"+g.Field, nil, fmt.Sprintf("%d accesses, all under %s (%s)", e.perField[g.Field], g.Lock, g.Reason))
		}
	}
	var reqs []string
	for f, rs := range e.requires {
		for _, r := range rs {
			reqs = append(reqs, fmt.Sprintf("%s needs %s (mode %d)", p.Name(f), r.lock, r.mode))
		}
	}
	sort.Strings(reqs)
	if len(reqs) > 0 {
		c.Notes = append(c.Notes, rule+": inferred entry requirements, all checked at call sites: "+strings.Join(reqs, "; "))
	}
	c.Floor(rule, floor)
	checkAtomicity(c, rule, e)
}

func (p *Program) fieldExists(path string) bool {
	parts := strings.Split(path, ".")
	if len(parts) != 2 {
		return false
	}
	for _, sp := range []*ssa.Package{p.Sarama, p.Mocks} {
		obj := sp.Pkg.Scope().Lookup(parts[0])
		if obj == nil {
			continue
		}
		st, ok := obj.Type().Underlying().(*types.Struct)
		if !ok {
			continue
		}
		for i := 0; i < st.NumFields(); i++ {
			if st.Field(i).Name() == parts[1] {
				return true
			}
		}
	}
	return false
}

// ---------------------------------------------------------------- check-then-act across critical sections

// checkAtomicity: a value read from a guarded field in one critical section must not decide what a later, separate
// write-mode critical section on the same lock does (the lock was released in between, so the value may be stale:
// "is it still the head of the list? then pop the head" done in two steps pops the wrong element).  Intraprocedural:
//   - acq(i): the acquisitions (Lock/RLock call instructions) of lock k that may be the one held at instruction i
//     (forward may-dataflow; empty = not held)
//   - taint(v): acquisitions under which a guarded field was read that v is computed from (pure operations only)
//   - sink: a branch on, or a guarded-field write of, a value tainted by acquisition A, executed under a write-mode
//     acquisition B of the same lock with B ∉ A's set; or a branch outside any section of that lock that guards a
//     later write-mode acquisition of it.
func checkAtomicity(c *Ctx, rule string, e *locksetEngine) {
	p := c.P
	n := 0
	for _, fn := range p.Fns {
		if fn.Blocks == nil {
			continue
		}
		// only functions with at least two acquisitions of one lock
		acqCount := map[lockKey]int{}
		for _, b := range fn.Blocks {
			for _, i := range b.Instrs {
				if _, isDefer := i.(*ssa.Defer); isDefer {
					continue
				}
				if k, op, ok := lockOp(i); ok && (op == "Lock" || op == "RLock") {
					acqCount[k]++
				}
				if cl, ok := i.(*ssa.Call); ok {
					if k, ok := selfLockingCall(cl); ok {
						acqCount[k]++
					}
				}
			}
		}
		multi := false
		for _, cnt := range acqCount {
			if cnt >= 2 {
				multi = true
			}
		}
		if !multi {
			continue
		}
		n++
		for _, f := range atomicityFindings(p, fn, e.guarded) {
			c.Fail(rule, fn, "stale-decision:"+f.field, f.at, f.msg, nil)
		}
	}
	c.Notes = append(c.Notes, fmt.Sprintf("%s: check-then-act across critical sections examined in %d function(s) that take one lock more than once", rule, n))
}

type atomFinding struct {
	field string
	at    ssa.Instruction
	msg   string
}

type acqSet map[ssa.Instruction]bool

type acqState map[lockKey]acqSet

// acquisitionsAt: for every instruction, per lock, the acquisitions (Lock/RLock call instructions) that may be the one
// currently held there (forward may-dataflow; absent = not held on any path).
func acquisitionsAt(fn *ssa.Function) map[ssa.Instruction]acqState {
	type state = acqState
	clone := func(s state) state {
		r := state{}
		for k, v := range s {
			nv := acqSet{}
			for a := range v {
				nv[a] = true
			}
			r[k] = nv
		}
		return r
	}
	join := func(dst, src state) bool {
		ch := false
		for k, v := range src {
			if dst[k] == nil {
				dst[k] = acqSet{}
			}
			for a := range v {
				if !dst[k][a] {
					dst[k][a] = true
					ch = true
				}
			}
		}
		return ch
	}
	step := func(i ssa.Instruction, s state) {
		if _, isDefer := i.(*ssa.Defer); isDefer {
			return
		}
		if _, isGo := i.(*ssa.Go); isGo {
			return
		}
		if k, op, ok := lockOp(i); ok {
			switch op {
			case "Lock", "RLock":
				s[k] = acqSet{i: true}
			default:
				delete(s, k)
			}
		}
	}
	in := map[*ssa.BasicBlock]state{fn.Blocks[0]: {}}
	work := []*ssa.BasicBlock{fn.Blocks[0]}
	for len(work) > 0 {
		b := work[0]
		work = work[1:]
		s := clone(in[b])
		for _, i := range b.Instrs {
			step(i, s)
		}
		for _, succ := range b.Succs {
			if in[succ] == nil {
				in[succ] = clone(s)
				work = append(work, succ)
			} else if join(in[succ], s) {
				work = append(work, succ)
			}
		}
	}
	at := map[ssa.Instruction]acqState{}
	for _, b := range fn.Blocks {
		if in[b] == nil {
			continue
		}
		s := clone(in[b])
		for _, i := range b.Instrs {
			at[i] = clone(s)
			step(i, s)
		}
	}
	return at
}

// selfLockingCall: a static call of a method that takes (R)Lock of a lock field of its own receiver; the key is that
// lock on the caller's receiver value.
func selfLockingCall(cl *ssa.Call) (lockKey, bool) {
	cal := cl.Call.StaticCallee()
	if cal == nil || cal.Blocks == nil || cal.Signature.Recv() == nil || len(cal.Params) == 0 || len(cl.Call.Args) == 0 {
		return lockKey{}, false
	}
	if cal.Signature.Results().Len() == 0 {
		return lockKey{}, false
	}
	recv := canon(cal.Params[0])
	for _, b := range cal.Blocks {
		for _, i := range b.Instrs {
			if _, isDefer := i.(*ssa.Defer); isDefer {
				continue
			}
			if k, op, ok := lockOp(i); ok && (op == "Lock" || op == "RLock") && k.base == recv {
				return lockKey{canon(cl.Call.Args[0]), k.lock}, true
			}
		}
	}
	return lockKey{}, false
}

func atomicityFindings(p *Program, fn *ssa.Function, guarded map[string]string) []atomFinding {
	at := acquisitionsAt(fn)
	isWriteAcq := func(a ssa.Instruction) bool {
		_, op, _ := lockOp(a)
		return op == "Lock"
	}
	// taint
	type tkey struct {
		k lockKey
	}
	taint := map[ssa.Value]map[lockKey]acqSet{}
	field := map[ssa.Value]string{}
	fromCall := map[ssa.Value]bool{} // tainted (also) by a self-locking call: only the mixed-snapshot sink looks at these
	add := func(v ssa.Value, k lockKey, as acqSet, f string) bool {
		if taint[v] == nil {
			taint[v] = map[lockKey]acqSet{}
		}
		if taint[v][k] == nil {
			taint[v][k] = acqSet{}
		}
		ch := false
		for a := range as {
			if !taint[v][k][a] {
				taint[v][k][a] = true
				ch = true
			}
		}
		if ch && field[v] == "" {
			field[v] = f
		}
		return ch
	}
	for changed := true; changed; {
		changed = false
		for _, b := range fn.Blocks {
			for _, i := range b.Instrs {
				v, isVal := i.(ssa.Value)
				if !isVal {
					continue
				}
				if u, ok := i.(*ssa.UnOp); ok && u.Op == token.MUL {
					if owner, name, base, ok := ownerField(u.X); ok {
						if lk, ok := guarded[owner+"."+name]; ok {
							k := lockKey{base, lk}
							if as := at[i][k]; len(as) > 0 {
								if add(v, k, as, owner+"."+name) {
									changed = true
								}
							}
							continue
						}
					}
				}
				// the result of a method of the same object that takes the lock itself: read in a section of its own (the call
				// instruction stands for that acquisition)
				if cl, ok := i.(*ssa.Call); ok {
					if k, ok := selfLockingCall(cl); ok {
						if add(v, k, acqSet{cl: true}, "the result of "+cl.Call.StaticCallee().Name()+"()") {
							changed = true
						}
						fromCall[v] = true
						continue
					}
				}
				var ops []ssa.Value
				switch x := i.(type) {
				case *ssa.BinOp:
					ops = []ssa.Value{x.X, x.Y}
				case *ssa.UnOp:
					if x.Op != token.MUL && x.Op != token.ARROW {
						ops = []ssa.Value{x.X}
					}
				case *ssa.Convert:
					ops = []ssa.Value{x.X}
				case *ssa.ChangeType:
					ops = []ssa.Value{x.X}
				case *ssa.MakeInterface:
					ops = []ssa.Value{x.X}
				case *ssa.Phi:
					ops = x.Edges
				case *ssa.Lookup:
					ops = []ssa.Value{x.X, x.Index}
				case *ssa.Extract:
					ops = []ssa.Value{x.Tuple}
				case *ssa.Slice:
					ops = []ssa.Value{x.X}
				case *ssa.Index:
					ops = []ssa.Value{x.X}
				case *ssa.IndexAddr:
					ops = []ssa.Value{x.X}
				case *ssa.Call:
					if bi, ok := x.Call.Value.(*ssa.Builtin); ok && (bi.Name() == "len" || bi.Name() == "cap") {
						ops = x.Call.Args
					}
				}
				// something read through a tainted address (element of a tainted slice, field of a tainted pointer)
				if u, ok := i.(*ssa.UnOp); ok && u.Op == token.MUL {
					switch a := u.X.(type) {
					case *ssa.IndexAddr:
						ops = []ssa.Value{a}
					case *ssa.FieldAddr:
						ops = []ssa.Value{a}
					}
				}
				switch x := i.(type) {
				case *ssa.FieldAddr:
					ops = []ssa.Value{x.X}
				case *ssa.Field:
					ops = []ssa.Value{x.X}
				}
				for _, o := range ops {
					for k, as := range taint[o] {
						if add(v, k, as, field[o]) {
							changed = true
						}
					}
					if fromCall[o] && !fromCall[v] {
						fromCall[v] = true
						changed = true
					}
				}
			}
		}
	}
	var out []atomFinding
	seen := map[ssa.Instruction]bool{}
	report := func(i ssa.Instruction, v ssa.Value, k lockKey, how string) {
		if seen[i] {
			return
		}
		seen[i] = true
		out = append(out, atomFinding{field[v], i, "a value read from " + field[v] + " in one critical section of " + k.lock + " " + how + " in a later, separate write section of the same lock: the lock was released in between, so the decision can be stale (two goroutines both see the condition true and both act — e.g. the head seed is popped twice and a healthy seed is lost)"})
	}
	// rereads: the section opened by acquisition j reads the field again (the double-checked idiom: the stale value only
	// decides whether to take the lock; the decision proper is made again inside)
	rereads := func(j ssa.Instruction, k lockKey, f string) bool {
		for _, b := range fn.Blocks {
			for _, i := range b.Instrs {
				u, ok := i.(*ssa.UnOp)
				if !ok || u.Op != token.MUL || !at[i][k][j] {
					continue
				}
				if owner, name, base, ok := ownerField(u.X); ok && owner+"."+name == f && base == k.base {
					return true
				}
			}
		}
		return false
	}
	for _, b := range fn.Blocks {
		for _, i := range b.Instrs {
			var used []ssa.Value
			kind := ""
			switch x := i.(type) {
			case *ssa.If:
				used, kind = []ssa.Value{x.Cond}, "decides a branch"
			case *ssa.Store:
				if owner, name, _, ok := ownerField(x.Addr); ok {
					if _, g := guarded[owner+"."+name]; g {
						used, kind = []ssa.Value{x.Val}, "is written back to "+owner+"."+name
					}
				}
			}
			// mixed snapshot: a guarded table is indexed, in one section, with a value read in another
			if lk, isLk := i.(*ssa.Lookup); isLk {
				if ld, isLd := lk.X.(*ssa.UnOp); isLd && ld.Op == token.MUL {
					if owner, name, base, ok := ownerField(ld.X); ok {
						if lkn, g := guarded[owner+"."+name]; g {
							k := lockKey{base, lkn}
							cur := at[i][k]
							if as := taint[lk.Index][k]; len(cur) > 0 && len(as) > 0 {
								disjoint := true
								for a := range cur {
									if as[a] {
										disjoint = false
									}
								}
								if disjoint && !seen[i] {
									seen[i] = true
									out = append(out, atomFinding{"mixed:" + owner + "." + name, i, owner + "." + name + " is indexed with a value taken from " + field[lk.Index] + " in an earlier, separate critical section of " + k.lock + ": a refresh can replace both tables in between, so the answer pairs the old state of one with the new state of the other (a leader id from before the refresh looked up in the broker table from after it: a broker no response ever named as the leader) — readers must see the state before or after a refresh, never a mixture"})
								}
							}
						}
					}
				}
			}
			for _, v := range used {
				if fromCall[v] {
					continue
				}
				for k, as := range taint[v] {
					cur := at[i][k]
					if len(cur) > 0 {
						// evaluated under acquisition(s) cur: all of them different from where the value was read, and a write section
						disjoint, write := true, true
						for a := range cur {
							if as[a] {
								disjoint = false
							}
							if !isWriteAcq(a) {
								write = false
							}
						}
						if disjoint && write {
							report(i, v, k, kind)
						}
						continue
					}
					// outside any section of k: a branch that guards a later write-mode acquisition of k
					iff, isIf := i.(*ssa.If)
					if !isIf || len(b.Succs) != 2 {
						continue
					}
					_ = iff
					for _, succ := range b.Succs {
						if len(succ.Preds) != 1 {
							continue
						}
						for _, b2 := range fn.Blocks {
							if !succ.Dominates(b2) {
								continue
							}
							for _, j := range b2.Instrs {
								if _, isDefer := j.(*ssa.Defer); isDefer {
									continue
								}
								if k2, op, ok := lockOp(j); ok && op == "Lock" && k2 == k && !as[j] && !rereads(j, k, field[v]) {
									report(i, v, k, "decides whether the lock is taken for writing")
								}
							}
						}
					}
				}
			}
		}
	}
	return out
}
