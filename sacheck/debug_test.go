package main

import (
	"os"
	"testing"
)

func TestDbg(t *testing.T) {
	p, err := Load("/repo", "", nil)
	if err != nil {
		t.Fatal(err)
	}
	fn := p.Fn(os.Getenv("FN"))
	fn.WriteTo(os.Stdout)
}
