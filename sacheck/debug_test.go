package main

import (
	"os"
	"testing"
)

// TestDbg dumps the SSA of the function named by $FN as the checker sees it (debugging aid).
func TestDbg(t *testing.T) {
	n := os.Getenv("FN")
	if n == "" {
		t.Skip("set FN=<short function name>")
	}
	p, err := Load("/repo", "", nil)
	if err != nil {
		t.Fatal(err)
	}
	if f := p.Fn(n); f != nil {
		f.WriteTo(os.Stdout)
	}
}
