package main

import (
	"os"
	"testing"
)

// TestDbg dumps the SSA of the function named by $FN as the checker sees it (debugging aid).
func TestDbg(t *testing.T) {
	n := os.Getenv("FN")
	if n == "" {
		t.Skip("set FN=<short function name>")
	}
	p, err := Load("/repo", "", nil)
	if err != nil {
		t.Fatal(err)
	}
	if f := p.Fn(n); f != nil {
		f.WriteTo(os.Stdout)
	}
}

func TestLostErrors(t *testing.T) {
	if os.Getenv("LOSTERR") == "" {
		t.Skip()
	}
	p, err := Load("/repo", "", nil)
	if err != nil {
		t.Fatal(err)
	}
	for _, fn := range p.Fns {
		for _, l := range p.lostErrors(fn) {
			t.Logf("%s %s %s %s", p.Name(fn), l.kind, l.call, p.Pos(l.at))
		}
	}
}
