package main

// C16 — produce requests respect the configured size and count limits, and flush on time.

import (
	"go/constant"
	"fmt"
	"go/token"

	"golang.org/x/tools/go/ssa"
)

func returnsBool(want bool) Ev {
	return func(it Item) bool {
		r, ok := it.In.(*ssa.Return)
		return ok && len(r.Results) == 1 && ConstBool(want)(RetVals(r)[0])
	}
}

func init() {
	register(&propDef{
		ID:    "C16",
		Title: "Produce requests respect the configured size and count limits, and flush on time",
		Explain: "Decides with guard/path rules: the broker worker tests wouldOverflow(msg) before every buffer.add(msg) and waits for space when it holds (C16.check-before-add); wouldOverflow returns true on each of the three limit predicates, expressed as canonical comparisons over the buffer counters and the configuration (C16.limits); the dispatcher rejects a message whose size exceeds MaxMessageBytes instead of handing it on (C16.reject); " +
			"readyToFlush is true on each configured trigger and false when empty, the output channel is enabled exactly under timerFired ∨ readyToFlush, the flush timer is armed after an add when Frequency > 0 and none is pending, and rollOver resets both (C16.flush). " +
			"NOT covered: the byte-size estimate versus the real wire size (numeric), timing.",
		Rules: []func(*Ctx){c16CheckBeforeAdd, c16Limits, c16Estimate, c16Reject, c16Flush, c04FormatGate, c01ErrLost, c16ExactSize, c16SizeAfterInterceptors, c16RoomRechecked, c04Accounting, c16EstimateSummands},
	})
}

func c16CheckBeforeAdd(c *Ctx) {
	p := c.P
	rule := "C16.check-before-add"
	c.Doc(rule, "brokerProducer.run: wouldOverflow(msg) precedes buffer.add(msg) on every path of the iteration, and from the edge where it returned true waitForSpace precedes add")
	c.Floor(rule, 2)
	fn := c.NeedFn(rule, "brokerProducer.run")
	if fn == nil {
		return
	}
	fi := Info(fn)
	if len(fi.Loops) == 0 {
		c.Unresolved(rule, "run loop")
		return
	}
	reg := fi.Iteration(fi.Loops[0])
	add := p.CallTo("produceSet.add")
	would := p.CallTo("produceSet.wouldOverflow")
	if len(reg.Find(add)) == 0 {
		c.Unresolved(rule, "buffer.add in run")
		return
	}
	it, path := reg.MustPrecede(would, add)
	c.Check(it.IsZero(), rule, fn, "test-before-add", nil, "wouldOverflow is evaluated before every add", "a message can be added to the buffer without the overflow test: requests exceed MaxMessages/MaxMessageBytes/MaxRequestSize", path)
	es := reg.EstablishingEdges(Truth{p.ResultOf(0, "produceSet.wouldOverflow"), true})
	if len(es) == 0 {
		c.Fail(rule, fn, "wait-when-full", nil, "the result of wouldOverflow is not branched on", nil)
	}
	for _, e := range es {
		it, path := reg.From(Pt{e.To, 0}).MustPrecede(p.CallTo("brokerProducer.waitForSpace"), add)
		c.Check(it.IsZero(), rule, fn, "wait-when-full", lastInstr(e.From), "when the buffer would overflow, waitForSpace precedes add", "the message is added although wouldOverflow returned true (no waitForSpace on the path)", path)
	}
}

func c16Limits(c *Ctx) {
	p := c.P
	rule := "C16.limits"
	c.Doc(rule, "wouldOverflow returns true under bufferBytes+size >= MaxRequestSize-overhead, under partition bufferBytes+size >= MaxMessageBytes (existing partition set only), and under MaxMessages > 0 ∧ bufferCount >= MaxMessages")
	c.Floor(rule, 3)
	fn := c.NeedFn(rule, "produceSet.wouldOverflow")
	if fn == nil {
		return
	}
	reg := WholeFn(fn)
	size := p.ResultOf(0, "ProducerMessage.byteSize")
	maxReq := OrV(GlobalLoad("MaxRequestSize"), BinOpOf(token.SUB, GlobalLoad("MaxRequestSize"), AnyV()))
	preds := []struct {
		name string
		p    Pred
	}{
		{"request-bytes", Cmp{token.GEQ, BinOpOf(token.ADD, FieldLoad("produceSet.bufferBytes"), size), maxReq}},
		{"partition-bytes", Cmp{token.GEQ, BinOpOf(token.ADD, FieldLoad("partitionSet.bufferBytes"), size), FieldLoad("Config.Producer.MaxMessageBytes")}},
		{"max-messages", Cmp{token.GEQ, FieldLoad("produceSet.bufferCount"), FieldLoad("Config.Producer.Flush.MaxMessages")}},
	}
	returned := func(pr Pred) *ssa.BinOp { return returnedPredicate(fn, pr) }
	for i, pr := range preds {
		es := reg.EstablishingEdges(pr.p)
		if len(es) == 0 {
			if bo := returned(pr.p); bo != nil {
				c.Check(true, rule, fn, "limit:"+pr.name, bo, "the "+pr.name+" test is the value returned", "", nil)
				if i == 2 {
					g, path := reg.Guarded(Item{In: bo}, Cmp{token.GTR, FieldLoad("Config.Producer.Flush.MaxMessages"), ConstInt(0)})
					c.Check(g, rule, fn, "max-messages-only-when-set", bo, "the count limit applies only when MaxMessages > 0", "bufferCount >= MaxMessages is applied with MaxMessages == 0: nothing can ever be buffered", path)
				}
				continue
			}
			c.Fail(rule, fn, "limit:"+pr.name, nil, "the limit test "+pr.name+" is missing from wouldOverflow", nil)
			continue
		}
		for _, e := range es {
			it, path := reg.From(Pt{e.To, 0}).Reach(func(it Item) bool { return IsReturn()(it) && !returnsBool(true)(it) }, nil)
			c.Check(it.IsZero(), rule, fn, "limit:"+pr.name, lastInstr(e.From), "returns true whenever "+pr.name+" is reached", "wouldOverflow can return false although the "+pr.name+" limit is reached", path)
		}
	}
	// no early way out: a result other than true is reached only after the request-wide limits were looked at (an
	// early `return false` for a partition that is not in the buffer yet would skip them)
	notTrueRet := func(it Item) bool { return IsReturn()(it) && !returnsBool(true)(it) }
	for _, w := range []struct {
		name string
		ev   []Pred
	}{
		{"request-bytes", []Pred{preds[0].p}},
		{"max-messages", []Pred{preds[2].p, Cmp{token.GTR, FieldLoad("Config.Producer.Flush.MaxMessages"), ConstInt(0)}}},
	} {
		looked := func(it Item) bool {
			bo, ok := it.In.(*ssa.BinOp)
			if !ok {
				return false
			}
			for _, pr := range w.ev {
				if pr.holds(bo, false) || pr.holds(bo, true) {
					return true
				}
			}
			return false
		}
		it, path := reg.MustPrecede(looked, notTrueRet)
		c.Check(it.IsZero(), rule, fn, "limit-looked-at:"+w.name, it.Instr(), "every result other than true comes after the "+w.name+" test", "wouldOverflow can answer 'fits' without having looked at the "+w.name+" limit (an early return, e.g. for a partition that has nothing buffered yet): a message for a new partition is admitted although the request already holds Flush.MaxMessages messages (or is at the size limit)", path)
	}
	// max-messages only counts when configured (> 0)
	for _, e := range reg.EstablishingEdges(preds[2].p) {
		g, path := reg.Guarded(Item{In: e.To.Instrs[0]}, Cmp{token.GTR, FieldLoad("Config.Producer.Flush.MaxMessages"), ConstInt(0)})
		c.Check(g, rule, fn, "max-messages-only-when-set", lastInstr(e.From), "the count limit applies only when MaxMessages > 0", "bufferCount >= MaxMessages is applied with MaxMessages == 0: nothing can ever be buffered", path)
	}
}

func c16Reject(c *Ctx) {
	p := c.P
	rule := "C16.reject"
	c.Doc(rule, "dispatcher: the hand-off of a message to its topic handler is guarded by byteSize <= MaxMessageBytes; from the byteSize > MaxMessageBytes edge returnError(msg, ErrMessageSizeTooLarge) is called on every path")
	c.Floor(rule, 2)
	fn := c.NeedFn(rule, "asyncProducer.dispatcher")
	if fn == nil {
		return
	}
	fi := Info(fn)
	loops, vals := rangeChanLoops(fi, FieldLoad(pInputCh))
	if len(loops) != 1 {
		c.Unresolved(rule, "range p.input")
		return
	}
	reg, msg := fi.Iteration(loops[0]), vals[0]
	handoff := SendOn(func(v ssa.Value) bool { return !FieldLoad(pErrorsCh, pSuccessCh)(v) }, Same(msg))
	size := p.ResultOf(0, "ProducerMessage.byteSize")
	max := FieldLoad("Config.Producer.MaxMessageBytes")
	hs := reg.Find(handoff)
	if len(hs) == 0 {
		c.Unresolved(rule, "hand-off send in dispatcher")
	}
	for _, s := range hs {
		g, path := reg.Guarded(s, Cmp{token.LEQ, size, max})
		c.Check(g, rule, fn, "size-guard", s.Instr(), "hand-off guarded by byteSize <= MaxMessageBytes", "an oversized message can be handed to the pipeline (sent, rejected by the broker for the whole batch)", path)
	}
	es := reg.EstablishingEdges(Cmp{token.GTR, size, max})
	if len(es) == 0 {
		c.Fail(rule, fn, "reject", nil, "no branch on byteSize > MaxMessageBytes", nil)
	}
	tooLarge := p.NamedConst("ErrMessageSizeTooLarge")
	for _, e := range es {
		esc, path := reg.From(Pt{e.To, 0}).Escape(func(it Item) bool {
			cc, ok := callCommon(it)
			if !ok || p.CalleeName(cc) != "asyncProducer.returnError" || !sameValue(cc.Args[1], msg) {
				return false
			}
			if tooLarge(cc.Args[2]) {
				return true
			}
			// the verdict of a validation helper merged into one error variable: the value that flows in from this
			// branch is ErrMessageSizeTooLarge
			if ph, isPhi := strip(throughCell(cc.Args[2])).(*ssa.Phi); isPhi {
				for i, ed := range ph.Edges {
					if i < len(ph.Block().Preds) && tooLarge(ed) {
						pr := ph.Block().Preds[i]
						if pr == e.To || e.To.Dominates(pr) {
							return true
						}
					}
				}
			}
			return false
		})
		c.Check(!esc, rule, fn, "reject", lastInstr(e.From), "oversized message failed with ErrMessageSizeTooLarge", "an oversized message is not failed with ErrMessageSizeTooLarge on every path", path)
	}
}

func c16Flush(c *Ctx) {
	p := c.P
	rule := "C16.flush"
	c.Doc(rule, "readyToFlush: false when empty, true when no trigger is configured, true under Messages > 0 ∧ count >= Messages and under Bytes > 0 ∧ bytes >= Bytes; run: output enabled exactly under timerFired ∨ readyToFlush(); timer armed after an add under Frequency > 0 ∧ timer == nil; rollOver clears timer and timerFired")
	c.Floor(rule, 8)
	if fn := c.NeedFn(rule, "produceSet.readyToFlush"); fn != nil {
		reg := WholeFn(fn)
		notTrue := func(it Item) bool { return IsReturn()(it) && !returnsBool(true)(it) }
		notFalse := func(it Item) bool { return IsReturn()(it) && !returnsBool(false)(it) }
		triggers := []struct {
			name string
			p    Pred
			bad  Ev
			msg  string
		}{
			{"empty", Truth{p.ResultOf(0, "produceSet.empty"), true}, notFalse, "an empty buffer is reported ready to flush: empty produce requests are sent in a busy loop"},
			{"count", Cmp{token.GEQ, FieldLoad("produceSet.bufferCount"), FieldLoad("Config.Producer.Flush.Messages")}, notTrue, "buffer not flushed although Flush.Messages is reached"},
			{"bytes", Cmp{token.GEQ, FieldLoad("produceSet.bufferBytes"), FieldLoad("Config.Producer.Flush.Bytes")}, notTrue, "buffer not flushed although Flush.Bytes is reached"},
			{"none-configured", Cmp{token.EQL, FieldLoad("Config.Producer.Flush.Messages"), ConstInt(0)}, nil, ""},
		}
		for _, t := range triggers {
			es := reg.EstablishingEdges(t.p)
			if len(es) == 0 {
				if bo := returnedPredicate(fn, t.p); bo != nil && (t.name == "count" || t.name == "bytes") {
					c.Check(true, rule, fn, "trigger:"+t.name, bo, "trigger "+t.name+" is the value returned", "", nil)
					continue
				}
				c.Fail(rule, fn, "trigger:"+t.name, nil, "trigger test "+t.name+" missing from readyToFlush", nil)
				continue
			}
			if t.bad == nil {
				// all three zero ⇒ true: the edge Messages == 0 reached after Frequency == 0 and Bytes == 0
				for _, e := range es {
					g1, _ := reg.Guarded(Item{In: e.To.Instrs[0]}, Cmp{token.EQL, FieldLoad("Config.Producer.Flush.Frequency"), ConstInt(0)})
					g2, _ := reg.Guarded(Item{In: e.To.Instrs[0]}, Cmp{token.EQL, FieldLoad("Config.Producer.Flush.Bytes"), ConstInt(0)})
					if !(g1 && g2) {
						continue
					}
					it, path := reg.From(Pt{e.To, 0}).Reach(notTrue, nil)
					c.Check(it.IsZero(), rule, fn, "trigger:none-configured", lastInstr(e.From), "with no trigger configured a non-empty buffer is always ready", "with no flush trigger configured a buffered message can wait for further input", path)
				}
				continue
			}
			for _, e := range es {
				it, path := reg.From(Pt{e.To, 0}).Reach(t.bad, nil)
				c.Check(it.IsZero(), rule, fn, "trigger:"+t.name, lastInstr(e.From), "trigger "+t.name+" decides the result", t.msg, path)
			}
		}
	}
	if fn := c.NeedFn(rule, "brokerProducer.run"); fn != nil {
		fi := Info(fn)
		if len(fi.Loops) > 0 {
			reg := fi.Iteration(fi.Loops[0])
			// the phi `output` consumed by the select send
			var out *ssa.Phi
			for _, it := range fi.Find(func(it Item) bool { return it.Sel != nil }) {
				st := it.Sel.States[it.Case]
				if ph, ok := st.Chan.(*ssa.Phi); ok && st.Send != nil && isPtrToNamed(st.Send.Type(), "produceSet") {
					out = ph
				}
			}
			if out == nil {
				c.Unresolved(rule, "select send on the local output channel in run")
			} else {
				ready := AnyOf{Truth{FieldLoad("brokerProducer.timerFired"), true}, Truth{p.ResultOf(0, "produceSet.readyToFlush"), true}}
				nEn, nDis := 0, 0
				for i, e := range out.Edges {
					pred := out.Block().Preds[i]
					if pred == fn.Blocks[0] || !reg.Allowed[pred] && pred != fi.Loops[0].Head {
						continue // loop entry: initial nil
					}
					site := Item{In: lastInstr(pred)}
					if FieldLoad("brokerProducer.output")(e) {
						nEn++
						g, path := reg.Guarded(site, ready)
						g = g || Establishes(pred, out.Block(), ready)
						c.Check(g, rule, fn, "output-enabled", lastInstr(pred), "output enabled only under timerFired ∨ readyToFlush()", "the output channel is enabled without timerFired ∨ readyToFlush(): partial batches are flushed ignoring the configured triggers", path)
					} else if IsNil()(e) {
						if lastInstr(pred) == nil || pred == fn.Blocks[0] {
							continue
						}
						// disabled only when both are false
						// the fact may hold at the predecessor's end or be established by the very edge into the merge
						// (`output = nil; if ready { output = bp.output }` merges straight from the test)
						notFired, notReady := Truth{FieldLoad("brokerProducer.timerFired"), false}, Truth{p.ResultOf(0, "produceSet.readyToFlush"), false}
						g1, p1 := reg.Guarded(site, notFired)
						g1 = g1 || Establishes(pred, out.Block(), notFired)
						g2, p2 := reg.Guarded(site, notReady)
						g2 = g2 || Establishes(pred, out.Block(), notReady)
						if g1 && g2 {
							nDis++
							c.OK(rule, fn, "output-disabled", lastInstr(pred), "output disabled only under ¬timerFired ∧ ¬readyToFlush()")
						} else if _, isJump := lastInstr(pred).(*ssa.Jump); isJump && len(pred.Preds) > 0 && !pred.Dominates(out.Block()) || true {
							// entry edge of the loop (initial value) is not inside the iteration
							if reg.Allowed[pred] {
								pp := p1
								if g1 {
									pp = p2
								}
								c.Fail(rule, fn, "output-disabled", lastInstr(pred), "the output channel can be disabled although timerFired ∨ readyToFlush(): a ready batch waits for further input", pp)
							}
						}
					}
				}
				if nEn == 0 {
					c.Fail(rule, fn, "output-enabled", nil, "the select's output channel is never bp.output", nil)
				}
			}
			// timer armed after add
			arm := StoreTo(p.ResultOf(0, "time.After"), "brokerProducer.timer")
			as := reg.Find(arm)
			if len(as) == 0 {
				c.Fail(rule, fn, "timer-armed", nil, "the flush timer is never armed: Flush.Frequency has no effect", nil)
			}
			for _, a := range as {
				g1, p1 := reg.Guarded(a, Cmp{token.GTR, FieldLoad("Config.Producer.Flush.Frequency"), ConstInt(0)})
				g2, _ := reg.Guarded(a, Cmp{token.EQL, FieldLoad("brokerProducer.timer"), IsNil()})
				it, _ := reg.MustPrecede(p.CallTo("produceSet.add"), IsItem(a))
				c.Check(g1 && g2 && it.IsZero(), rule, fn, "timer-armed", a.Instr(), "timer armed after an add, under Frequency > 0 ∧ timer == nil", "the flush timer is armed outside (add succeeded ∧ Frequency > 0 ∧ no timer pending): flushes are delayed or never fire", p1)
			}
			// and conversely: after a successful add, with a frequency configured and no timer pending, the timer IS
			// armed — whatever else holds (a batch that is "ready anyway" can stop being ready when a partition is
			// dropped from it; what remains then has no trigger at all)
			freqOff := AnyOf{Cmp{token.LEQ, FieldLoad("Config.Producer.Flush.Frequency"), ConstInt(0)}, Cmp{token.EQL, FieldLoad("Config.Producer.Flush.Frequency"), ConstInt(0)}}
			pending := Cmp{token.NEQ, FieldLoad("brokerProducer.timer"), IsNil()}
			for _, ad := range reg.Find(p.CallTo("produceSet.add")) {
				cl, isCall := ad.In.(*ssa.Call)
				if !isCall {
					continue
				}
				okEdges := reg.EstablishingEdges(Cmp{token.EQL, Same(cl), IsNil()})
				for _, e := range okEdges {
					r := *reg.From(Pt{e.To, 0})
					r.Cut = func(from, to *ssa.BasicBlock) bool {
						return Establishes(from, to, freqOff) || Establishes(from, to, pending)
					}
					esc, pth := r.Escape(arm)
					c.Check(!esc, rule, fn, "timer-armed-after-every-add", cl, "after a successful add the timer is armed whenever Frequency > 0 and none is pending", "after a successful add the flush timer is not armed on every path on which Flush.Frequency > 0 and no timer is pending (an extra condition skips it): the batch can later lose the messages that made it 'ready' (a partition dropped after a retriable error) and the rest waits without any trigger — no outcome, Close hangs", pth)
				}
			}
		}
	}
	// wherever the pending buffer is replaced by a fresh one (rollOver, or the same statements written out
	// elsewhere) the flush timer state is reset in the same function, on every path through the replacement:
	// a drained timer that stays non-nil is never re-armed and a lone message is never flushed
	nRepl := 0
	fresh := StoreTo(p.ResultOf(0, "newProduceSet"), "brokerProducer.buffer")
	for _, f := range p.Fns {
		if f.Pkg != p.Sarama || p.Name(f) == "asyncProducer.newBrokerProducer" {
			continue
		}
		reg := WholeFn(f)
		for _, s := range Info(f).Find(fresh) {
			if _, isAlloc := fieldChain(s.In.(*ssa.Store).Addr)[0].base.(*ssa.Alloc); isAlloc {
				continue // constructor literal
			}
			nRepl++
			for _, t := range []struct {
				name string
				ev   Ev
			}{{"timer=nil", StoreTo(IsNil(), "brokerProducer.timer")}, {"timerFired=false", StoreTo(ConstBool(false), "brokerProducer.timerFired")}} {
				before, _ := reg.Reach(IsItem(s), t.ev)
				after, path := reg.From(s.After()).Escape(t.ev)
				c.Check(before.IsZero() || !after, rule, f, "buffer-replacement-resets:"+t.name, s.Instr(), "the replacement of bp.buffer is accompanied by "+t.name+" on every path",
					"bp.buffer is replaced by a fresh set without "+t.name+": the timer of the buffer that was handed over stays in place (a fired timer is drained and never re-armed, so a lone message in the new buffer waits for further input; a stale timerFired flushes every message singly)", path)
			}
		}
	}
	if nRepl == 0 {
		c.Unresolved(rule, "replacement of bp.buffer by newProduceSet(…)")
	}
	// and conversely: the timer state is reset only where the buffer is replaced.  The timer belongs to the buffer as
	// a whole; resetting it while messages (of other partitions) stay buffered leaves them without a trigger
	nReset := 0
	for _, f := range p.Fns {
		if rootOf(f).Pkg != p.Sarama || p.Name(f) == "asyncProducer.newBrokerProducer" {
			continue
		}
		reg := WholeFn(f)
		for _, t := range []struct {
			name string
			ev   Ev
		}{{"timer=nil", StoreTo(IsNil(), "brokerProducer.timer")}, {"timerFired=false", StoreTo(ConstBool(false), "brokerProducer.timerFired")}} {
			for _, s := range Info(f).Find(t.ev) {
				if s.Instr() == nil || s.Instr().Parent() != f {
					continue
				}
				if _, isAlloc := fieldChain(s.In.(*ssa.Store).Addr)[0].base.(*ssa.Alloc); isAlloc {
					continue
				}
				nReset++
				before, _ := reg.Reach(IsItem(s), fresh)
				after, path := reg.From(s.After()).Escape(fresh)
				c.Check(before.IsZero() || !after, rule, f, "reset-only-with-replacement:"+t.name, s.Instr(), t.name+" only together with the replacement of bp.buffer",
					t.name+" is executed on a path that does not replace bp.buffer: messages that stay in the buffer (other partitions of the same broker) lose their pending or fired flush timer and wait for further input — Flush.Frequency is not honoured, Close waits for them", path)
			}
		}
	}
	if nReset < 2 {
		c.Unresolved(rule, fmt.Sprintf("resets of the flush timer state (found %d)", nReset))
	}
	if fn := c.NeedFn(rule, "brokerProducer.rollOver"); fn != nil {
		reg := WholeFn(fn)
		e1, _ := reg.Escape(StoreTo(IsNil(), "brokerProducer.timer"))
		e2, _ := reg.Escape(StoreTo(ConstBool(false), "brokerProducer.timerFired"))
		e3, _ := reg.Escape(StoreTo(p.ResultOf(0, "newProduceSet"), "brokerProducer.buffer"))
		c.Check(!e1 && !e2 && !e3, rule, fn, "rollover-resets", nil, "rollOver clears timer, timerFired and installs a fresh buffer", "rollOver does not reset timer/timerFired/buffer: stale timerFired flushes single messages forever, or the sent buffer is reused", nil)
	}
}

// c16Estimate: the size the limits are tested against is computed from what the message holds NOW.  A message
// struct may be submitted again with a different payload after it came back on Successes()/Errors(); a size
// remembered in the message would then let an oversized message through every limit.
func c16Estimate(c *Ctx) {
	rule := "C16.limits"
	fn := c.NeedFn(rule, "ProducerMessage.byteSize")
	if fn == nil {
		return
	}
	allowed := map[string]bool{"Key": true, "Value": true, "Headers": true}
	bad := ""
	var at ssa.Instruction
	for _, f := range c.P.withHelpers(fn, 2) {
		if f.Pkg != c.P.Sarama {
			continue
		}
		Info(f).Each(func(it Item) {
			switch x := it.In.(type) {
			case *ssa.Store:
				ch := fieldChain(x.Addr)
				if len(ch) > 0 && ch[0].owner == "ProducerMessage" {
					bad, at = "stores into ProducerMessage."+ch[0].name, x
				}
			case *ssa.UnOp:
				if x.Op != token.MUL {
					return
				}
				ch := fieldChain(x.X)
				if len(ch) > 0 && ch[0].owner == "ProducerMessage" && !allowed[ch[0].name] {
					bad, at = "reads ProducerMessage."+ch[0].name, x
				}
			}
		})
	}
	c.Check(bad == "", rule, fn, "estimate-computed-from-payload", at, "byteSize reads only Key, Value and Headers of the message and stores nothing into it",
		"ProducerMessage.byteSize "+bad+": the estimate is not recomputed from the current payload (a remembered size survives the reuse of the message struct with a larger payload, which then passes MaxMessageBytes, the batch limit and MaxRequestSize)", nil)
}

// returnedPredicate: a comparison matching pr that is (through the φ of a short-circuit evaluation whose other
// operands are the constant false) the value the function returns — `return max > 0 && count >= max` — rather
// than a branch condition.
func returnedPredicate(fn *ssa.Function, pr Pred) *ssa.BinOp {
		var found *ssa.BinOp
		Info(fn).Each(func(it Item) {
			bo, ok := it.In.(*ssa.BinOp)
			if !ok || !pr.holds(bo, false) {
				return
			}
			for _, r := range *bo.Referrers() {
				switch x := r.(type) {
				case *ssa.Return:
					found = bo
				case *ssa.Phi:
					// the other edges of the φ are the constant false (the short-circuited operands)
					okPhi := true
					for _, e := range x.Edges {
						if e == ssa.Value(bo) {
							continue
						}
						if cst, isC := e.(*ssa.Const); !isC || cst.Value == nil || cst.Value.Kind() != constant.Bool || constant.BoolVal(cst.Value) {
							okPhi = false
						}
					}
					for _, r2 := range *x.Referrers() {
						if _, isRet := r2.(*ssa.Return); isRet && okPhi {
							found = bo
						}
					}
				}
			}
		})
		return found
	}
