package main

import (
	"go/token"
	"go/types"
	"sort"
	"strings"

	"golang.org/x/tools/go/ssa"
)

// Rules for changes made away from a property's main file (round-19 seeds): the session wrappers in front of the
// offset manager, the broker's open/close flag, the decompressors, the interceptor recover handlers, slab
// allocation in decoders.

// C06.session-forwards: what the handler marks through the session reaches the partition's offset manager.
func c06SessionForwards(c *Ctx) {
	p := c.P
	rule := "C06.session-forwards"
	c.Doc(rule, "consumerGroupSession.MarkOffset/ResetOffset forward to the partition offset manager found by findPOM on every path but the one where no manager exists; MarkMessage forwards to MarkOffset and Commit to offsetManager.Commit unconditionally.  A mark made through the session after its context was cancelled — by a handler finishing its message, or in Cleanup — still precedes the final flush of release() and must be committed by it")
	c.Floor(rule, 4)
	for _, w := range []struct {
		fn     string
		target []string
		viaPOM bool
	}{
		{"consumerGroupSession.MarkOffset", []string{"partitionOffsetManager.MarkOffset"}, true},
		{"consumerGroupSession.ResetOffset", []string{"partitionOffsetManager.ResetOffset"}, true},
		{"consumerGroupSession.MarkMessage", []string{"consumerGroupSession.MarkOffset"}, false},
		{"consumerGroupSession.Commit", []string{"offsetManager.Commit"}, false},
	} {
		fn := c.NeedFn(rule, w.fn)
		if fn == nil {
			continue
		}
		reg := *WholeFn(fn)
		fwd := p.CallTo(w.target...)
		if len(reg.Find(fwd)) == 0 {
			c.Fail(rule, fn, "forwards", nil, w.fn+" does not call "+w.target[0]+" at all: marks made through the session are lost", nil)
			continue
		}
		if w.viaPOM {
			noPOM := Cmp{token.EQL, p.ResultOf(0, "offsetManager.findPOM"), IsNil()}
			reg.Cut = func(from, to *ssa.BasicBlock) bool { return Establishes(from, to, noPOM) }
		}
		esc, path := reg.Escape(fwd)
		c.Check(!esc, rule, fn, "forwards", nil, "every path (but the one without a partition manager) calls "+w.target[0], w.fn+" can return without handing the call on to "+w.target[0]+" although the partition has an offset manager (a test of the session context, say): a mark the handler makes after the session was cancelled but before release() runs the final flush — finishing the message it was busy with, or in Cleanup — is dropped silently, the final commit stores the older position and the next owner re-reads the messages", path)
	}
}

// isReopen: atomic.StoreInt32(&b.opened, 0)
func isReopen(it Item) bool {
	cc, ok := callCommon(it)
	if !ok || len(cc.Args) != 2 {
		return false
	}
	f := cc.StaticCallee()
	if f == nil || f.Pkg == nil || f.Pkg.Pkg.Path() != "sync/atomic" || f.Name() != "StoreInt32" {
		return false
	}
	return FieldAddrOf("Broker.opened")(cc.Args[0]) && ConstInt(0)(cc.Args[1])
}

// C14.open-once / reopenable-after-failed-open: a Broker whose set-up failed can be opened again.
func c14FailedOpenReopenable(c *Ctx) {
	p := c.P
	rule := "C14.open-once"
	open := c.NeedFn(rule, "Broker.Open")
	if open == nil {
		return
	}
	n := 0
	for _, fn := range p.Fns {
		if fn.Parent() == nil || fn.Blocks == nil || rootFn(fn) != open && fn.Parent() != open {
			continue
		}
		if iifeCall(fn) != nil {
			continue // walked as part of its caller
		}
		reg := WholeFn(fn)
		for _, s := range Info(fn).Find(StoreTo(nil, "Broker.connErr")) {
			st, ok := s.In.(*ssa.Store)
			if !ok {
				continue
			}
			v := st.Val
			if _, isCall := v.(*ssa.Call); !isCall {
				if ex, isEx := v.(*ssa.Extract); !isEx {
					continue
				} else if _, isCall := ex.Tuple.(*ssa.Call); !isCall {
					continue
				}
			}
			n++
			isNil := Cmp{token.EQL, OrV(Same(v), FieldLoad("Broker.connErr")), IsNil()}
			r := *reg.From(s.After())
			r.Cut = func(from, to *ssa.BasicBlock) bool { return Establishes(from, to, isNil) }
			esc, path := r.Escape(isReopen)
			c.Check(!esc, rule, fn, "reopenable-after-failed-open:"+describeCall(p, v), st, "where this set-up step failed, b.opened is reset on every path", "after b.connErr = "+describeCall(p, v)+" failed the dial goroutine can end with b.opened still 1 (e.g. a shared tear-down helper that returns early when no connection was established — which is exactly the dial-failure case): every later Open answers ErrAlreadyConnected and every request the stale error; a seed broker that was unreachable once is recycled through the client's dead-seeds list for ever and refreshes fail with ErrOutOfBrokers although it answers again", path)
		}
	}
	if n < 2 {
		c.Unresolved(rule, "assignments of a call result to b.connErr in Broker.Open")
	}
}

// C14.open-once / teardown-complete: Broker.Close finishes what it started.
func c14CloseTeardownComplete(c *Ctx) {
	rule := "C14.open-once"
	fn := c.NeedFn(rule, "Broker.Close")
	if fn == nil {
		return
	}
	reg := WholeFn(fn)
	closes := reg.Find(CloseOf(FieldLoad("Broker.responses")))
	if len(closes) == 0 {
		c.Unresolved(rule, "close(b.responses) in Broker.Close")
		return
	}
	for _, s := range closes {
		for _, w := range []struct {
			name string
			ev   Ev
		}{
			{"conn=nil", StoreTo(IsNil(), "Broker.conn")},
			{"responses=nil", StoreTo(IsNil(), "Broker.responses")},
			{"opened=0", isReopen},
		} {
			esc, path := reg.From(s.After()).Escape(w.ev)
			c.Check(!esc, rule, fn, "teardown-complete:"+w.name, s.Instr(), "once the response queue is closed, "+w.name+" follows on every path", "Broker.Close can return after closing b.responses without "+w.name+" (an early return when conn.Close reports an error — TLS close-notify to a dead peer, a proxy connection): the broker is left half closed, Connected() says true, and the next Close gets past the b.conn == nil guard and closes b.responses a second time — panic: close of closed channel, in the consumer's broker worker before it hands its partitions back (Messages()/Errors() never closed, Close hangs) or in client.Close", path)
		}
	}
}

// C18.contained / handler-cannot-panic: the recover handler itself is total.
func c18HandlerCannotPanic(c *Ctx) {
	p := c.P
	rule := "C18.contained"
	for _, name := range []string{"ProducerMessage.safelyApplyInterceptor", "ConsumerMessage.safelyApplyInterceptor"} {
		fn := c.NeedFn(rule, name)
		if fn == nil {
			continue
		}
		n := 0
		for _, it := range Info(fn).Find(func(it Item) bool { _, ok := it.In.(*ssa.Defer); return ok }) {
			d := it.In.(*ssa.Defer)
			h := p.FuncOfValue(d.Call.Value)
			if h == nil || h.Blocks == nil {
				continue
			}
			isRecover := func(it Item) bool {
				cc, ok := callCommon(it)
				if !ok {
					return false
				}
				b, ok := cc.Value.(*ssa.Builtin)
				return ok && b.Name() == "recover"
			}
			if len(Info(h).Find(isRecover)) == 0 {
				continue
			}
			n++
			var bad ssa.Instruction
			what := ""
			Info(h).Each(func(x Item) {
				if bad != nil {
					return
				}
				switch y := x.In.(type) {
				case *ssa.TypeAssert:
					if !y.CommaOk {
						bad, what = y, "a type assertion without the comma-ok form ("+types.TypeString(y.AssertedType, nil)+")"
					}
				case *ssa.Panic:
					bad, what = y, "a panic"
				}
			})
			c.Check(bad == nil, rule, fn, "handler-cannot-panic", bad, "the deferred recover handler contains no unchecked type assertion and no panic", "the deferred recover handler of "+name+" contains "+what+": an interceptor that panics with a value of another type (panic(fmt.Sprintf…) is a string, panic(42) an int, a custom struct) makes the handler itself panic, nothing recovers that one and the pipeline goroutine dies — the very thing the wrapper exists to contain", nil)
		}
		if n == 0 {
			c.Unresolved(rule, "the deferred recover handler of "+name)
		}
	}
}

// C10.alloc / size-from-payload: decompress never sizes a buffer from what the payload claims.
func c10DecompressSizeFromPayload(c *Ctx) {
	p := c.P
	rule := "C10.alloc"
	fn := c.NeedFn(rule, "decompress")
	if fn == nil {
		return
	}
	if len(fn.Params) < 2 {
		c.Unresolved(rule, "the data parameter of decompress")
		return
	}
	data := ssa.Value(fn.Params[1])
	// values that are (slices of) the input
	var isInput func(v ssa.Value, d int) bool
	isInput = func(v ssa.Value, d int) bool {
		if d > 6 {
			return false
		}
		v = strip(v)
		if v == data {
			return true
		}
		switch x := v.(type) {
		case *ssa.Slice:
			return isInput(x.X, d+1)
		case *ssa.Phi:
			for _, e := range x.Edges {
				if isInput(e, d+1) {
					return true
				}
			}
		}
		return false
	}
	// values computed from the content of the input (not merely from its length)
	seen := map[ssa.Value]bool{}
	var fromContent func(v ssa.Value, d int) bool
	fromContent = func(v ssa.Value, d int) bool {
		if d > 10 || v == nil || seen[v] {
			return false
		}
		seen[v] = true
		defer delete(seen, v)
		v = hoistedValue(v)
		switch x := v.(type) {
		case *ssa.UnOp:
			if x.Op == token.MUL {
				if ia, ok := x.X.(*ssa.IndexAddr); ok && isInput(ia.X, 0) {
					return true
				}
				return false
			}
			return fromContent(x.X, d+1)
		case *ssa.BinOp:
			return fromContent(x.X, d+1) || fromContent(x.Y, d+1)
		case *ssa.Phi:
			for _, e := range x.Edges {
				if fromContent(e, d+1) {
					return true
				}
			}
		case *ssa.Extract:
			return fromContent(x.Tuple, d+1)
		case *ssa.Call:
			if b, ok := x.Call.Value.(*ssa.Builtin); ok && (b.Name() == "len" || b.Name() == "cap") {
				return false
			}
			// a function of (a slice of) the input that yields a number: binary.LittleEndian.Uint32(data[n-4:]) …
			if bt, ok := x.Type().Underlying().(*types.Basic); ok && bt.Info()&types.IsInteger != 0 {
				for _, a := range x.Call.Args {
					if isInput(a, 0) || fromContent(a, d+1) {
						return true
					}
				}
			}
		}
		return false
	}
	n := 0
	Info(fn).Each(func(it Item) {
		var size ssa.Value
		var at ssa.Instruction
		switch x := it.In.(type) {
		case *ssa.MakeSlice:
			size, at = x.Cap, x
			n++
			if fromContent(x.Len, 0) {
				size = x.Len
			}
		case *ssa.Call:
			switch p.CalleeName(&x.Call) {
			case "(*bytes.Buffer).Grow", "bytes.(*Buffer).Grow":
				if len(x.Call.Args) == 2 {
					size, at = x.Call.Args[1], x
					n++
				}
			}
		}
		if size == nil {
			return
		}
		c.Check(!fromContent(size, 0), rule, fn, "size-from-payload", at, "no buffer of decompress is sized from a number read out of the payload", "decompress sizes a buffer from a number it reads out of the compressed payload (the gzip ISIZE trailer, a frame-content-size field): those bytes are under the sender's control and not covered by anything checked before — a 30-byte record batch claiming 4 GiB makes the consumer allocate 4 GiB (memory out of proportion to the input) before a single byte is inflated", nil)
	})
	_ = n
}

// slabShared: stores of &slab[j] into a map entry / slice element inside an inner loop where the slab can be
// the one of the previous iteration of an enclosing loop and j starts over in each of them.
type slabFinding struct {
	at   ssa.Instruction
	what string
}

func slabSharedFindings(fn *ssa.Function) (all, shared []slabFinding) {
	fi := Info(fn)
	for _, l := range fi.Loops {
		for b := range l.Blocks {
			if fi.InnermostLoop(b) != l {
				continue
			}
			for _, in := range b.Instrs {
				var v ssa.Value
				what := ""
				switch x := in.(type) {
				case *ssa.MapUpdate:
					v, what = x.Value, "a map entry"
				case *ssa.Store:
					if _, isElem := x.Addr.(*ssa.IndexAddr); isElem {
						v, what = x.Val, "a slice element"
					}
				}
				if v == nil {
					continue
				}
				ia, ok := strip(v).(*ssa.IndexAddr)
				if !ok {
					continue
				}
				if _, isSlice := ia.X.Type().Underlying().(*types.Slice); !isSlice {
					continue
				}
				all = append(all, slabFinding{in, what})
				// enclosing loops of l
				for _, L := range fi.Loops {
					if L == l || !L.Blocks[l.Head] {
						continue
					}
					if slabCarried(ia.X, L, 0, map[ssa.Value]bool{}) && !indexCarried(ia.Index, L, 0, map[ssa.Value]bool{}) {
						shared = append(shared, slabFinding{in, what})
						break
					}
				}
			}
		}
	}
	return
}

// slabCarried: the slice value can be the one an earlier iteration of L used (a φ at L's head, a variable cell
// declared outside L, or an allocation made before L).
func slabCarried(v ssa.Value, L *Loop, d int, seen map[ssa.Value]bool) bool {
	if d > 8 || seen[v] {
		return false
	}
	seen[v] = true
	v = strip(v)
	switch x := v.(type) {
	case *ssa.Phi:
		if x.Block() == L.Head {
			return true
		}
		for _, e := range x.Edges {
			if slabCarried(e, L, d+1, seen) {
				return true
			}
		}
	case *ssa.Slice:
		return slabCarried(x.X, L, d+1, seen)
	case *ssa.MakeSlice:
		return !L.Blocks[x.Block()]
	case *ssa.UnOp:
		if x.Op == token.MUL {
			if al, ok := x.X.(*ssa.Alloc); ok {
				return !L.Blocks[al.Block()]
			}
			if _, ok := x.X.(*ssa.FreeVar); ok {
				return true
			}
		}
	}
	return false
}

// indexCarried: the index keeps counting across iterations of L (a running position into one big slab).
func indexCarried(v ssa.Value, L *Loop, d int, seen map[ssa.Value]bool) bool {
	if d > 8 || seen[v] {
		return false
	}
	seen[v] = true
	v = strip(v)
	switch x := v.(type) {
	case *ssa.Phi:
		if x.Block() == L.Head {
			return true
		}
		for _, e := range x.Edges {
			if indexCarried(e, L, d+1, seen) {
				return true
			}
		}
	case *ssa.BinOp:
		return indexCarried(x.X, L, d+1, seen) || indexCarried(x.Y, L, d+1, seen)
	case *ssa.UnOp:
		if x.Op == token.MUL {
			if al, ok := x.X.(*ssa.Alloc); ok {
				return !L.Blocks[al.Block()]
			}
		}
	}
	return false
}

// C09.fresh-element / slab-not-reused: pointers into a slab are pointers into this iteration's slab.
func slabRule(c *Ctx, files []string) {
	p := c.P
	rule := "C09.fresh-element"
	for _, fn := range p.Fns {
		if rootOf(fn).Pkg != p.Sarama || fn.Blocks == nil {
			continue
		}
		if files != nil {
			in := false
			for _, f := range files {
				if p.inFile(fn, f) {
					in = true
				}
			}
			if !in {
				continue
			}
		}
		_, shared := slabSharedFindings(fn)
		for _, f := range shared {
			c.Fail(rule, fn, "slab-not-reused", f.at, "a pointer into a slice that can be the one the previous iteration of the enclosing loop used (allocated before that loop, or re-allocated only when too small) is stored into "+f.what+" at an index that starts over in every such iteration: the entries of two topics point at the same objects and hold whichever was decoded last — a produce response reports one partition's offset and error code for another topic's partition, decode(encode(v)) ≠ v", nil)
		}
	}
}

func c09SlabNotReused(c *Ctx) { slabRule(c, nil) }
func c02SlabNotReused(c *Ctx) {
	slabRule(c, []string{"produce_response.go", "produce_request.go", "produce_set.go", "async_producer.go"})
}

// c19FreshElement: the fresh-element rule over the responses the admin client reads verdicts from.
func c19FreshElement(c *Ctx) {
	freshElementRule(c, 20, []string{"acl_create_response.go", "acl_delete_response.go", "acl_describe_response.go", "acl_bindings.go", "alter_configs_response.go", "alter_partition_reassignments_response.go", "alter_user_scram_credentials_response.go", "create_partitions_response.go", "create_topics_response.go", "delete_groups_response.go", "delete_records_response.go", "delete_topics_response.go", "describe_configs_response.go", "describe_groups_response.go", "describe_log_dirs_response.go", "describe_user_scram_credentials_response.go", "incremental_alter_configs_response.go", "list_groups_response.go", "list_partition_reassignments_response.go", "metadata_response.go", "offset_fetch_response.go"})
}

// ---------------------------------------------------------------- round 20: language-level traps

// C03.redispatch / handed-over-batch-not-reused: a slice sent to another goroutine is not appended to afterwards.
//
// Forward may-alias walk from every send of a slice value: the set of SSA values that still denote (a re-slice of)
// the array handed over.  A φ keeps the alias only if the value flowing in over the edge taken is an alias
// (`buffer = nil` after the send kills it, `buffer = buffer[:0]` keeps it); an append whose first operand is in
// the set writes into the array the receiver is still reading.
func handedOverSliceRule(c *Ctx, rule string, floor int, names ...string) {
	p := c.P
	n := 0
	for _, name := range names {
		fn := c.NeedFn(rule, name)
		if fn == nil {
			continue
		}
		for _, s := range Info(fn).Find(SendOn(AnyV(), nil)) {
			var v ssa.Value
			if s.Sel != nil {
				v = s.Sel.States[s.Case].Send
			} else if snd, ok := s.In.(*ssa.Send); ok {
				v = snd.X
			}
			if v == nil {
				continue
			}
			if _, isSlice := v.Type().Underlying().(*types.Slice); !isSlice {
				continue
			}
			n++
			bad := reusedAfterHandOver(v, s.After())
			c.Check(bad == nil, rule, fn, "handed-over-batch-not-reused", s.Instr(), "after the batch is sent the sender keeps no slice of its array that it appends to", "after sending the batch on the channel "+p.Name(fn)+" keeps a slice of the same backing array (buffer = buffer[:0] instead of buffer = nil) and appends to it: while the receiver is still walking the batch the next arrivals overwrite its entries from index 0 — a partition consumer that was overwritten is never subscribed on the broker worker, it is never fetched for again (delivery stops without an error) and nobody owns its trigger channel any more, so AsyncClose/Close never complete", nil)
		}
	}
	if n < floor {
		c.Unresolved(rule, "sends of a slice-typed batch in "+names[0])
	}
}

func reusedAfterHandOver(v ssa.Value, start Pt) ssa.Instruction {
	type state map[ssa.Value]bool
	key := func(s state) string {
		var ks []string
		for x := range s {
			ks = append(ks, x.Name())
		}
		sortStrings(ks)
		out := ""
		for _, k := range ks {
			out += k + ","
		}
		return out
	}
	seen := map[*ssa.BasicBlock]map[string]bool{}
	type work struct {
		b  *ssa.BasicBlock
		i  int
		st state
	}
	init := state{v: true}
	// the value sent may itself be a load of a cell or re-slice: keep it simple, the value and what derives from it
	q := []work{{start.B, start.I, init}}
	for len(q) > 0 {
		w := q[0]
		q = q[1:]
		st := state{}
		for k := range w.st {
			st[k] = true
		}
		for i := w.i; i < len(w.b.Instrs); i++ {
			switch x := w.b.Instrs[i].(type) {
			case *ssa.Slice:
				if st[x.X] {
					st[x] = true
				}
			case *ssa.Call:
				if b, ok := x.Call.Value.(*ssa.Builtin); ok && b.Name() == "append" && len(x.Call.Args) > 0 && st[x.Call.Args[0]] {
					return x
				}
			}
		}
		if len(st) == 0 {
			continue
		}
		for _, succ := range w.b.Succs {
			idx := -1
			for k, pr := range succ.Preds {
				if pr == w.b {
					idx = k
				}
			}
			ns := state{}
			for k := range st {
				ns[k] = true
			}
			for _, in := range succ.Instrs {
				ph, ok := in.(*ssa.Phi)
				if !ok {
					break
				}
				if idx >= 0 && idx < len(ph.Edges) && st[ph.Edges[idx]] {
					ns[ph] = true
				} else {
					delete(ns, ph)
				}
			}
			if len(ns) == 0 {
				continue
			}
			k := key(ns)
			if seen[succ] == nil {
				seen[succ] = map[string]bool{}
			}
			if seen[succ][k] {
				continue
			}
			seen[succ][k] = true
			q = append(q, work{succ, 0, ns})
		}
	}
	return nil
}

func c03HandedOverBatch(c *Ctx) {
	handedOverSliceRule(c, "C03.redispatch", 1, "brokerConsumer.subscriptionManager")
}

// C16.limits / estimate-counts-every-part: what byteSize returns is the sum it is documented to be.
func c16EstimateSummands(c *Ctx) {
	p := c.P
	rule := "C16.limits"
	fn := c.NeedFn(rule, "ProducerMessage.byteSize")
	if fn == nil {
		return
	}
	found := map[string]bool{}
	seen := map[ssa.Value]bool{}
	var walk func(v ssa.Value, d int)
	walk = func(v ssa.Value, d int) {
		if v == nil || seen[v] || d > 40 {
			return
		}
		seen[v] = true
		v = strip(v)
		switch x := v.(type) {
		case *ssa.Phi:
			for _, e := range x.Edges {
				walk(e, d+1)
			}
		case *ssa.BinOp:
			if x.Op == token.ADD || x.Op == token.MUL {
				walk(x.X, d+1)
				walk(x.Y, d+1)
			}
		case *ssa.UnOp:
			w := hoistedValue(x)
			if w != ssa.Value(x) {
				walk(w, d+1)
			} else if x.Op == token.MUL {
				// a variable cell: everything stored into it
				if al, ok := x.X.(*ssa.Alloc); ok {
					for _, r := range *al.Referrers() {
						if st, ok := r.(*ssa.Store); ok && st.Addr == ssa.Value(al) {
							walk(st.Val, d+1)
						}
					}
				}
			}
		case *ssa.Const:
			if x.Value != nil {
				if k, ok := p.ConstNamed("maximumRecordOverhead"); ok && x.Int64() == k {
					found["maximumRecordOverhead"] = true
				}
				if k, ok := p.ConstNamed("producerMessageOverhead"); ok && x.Int64() == k {
					found["producerMessageOverhead"] = true
				}
			}
		case *ssa.Call:
			if b, ok := x.Call.Value.(*ssa.Builtin); ok && b.Name() == "len" && len(x.Call.Args) == 1 {
				path := PathOf(x.Call.Args[0])
				if strings.HasSuffix(path, "RecordHeader.Key") || strings.HasSuffix(path, ".Key") && strings.Contains(path, "Headers") {
					found["len(header.Key)"] = true
				}
				if strings.HasSuffix(path, "RecordHeader.Value") || strings.HasSuffix(path, ".Value") && strings.Contains(path, "Headers") {
					found["len(header.Value)"] = true
				}
				found["len:"+path] = true
			}
			if x.Call.IsInvoke() && x.Call.Method.Name() == "Length" {
				found["Length:"+PathOf(x.Call.Value)] = true
			}
		}
	}
	for _, b := range fn.Blocks {
		if r, ok := lastInstr(b).(*ssa.Return); ok {
			for _, v := range RetVals(r) {
				walk(v, 0)
			}
		}
	}
	for _, want := range []string{"maximumRecordOverhead", "producerMessageOverhead", "len(header.Key)", "len(header.Value)", "Length:ProducerMessage.Key", "Length:ProducerMessage.Value"} {
		var have []string
		for k := range found {
			have = append(have, k)
		}
		sortStrings(have)
		c.Check(found[want], rule, fn, "estimate-counts:"+want, nil, "the value byteSize returns has "+want+" among its summands", "the value ProducerMessage.byteSize returns does not include "+want+" (summands found: "+strings.Join(have, ", ")+") — e.g. a `size := …` in an inner scope that shadows the variable returned: the v2 overhead and every header byte are added to the shadow and thrown away, so a message that is too large because of its headers passes the MaxMessageBytes test, and wouldOverflow lets batches and requests grow past their limits by the headers' size", nil)
	}
}

func sortStrings(s []string) { sort.Strings(s) }

// loop-variable capture: a goroutine started inside a loop runs a function literal that reads a variable which
// lives across iterations (declared outside the loop body — under this module's `go 1.13` that includes the
// loop's own `for`/`range` variables) and is assigned inside the loop.  The goroutine reads it when it is
// scheduled: by then the loop has moved on.
func loopVarCaptureRule(c *Ctx, rule string, files []string) {
	p := c.P
	n := 0
	for _, fn := range p.Fns {
		if fn.Blocks == nil || rootOf(fn).Pkg == nil || (rootOf(fn).Pkg != p.Sarama && rootOf(fn).Pkg != p.Mocks) {
			continue
		}
		if files != nil {
			in := false
			for _, f := range files {
				if p.inFile(fn, f) {
					in = true
				}
			}
			if !in {
				continue
			}
		}
		fi := Info(fn)
		for _, b := range fn.Blocks {
			l := fi.InnermostLoop(b)
			if l == nil {
				continue
			}
			for _, in := range b.Instrs {
				g, ok := in.(*ssa.Go)
				if !ok {
					continue
				}
				// the literal the goroutine runs: the callee itself or a literal handed to the callee (withRecover(func(){…}))
				var lits []*ssa.MakeClosure
				if mc, ok := g.Call.Value.(*ssa.MakeClosure); ok {
					lits = append(lits, mc)
				}
				for _, a := range g.Call.Args {
					if mc, ok := a.(*ssa.MakeClosure); ok {
						lits = append(lits, mc)
					}
				}
				for _, mc := range lits {
					n++
					var bad *ssa.Alloc
					for _, bnd := range mc.Bindings {
						al, ok := bnd.(*ssa.Alloc)
						if !ok || l.Blocks[al.Block()] && al.Block() != l.Head {
							continue // a variable of this iteration
						}
						if l.Blocks[al.Block()] {
							continue
						}
						// assigned inside the loop (by the loop itself or its body)?
						isVar := func(v ssa.Value) bool { return canon(v) == ssa.Value(al) }
						reg := WholeFn(fn)
						for _, r := range *al.Referrers() {
							if st, ok := r.(*ssa.Store); ok && st.Addr == ssa.Value(al) && st.Block() != nil && l.Blocks[st.Block()] {
								// a set-once variable (assigned only where it is still nil) read by a goroutine started
								// where it is already set never changes under the goroutine
								once, _ := reg.Guarded(Item{In: st}, Cmp{token.EQL, isVar, IsNil()})
								set, _ := reg.Guarded(Item{In: g}, Cmp{token.NEQ, isVar, IsNil()})
								if once && set {
									continue
								}
								bad = al
							}
						}
					}
					what := ""
					if bad != nil {
						what = bad.Comment
					}
					c.Check(bad == nil, rule, fn, "spawned-literal-captures-no-loop-variable", g, "the goroutine's literal reads no variable that the loop assigns", "a goroutine started inside a loop runs a function literal that reads `"+what+"`, a variable that lives across iterations (this module is `go 1.13`: one variable per loop) and is assigned by the loop: the literal reads it when the goroutine is scheduled, after the loop has moved on — all goroutines see the last element.  For the idempotent resend that means every failed partition's goroutine resends the LAST partition's batch (appended once, answered duplicate N−1 times, N success events per message) and the other batches are never resent; for a failed connection every queued promise but the last never gets its error", nil)
				}
			}
		}
	}
	_ = n
}

func c05LoopVarCapture(c *Ctx) {
	loopVarCaptureRule(c, "C05.batch", []string{"async_producer.go", "produce_set.go"})
}
func c14LoopVarCapture(c *Ctx) { loopVarCaptureRule(c, "C14.one-outcome", []string{"broker.go"}) }
func c12LoopVarCapture(c *Ctx) { loopVarCaptureRule(c, "C12.pairing", nil) }

// binary search needs a sorted slice: sort.SearchStrings/SearchInts over a slice the function did not sort itself.
func sortedSearchRule(c *Ctx, rule string) {
	p := c.P
	isSortPkg := func(cc *ssa.CallCommon, names ...string) bool {
		f := cc.StaticCallee()
		if f == nil || f.Pkg == nil || f.Pkg.Pkg.Path() != "sort" {
			return false
		}
		for _, n := range names {
			if f.Name() == n {
				return true
			}
		}
		return false
	}
	for _, fn := range p.Fns {
		if fn.Blocks == nil || rootOf(fn).Pkg != p.Sarama {
			continue
		}
		reg := WholeFn(fn)
		for _, s := range Info(fn).Find(func(it Item) bool {
			cc, ok := callCommon(it)
			return ok && isSortPkg(cc, "SearchStrings", "SearchInts", "SearchFloat64s")
		}) {
			arg := callArgs(s)[0]
			sorts := func(it Item) bool {
				cc, ok := callCommon(it)
				if !ok || !isSortPkg(cc, "Strings", "Ints", "Float64s", "Slice", "SliceStable", "Sort", "Stable") || len(cc.Args) == 0 {
					return false
				}
				return samePath(cc.Args[0], arg)
			}
			it, path := reg.MustPrecede(sorts, IsItem(s))
			c.Check(it.IsZero(), rule, fn, "binary-search-over-sorted", s.Instr(), "the slice searched was sorted by this function on every path", "sort.Search… is used on a slice that "+p.Name(fn)+" did not sort itself: a binary search over an unsorted slice answers 'absent' for elements that are present.  For strsContains the slice is a member's subscription in the order the application passed it to Consume: the sticky strategy then believes the member dropped the topic, treats everything it owned as abandoned and re-deals it — the plan is still valid and balanced, but re-planning with nothing changed no longer returns the previous plan and partitions move between old members", path)
		}
	}
}

func c13SortedSearch(c *Ctx) { sortedSearchRule(c, "C13.sticky-kept") }
