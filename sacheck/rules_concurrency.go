package main

import (
	"fmt"
	"go/token"
	"go/types"

	"golang.org/x/tools/go/ssa"
)

// Rules against concurrency / structure changes (round-12 seeds): work moved to another goroutine or made synchronous,
// a channel given a buffer, a wait moved behind the work it protected, state torn down before its reader is gone, a
// release split between a deferred closure and the body.

// blockingOps: the operations of fn's own body (not of goroutines it starts) that can block on another goroutine.
func blockingOps(p *Program, fn *ssa.Function) []ssa.Instruction {
	var out []ssa.Instruction
	for _, b := range fn.Blocks {
		for _, in := range b.Instrs {
			switch x := in.(type) {
			case *ssa.Send:
				out = append(out, in)
			case *ssa.UnOp:
				if x.Op == token.ARROW {
					out = append(out, in)
				}
			case *ssa.Select:
				if x.Blocking {
					out = append(out, in)
				}
			case *ssa.Call:
				switch p.CalleeName(&x.Call) {
				case "(*sync.WaitGroup).Wait", "(*sync.Cond).Wait":
					out = append(out, in)
				}
			}
		}
	}
	return out
}

// C01.close-drains / async-close-does-not-block: AsyncClose only starts the shutdown.
func c01AsyncCloseNonBlocking(c *Ctx) {
	p := c.P
	rule := "C01.close-drains"
	fn := c.NeedFn(rule, "asyncProducer.AsyncClose")
	if fn == nil {
		return
	}
	ops := blockingOps(p, fn)
	var at ssa.Instruction
	if len(ops) > 0 {
		at = ops[0]
	}
	starts := len(Info(fn).Find(p.GoOf("asyncProducer.shutdown"))) > 0
	c.Check(len(ops) == 0 && starts, rule, fn, "async-close-does-not-block", at, "AsyncClose starts shutdown in a goroutine and performs no channel operation or wait itself", "AsyncClose itself sends, receives or waits (or no longer starts shutdown in a goroutine): Close calls AsyncClose before it starts draining Successes()/Errors() — if the dispatcher is blocked handing an error to an application that relies on Close to collect it, the hand-over of the shutdown marker waits for the dispatcher, the dispatcher for the drain, the drain for AsyncClose: Close never returns and the pending event is never delivered", nil)
}

// C06.close / loop-gone-before-flush: the commit loop has exited before Close flushes.
func c06LoopGoneBeforeFlush(c *Ctx) {
	p := c.P
	rule := "C06.close"
	fn := c.NeedFn(rule, "offsetManager.Close")
	if fn == nil {
		return
	}
	var body *ssa.Function
	for _, s := range Info(fn).Find(p.CallTo("(*sync.Once).Do")) {
		body = p.closureArg(s, 1)
	}
	if body == nil {
		return // reported by C06.close/once
	}
	reg := WholeFn(body)
	auto := Truth{FieldLoad("Config.Consumer.Offsets.AutoCommit.Enable"), false}
	r := *reg
	r.Cut = func(from, to *ssa.BasicBlock) bool { return Establishes(from, to, auto) }
	flush := p.CallTo("offsetManager.flushToBroker")
	if len(reg.Find(flush)) == 0 {
		return // reported by mark-closed-before-flush
	}
	it, path := r.MustPrecede(RecvFrom(FieldLoad("offsetManager.closed")), flush)
	c.Check(it.IsZero(), rule, body, "loop-gone-before-flush", it.Instr(), "with auto-commit on, <-om.closed precedes the final flush", "with auto-commit on, Close can run its final flush before the commit loop is known to have exited (<-om.closed): a ticker commit still in flight carries an older position and can reach the coordinator after the final one — the stored offset goes backwards, and Close has already released the partition as clean", path)
}

// C14.close / receiver-gone-before-teardown: the connection state is torn down only after the receive loop is gone.
func c14ReceiverGoneBeforeTeardown(c *Ctx) {
	rule := "C14.dead"
	fn := c.NeedFn(rule, "Broker.Close")
	if fn == nil {
		return
	}
	reg := WholeFn(fn)
	gone := RecvFrom(FieldLoad("Broker.done"))
	if len(reg.Find(gone)) == 0 {
		c.Fail(rule, fn, "receiver-gone-before-teardown", nil, "Broker.Close never waits for the receive loop (<-b.done)", nil)
		return
	}
	n := 0
	for _, f := range []string{"Broker.conn", "Broker.responses", "Broker.done"} {
		for _, s := range reg.Find(StoreTo(IsNil(), f)) {
			n++
			it, path := reg.Reach(IsItem(s), gone)
			c.Check(it.IsZero(), rule, fn, "receiver-gone-before-teardown:"+f, s.Instr(), f+" is reset only after <-b.done", f+" is reset before the receive loop has exited (<-b.done): responseReceiver keeps running until it has drained b.responses and reads b.conn (readFull) and b.done without the lock — a response that arrives during the drain makes it dereference the nil connection: the goroutine dies, the outstanding calls and Close itself hang", path)
		}
	}
	if n == 0 {
		c.Unresolved(rule, "the resets of conn/responses/done in Broker.Close")
	}
}

// C16.reject / size-checked-after-interceptors: what is measured is what is sent.
func c16SizeAfterInterceptors(c *Ctx) {
	p := c.P
	rule := "C16.reject"
	fn := c.NeedFn(rule, "asyncProducer.dispatcher")
	if fn == nil {
		return
	}
	fi := Info(fn)
	loops, _ := rangeChanLoops(fi, FieldLoad(pInputCh))
	if len(loops) != 1 {
		c.Unresolved(rule, "range p.input loop")
		return
	}
	reg := fi.Iteration(loops[0])
	size := p.CallTo("ProducerMessage.byteSize")
	apply := p.CallTo("ProducerMessage.safelyApplyInterceptor")
	sizes := reg.Find(size)
	if len(sizes) == 0 {
		c.Unresolved(rule, "the size check (byteSize) in the dispatcher")
		return
	}
	ok := true
	var at ssa.Instruction
	var path []*ssa.BasicBlock
	for _, s := range sizes {
		if it, pth := reg.From(s.After()).Reach(apply, nil); !it.IsZero() {
			ok, at, path = false, it.Instr(), pth
		}
	}
	for _, f := range p.Fns {
		if f != fn && rootOf(f) != fn && rootOf(f).Pkg == p.Sarama && hasItem(f, apply) && p.inFile(f, "async_producer.go") {
			ok, at = false, firstInstrOf(f.Blocks[0])
		}
	}
	c.Check(ok, rule, fn, "size-checked-after-interceptors", at, "no producer interceptor runs after the size check", "a producer interceptor runs after (or outside the goroutine of) the MaxMessageBytes check: interceptors may add headers or wrap the value, so the message that was measured is not the message that is sent — one that straddles the limit goes out over it and is reported as a success", path)
}

// C09.pool-once / deferred closure: a release in a deferred function literal counts, under the flag it tests.
func c09PoolOnceDeferredClosure(c *Ctx) {
	p := c.P
	rule := "C09.pool-once"
	relArg := func(cc *ssa.CallCommon) (ssa.Value, bool) {
		switch p.CalleeName(cc) {
		case "releaseLengthField", "releaseCrc32Field":
			if len(cc.Args) == 1 {
				return cc.Args[0], true
			}
		case "(*sync.Pool).Put":
			if len(cc.Args) == 2 {
				return cc.Args[1], true
			}
		}
		return nil, false
	}
	for _, fn := range p.Fns {
		if fn.Blocks == nil || rootOf(fn).Pkg != p.Sarama {
			continue
		}
		for _, b := range fn.Blocks {
			for _, in := range b.Instrs {
				d, ok := in.(*ssa.Defer)
				if !ok {
					continue
				}
				mc, ok := d.Call.Value.(*ssa.MakeClosure)
				if !ok {
					continue
				}
				g := mc.Fn.(*ssa.Function)
				bound := func(v ssa.Value) ssa.Value {
					u, ok := strip(v).(*ssa.UnOp)
					if !ok || u.Op != token.MUL {
						return nil
					}
					fv, ok := u.X.(*ssa.FreeVar)
					if !ok {
						return nil
					}
					for i, f := range g.FreeVars {
						if f == fv && i < len(mc.Bindings) {
							return mc.Bindings[i]
						}
					}
					return nil
				}
				greg := WholeFn(g)
				for _, s := range greg.Find(func(it Item) bool {
					cc, ok := callCommon(it)
					if !ok {
						return false
					}
					_, isRel := relArg(cc)
					return isRel
				}) {
					cc, _ := callCommon(s)
					arg, _ := relArg(cc)
					obj := bound(arg)
					if obj == nil {
						continue
					}
					// the flag under which the closure releases, if any: `if !flag { release }`
					var flagCell ssa.Value
					want := false
					for _, w := range []bool{false, true} {
						w := w
						var hit ssa.Value
						g1, _ := greg.Guarded(s, Truth{func(v ssa.Value) bool {
							if bc := bound(v); bc != nil {
								hit = bc
								return true
							}
							return false
						}, w})
						if g1 && hit != nil {
							flagCell, want = hit, w
						}
					}
					// explicit releases of the same object in the enclosing function
					explicit := func(it Item) bool {
						cl, ok := it.In.(*ssa.Call)
						if !ok {
							return false
						}
						a, isRel := relArg(&cl.Call)
						return isRel && canon(a) == obj
					}
					reg := WholeFn(fn)
					for _, e := range reg.Find(explicit) {
						var stop Ev
						if flagCell != nil {
							stop = func(it Item) bool {
								st, ok := it.In.(*ssa.Store)
								return ok && st.Addr == flagCell && ConstBool(!want)(st.Val)
							}
						}
						it, path := reg.From(e.After()).Reach(IsReturn(), stop)
						c.Check(it.IsZero(), rule, fn, "released-at-most-once:deferred-closure:"+p.poolObjName(obj), e.Instr(), "after the explicit release every return is reached with the deferred release switched off", "the object is handed back to its pool here and, on a path to a return, again by the deferred function literal (its flag is still unset there): the pool then gives the same object to two users — nested or concurrent decodes overwrite each other's start offset, a valid message set is rejected or a slice bound panics", path)
					}
				}
			}
		}
	}
}

var _ = types.RecvOnly

// C13.sort-round: the priority-queue pass of sortPartitions lists one partition per round.
func c13SortRound(c *Ctx) {
	p := c.P
	rule := "C13.sort-round"
	c.Doc(rule, "sortPartitions, identical subscriptions: every round of the priority-queue loop (the loop that calls heap.Fix) appends at most one partition to the result before the heap is re-evaluated — partitions are listed round-robin from the member that is heaviest *at that moment*.  performReassignments walks this list and moves a partition whenever its owner is not the lightest candidate: if a member's partitions are listed in bulk it is drained below members that are still heavy, and a later partition moves between two old members although only a new one joined")
	c.Floor(rule, 1)
	fn := c.NeedFn(rule, "sortPartitions")
	if fn == nil {
		return
	}
	fi := Info(fn)
	fixes := fi.Find(p.CallTo("container/heap.Fix"))
	if len(fixes) == 0 {
		c.Unresolved(rule, "heap.Fix in sortPartitions")
		return
	}
	l := fi.InnermostLoop(fixes[0].Instr().Block())
	if l == nil {
		c.Unresolved(rule, "the priority-queue loop of sortPartitions")
		return
	}
	listed := func(it Item) bool {
		cl, ok := it.In.(*ssa.Call)
		if !ok {
			return false
		}
		b, isB := cl.Call.Value.(*ssa.Builtin)
		if !isB || b.Name() != "append" || len(cl.Call.Args) == 0 {
			return false
		}
		sl, isS := cl.Type().Underlying().(*types.Slice)
		if !isS {
			return false
		}
		if n, _ := NamedOf(sl.Elem()); n != "topicPartitionAssignment" {
			return false
		}
		// not the removal from the member's own list (append(member.assignments[:i], …))
		a0 := strip(cl.Call.Args[0])
		if s, isSl := a0.(*ssa.Slice); isSl {
			a0 = strip(s.X)
		}
		return !isFieldRead(a0)
	}
	reg := fi.Iteration(l)
	if len(reg.Find(listed)) == 0 {
		c.Unresolved(rule, "the append to the sorted list in the priority-queue loop")
		return
	}
	cr := reg.Count(listed)
	c.Check(!cr.HasTwo(), rule, fn, "one-partition-per-round", cr.Second.Instr(), "at most one partition is listed per round of the priority queue", "a round of the priority-queue loop can list several partitions of the same member before the heap is re-evaluated: the heaviest-first round-robin order is lost, a member is drained below others that are still heavy and partitions move between old members when one joins", nil)
}

// one-shot-timer-rearmed: after the channel of a time.Timer was received from, the timer is Reset before it is waited
// on again (a Ticker needs nothing of the kind).
func timerRearmedRule(c *Ctx, rule string, files []string) {
	p := c.P
	timerOf := func(ch ssa.Value) ssa.Value {
		// t.C where t is a *time.Timer
		u, ok := strip(ch).(*ssa.UnOp)
		if !ok || u.Op != token.MUL {
			return nil
		}
		fa, ok := u.X.(*ssa.FieldAddr)
		if !ok {
			return nil
		}
		if n, pk := NamedOf(fa.X.Type()); n != "Timer" || pk != "time" {
			return nil
		}
		return canon(fa.X)
	}
	n := 0
	for _, fn := range p.Fns {
		if fn.Blocks == nil || rootOf(fn).Pkg != p.Sarama {
			continue
		}
		in := false
		for _, f := range files {
			if p.inFile(fn, f) {
				in = true
			}
		}
		if !in {
			continue
		}
		fi := Info(fn)
		waitsOn := func(t ssa.Value) Ev {
			return func(it Item) bool {
				switch x := it.In.(type) {
				case *ssa.Select:
					for _, st := range x.States {
						if st.Dir == types.RecvOnly && timerOf(st.Chan) == t {
							return true
						}
					}
				case *ssa.UnOp:
					return x.Op == token.ARROW && timerOf(x.X) == t
				}
				return false
			}
		}
		fi.Each(func(it Item) {
			var t ssa.Value
			if it.Sel != nil {
				st := it.Sel.States[it.Case]
				if st.Dir == types.RecvOnly {
					t = timerOf(st.Chan)
				}
			} else if u, ok := it.In.(*ssa.UnOp); ok && u.Op == token.ARROW {
				t = timerOf(u.X)
			}
			if t == nil {
				return
			}
			n++
			rearm := func(x Item) bool {
				cc, ok := callCommon(x)
				if !ok || len(cc.Args) == 0 {
					return false
				}
				return p.CalleeName(cc) == "(*time.Timer).Reset" && canon(cc.Args[0]) == t
			}
			hit, path := WholeFn(fn).From(it.After()).Reach(waitsOn(t), rearm)
			c.Check(hit.IsZero(), rule, fn, "one-shot-timer-rearmed", it.Instr(), "after the timer fired it is Reset before it is waited on again", "a one-shot timer whose expiry was consumed here can be waited on again without having been Reset: it never fires a second time — the bound it enforced (Consumer.MaxProcessingTime: unsubscribe a partition whose reader is slow so that the others sharing the broker go on) holds for the first slow episode only; at the next one the feeder blocks for good while holding its acknowledgement, and every partition fetched from that broker stops", path)
		})
	}
	c.Check(true, rule, nil, "one-shot-timer-rearmed", nil, fmt.Sprintf("%d receive(s) from a time.Timer channel examined", n), "", nil)
}

func c03TimerRearmed(c *Ctx) {
	timerRearmedRule(c, "C03.redispatch", []string{"consumer.go"})
}

// C05.identity-per-producer: every producer gets its producer id from the cluster.
func c05FreshProducerID(c *Ctx) {
	p := c.P
	rule := "C05.epoch"
	fn := c.NeedFn(rule, "client.InitProducerID")
	if fn == nil {
		return
	}
	reg := WholeFn(fn)
	asked := p.ResultOf(0, "Broker.InitProducerID")
	n := 0
	for _, r := range reg.Find(ReturnNilErr()) {
		rv := RetVals(r.In.(*ssa.Return))
		if len(rv) != 2 || IsNil()(rv[0]) {
			// (nil, nil) when the client has run out of brokers — the outer err is shadowed in the loop and never set; the
			// caller dereferences the nil response.  Not a matter of this property; noted in DESIGN §9.3.
			continue
		}
		n++
		// every value the result can denote is the answer of a broker asked in this call
		ok := true
		seen := map[ssa.Value]bool{}
		var walk func(v ssa.Value, d int)
		walk = func(v ssa.Value, d int) {
			v = throughCell(v)
			if seen[v] || d > 6 {
				return
			}
			seen[v] = true
			if ph, isPhi := v.(*ssa.Phi); isPhi {
				for _, e := range ph.Edges {
					walk(e, d+1)
				}
				return
			}
			if !asked(v) {
				ok = false
			}
		}
		walk(rv[0], 0)
		c.Check(ok, rule, fn, "producer-id-from-the-cluster", r.Instr(), "a successful InitProducerID returns the answer of a broker asked in this call", "client.InitProducerID can succeed with something other than the answer to a request made in this call ("+describe(rv[0])+") — a cached response: every producer built on the client (NewAsyncProducerFromClient twice) then carries the same producer id and epoch with sequence numbers of its own; the broker takes the second producer's first batches for duplicates of the first's and acknowledges them without appending", nil)
	}
	if n == 0 {
		c.Unresolved(rule, "successful return of client.InitProducerID")
	}
}
