package main

// Loading of /repo's working tree, SSA construction, function index and naming.

import (
	"fmt"
	"go/token"
	"go/types"
	"os"
	"sort"
	"strings"

	"golang.org/x/tools/go/packages"
	"golang.org/x/tools/go/ssa"
	"golang.org/x/tools/go/ssa/ssautil"
)

const saramaPath = "github.com/Shopify/sarama"

// noNormalise switches the inventory-based normalisation off (flag -no-normalise, debugging only).
var noNormalise bool

// normOverlay: the normalised sources of the last Load (for dumping next to the evidence).
var normOverlay map[string][]byte

type Program struct {
	Repo   string
	Fset   *token.FileSet
	Pkgs   []*packages.Package
	Prog   *ssa.Program
	SPkgs  []*ssa.Package
	Fns    []*ssa.Function          // every function with a body in the root packages (closures included)
	ByName map[string]*ssa.Function // short name -> function
	Sarama *ssa.Package
	Mocks  *ssa.Package
	Blocks int
	Instrs int
	GOARCH string

	Normalised *NormaliseReport // non-nil when the source contains functions that are not in the inventory

	refStatic map[*ssa.Function]int
	refOther  map[*ssa.Function]bool
}

// Load type-checks and builds SSA for /repo (packages . and ./mocks).  overlay maps absolute file
// names to replacement contents (used by the thorough-tier self-test: in-memory mutants).
func Load(repo, goarch string, overlay map[string][]byte) (*Program, error) {
	env := append(os.Environ(), "GOFLAGS=-mod=mod", "GOPROXY=off", "GOSUMDB=off", "GOWORK=off", "GOTOOLCHAIN=local", "CGO_ENABLED=0")
	if goarch != "" {
		env = append(env, "GOARCH="+goarch)
	}
	cfg := &packages.Config{
		Mode:    packages.LoadSyntax,
		Dir:     repo,
		Env:     env,
		Tests:   false,
		Overlay: overlay,
	}
	pkgs, err := packages.Load(cfg, ".", "./mocks")
	if err != nil {
		return nil, fmt.Errorf("load: %v", err)
	}
	if len(pkgs) != 2 {
		return nil, fmt.Errorf("load: expected 2 root packages, got %d", len(pkgs))
	}
	nerr := 0
	var first string
	packages.Visit(pkgs, nil, func(p *packages.Package) {
		for _, e := range p.Errors {
			if nerr == 0 {
				first = e.Error()
			}
			nerr++
		}
	})
	if nerr > 0 {
		return nil, fmt.Errorf("load: %d type/parse errors, first: %s", nerr, first)
	}
	// functions that are not in the frozen inventory: inline them back into their callers first (normalise.go)
	var normRep *NormaliseReport
	if !noNormalise {
		inv := loadInventory()
		hasNew := false
		for name := range declaredFuncs(pkgs) {
			if !inv[name] {
				hasNew = true
				break
			}
		}
		if hasNew {
			ov, rep, nerr := normalise(repo, goarch, overlay)
			if nerr != nil {
				return nil, nerr
			}
			normRep = rep
			if len(rep.Inlined) > 0 || len(rep.Deleted) > 0 {
				cfg.Overlay = ov
				pkgs, err = packages.Load(cfg, ".", "./mocks")
				if err != nil || len(pkgs) != 2 {
					return nil, fmt.Errorf("load after normalisation: %v", err)
				}
				var first string
				n := 0
				packages.Visit(pkgs, nil, func(p *packages.Package) {
					for _, e := range p.Errors {
						if n == 0 {
							first = e.Error()
						}
						n++
					}
				})
				if n > 0 {
					return nil, fmt.Errorf("load after normalisation: %d type/parse errors, first: %s", n, first)
				}
				normOverlay = ov
			}
		}
	}
	p := &Program{Repo: repo, Fset: pkgs[0].Fset, Pkgs: pkgs, ByName: map[string]*ssa.Function{}, GOARCH: goarch, Normalised: normRep}
	p.Prog, p.SPkgs = ssautil.Packages(pkgs, ssa.InstantiateGenerics)
	for i, sp := range p.SPkgs {
		if sp == nil {
			return nil, fmt.Errorf("ssa: package %s not built", pkgs[i].PkgPath)
		}
		switch sp.Pkg.Path() {
		case saramaPath:
			p.Sarama = sp
		case saramaPath + "/mocks":
			p.Mocks = sp
		}
	}
	if p.Sarama == nil || p.Mocks == nil {
		return nil, fmt.Errorf("ssa: root packages not found")
	}
	p.Prog.Build()
	seen := map[*ssa.Function]bool{}
	var add func(f *ssa.Function)
	add = func(f *ssa.Function) {
		if f == nil || seen[f] || f.Blocks == nil {
			return
		}
		if f.Pkg != p.Sarama && f.Pkg != p.Mocks {
			// wrappers/instantiations belonging elsewhere
			if f.Parent() == nil {
				return
			}
		}
		seen[f] = true
		p.Fns = append(p.Fns, f)
		for _, a := range f.AnonFuncs {
			add(a)
		}
	}
	for _, sp := range p.SPkgs {
		for _, m := range sp.Members {
			switch m := m.(type) {
			case *ssa.Function:
				add(m)
			case *ssa.Type:
				for _, t := range []types.Type{m.Type(), types.NewPointer(m.Type())} {
					ms := p.Prog.MethodSets.MethodSet(t)
					for i := 0; i < ms.Len(); i++ {
						f := p.Prog.MethodValue(ms.At(i))
						if f != nil && f.Synthetic == "" {
							add(f)
						}
					}
				}
			}
		}
	}
	sort.Slice(p.Fns, func(i, j int) bool { return p.Fns[i].String() < p.Fns[j].String() })
	for _, f := range p.Fns {
		n := p.Name(f)
		if _, dup := p.ByName[n]; dup {
			// keep the first; duplicates would be ambiguous anchors
			continue
		}
		p.ByName[n] = f
		p.Blocks += len(f.Blocks)
		for _, b := range f.Blocks {
			p.Instrs += len(b.Instrs)
		}
	}
	if len(p.Fns) < 1000 {
		return nil, fmt.Errorf("load: only %d function bodies (expected > 1000)", len(p.Fns))
	}
	return p, nil
}

// Name returns a short stable name: T.m for methods, f for functions, parent$N for closures,
// mocks.* for the mocks package.
func (p *Program) Name(f *ssa.Function) string {
	if f == nil {
		return "<nil>"
	}
	if par := f.Parent(); par != nil {
		n := f.Name() // parent$N
		if i := strings.LastIndex(n, "$"); i >= 0 {
			return p.Name(par) + n[i:]
		}
		return p.Name(par) + "$" + n
	}
	prefix := ""
	if f.Pkg != nil && f.Pkg.Pkg.Path() == saramaPath+"/mocks" {
		prefix = "mocks."
	}
	if recv := f.Signature.Recv(); recv != nil {
		t := recv.Type()
		if pt, ok := t.(*types.Pointer); ok {
			t = pt.Elem()
		}
		if n, ok := t.(*types.Named); ok {
			return prefix + n.Obj().Name() + "." + f.Name()
		}
	}
	return prefix + f.Name()
}

// Fn returns the function with the short name, or nil.
func (p *Program) Fn(name string) *ssa.Function { return p.ByName[name] }

func (p *Program) PosOf(pos token.Pos) string {
	if !pos.IsValid() {
		return "?"
	}
	ps := p.Fset.Position(pos)
	return fmt.Sprintf("%s:%d", strings.TrimPrefix(ps.Filename, p.Repo+"/"), ps.Line)
}

// Pos of an instruction, falling back to the nearest instruction with a position in its block.
func (p *Program) Pos(in ssa.Instruction) string {
	if in == nil {
		return "?"
	}
	ps := in.Pos()
	if !ps.IsValid() {
		if v, ok := in.(ssa.Value); ok {
			_ = v
		}
		b := in.Block()
		idx := -1
		for i, x := range b.Instrs {
			if x == in {
				idx = i
			}
		}
		for d := 1; d < len(b.Instrs)+1 && !ps.IsValid(); d++ {
			if idx-d >= 0 && b.Instrs[idx-d].Pos().IsValid() {
				ps = b.Instrs[idx-d].Pos()
			} else if idx+d < len(b.Instrs) && b.Instrs[idx+d].Pos().IsValid() {
				ps = b.Instrs[idx+d].Pos()
			}
		}
	}
	if !ps.IsValid() {
		return p.PosOf(in.Parent().Pos())
	}
	return p.PosOf(ps)
}

// Closure k (1-based, in source order) of fn.
func Anon(fn *ssa.Function, k int) *ssa.Function {
	if fn == nil || k < 1 || k > len(fn.AnonFuncs) {
		return nil
	}
	return fn.AnonFuncs[k-1]
}

// NamedOf strips pointers and returns the named type's name ("" if none) and its package path.
func NamedOf(t types.Type) (name, pkg string) {
	for {
		if pt, ok := t.(*types.Pointer); ok {
			t = pt.Elem()
			continue
		}
		break
	}
	if n, ok := t.(*types.Named); ok {
		pk := ""
		if n.Obj().Pkg() != nil {
			pk = n.Obj().Pkg().Path()
		}
		return n.Obj().Name(), pk
	}
	return "", ""
}
