package main

// C08 — every balance strategy yields a valid partition assignment (eligibility clauses only).

import (
	"go/token"
	"go/types"
	"strings"

	"golang.org/x/tools/go/ssa"
)

func init() {
	register(&propDef{
		ID:    "C08",
		Title: "Every balance strategy yields a valid partition assignment",
		Explain: "PARTIAL: completeness and uniqueness of a plan are algorithmic and not decided. Decided are the eligibility guards that are necessary for 'only to a member subscribed to that topic, no unknown member, no nonexistent partition': round-robin adds a partition to a member only under hasTopic; the sticky strategy assigns/reassigns a partition to a member only if it is among that member's potential partitions, keeps a prior ownership only if the partition still exists and its owner still subscribes to the topic (otherwise it becomes unassigned), registers every current member in the assignment and emits an entry for every member; the range strategy builds a topic's member list only from the members' own subscriptions and hands each topic its own partition list. " +
			"Shared with C13 for the range strategy's exactly-once clause: member i gets partitions[f(i):f(i+1)] for one and the same rounding expression f, so that consecutive slices tile the topic without gap or overlap even where floating-point rounding is involved (C13.range-telescoping). " +
			"The partition lists consumerGroup.balance hands to Plan are Client.Partitions: the client builds them, per topic and per set, from setPartitionCache — sorted, duplicate-free, never one list filtered in place out of the other (C15.pair, C15.sorted-writable, shared: a list with a duplicate and an omission makes every strategy assign one partition twice and another to nobody). " +
			"NOT covered: that every partition is assigned, and to exactly one member, by the sticky strategy; balance (C13).",
		Rules: []func(*Ctx){c08Rules, c13Range, c08ErrLost, c13MovementsPerPlan, c08OwnedPotentialLists, c08EveryUnassignedOffered, c13MovementBookkeeping, c08TopicsOfEveryMember, c08FixedRestoredLast, c15Pair, c15SortedWritable, c13SortedSearch, c13ScoreExact, c15ReadSets},
	})
}

func c08Rules(c *Ctx) {
	p := c.P
	rule := "C08.eligible"
	c.Doc(rule, "eligibility guards of the three strategies (see explanation)")
	c.Floor(rule, 8)
	// 1. round robin
	if fn := c.NeedFn(rule, "roundRobinBalancer.Plan"); fn != nil {
		fi := Info(fn)
		adds := fi.Find(p.CallTo("BalanceStrategyPlan.Add"))
		if len(adds) != 1 {
			c.Unresolved(rule, "plan.Add in round-robin Plan")
		} else {
			l := fi.InnermostLoop(itemBlock(adds[0]))
			reg := WholeFn(fn)
			if l != nil {
				reg = fi.Iteration(l)
			}
			g, path := reg.Guarded(adds[0], Truth{p.ResultOf(0, "memberAndTopic.hasTopic"), true})
			// the topic tested is the topic added
			a := callArgs(adds[0])
			okArgs := len(a) >= 3 && FieldLoad("memberAndTopic.memberID")(a[1]) && FieldLoad("topicAndPartition.topic")(a[2])
			// exactly one Add per topic-partition: every partition of the sorted list is assigned, once
			if l != nil {
				cr := reg.Count(IsItem(adds[0]))
				c.Check(!cr.HasNone() && !cr.HasTwo(), rule, fn, "roundrobin:each-partition-once", adds[0].Instr(), "every iteration over the sorted topic-partitions adds the partition to exactly one member",
					"round-robin can leave a topic-partition unassigned (a path of the iteration skips plan.Add) or assign it twice", cr.NonePath)
			}
			c.Check(g && okArgs, rule, fn, "roundrobin:hasTopic", adds[0].Instr(), "a partition is added to a member only under m.hasTopic(tp.topic)", "round-robin can assign a partition to a member that does not subscribe to its topic", path)
		}
	}
	// 2./3. sticky assign and reassign
	incl := p.ResultOf(0, "memberAssignmentsIncludeTopicPartition")
	if fn := c.NeedFn(rule, "assignPartition"); fn != nil {
		fi := Info(fn)
		ups := fi.Find(MapUpdateOn(ParamN(2)))
		if len(ups) == 0 {
			c.Unresolved(rule, "currentAssignment[memberID] = … in assignPartition")
		}
		for _, u := range ups {
			l := fi.InnermostLoop(itemBlock(u))
			reg := WholeFn(fn)
			if l != nil {
				reg = fi.Iteration(l)
			}
			g, path := reg.Guarded(u, Truth{incl, true})
			// the test concerns this member's potential partitions and this partition
			okTest := false
			for _, s := range reg.Find(p.CallTo("memberAssignmentsIncludeTopicPartition")) {
				a := callArgs(s)
				if lk, ok := strip(a[0]).(*ssa.Lookup); ok && ParamN(3)(lk.X) && sameValue(lk.Index, u.In.(*ssa.MapUpdate).Key) && ParamN(0)(a[1]) {
					okTest = true
				}
			}
			c.Check(g && okTest, rule, fn, "sticky:assign-eligible", u.Instr(), "a partition is assigned to a member only if it is among that member's potential partitions", "assignPartition can give a partition to a member that is not eligible for it (not subscribed to the topic)", path)
		}
	}
	// every move of a partition to another member — a call of reassignPartition / processPartitionMovement,
	// wherever it is — names a member that is eligible for the partition and still takes part in the
	// reassignment (members set aside as fixed are deleted from the working assignment and written back at
	// the end: a partition moved to one of them is lost)
	movers := map[string]int{"stickyBalanceStrategy.reassignPartition": 5, "stickyBalanceStrategy.processPartitionMovement": 2}
	for n := range movers {
		if f := p.Fn(n); f != nil {
			movers[n] = paramIdxByName(f, "newConsumer", movers[n])
		}
	}
	nMoves := 0
	for _, fn := range p.Fns {
		if fn.Pkg != p.Sarama {
			continue
		}
		fi := Info(fn)
		for callee, argIdx := range movers {
			for _, s := range fi.Find(p.CallTo(callee)) {
				a := callArgs(s)
				if argIdx >= len(a) {
					continue
				}
				target := a[argIdx]
				if _, isMover := movers[p.Name(fn)]; isMover && paramIndexOf(fn, target) >= 0 {
					continue // the wrapper hands its own parameter on; its callers are checked
				}
				if shapes := p.stickyMoveShapes(); shapes != nil && shapes.isHandBack(p, s) {
					// tabled exception (F22): the target is the member the partition came from earlier in this plan; see
					// stickyMoveShapes.isHandBack for why it is eligible and participating
					nMoves++
					c.OK(rule, fn, "sticky:hand-back-target:"+shortCallee(callee), s.Instr(), "the partition returns to the member that owned it when this plan started (eligible: it holds a partition of the same topic; participating: it took part in an earlier move of this plan)")
					continue
				}
				nMoves++
				l := fi.InnermostLoop(itemBlock(s))
				reg := WholeFn(fn)
				if l != nil {
					reg = fi.Iteration(l)
				}
				// (i) eligible: memberAssignmentsIncludeTopicPartition(potential[target], partition) holds
				eligible := func(v ssa.Value) bool {
					if !incl(v) {
						return false
					}
					cl, ok := strip(v).(*ssa.Call)
					if !ok || len(cl.Call.Args) < 2 {
						return false
					}
					lk, ok := strip(cl.Call.Args[0]).(*ssa.Lookup)
					return ok && samePath(lk.Index, target)
				}
				g, path := reg.Guarded(s, Truth{eligible, true})
				c.Check(g, rule, fn, "sticky:move-target-eligible:"+shortCallee(callee), s.Instr(), "a partition moves to another member only if that member is eligible for it (memberAssignmentsIncludeTopicPartition of that member's potential partitions)",
					"a partition can be moved to a member that is not eligible for it (for instance the previous owner named in stale user data, which no longer subscribes to the topic)", path)
				// (ii) participating: the target is an element of the sorted list of participating members, or
				// was looked up (comma-ok) in the working assignment
				participating := false
				// the sorted list of participating members and the working assignment are identified by their role at
				// this very call: they are what the caller passes on to the mover under those parameters
				calleeFn := p.Fn(callee)
				argOf := func(name string, fallback int) ssa.Value {
					if calleeFn == nil {
						return nil
					}
					if i := paramIdxByName(calleeFn, name, fallback); i < len(a) {
						return a[i]
					}
					return nil
				}
				sortedArg := argOf("sortedCurrentSubscriptions", 3)
				workingArg := argOf("currentAssignment", map[string]int{"stickyBalanceStrategy.reassignPartition": 2, "stickyBalanceStrategy.processPartitionMovement": 3}[callee])
				if sl, _, isElem := rangeElem(fi, target); isElem && sortedArg != nil && samePath(sl, sortedArg) {
					participating = true
				}
				var path2 []*ssa.BasicBlock
				if !participating {
					inWorking := func(v ssa.Value) bool {
						ex, ok := v.(*ssa.Extract)
						if !ok || ex.Index != 1 {
							return false
						}
						lk, isL := ex.Tuple.(*ssa.Lookup)
						if !isL || !samePath(lk.Index, target) {
							return false
						}
						return workingArg != nil && samePath(lk.X, workingArg)
					}
					participating, path2 = reg.Guarded(s, Truth{inWorking, true})
				}
				c.Check(participating, rule, fn, "sticky:move-target-participates:"+shortCallee(callee), s.Instr(), "the member a partition moves to is taken from the sorted list of participating members or was found in the working assignment",
					"a partition can be moved to a member that was set aside as fixed (deleted from the working assignment): its entry is overwritten when the fixed assignments are written back and the partition ends up with no owner", path2)
			}
		}
	}
	if nMoves < 2 {
		c.Unresolved(rule, "calls that move a partition to another member (reassignPartition / processPartitionMovement)")
	}
	// progress of performReassignments: a reassignment takes one partition away from the member the caller found
	// overloaded (the current owner of the requested partition).  getTheActualPartitionToBeMoved may choose another
	// partition of the topic to travel instead; if that one sits on a different member, the requested partition must be
	// handed back to that member as well — otherwise the overloaded member keeps its load, the move is reverted by the
	// ordinary balancing rule and the outer loop of performReassignments never ends (F22).
	if shapes := p.stickyMoveShapes(); shapes != nil {
		fn := shapes.fn
		reg := WholeFn(fn)
		finals := reg.Find(func(it Item) bool {
			cl, ok := it.In.(*ssa.Call)
			if !ok || p.CalleeName(&cl.Call) != "stickyBalanceStrategy.processPartitionMovement" {
				return false
			}
			callee := cl.Call.StaticCallee()
			iPart := paramIdxByName(callee, "partition", 1)
			return iPart < len(cl.Call.Args) && shapes.chosen(cl.Call.Args[iPart])
		})
		if len(finals) == 0 {
			c.Unresolved(rule, "the move of the partition chosen by getTheActualPartitionToBeMoved in reassignPartition")
		}
		for _, f := range finals {
			r := *reg
			r.Cut = func(from, to *ssa.BasicBlock) bool {
				return Establishes(from, to, Cmp{token.EQL, shapes.owner, shapes.consumer})
			}
			handBack := func(it Item) bool { return shapes.isHandBack(p, it) }
			it, path := r.Reach(IsItem(f), handBack)
			c.Check(it.IsZero(), rule, fn, "sticky:move-relieves-requested-owner", f.Instr(), "the partition chosen by the movement record is moved only where its owner is the requested partition's owner, or after the requested partition was handed back to that owner",
				"reassignPartition can move a partition that sits on another member than the one the caller found overloaded (getTheActualPartitionToBeMoved substitutes a partition of the member the requested partition came from) without relieving the overloaded member: the move is undone by the next balancing step and performReassignments repeats the same two moves forever — Plan never returns", path)
		}
	}
	// the move itself keeps every partition with exactly one owner: it is taken from the list of its actual
	// current owner (looked up for the very partition moved), appended to the new owner's list, and the owner
	// map is updated — all on every path
	if fn := c.NeedFn(rule, "stickyBalanceStrategy.processPartitionMovement"); fn != nil {
		iPart := paramIdxByName(fn, "partition", 1)
		iNew := paramIdxByName(fn, "newConsumer", 2)
		iAssign := paramIdxByName(fn, "currentAssignment", 3)
		iOwners := paramIdxByName(fn, "currentPartitionConsumer", 5)
		owner := func(v ssa.Value) bool {
			lk, ok := strip(v).(*ssa.Lookup)
			return ok && ParamN(iOwners)(lk.X) && ParamN(iPart)(lk.Index)
		}
		removeEv := func(it Item) bool {
			mu, ok := it.In.(*ssa.MapUpdate)
			if !ok || !ParamN(iAssign)(mu.Map) || !owner(mu.Key) {
				return false
			}
			cl, ok := strip(mu.Value).(*ssa.Call)
			if !ok || p.CalleeName(&cl.Call) != "removeTopicPartitionFromMemberAssignments" || len(cl.Call.Args) != 2 {
				return false
			}
			lk, ok := strip(cl.Call.Args[0]).(*ssa.Lookup)
			return ok && ParamN(iAssign)(lk.X) && owner(lk.Index) && ParamN(iPart)(cl.Call.Args[1])
		}
		addEv := func(it Item) bool {
			mu, ok := it.In.(*ssa.MapUpdate)
			if !ok || !ParamN(iAssign)(mu.Map) || !ParamN(iNew)(mu.Key) {
				return false
			}
			cl, ok := strip(mu.Value).(*ssa.Call)
			if !ok {
				return false
			}
			b, ok := cl.Call.Value.(*ssa.Builtin)
			return ok && b.Name() == "append"
		}
		ownEv := func(it Item) bool {
			mu, ok := it.In.(*ssa.MapUpdate)
			return ok && ParamN(iOwners)(mu.Map) && ParamN(iPart)(mu.Key) && ParamN(iNew)(mu.Value)
		}
		reg := WholeFn(fn)
		e1, p1 := reg.Escape(removeEv)
		e2, _ := reg.Escape(addEv)
		e3, _ := reg.Escape(ownEv)
		c.Check(!e1 && !e2 && !e3, rule, fn, "sticky:move-keeps-single-owner", nil, "the moved partition is removed from the list of currentPartitionConsumer[partition], appended to the new owner's list, and the owner map updated, on every path",
			"a move does not take the partition from the list of its actual current owner (currentPartitionConsumer[partition] of the partition being moved), or does not record the new owner: the partition ends up in two members' lists or in none", p1)
	}
	// 4. sticky Plan: prior ownership
	if fn := c.NeedFn(rule, "stickyBalanceStrategy.Plan"); fn != nil {
		fi := Info(fn)
		contains := p.ResultOf(0, "strsContains")
		// the keep append: an append whose result flows to currentAssignment[memberID]
		var keepAppend Item
		for _, s := range fi.Find(func(it Item) bool {
			cc, ok := callCommon(it)
			if !ok {
				return false
			}
			b, ok := cc.Value.(*ssa.Builtin)
			return ok && b.Name() == "append"
		}) {
			l := fi.InnermostLoop(itemBlock(s))
			if l == nil {
				continue
			}
			reg := fi.Iteration(l)
			if g, _ := reg.Guarded(s, Truth{contains, true}); g {
				keepAppend = s
			}
		}
		if keepAppend.IsZero() {
			c.Fail(rule, fn, "sticky:keep-needs-subscription", nil, "no append of a kept partition guarded by strsContains(members[memberID].Topics, partition.Topic): prior owners keep partitions of topics they no longer subscribe to", nil)
		} else {
			l := fi.InnermostLoop(itemBlock(keepAppend))
			reg := fi.Iteration(l)
			// "the partition still exists": a comma-ok lookup of the remembered partition itself (the element of
			// the member's remembered list) in a map keyed by topic-partition — a lookup of its topic alone lets a
			// partition of a shrunken topic survive
			exists := func(v ssa.Value) bool {
				ex, ok := v.(*ssa.Extract)
				if !ok || ex.Index != 1 {
					return false
				}
				lk, isL := ex.Tuple.(*ssa.Lookup)
				if !isL {
					return false
				}
				mt, isM := lk.X.Type().Underlying().(*types.Map)
				if !isM {
					return false
				}
				if n, _ := NamedOf(mt.Key()); n != "topicPartitionAssignment" {
					return false
				}
				_, _, isElem := rangeElem(fi, lk.Index)
				return isElem
			}
			g2, path := reg.Guarded(keepAppend, Truth{exists, true})
			// the subscription tested is the owner's and the partition's topic
			okArgs := false
			for _, s := range reg.Find(p.CallTo("strsContains")) {
				a := callArgs(s)
				if FieldLoad("ConsumerGroupMemberMetadata.Topics")(a[0]) && FieldLoad("topicPartitionAssignment.Topic")(a[1]) {
					okArgs = true
				}
			}
			c.Check(g2 && okArgs, rule, fn, "sticky:keep-needs-subscription", keepAppend.Instr(), "a prior owner keeps a partition only if the partition still exists and the owner still subscribes to its topic",
				"a stale prior assignment (deleted partition, or topic the owner unsubscribed from) can survive into the new plan", path)
			// the unsubscribed branch makes the partition unassigned
			var edges []Edge
			for b := range reg.Allowed {
				for _, su := range b.Succs {
					if Establishes(b, su, Truth{contains, false}) {
						edges = append(edges, Edge{b, su})
					}
				}
			}
			if len(edges) == 0 {
				c.Fail(rule, fn, "sticky:unsubscribed-becomes-unassigned", nil, "no branch for a prior owner that no longer subscribes to the topic", nil)
			}
			for _, e := range edges {
				if e.To == l.Head || !reg.Allowed[e.To] {
					c.Fail(rule, fn, "sticky:unsubscribed-becomes-unassigned", lastInstr(e.From), "a partition whose prior owner no longer subscribes to the topic is dropped (the branch goes straight to the next partition) instead of being put on the unassigned list: it ends up with no owner", nil)
					continue
				}
				esc, pth := reg.From(Pt{e.To, 0}).Escape(func(it Item) bool {
					cc, ok := callCommon(it)
					if !ok {
						return false
					}
					b, ok := cc.Value.(*ssa.Builtin)
					return ok && b.Name() == "append"
				})
				c.Check(!esc, rule, fn, "sticky:unsubscribed-becomes-unassigned", lastInstr(e.From), "a partition whose owner unsubscribed is put on the unassigned list", "a partition whose prior owner no longer subscribes to the topic is dropped instead of being re-assigned: it ends up with no owner", pth)
			}
		}
		// 6. every member registered, every entry emitted
		memberLoopOK := false
		for _, l := range fi.Loops {
			reg := fi.Iteration(l)
			for _, u := range reg.Find(MapUpdateOn(p.ResultOf(0, "prepopulateCurrentAssignments"))) {
				if g, _ := reg.Guarded(u, Truth{func(v ssa.Value) bool {
					ex, ok := v.(*ssa.Extract)
					if !ok || ex.Index != 1 {
						return false
					}
					lk, isL := ex.Tuple.(*ssa.Lookup)
					return isL && p.ResultOf(0, "prepopulateCurrentAssignments")(lk.X)
				}, false}); g {
					// a member missing from the assignment gets an (empty) entry; on the exists edge nothing is needed
					memberLoopOK = true
				}
			}
		}
		c.Check(memberLoopOK, rule, fn, "sticky:every-member-registered", nil, "every current member gets an entry in the working assignment", "members without prior assignment are not registered in the working assignment: they get no partitions and are missing from the plan", nil)
		// plan assembly: empty assignment → explicit empty entry
		emptyEntry := false
		for _, e := range WholeFn(fn).EstablishingEdges(Cmp{token.EQL, LenOf(AnyV()), ConstInt(0)}) {
			if it, _ := WholeFn(fn).From(Pt{e.To, 0}).Reach(MapUpdateOn(func(v ssa.Value) bool { n, _ := NamedOf(v.Type()); return n == "BalanceStrategyPlan" }), p.CallTo("BalanceStrategyPlan.Add")); !it.IsZero() {
				emptyEntry = true
			}
		}
		c.Check(emptyEntry, rule, fn, "sticky:empty-members-in-plan", nil, "members with no partitions still get a (empty) plan entry", "members without partitions are missing from the plan: SyncGroup sends them no assignment", nil)
	}
	// 5. range/basic Plan
	if fn := c.NeedFn(rule, "balanceStrategy.Plan"); fn != nil {
		fi := Info(fn)
		ok := false
		for _, u := range fi.Find(func(it Item) bool { _, ok := it.In.(*ssa.MapUpdate); return ok }) {
			mu := u.In.(*ssa.MapUpdate)
			// key = element of meta.Topics
			if _, _, isElem := rangeElem(fi, mu.Key); isElem {
				sl, _, _ := rangeElem(fi, mu.Key)
				if FieldLoad("ConsumerGroupMemberMetadata.Topics")(sl) {
					ok = true
				}
			}
		}
		c.Check(ok, rule, fn, "range:members-from-subscriptions", nil, "a topic's member list is built only from the members' own Topics", "a topic's member list is not derived from the members' subscriptions", nil)
		// coreFn gets topics[topic] for the same topic
		okCall := false
		fi.Each(func(it Item) {
			cc, isC := callCommon(it)
			if !isC || cc.IsInvoke() || !FieldLoad("balanceStrategy.coreFn")(cc.Value) || len(cc.Args) != 4 {
				return
			}
			if lk, isL := strip(cc.Args[3]).(*ssa.Lookup); isL && ParamN(2)(lk.X) && sameValue(lk.Index, cc.Args[2]) {
				okCall = true
			}
		})
		c.Check(okCall, rule, fn, "range:own-partitions", nil, "each topic is planned over its own partition list topics[topic]", "a topic is planned over another topic's partition list: nonexistent partitions appear in the plan", nil)
	}
}

func shortCallee(n string) string {
	if i := strings.LastIndex(n, "."); i >= 0 {
		return n[i+1:]
	}
	return n
}
