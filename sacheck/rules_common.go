package main

// Helpers shared by several properties' rules.

import (
	"go/constant"
	"go/token"
	"go/types"
	"path/filepath"
	"sort"
	"strings"

	"golang.org/x/tools/go/ssa"
)

func isPtrToNamed(t types.Type, name string) bool {
	pt, ok := t.(*types.Pointer)
	if !ok {
		return false
	}
	n, ok := pt.Elem().(*types.Named)
	return ok && n.Obj().Name() == name
}

func isSliceOfPtrToNamed(t types.Type, name string) bool {
	s, ok := t.Underlying().(*types.Slice)
	return ok && isPtrToNamed(s.Elem(), name)
}

// idxFromLoop: is idx the induction value of the range loop l (phi in the header, or phi+1)?
func idxFromLoop(idx ssa.Value, l *Loop) bool {
	if bo, ok := idx.(*ssa.BinOp); ok {
		if ph, ok := bo.X.(*ssa.Phi); ok && ph.Block() == l.Head {
			return true
		}
	}
	if ph, ok := idx.(*ssa.Phi); ok && ph.Block() == l.Head {
		return true
	}
	return false
}

// rangeElem: v is the element `s[i]` loaded in a range loop l of the function; returns the ranged
// slice value.
func rangeElem(fi *FnInfo, v ssa.Value) (slice ssa.Value, l *Loop, ok bool) {
	u, isU := strip(v).(*ssa.UnOp)
	if !isU || u.Op != token.MUL {
		return nil, nil, false
	}
	if al, isAl := u.X.(*ssa.Alloc); isAl {
		// the range variable spilled to a cell (its address is taken): the single store into the cell
		var val ssa.Value
		n := 0
		for _, r := range *al.Referrers() {
			if st, ok := r.(*ssa.Store); ok && st.Addr == ssa.Value(al) {
				n++
				val = st.Val
			}
		}
		if n == 1 {
			return rangeElem(fi, val)
		}
		return nil, nil, false
	}
	ia, isIA := u.X.(*ssa.IndexAddr)
	if !isIA {
		return nil, nil, false
	}
	for _, lp := range fi.Loops {
		if idxFromLoop(ia.Index, lp) {
			return ia.X, lp, true
		}
	}
	return nil, nil, false
}

// rangeChanLoop finds the loops `for x := range ch` where ch satisfies m; returns loop and the
// received value (the Extract #0 of the comma-ok receive in the header).
func rangeChanLoops(fi *FnInfo, m VM) (out []*Loop, vals []ssa.Value) {
	for _, l := range fi.Loops {
		for _, in := range l.Head.Instrs {
			u, ok := in.(*ssa.UnOp)
			if !ok || u.Op != token.ARROW || !u.CommaOk || !m(u.X) {
				continue
			}
			var val ssa.Value
			for _, r := range *u.Referrers() {
				if ex, ok := r.(*ssa.Extract); ok && ex.Index == 0 {
					val = ex
				}
			}
			out = append(out, l)
			vals = append(vals, val)
		}
	}
	return
}

// constCases: for every If in fn that tests `operand == K` (K an integer constant), group the
// constants by the block the true edge leads to (a `case A, B:` list leads to one block).
func constCases(fn *ssa.Function, operand VM) map[*ssa.BasicBlock][]int64 {
	out := map[*ssa.BasicBlock][]int64{}
	for _, b := range fn.Blocks {
		iff, ok := lastInstr(b).(*ssa.If)
		if !ok {
			continue
		}
		// a case list moved into a predicate helper and inlined back as an immediately-invoked literal:
		// `case func() bool { switch x { case A, B: return true; default: return false } }():` — the constants whose
		// arm returns true are the case list of this branch
		if cl, isCall := iff.Cond.(*ssa.Call); isCall {
			if g := iifeCallee(cl); g != nil {
				inner := constCases(g, operand)
				allBool := true
				var ks []int64
				for blk, list := range inner {
					r, isRet := lastInstr(blk).(*ssa.Return)
					if !isRet || len(r.Results) != 1 {
						allBool = false
						continue
					}
					if cst, isC := r.Results[0].(*ssa.Const); isC && cst.Value != nil && cst.Value.Kind() == constant.Bool {
						if constant.BoolVal(cst.Value) {
							ks = append(ks, list...)
						}
					} else {
						allBool = false
					}
				}
				// every other way out of the literal answers false
				for _, gb := range g.Blocks {
					if r, isRet := lastInstr(gb).(*ssa.Return); isRet && len(r.Results) == 1 {
						if _, listed := inner[gb]; listed {
							continue
						}
						if cst, isC := r.Results[0].(*ssa.Const); !isC || cst.Value == nil || cst.Value.Kind() != constant.Bool || constant.BoolVal(cst.Value) {
							allBool = false
						}
					}
				}
				if allBool && len(ks) > 0 {
					out[b.Succs[0]] = append(out[b.Succs[0]], ks...)
				}
			}
			continue
		}
		bo, ok := iff.Cond.(*ssa.BinOp)
		if !ok || bo.Op != token.EQL {
			continue
		}
		var k *ssa.Const
		if c, ok := bo.Y.(*ssa.Const); ok && operand(bo.X) {
			k = c
		} else if c, ok := bo.X.(*ssa.Const); ok && operand(bo.Y) {
			k = c
		}
		if k == nil || k.Value == nil || k.Value.Kind() != constant.Int {
			continue
		}
		out[b.Succs[0]] = append(out[b.Succs[0]], k.Int64())
	}
	for _, v := range out {
		sort.Slice(v, func(i, j int) bool { return v[i] < v[j] })
	}
	return out
}

func sameInts(a, b []int64) bool {
	if len(a) != len(b) {
		return false
	}
	for i := range a {
		if a[i] != b[i] {
			return false
		}
	}
	return true
}

// kerrName renders a KError constant value by name.
func (p *Program) kerrName(v int64) string {
	sc := p.Sarama.Pkg.Scope()
	for _, n := range sc.Names() {
		c, ok := sc.Lookup(n).(*types.Const)
		if !ok {
			continue
		}
		if nn, _ := NamedOf(c.Type()); nn != "KError" {
			continue
		}
		if x, ok := constant.Int64Val(c.Val()); ok && x == v {
			return n
		}
	}
	return "KError(?)"
}

func (p *Program) kerrNames(vs []int64) []string {
	var out []string
	for _, v := range vs {
		out = append(out, p.kerrName(v))
	}
	return out
}

// ConstNamed returns the int64 value of a package-level constant of sarama.
func (p *Program) ConstNamed(name string) (int64, bool) {
	c, ok := p.Sarama.Pkg.Scope().Lookup(name).(*types.Const)
	if !ok {
		return 0, false
	}
	return constant.Int64Val(c.Val())
}

// dominatesItem: block-level dominance of the item's location over b.
func itemBlock(it Item) *ssa.BasicBlock {
	if it.Sel != nil {
		return it.To
	}
	return it.In.Block()
}

// callArgs returns the call's arguments (receiver first for static method calls).
func callArgs(it Item) []ssa.Value {
	switch x := it.In.(type) {
	case *ssa.Call:
		return x.Call.Args
	case *ssa.Go:
		return x.Call.Args
	case *ssa.Defer:
		return x.Call.Args
	}
	return nil
}

// closureArgOf: the k-th (0-based) function-literal argument among the args of the call.
func (p *Program) closureArg(it Item, argIdx int) *ssa.Function {
	args := callArgs(it)
	if argIdx >= len(args) {
		return nil
	}
	return p.FuncOfValue(args[argIdx])
}

// freeVarBinding: inside closure fn, the value bound to the free variable named name at the
// MakeClosure site (nil if not found).
func freeVarCell(fn *ssa.Function, name string) *ssa.FreeVar {
	for _, fv := range fn.FreeVars {
		if fv.Name() == name {
			return fv
		}
	}
	return nil
}

// funcsWhere returns all functions (closures included) satisfying f, sorted by name.
func (p *Program) funcsWhere(f func(fn *ssa.Function) bool) []*ssa.Function {
	var out []*ssa.Function
	for _, fn := range p.Fns {
		if f(fn) {
			out = append(out, fn)
		}
	}
	return out
}

// hasItem reports whether fn contains an item matching ev.
func hasItem(fn *ssa.Function, ev Ev) bool {
	found := false
	Info(fn).Each(func(it Item) {
		if !found && ev(it) {
			found = true
		}
	})
	return found
}

// inFile: function is declared in the given file of the repo.
func (p *Program) inFile(fn *ssa.Function, file string) bool {
	for f := fn; f != nil; f = f.Parent() {
		if f.Pos().IsValid() {
			ps := p.Fset.Position(f.Pos())
			if strings.HasPrefix(file, "*") {
				// "*_request.go": any file of the package root with that suffix
				return strings.HasSuffix(ps.Filename, file[1:]) && filepath.Dir(ps.Filename) == p.Repo
			}
			return ps.Filename == p.Repo+"/"+file
		}
	}
	return false
}

// literalRangeElems: v is the element variable of a range loop over a slice literal `[]T{e0, e1, …}`
// built in the same function; returns the literal's elements in index order (the order the loop visits them).
func literalRangeElems(fi *FnInfo, v ssa.Value) []ssa.Value {
	sl, _, ok := rangeElem(fi, v)
	if !ok {
		return nil
	}
	s, ok := strip(sl).(*ssa.Slice)
	if !ok || s.Low != nil || s.High != nil {
		return nil
	}
	al, ok := s.X.(*ssa.Alloc)
	if !ok {
		return nil
	}
	at, ok := al.Type().Underlying().(*types.Pointer).Elem().Underlying().(*types.Array)
	if !ok || at.Len() > 16 {
		return nil
	}
	elems := make([]ssa.Value, at.Len())
	for _, r := range *al.Referrers() {
		ia, ok := r.(*ssa.IndexAddr)
		if !ok {
			continue
		}
		k, ok := ia.Index.(*ssa.Const)
		if !ok || k.Int64() < 0 || k.Int64() >= at.Len() {
			return nil
		}
		for _, r2 := range *ia.Referrers() {
			if st, ok := r2.(*ssa.Store); ok && st.Addr == ssa.Value(ia) {
				if elems[k.Int64()] != nil {
					return nil
				}
				elems[k.Int64()] = st.Val
			}
		}
	}
	for _, e := range elems {
		if e == nil {
			return nil
		}
	}
	return elems
}

// sweep: one application of produceSet.eachPartition to a produce set with a callback; a call inside a range
// loop over a slice literal of sets stands for one sweep per element, in element order.
type sweep struct {
	call Item
	recv ssa.Value
	cb   *ssa.Function
	idx  int // position within the literal loop (0 for a plain call)
}

func (p *Program) sweepsOf(fn *ssa.Function) []sweep {
	fi := Info(fn)
	var out []sweep
	for _, s := range fi.Find(p.CallTo("produceSet.eachPartition")) {
		cc, _ := callCommon(s)
		if len(cc.Args) < 2 {
			continue
		}
		cb := p.FuncOfValue(cc.Args[1])
		if elems := literalRangeElems(fi, cc.Args[0]); elems != nil {
			// the loop body runs once per element of the literal: the literal's construction stands for all of them
			// (the CFG has a zero-iteration path around the body that cannot be taken)
			anchor := s
			if sl, _, ok := rangeElem(fi, cc.Args[0]); ok {
				if in, ok := strip(sl).(ssa.Instruction); ok {
					anchor = Item{In: in}
				}
			}
			for i, e := range elems {
				out = append(out, sweep{anchor, e, cb, i})
			}
			continue
		}
		out = append(out, sweep{s, cc.Args[0], cb, 0})
	}
	return out
}

// withHelpers: fn and the functions of the package it calls statically, to the given depth (the helpers a
// few statements may have been extracted into).
func (p *Program) withHelpers(fn *ssa.Function, depth int) []*ssa.Function {
	seen := map[*ssa.Function]bool{fn: true}
	out := []*ssa.Function{fn}
	frontier := []*ssa.Function{fn}
	for d := 0; d < depth; d++ {
		var next []*ssa.Function
		for _, f := range frontier {
			for _, b := range f.Blocks {
				for _, in := range b.Instrs {
					cl, ok := in.(*ssa.Call)
					if !ok || cl.Call.IsInvoke() {
						continue
					}
					g := cl.Call.StaticCallee()
					if g == nil || seen[g] || len(g.Blocks) == 0 || (g.Pkg != p.Sarama && g.Pkg != p.Mocks) {
						continue
					}
					seen[g] = true
					out = append(out, g)
					next = append(next, g)
				}
			}
		}
		frontier = next
	}
	return out
}

// structLitFields: v is a struct value loaded from a local cell whose fields were stored one by one
// (a composite literal or a local struct variable); returns field name → stored value (last store wins only
// if there is exactly one store per field, otherwise the field is omitted).
func structLitFields(v ssa.Value) map[string]ssa.Value {
	u, ok := strip(v).(*ssa.UnOp)
	if !ok || u.Op != token.MUL {
		return nil
	}
	al, ok := u.X.(*ssa.Alloc)
	if !ok {
		return nil
	}
	st, ok := al.Type().Underlying().(*types.Pointer).Elem().Underlying().(*types.Struct)
	if !ok {
		return nil
	}
	out := map[string]ssa.Value{}
	cnt := map[string]int{}
	for _, r := range *al.Referrers() {
		fa, ok := r.(*ssa.FieldAddr)
		if !ok {
			continue
		}
		name := st.Field(fa.Field).Name()
		for _, r2 := range *fa.Referrers() {
			if s, ok := r2.(*ssa.Store); ok && s.Addr == ssa.Value(fa) {
				cnt[name]++
				out[name] = s.Val
			}
		}
	}
	for n, k := range cnt {
		if k != 1 {
			delete(out, n)
		}
	}
	return out
}

// paramIdxByName: index (in fn.Params, receiver included) of the parameter with that name, else fallback.
func paramIdxByName(fn *ssa.Function, name string, fallback int) int {
	for i, p := range fn.Params {
		if p.Name() == name {
			return i
		}
	}
	return fallback
}

// resultVar: one result of a function as the rules see it — either a cell (named result kept in memory because the
// function defers) or a local that a loop carries from one iteration to the next and that is returned afterwards.
type resultVar struct {
	cell    ssa.Value
	carried *ssa.Phi
}

// resultVarOf resolves result idx (of n) of fn with respect to loop l.
func resultVarOf(fn *ssa.Function, idx, n int, l *Loop) (resultVar, bool) {
	var cands []ssa.Value
	for _, b := range fn.Blocks {
		r, ok := lastInstr(b).(*ssa.Return)
		if !ok || IsRecoverBlock(b) || len(r.Results) != n {
			continue
		}
		v := r.Results[idx]
		if u, ok := v.(*ssa.UnOp); ok && u.Op == token.MUL {
			if al, ok := u.X.(*ssa.Alloc); ok {
				inLoop := false
				for _, ref := range *al.Referrers() {
					if st, ok := ref.(*ssa.Store); ok && st.Addr == ssa.Value(al) {
						if l.Blocks[st.Block()] {
							inLoop = true
						}
						cands = append(cands, st.Val)
					}
				}
				if inLoop {
					return resultVar{cell: al}, true
				}
				continue
			}
		}
		cands = append(cands, v)
	}
	var find func(v ssa.Value, d int) *ssa.Phi
	find = func(v ssa.Value, d int) *ssa.Phi {
		ph, ok := v.(*ssa.Phi)
		if !ok || d > 3 {
			return nil
		}
		if ph.Block() == l.Head {
			return ph
		}
		for _, e := range ph.Edges {
			if r := find(e, d+1); r != nil {
				return r
			}
		}
		return nil
	}
	for _, v := range cands {
		if ph := find(v, 0); ph != nil {
			return resultVar{carried: ph}, true
		}
	}
	return resultVar{}, false
}

// assigned: over the paths of sub (a part of one iteration of the loop), is the variable given a value satisfying
// isSet on every path / on some path?  For a cell: stores.  For a carried local: the value each path leaves in the
// loop-head phi, resolved backwards through the merges that lie on paths of sub.
func (rv resultVar) assigned(sub *Region, isSet func(ssa.Value) bool) (always, sometimes bool) {
	if rv.cell != nil {
		ev := func(it Item) bool {
			st, ok := it.In.(*ssa.Store)
			return ok && st.Addr == rv.cell && isSet(st.Val)
		}
		esc, _ := sub.Escape(ev)
		it, _ := sub.Reach(ev, nil)
		return !esc, !it.IsZero()
	}
	head := rv.carried.Block()
	type edge struct{ from, to *ssa.BasicBlock }
	edges := map[edge]bool{}
	seen := map[*ssa.BasicBlock]bool{}
	var stack []*ssa.BasicBlock
	for _, s := range sub.Starts {
		stack = append(stack, s.B)
	}
	for len(stack) > 0 {
		b := stack[len(stack)-1]
		stack = stack[:len(stack)-1]
		if seen[b] {
			continue
		}
		seen[b] = true
		dead := false
		for _, in := range b.Instrs {
			if isDeadEnd(in) {
				dead = true
			}
		}
		if dead {
			continue
		}
		for k, succ := range b.Succs {
			if !feasible(b, k, nil) || sub.Cut != nil && sub.Cut(b, succ) {
				continue
			}
			if succ != head && sub.Allowed != nil && !sub.Allowed[succ] {
				continue
			}
			edges[edge{b, succ}] = true
			if succ != head {
				stack = append(stack, succ)
			}
		}
	}
	var vals []ssa.Value
	visiting := map[*ssa.Phi]bool{}
	var resolve func(v ssa.Value)
	resolve = func(v ssa.Value) {
		ph, ok := v.(*ssa.Phi)
		if ok && visiting[ph] {
			return // around an inner loop: the value is one of those already being collected
		}
		if !ok || ph == rv.carried {
			vals = append(vals, v)
			return
		}
		m := ph.Block()
		any := false
		visiting[ph] = true
		for i, pred := range m.Preds {
			if edges[edge{pred, m}] {
				any = true
				resolve(ph.Edges[i])
			}
		}
		visiting[ph] = false
		if !any {
			vals = append(vals, v) // merged before the paths of sub start: the old value
		}
	}
	for i, pred := range head.Preds {
		if edges[edge{pred, head}] {
			resolve(rv.carried.Edges[i])
		}
	}
	always = len(vals) > 0
	for _, v := range vals {
		if isSet(v) {
			sometimes = true
		} else {
			always = false
		}
	}
	return always, sometimes
}

// ---------------------------------------------------------------- one object, many slots

// sharedElementFindings: inside a loop, the address of ONE object (allocated before the loop: a variable hoisted out of
// it, or a `for _, x := range` variable, which this module's Go version makes one variable per loop) is stored into a
// container slot (map entry, slice element, appended element) on every iteration while the loop also writes the
// object (a store to one of its fields, or a method/decoder called on it).  All slots then alias the last value.
type sharedElem struct {
	at     ssa.Instruction
	obj    *ssa.Alloc
	what   string
	shared bool // false: the object is allocated inside the loop (a fresh one per slot)
}

func sharedElementFindings(fn *ssa.Function) []sharedElem {
	var out []sharedElem
	fi := Info(fn)
	for _, l := range fi.Loops {
		writes := func(obj *ssa.Alloc) bool {
			for b := range l.Blocks {
				for _, in := range b.Instrs {
					switch x := in.(type) {
					case *ssa.Store:
						if x.Addr == ssa.Value(obj) {
							return true
						}
						if ch := fieldChain(x.Addr); len(ch) > 0 && ch[0].base == ssa.Value(obj) {
							return true
						}
					case *ssa.Call:
						for _, a := range x.Call.Args {
							if a == ssa.Value(obj) {
								return true
							}
						}
					}
				}
			}
			return false
		}
		for b := range l.Blocks {
			for _, in := range b.Instrs {
				var v ssa.Value
				what := ""
				switch x := in.(type) {
				case *ssa.MapUpdate:
					v, what = x.Value, "a map entry"
				case *ssa.Store:
					if _, isElem := x.Addr.(*ssa.IndexAddr); isElem {
						v, what = x.Val, "a slice element"
					}
				}
				if v == nil || fi.InnermostLoop(b) != l {
					continue
				}
				// the objects the stored pointer can denote: an allocation, or a merge of allocations and nil (what a
				// "decode one element" helper that was inlined back leaves behind)
				var objs []*ssa.Alloc
				seen := map[ssa.Value]bool{}
				var leaves func(x ssa.Value, d int)
				leaves = func(x ssa.Value, d int) {
					if seen[x] || d > 6 {
						return
					}
					seen[x] = true
					switch y := x.(type) {
					case *ssa.Alloc:
						objs = append(objs, y)
					case *ssa.Phi:
						for _, e := range y.Edges {
							leaves(e, d+1)
						}
					}
				}
				leaves(v, 0)
				for _, obj := range objs {
					if _, isStruct := obj.Type().Underlying().(*types.Pointer).Elem().Underlying().(*types.Struct); !isStruct {
						continue
					}
					// allocated inside this loop (or a loop nested in it): fresh per slot
					fresh := l.Blocks[obj.Block()]
					out = append(out, sharedElem{in, obj, what, !fresh && writes(obj)})
				}
			}
		}
	}
	return out
}

// earlyExit: a block of loop l (other than its head) from which the loop is left — by a return, or by an edge to a
// block outside l that is not simply the enclosing loop continuing.  nil when the loop is left only from its head.
func earlyExit(fi *FnInfo, l *Loop) *ssa.BasicBlock {
	for _, b := range fi.Fn.Blocks {
		if !l.Blocks[b] || b == l.Head {
			continue
		}
		if _, isRet := lastInstr(b).(*ssa.Return); isRet {
			return b
		}
		for _, succ := range b.Succs {
			if l.Blocks[succ] {
				continue
			}
			return b
		}
	}
	return nil
}
