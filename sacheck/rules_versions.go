package main

import (
	"fmt"
	"go/token"
	"sort"
	"strings"

	"golang.org/x/tools/go/ssa"
)

// Configured-version gates (`conf.Version.IsAtLeast(Vx)`) as a lattice: which Kafka version is guaranteed /
// excluded at a program point, and rules that need several sites to agree on one gate.

type versionTable struct {
	p     *Program
	vers  map[string]kver
	names []string // V* names, ascending by version
}

func (p *Program) versionTable() *versionTable {
	vt := &versionTable{p: p, vers: p.versionGlobals()}
	for n := range vt.vers {
		if strings.HasPrefix(n, "V") {
			vt.names = append(vt.names, n)
		}
	}
	sort.Slice(vt.names, func(i, j int) bool {
		a, b := vt.vers[vt.names[i]], vt.vers[vt.names[j]]
		if a == b {
			return vt.names[i] < vt.names[j]
		}
		return a.leq(b)
	})
	return vt
}

// guardedAt: is pred established on every path from the start of reg to the point "leaving block from towards to"
// (to == nil: to the end of block from)?
func guardedAt(reg *Region, from, to *ssa.BasicBlock, pred Pred) bool {
	if to != nil && Establishes(from, to, pred) {
		return true
	}
	li := lastInstr(from)
	if li == nil {
		return false
	}
	g, _ := reg.Guarded(Item{In: li}, pred)
	return g
}

// atLeast: the highest version V such that IsAtLeast(V) is known true at the point ("" if none).
func (vt *versionTable) atLeast(reg *Region, from, to *ssa.BasicBlock) string {
	best := ""
	for _, n := range vt.names {
		if guardedAt(reg, from, to, Truth{vt.p.IsAtLeast(n), true}) {
			best = n
		}
	}
	return best
}

// below: the lowest version V such that IsAtLeast(V) is known false at the point ("" if none).
func (vt *versionTable) below(reg *Region, from, to *ssa.BasicBlock) string {
	for _, n := range vt.names {
		if guardedAt(reg, from, to, Truth{vt.p.IsAtLeast(n), false}) {
			return n
		}
	}
	return ""
}

// infeasibleUnder returns a Cut for paths on which the configured version is known to be ≥ atLeast (when
// non-empty): an edge on which IsAtLeast(V) is false for a V ≤ atLeast cannot be taken.
func (vt *versionTable) infeasibleUnder(atLeast string) func(from, to *ssa.BasicBlock) bool {
	if atLeast == "" {
		return nil
	}
	lim := vt.vers[atLeast]
	return func(from, to *ssa.BasicBlock) bool {
		for _, n := range vt.names {
			if vt.vers[n].leq(lim) && Establishes(from, to, Truth{vt.p.IsAtLeast(n), false}) {
				return true
			}
		}
		return false
	}
}

// verSite: a place where a request's Version field is given the constant k — a store of the constant, or one incoming
// edge (from → to) of the merged value a store writes (`v := 1; if … { v = 4 }; req.Version = v`, which is also what is
// left of a version-selection helper that was inlined back).
type verSite struct {
	st       *ssa.Store
	k        int64
	from, to *ssa.BasicBlock // nil for a direct constant store
}

// guardBlock: the block at whose end (or on whose edge to s.to) the guards of the site are evaluated.
func (s verSite) guardBlock() (from, to *ssa.BasicBlock) {
	if s.from != nil {
		return s.from, s.to
	}
	return s.st.Block(), nil
}

// versionSites: the sites of fn that assign a constant to <typ>.Version (typ "" = any type; the owner is returned by
// ownerOf).  nonConst lists stores whose value cannot be resolved to constants.
func versionSites(fn *ssa.Function, typ string) (sites []verSite, owners map[*ssa.Store]string, nonConst []*ssa.Store) {
	owners = map[*ssa.Store]string{}
	Info(fn).Each(func(it Item) {
		st, ok := it.In.(*ssa.Store)
		if !ok {
			return
		}
		ch := fieldChain(st.Addr)
		if len(ch) == 0 || ch[len(ch)-1].name != "Version" || (typ != "" && ch[len(ch)-1].owner != typ) {
			return
		}
		owners[st] = ch[len(ch)-1].owner
		if k, ok := dConstInt(st.Val); ok {
			sites = append(sites, verSite{st: st, k: k})
			return
		}
		var walk func(v ssa.Value, depth int) bool
		var found []verSite
		seen := map[*ssa.Phi]bool{}
		walk = func(v ssa.Value, depth int) bool {
			ph, ok := v.(*ssa.Phi)
			if !ok || depth > 6 {
				return false
			}
			if seen[ph] {
				return true
			}
			seen[ph] = true
			for i, e := range ph.Edges {
				if k, ok := dConstInt(e); ok {
					found = append(found, verSite{st, k, ph.Block().Preds[i], ph.Block()})
					continue
				}
				if !walk(e, depth+1) {
					return false
				}
			}
			return true
		}
		if walk(strip(st.Val), 0) && len(found) > 0 {
			sites = append(sites, found...)
			return
		}
		nonConst = append(nonConst, st)
	})
	return
}

// ---------------------------------------------------------------- C04.format-gate (shared with C16)

// The record format a message is written in (legacy message set / record batch v2) is decided in several places that
// have to agree: the dispatcher's size estimate and header check, produceSet.add (what is built),
// produceSet.wouldOverflow (the estimate for the incoming message), buildRequest (the request version that can carry
// a record batch) and ProducerMessage.byteSize (what the estimate counts per format).
func c04FormatGate(c *Ctx) {
	p := c.P
	rule := "C04.format-gate"
	c.Doc(rule, "the sites that choose between the legacy message format and the v2 record format agree on one gate: format version 2 is passed to ProducerMessage.byteSize exactly where conf.Version.IsAtLeast(G) holds and 1 exactly where it does not; produceSet.add builds a RecordBatch (newDefaultRecords, RecordBatch.addRecord) exactly under the same G and a MessageSet (newLegacyRecords, MessageSet.addMessage) exactly under its negation; buildRequest selects ProduceRequest v3 under the same G; G is the version requiredVersion() names for ProduceRequest v3; ProducerMessage.byteSize counts record overhead and headers for format 2 and not for format 1")
	c.Floor(rule, 9)
	vt := p.versionTable()
	if len(vt.names) < 20 {
		c.Unresolved(rule, fmt.Sprintf("version globals (found %d)", len(vt.names)))
		return
	}
	// G: what ProduceRequest v3 requires
	cases, def, ok := p.requiredVersionTable("ProduceRequest")
	if !ok {
		c.Unresolved(rule, "ProduceRequest.requiredVersion")
		return
	}
	gate, has := cases[3]
	if !has {
		gate = def
	}
	if _, known := vt.vers[gate]; !known {
		c.Unresolved(rule, "version required by ProduceRequest v3")
		return
	}
	wantTrue := func(fn *ssa.Function, construct string, at ssa.Instruction, from, to *ssa.BasicBlock, what string) {
		got := vt.atLeast(WholeFn(rootOf(fn)), from, to)
		c.Check(got == gate, rule, fn, construct, at, what+" exactly where the configured version is ≥ "+gate,
			fmt.Sprintf("%s where the configured version is only known to be ≥ %s, but the other sites use the record format from %s on: for the versions in between the sites disagree (headers dropped under a reported success, size estimates that ignore what is sent, or a batch the request version cannot carry)", what, orNone(got), gate), nil)
	}
	wantFalse := func(fn *ssa.Function, construct string, at ssa.Instruction, from, to *ssa.BasicBlock, what string) {
		got := vt.below(WholeFn(rootOf(fn)), from, to)
		c.Check(got == gate, rule, fn, construct, at, what+" exactly where the configured version is < "+gate,
			fmt.Sprintf("%s where the configured version is only known to be < %s, but the other sites use the legacy format below %s: for the versions in between the sites disagree", what, orNone(got), gate), nil)
	}
	// (1) the format version handed to byteSize
	nBS := 0
	for _, fn := range p.Fns {
		if fn.Pkg != p.Sarama && (fn.Parent() == nil || rootOf(fn).Pkg != p.Sarama) {
			continue
		}
		for _, s := range Info(fn).Find(p.CallTo("ProducerMessage.byteSize")) {
			if s.In.Parent() != fn {
				continue
			}
			a := callArgs(s)
			if len(a) < 2 {
				continue
			}
			nBS++
			ph, isPhi := a[1].(*ssa.Phi)
			if !isPhi {
				if k, ok := dConstInt(a[1]); ok {
					// a constant: the call itself must sit under the gate
					if k >= 2 {
						wantTrue(fn, "byteSize-arg=2", s.In, s.In.Block(), nil, "format version 2 is used for the size estimate")
					} else {
						wantFalse(fn, "byteSize-arg=1", s.In, s.In.Block(), nil, "format version 1 is used for the size estimate")
					}
					continue
				}
				c.Fail(rule, fn, "byteSize-arg", s.In, "the format version passed to byteSize is neither a constant nor a choice between constants: cannot be compared with the other sites", nil)
				continue
			}
			for i, e := range ph.Edges {
				k, ok := dConstInt(e)
				if !ok {
					c.Fail(rule, fn, "byteSize-arg", s.In, "the format version passed to byteSize is merged from a non-constant", nil)
					continue
				}
				pred := ph.Block().Preds[i]
				if k >= 2 {
					wantTrue(fn, "byteSize-arg=2", s.In, pred, ph.Block(), "format version 2 is used for the size estimate")
				} else {
					wantFalse(fn, "byteSize-arg=1", s.In, pred, ph.Block(), "format version 1 is used for the size estimate")
				}
			}
		}
	}
	if nBS < 2 {
		c.Unresolved(rule, fmt.Sprintf("calls of ProducerMessage.byteSize (found %d, expected the dispatcher's and wouldOverflow's)", nBS))
	}
	// (2) what produceSet.add builds
	if fn := c.NeedFn(rule, "produceSet.add"); fn != nil {
		fi := Info(fn)
		type site struct {
			ev   Ev
			name string
			v2   bool
		}
		for _, st := range []site{
			{p.CallTo("newDefaultRecords"), "newDefaultRecords", true},
			{p.CallTo("RecordBatch.addRecord"), "RecordBatch.addRecord", true},
			{p.CallTo("newLegacyRecords"), "newLegacyRecords", false},
			{p.CallTo("MessageSet.addMessage"), "MessageSet.addMessage", false},
		} {
			items := fi.Find(st.ev)
			if len(items) == 0 {
				c.Unresolved(rule, "call of "+st.name+" in produceSet.add")
				continue
			}
			for _, it := range items {
				if st.v2 {
					wantTrue(fn, "add:"+st.name, it.In, it.In.Block(), nil, "a record batch is built ("+st.name+")")
				} else {
					wantFalse(fn, "add:"+st.name, it.In, it.In.Block(), nil, "a legacy message set is built ("+st.name+")")
				}
			}
		}
	}
	// (3) the request version that carries record batches
	if fn := c.NeedFn(rule, "produceSet.buildRequest"); fn != nil {
		found := false
		vs, _, _ := versionSites(fn, "ProduceRequest")
		for _, v := range vs {
			if v.k != 3 {
				continue
			}
			found = true
			from, to := v.guardBlock()
			wantTrue(fn, "request-version=3", v.st, from, to, "ProduceRequest v3 (the first that carries record batches) is selected")
		}
		if !found {
			c.Unresolved(rule, "store of ProduceRequest.Version = 3 in buildRequest")
		}
	}
	// (4) byteSize: format 2 counts record overhead and headers, format 1 does not
	if fn := c.NeedFn(rule, "ProducerMessage.byteSize"); fn != nil && len(fn.Params) >= 2 {
		ver := fn.Params[1]
		fi := Info(fn)
		hdr := fi.Find(func(it Item) bool {
			u, ok := it.In.(*ssa.UnOp)
			return ok && u.Op == token.MUL && FieldLoad("ProducerMessage.Headers")(u)
		})
		if len(hdr) == 0 {
			c.Fail(rule, fn, "byteSize:headers", nil, "byteSize never looks at the message's headers: the estimate ignores them in every format", nil)
		}
		for _, h := range hdr {
			// the branch conditions on the way to the header sum, evaluated for format 1 and format 2
			reach := func(k int64) bool {
				r := WholeFn(fn)
				r.Cut = func(from, to *ssa.BasicBlock) bool {
					iff, ok := lastInstr(from).(*ssa.If)
					if !ok || len(from.Succs) != 2 {
						return false
					}
					val, known := evalCmpWith(iff.Cond, ver, k)
					if !known {
						return false
					}
					return (from.Succs[0] == to) != val
				}
				it, _ := r.Reach(IsItem(h), nil)
				return !it.IsZero()
			}
			r1, r2 := reach(1), reach(2)
			bad := ""
			switch {
			case !r2:
				bad = "for format version 2 (record batches) the headers are not counted: a message whose headers make it larger than Producer.MaxMessageBytes is sent, and batches exceed the limits"
			case r1:
				bad = "for format version 1 (legacy messages, which cannot carry headers) the record overhead and headers are counted"
			}
			c.Check(bad == "", rule, fn, "byteSize:headers-iff-format-2", h.In, "headers are counted for format 2 and only for it", bad, nil)
		}
	}
}

func orNone(s string) string {
	if s == "" {
		return "(no gate)"
	}
	return s
}

func rootOf(fn *ssa.Function) *ssa.Function {
	for fn.Parent() != nil && iifeCall(fn) != nil {
		fn = fn.Parent()
	}
	return fn
}

// evalCmpWith: the value of a comparison `x op const` (or negations of it) when x = k.
func evalCmpWith(cond ssa.Value, x ssa.Value, k int64) (val, known bool) {
	neg := false
	for {
		if u, ok := cond.(*ssa.UnOp); ok && u.Op == token.NOT {
			cond, neg = u.X, !neg
			continue
		}
		break
	}
	bo, ok := cond.(*ssa.BinOp)
	if !ok {
		return false, false
	}
	op := bo.Op
	var cv int64
	if bo.X == x {
		c, ok := dConstInt(bo.Y)
		if !ok {
			return false, false
		}
		cv = c
	} else if bo.Y == x {
		c, ok := dConstInt(bo.X)
		if !ok {
			return false, false
		}
		cv = c
		op = swapOp(op)
	} else {
		return false, false
	}
	var r bool
	switch op {
	case token.LSS:
		r = k < cv
	case token.LEQ:
		r = k <= cv
	case token.GTR:
		r = k > cv
	case token.GEQ:
		r = k >= cv
	case token.EQL:
		r = k == cv
	case token.NEQ:
		r = k != cv
	default:
		return false, false
	}
	return r != neg, true
}

// ---------------------------------------------------------------- C03.fetch-fields (shared with C11)

// Fields of the fetch request that exist only from some request version on and that the consumer derives from its
// configuration: whenever a version that carries the field is selected, the field must have been given its value.
func c03FetchFields(c *Ctx) {
	p := c.P
	rule := "C03.fetch-fields"
	c.Doc(rule, "brokerConsumer.fetchNewMessages: for each of FetchRequest.MaxBytes, Isolation (= conf.Consumer.IsolationLevel) and SessionEpoch, with k the request version from which FetchRequest.encode writes the field: on every feasible path that selects a request version ≥ k the field is assigned (feasibility: a path that passed conf.Version.IsAtLeast(Va) cannot take the false branch of IsAtLeast(Vb) for Vb ≤ Va)")
	c.Floor(rule, 3)
	fn := c.NeedFn(rule, "brokerConsumer.fetchNewMessages")
	enc := c.NeedFn(rule, "FetchRequest.encode")
	if fn == nil || enc == nil {
		return
	}
	vt := p.versionTable()
	if len(vt.names) < 20 {
		c.Unresolved(rule, "version globals")
		return
	}
	vstores, _, nonConst := versionSites(fn, "FetchRequest")
	for _, st := range nonConst {
		c.Fail(rule, fn, "version-store", st, "FetchRequest.Version is assigned a value that is not a constant (or a choice between constants): the fields the version needs cannot be determined", nil)
	}
	if len(vstores) < 3 {
		c.Unresolved(rule, fmt.Sprintf("constant stores to FetchRequest.Version in fetchNewMessages (found %d)", len(vstores)))
		return
	}
	encReg := WholeFn(enc)
	for _, fld := range []struct {
		name   string
		source VM // nil: any value
		why    string
	}{
		{"MaxBytes", nil, "the broker is asked for at most 0 bytes"},
		{"Isolation", FieldLoad("Config.Consumer.IsolationLevel"), "the broker is asked for READ_UNCOMMITTED data whatever Consumer.IsolationLevel says, and returns no aborted-transaction index: records of aborted and of still open transactions are delivered to a read-committed consumer"},
		{"SessionEpoch", nil, "epoch 0 asks the broker to open a fetch session the consumer does not implement"},
	} {
		// k: the version from which encode writes the field
		writes := Info(enc).Find(func(it Item) bool {
			cc, ok := callCommon(it)
			if !ok || !cc.IsInvoke() {
				return false
			}
			for _, a := range cc.Args {
				if FieldLoad("FetchRequest." + fld.name)(strip(a)) {
					return true
				}
			}
			return false
		})
		if len(writes) != 1 {
			c.Unresolved(rule, fmt.Sprintf("the write of FetchRequest.%s in FetchRequest.encode (found %d)", fld.name, len(writes)))
			continue
		}
		gateK := int64(-1)
		for k := int64(1); k <= 20; k++ {
			pr := AnyOf{Cmp{token.GEQ, FieldLoad("FetchRequest.Version"), ConstInt(k)}, Cmp{token.GTR, FieldLoad("FetchRequest.Version"), ConstInt(k - 1)}}
			if g, _ := encReg.Guarded(writes[0], pr); g {
				gateK = k
			}
		}
		if gateK < 0 {
			c.Unresolved(rule, "the version gate of FetchRequest."+fld.name+" in FetchRequest.encode")
			continue
		}
		assign := func(it Item) bool {
			st, ok := it.In.(*ssa.Store)
			if !ok {
				return false
			}
			ch := fieldChain(st.Addr)
			if len(ch) == 0 || ch[len(ch)-1].name != fld.name || ch[len(ch)-1].owner != "FetchRequest" {
				return false
			}
			return fld.source == nil || fld.source(strip(st.Val))
		}
		bad := ""
		var at ssa.Instruction
		var wpath []*ssa.BasicBlock
		for _, vs := range vstores {
			if vs.k < gateK {
				continue
			}
			reg := WholeFn(fn)
			gf, gt := vs.guardBlock()
			g := vt.atLeast(reg, gf, gt)
			r := *reg
			inf := vt.infeasibleUnder(g)
			r.Cut = func(from, to *ssa.BasicBlock) bool {
				if vs.to != nil && to == vs.to && from != vs.from {
					return true // the merged version is k only when the merge is entered from vs.from
				}
				return inf != nil && inf(from, to)
			}
			// a feasible path entry → the version store → end of function without the assignment
			before, _ := r.Reach(Is(vs.st), assign)
			if before.IsZero() {
				continue
			}
			if esc, path := r.From(Item{In: vs.st}.After()).Escape(assign); esc {
				bad = fmt.Sprintf("request version %d (selected for configured versions ≥ %s) carries %s (written from v%d on) but the field is not assigned on every path that selects it", vs.k, orNone(g), fld.name, gateK)
				at, wpath = vs.st, path
				break
			}
		}
		c.Check(bad == "", rule, fn, "field:"+fld.name, at, fmt.Sprintf("FetchRequest.%s (written from v%d on) is assigned whenever a version ≥ %d is selected", fld.name, gateK, gateK), bad+": "+fld.why, wpath)
	}
}
