package main

// Symbolic byte-count summaries of the put* methods of prepEncoder (sizing pass) and realEncoder
// (writing pass): per argument-nil condition, a linear form over {1, len(arg), varint(e), uvarint(e),
// Σ over a ranged argument}.  Used by C09.prep-real.

import (
	"fmt"
	"go/constant"
	"go/token"
	"sort"
	"strings"

	"golang.org/x/tools/go/ssa"
)

type sizeForm map[string]int64 // term → coefficient ("1" = constant bytes)

func (f sizeForm) clone() sizeForm {
	r := sizeForm{}
	for k, v := range f {
		r[k] = v
	}
	return r
}

func (f sizeForm) add(term string, k int64) {
	f[term] += k
	if f[term] == 0 {
		delete(f, term)
	}
}

func (f sizeForm) addForm(g sizeForm) {
	for k, v := range g {
		f.add(k, v)
	}
}

func (f sizeForm) String() string {
	var ks []string
	for k := range f {
		ks = append(ks, k)
	}
	sort.Strings(ks)
	var parts []string
	for _, k := range ks {
		switch {
		case k == "1":
			parts = append(parts, fmt.Sprint(f[k]))
		case f[k] == 1:
			parts = append(parts, k)
		default:
			parts = append(parts, fmt.Sprintf("%d·%s", f[k], k))
		}
	}
	if len(parts) == 0 {
		return "0"
	}
	return strings.Join(parts, " + ")
}

type sizePath struct {
	cond []string
	form sizeForm
}

type sizeEngine struct {
	p     *Program
	recv  string // "prepEncoder" | "realEncoder"
	field string // "length" | "off"
	memo  map[*ssa.Function][]sizePath
	bad   map[*ssa.Function]string
}

func newSizeEngine(p *Program, recv, field string) *sizeEngine {
	return &sizeEngine{p: p, recv: recv, field: field, memo: map[*ssa.Function][]sizePath{}, bad: map[*ssa.Function]string{}}
}

// expr renders a value canonically in terms of the function's parameters ($0 = receiver).
func (e *sizeEngine) expr(fn *ssa.Function, v ssa.Value, fi *FnInfo) string {
	switch x := v.(type) {
	case *ssa.Parameter:
		for i, p := range fn.Params {
			if p == x {
				return fmt.Sprintf("$%d", i)
			}
		}
	case *ssa.Const:
		if x.Value == nil {
			return "nil"
		}
		if x.Value.Kind() == constant.Int {
			return x.Value.ExactString()
		}
		if x.Value.Kind() == constant.Bool {
			return x.Value.String()
		}
	case *ssa.Convert:
		return e.expr(fn, x.X, fi)
	case *ssa.ChangeType:
		return e.expr(fn, x.X, fi)
	case *ssa.Call:
		if b, ok := x.Call.Value.(*ssa.Builtin); ok && b.Name() == "len" {
			return "len(" + e.expr(fn, x.Call.Args[0], fi) + ")"
		}
	case *ssa.BinOp:
		if k, ok := x.Y.(*ssa.Const); ok && k.Value != nil && k.Value.Kind() == constant.Int && x.Op == token.ADD {
			return e.expr(fn, x.X, fi) + "+" + k.Value.ExactString()
		}
	case *ssa.UnOp:
		if x.Op == token.MUL {
			if sl, _, ok := rangeElem(fi, x); ok {
				return "elem(" + e.expr(fn, sl, fi) + ")"
			}
			return "*" + e.expr(fn, x.X, fi)
		}
	case *ssa.Extract:
		// element of a ranged string/slice (range with value) — `for _, s := range in`
		if nx, ok := x.Tuple.(*ssa.Next); ok {
			if rg, ok := nx.Iter.(*ssa.Range); ok {
				return "elem(" + e.expr(fn, rg.X, fi) + ")"
			}
		}
	}
	return "?"
}

func varintLen(k int64) int64 {
	u := uint64(k<<1) ^ uint64(k>>63)
	return uvarintLen(u)
}

func uvarintLen(u uint64) int64 {
	n := int64(1)
	for u >= 0x80 {
		u >>= 7
		n++
	}
	return n
}

// termOf: size contribution of the value added to the cursor.
func (e *sizeEngine) termOf(fn *ssa.Function, v ssa.Value, fi *FnInfo, f sizeForm) bool {
	v = wStrip(v)
	if k, ok := v.(*ssa.Const); ok && k.Value != nil && k.Value.Kind() == constant.Int {
		i, _ := constant.Int64Val(k.Value)
		f.add("1", i)
		return true
	}
	// the hand-written size of an unsigned varint: n := 1; for x >= 0x80 { x >>= 7; n++ } — exactly that loop
	if arg, ok := uvarintSizeIdiom(v); ok {
		a := e.expr(fn, arg, fi)
		if k, err := parseInt(a); err == nil && k >= 0 {
			f.add("1", uvarintLen(uint64(k)))
		} else {
			f.add("uvarint("+a+")", 1)
		}
		return true
	}
	switch x := v.(type) {
	case *ssa.Call:
		if b, ok := x.Call.Value.(*ssa.Builtin); ok && b.Name() == "len" {
			f.add("len("+e.expr(fn, x.Call.Args[0], fi)+")", 1)
			return true
		}
		switch e.p.CalleeName(&x.Call) {
		case "encoding/binary.PutVarint":
			a := e.expr(fn, x.Call.Args[1], fi)
			if k, err := parseInt(a); err == nil {
				f.add("1", varintLen(k))
			} else {
				f.add("varint("+a+")", 1)
			}
			return true
		case "encoding/binary.PutUvarint":
			a := e.expr(fn, x.Call.Args[1], fi)
			if k, err := parseInt(a); err == nil && k >= 0 {
				f.add("1", uvarintLen(uint64(k)))
			} else {
				f.add("uvarint("+a+")", 1)
			}
			return true
		}
		if x.Call.IsInvoke() {
			f.add(x.Call.Method.Name()+"("+e.expr(fn, x.Call.Value, fi)+")", 1)
			return true
		}
	case *ssa.BinOp:
		if x.Op == token.MUL {
			for _, pr := range [][2]ssa.Value{{x.X, x.Y}, {x.Y, x.X}} {
				if k, ok := wStrip(pr[0]).(*ssa.Const); ok && k.Value != nil && k.Value.Kind() == constant.Int {
					i, _ := constant.Int64Val(k.Value)
					g := sizeForm{}
					if e.termOf(fn, pr[1], fi, g) {
						for t, c := range g {
							f.add(t, c*i)
						}
						return true
					}
				}
			}
		}
	}
	return false
}

func parseInt(s string) (int64, error) {
	var k int64
	_, err := fmt.Sscanf(s, "%d", &k)
	if err != nil || fmt.Sprint(k) != s {
		return 0, fmt.Errorf("not an int")
	}
	return k, nil
}

// substitute callee parameter references ($i) by the caller's argument expressions.
func substTerms(s string, args []string) string {
	var sb strings.Builder
	for i := 0; i < len(s); i++ {
		if s[i] == '$' {
			j := i + 1
			for j < len(s) && s[j] >= '0' && s[j] <= '9' {
				j++
			}
			var idx int
			fmt.Sscanf(s[i+1:j], "%d", &idx)
			if idx < len(args) {
				sb.WriteString(args[idx])
			} else {
				sb.WriteString("?")
			}
			i = j - 1
			continue
		}
		sb.WriteByte(s[i])
	}
	r := sb.String()
	// normalise varint/uvarint of constants after substitution
	for _, fnn := range []string{"uvarint(", "varint("} {
		if strings.HasPrefix(r, fnn) && strings.HasSuffix(r, ")") {
			if k, err := parseInt(r[len(fnn) : len(r)-1]); err == nil {
				if fnn == "varint(" {
					return fmt.Sprintf("#%d", varintLen(k))
				}
				return fmt.Sprintf("#%d", uvarintLen(uint64(k)))
			}
		}
	}
	return r
}

// summary: successful paths of fn, each with its nil-conditions and byte-count form.
func (e *sizeEngine) summary(fn *ssa.Function) []sizePath {
	if s, ok := e.memo[fn]; ok {
		return s
	}
	e.memo[fn] = nil // recursion guard
	fi := Info(fn)
	var out []sizePath
	type st struct {
		b    *ssa.BasicBlock
		form sizeForm
		cond []string
	}
	var walk func(s st, visited map[*ssa.BasicBlock]int)
	walk = func(s st, visited map[*ssa.BasicBlock]int) {
		b := s.b
		if visited[b] > 1 {
			return
		}
		visited[b]++
		defer func() { visited[b]-- }()
		forms := []sizePath{{s.cond, s.form}}
		for _, in := range b.Instrs {
			switch x := in.(type) {
			case *ssa.Store:
				ch := fieldChain(x.Addr)
				if len(ch) == 0 || ch[len(ch)-1].owner != e.recv || ch[len(ch)-1].name != e.field {
					continue
				}
				bo, ok := x.Val.(*ssa.BinOp)
				if !ok || bo.Op != token.ADD {
					e.bad[fn] = "cursor updated by a non-additive expression"
					continue
				}
				for i := range forms {
					forms[i].form = forms[i].form.clone()
					if !e.termOf(fn, bo.Y, fi, forms[i].form) {
						e.bad[fn] = "unrecognised size term " + bo.Y.String()
					}
				}
			case *ssa.Call:
				cal := x.Call.StaticCallee()
				if cal == nil || cal.Signature.Recv() == nil {
					continue
				}
				if n, _ := NamedOf(cal.Signature.Recv().Type()); n != e.recv {
					continue
				}
				var args []string
				for _, a := range x.Call.Args {
					args = append(args, e.expr(fn, a, fi))
				}
				cs := e.summary(cal)
				if len(cs) == 0 {
					continue // callee has no effect on the cursor / only failing paths
				}
				var next []sizePath
				for _, f := range forms {
					for _, cp := range cs {
						nf := f.form.clone()
						for t, k := range cp.form {
							tt := t
							if t != "1" {
								tt = substTerms(t, args)
							}
							if strings.HasPrefix(tt, "#") {
								kk, _ := parseInt(tt[1:])
								nf.add("1", kk*k)
							} else {
								nf.add(tt, k)
							}
						}
						nc := append([]string{}, f.cond...)
						for _, cnd := range cp.cond {
							nc = append(nc, substTerms(cnd, args))
						}
						next = append(next, sizePath{nc, nf})
					}
				}
				forms = next
			}
		}
		for _, f := range forms {
			switch t := lastInstr(b).(type) {
			case *ssa.Return:
				if IsRecoverBlock(b) || wireRejecting(t, b) {
					continue
				}
				out = append(out, sizePath{append([]string{}, f.cond...), f.form})
			case *ssa.Jump:
				e.follow(fn, fi, b, b.Succs[0], f, visited, func(nb *ssa.BasicBlock, nf sizePath) { walk(st{nb, nf.form, nf.cond}, visited) })
			case *ssa.If:
				bo, isB := t.Cond.(*ssa.BinOp)
				for k, succ := range b.Succs {
					nc := f.cond
					if isB && (bo.Op == token.EQL || bo.Op == token.NEQ) && (IsNil()(bo.Y) || IsNil()(bo.X)) {
						x := bo.X
						if IsNil()(bo.X) {
							x = bo.Y
						}
						ex := e.expr(fn, x, fi)
						if strings.HasPrefix(ex, "$") || strings.HasPrefix(ex, "*$") {
							eq := (bo.Op == token.EQL) == (k == 0)
							nc = append(append([]string{}, f.cond...), map[bool]string{true: ex + "==nil", false: ex + "!=nil"}[eq])
						}
					}
					e.follow(fn, fi, b, succ, sizePath{nc, f.form}, visited, func(nb *ssa.BasicBlock, nf sizePath) { walk(st{nb, nf.form, nf.cond}, visited) })
				}
			}
		}
	}
	walk(st{fn.Blocks[0], sizeForm{}, nil}, map[*ssa.BasicBlock]int{})
	e.memo[fn] = out
	return out
}

// follow an edge; a range loop over a value is summarised as Σ (or k·len when the body adds a constant).
func (e *sizeEngine) follow(fn *ssa.Function, fi *FnInfo, from, to *ssa.BasicBlock, f sizePath, visited map[*ssa.BasicBlock]int, cont func(*ssa.BasicBlock, sizePath)) {
	for _, l := range fi.Loops {
		if l.Head != to || l.Blocks[from] {
			continue
		}
		// entering loop l: summarise one iteration
		reg := fi.Iteration(l)
		entry := reg.Starts[0].B
		var exit *ssa.BasicBlock
		for _, s := range l.Head.Succs {
			if !l.Blocks[s] {
				exit = s
			}
		}
		if exit == nil {
			e.bad[fn] = "loop without exit through its header"
			return
		}
		// ranged value
		ranged := "?"
		for _, in := range l.Head.Instrs {
			if bo, ok := in.(*ssa.BinOp); ok && bo.Op == token.LSS {
				if cl, ok := bo.Y.(*ssa.Call); ok {
					if bi, ok := cl.Call.Value.(*ssa.Builtin); ok && bi.Name() == "len" {
						ranged = e.expr(fn, cl.Call.Args[0], fi)
					}
				}
			}
			if nx, ok := in.(*ssa.Next); ok {
				if rg, ok := nx.Iter.(*ssa.Range); ok {
					ranged = e.expr(fn, rg.X, fi)
				}
			}
		}
		body := e.iterationForm(fn, fi, l, entry)
		nf := f.form.clone()
		if body == nil {
			e.bad[fn] = "loop body has several size forms"
			return
		}
		constOnly := true
		for t := range body {
			if t != "1" {
				constOnly = false
			}
		}
		if constOnly {
			nf.add("len("+ranged+")", body["1"])
		} else {
			nf.add("Σ{"+ranged+": "+body.String()+"}", 1)
		}
		cont(exit, sizePath{f.cond, nf})
		return
	}
	cont(to, f)
}

// iterationForm: the (unique) byte-count form of one loop iteration (successful paths back to the header).
func (e *sizeEngine) iterationForm(fn *ssa.Function, fi *FnInfo, l *Loop, entry *ssa.BasicBlock) sizeForm {
	var results []sizeForm
	var walk func(b *ssa.BasicBlock, f sizeForm, depth int)
	walk = func(b *ssa.BasicBlock, f sizeForm, depth int) {
		if depth > 64 {
			return
		}
		forms := []sizeForm{f}
		for _, in := range b.Instrs {
			switch x := in.(type) {
			case *ssa.Store:
				ch := fieldChain(x.Addr)
				if len(ch) == 0 || ch[len(ch)-1].owner != e.recv || ch[len(ch)-1].name != e.field {
					continue
				}
				if bo, ok := x.Val.(*ssa.BinOp); ok && bo.Op == token.ADD {
					for i := range forms {
						forms[i] = forms[i].clone()
						if !e.termOf(fn, bo.Y, fi, forms[i]) {
							e.bad[fn] = "unrecognised size term in loop"
						}
					}
				}
			case *ssa.Call:
				cal := x.Call.StaticCallee()
				if cal == nil || cal.Signature.Recv() == nil {
					continue
				}
				if n, _ := NamedOf(cal.Signature.Recv().Type()); n != e.recv {
					continue
				}
				var args []string
				for _, a := range x.Call.Args {
					args = append(args, e.expr(fn, a, fi))
				}
				cs := e.summary(cal)
				var next []sizeForm
				for _, f0 := range forms {
					for _, cp := range cs {
						nf := f0.clone()
						for t, k := range cp.form {
							tt := t
							if t != "1" {
								tt = substTerms(t, args)
							}
							if strings.HasPrefix(tt, "#") {
								kk, _ := parseInt(tt[1:])
								nf.add("1", kk*k)
							} else {
								nf.add(tt, k)
							}
						}
						next = append(next, nf)
					}
				}
				if len(cs) > 0 {
					forms = next
				}
			}
		}
		for _, f1 := range forms {
			switch t := lastInstr(b).(type) {
			case *ssa.Return:
				_ = t // leaving the function from inside the loop: error path (or early success): ignored for the per-iteration form
			default:
				for _, s := range b.Succs {
					if s == l.Head {
						results = append(results, f1)
						continue
					}
					if l.Blocks[s] {
						walk(s, f1, depth+1)
					}
				}
			}
		}
	}
	walk(entry, sizeForm{}, 0)
	if len(results) == 0 {
		return sizeForm{}
	}
	first := results[0].String()
	for _, r := range results[1:] {
		if r.String() != first {
			return nil
		}
	}
	return results[0]
}

// uvarintSizeIdiom: v is the result of `n := 1; for x >= 0x80 { x >>= 7; n++ }` (possibly inside an immediately-invoked
// literal an inlined-back helper left behind); returns the value x starts from.
func uvarintSizeIdiom(v ssa.Value) (ssa.Value, bool) {
	v = strip(v)
	n, ok := v.(*ssa.Phi)
	if !ok || len(n.Edges) != 2 {
		return nil, false
	}
	head := n.Block()
	iff, ok := lastInstr(head).(*ssa.If)
	if !ok {
		return nil, false
	}
	cond, ok := iff.Cond.(*ssa.BinOp)
	if !ok || cond.Op != token.GEQ {
		return nil, false
	}
	k, ok := cond.Y.(*ssa.Const)
	if !ok || k.Value == nil || k.Uint64() != 0x80 {
		return nil, false
	}
	x, ok := cond.X.(*ssa.Phi)
	if !ok || x.Block() != head || len(x.Edges) != 2 {
		return nil, false
	}
	var start ssa.Value
	okN, okX := false, false
	for i := range n.Edges {
		ne, xe := n.Edges[i], x.Edges[i]
		if c1, isC := ne.(*ssa.Const); isC {
			if c1.Value == nil || c1.Int64() != 1 {
				return nil, false
			}
			start = xe
			continue
		}
		if b, isB := ne.(*ssa.BinOp); isB && b.Op == token.ADD && b.X == ssa.Value(n) && ConstInt(1)(b.Y) {
			okN = true
		}
		if b, isB := xe.(*ssa.BinOp); isB && b.Op == token.SHR && b.X == ssa.Value(x) {
			if c7, isC := strip(b.Y).(*ssa.Const); isC && c7.Value != nil && c7.Uint64() == 7 {
				okX = true
			}
		}
	}
	// the exit (condition false) must leave the loop: the value is used after it
	if !okN || !okX || start == nil {
		return nil, false
	}
	return start, true
}
