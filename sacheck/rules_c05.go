package main

// C05 — idempotent producer never writes a message twice (structural clauses).

import (
	"fmt"
	"go/token"
	"sort"
	"strings"

	"golang.org/x/tools/go/ssa"
)

// IsAtLeast matches `x.IsAtLeast(V)` for the version global named vname.
func (p *Program) IsAtLeast(vname string) VM {
	return func(v ssa.Value) bool {
		c, ok := strip(v).(*ssa.Call)
		if !ok || p.CalleeName(&c.Call) != "KafkaVersion.IsAtLeast" || len(c.Call.Args) != 2 {
			return false
		}
		return vname == "" || GlobalLoad(vname)(c.Call.Args[1])
	}
}

func init() {
	register(&propDef{
		ID:    "C05",
		Title: "Idempotent producer never writes a message twice",
		Explain: "Decides the structural necessary conditions of sequence/epoch discipline on every path: a sequence number is taken only for a fresh (retries==0), non-marker message under Idempotent, by exactly one caller, and hasSequence is then set (C05.seq-once); the epoch is bumped only when a sequenced message fails (C05.epoch); a batch's FirstSequence/ProducerID/Epoch come from the first message and the producer's identity, a resent batch is the very same partition set (C05.batch); " +
			"duplicate-sequence answers are reported as success and every response code class has the tabled action (C05.dup-is-success); the buffer is rolled over before a message of another epoch is added (C05.rollover); Validate rejects each configuration that breaks idempotence (C05.config); the retry-budget exhaustion of a batch fails the whole batch (C01.partial, shared). " +
			"NOT covered: the broker's dedup rules, lost acknowledgements, an epoch bump while other partitions have sequenced messages in flight.",
		Rules: []func(*Ctx){c05SeqOnce, c05Epoch, c05Batch, c05DupIsSuccess, c05Rollover, c05Config, c05Lock, c01Partial, c01ErrLost, c02Recheck, c05FreshProducerID, c05ClearResetsAll, c02MarkerCreators, c05ResendWholeBatch, c05LoopVarCapture, c05StampAtomic},
	})
}

func c05SeqOnce(c *Ctx) {
	p := c.P
	rule := "C05.seq-once"
	c.Doc(rule, "getAndIncrementSequenceNumber is called only from partitionProducer.dispatch, guarded by conf.Producer.Idempotent ∧ msg.retries == 0 ∧ msg.flags == 0, its results are stored to msg.sequenceNumber/producerEpoch and hasSequence = true follows")
	c.Floor(rule, 5)
	fn := c.NeedFn(rule, "partitionProducer.dispatch")
	if fn == nil {
		return
	}
	fi := Info(fn)
	loops, vals := rangeChanLoops(fi, FieldLoad("partitionProducer.input"))
	if len(loops) != 1 {
		c.Unresolved(rule, "range pp.input")
		return
	}
	reg, msg := fi.Iteration(loops[0]), vals[0]
	call := p.CallTo("transactionManager.getAndIncrementSequenceNumber")
	cs := reg.Find(call)
	if len(cs) != 1 {
		c.Unresolved(rule, "the single sequence-number call in dispatch")
		return
	}
	s := cs[0]
	for _, g := range []struct {
		name string
		p    Pred
		bad  string
	}{
		{"idempotent", Truth{FieldLoad("Config.Producer.Idempotent"), true}, "sequence numbers are consumed although the producer is not idempotent"},
		{"fresh", Cmp{token.EQL, FieldLoadOf("ProducerMessage.retries", Same(msg)), ConstInt(0)}, "a retried message takes a new sequence number: the broker sees it as a new record (duplicate write) or out of sequence"},
		{"not-marker", Cmp{token.EQL, FieldLoadOf("ProducerMessage.flags", Same(msg)), ConstInt(0)}, "internal syn/fin markers consume sequence numbers: gaps make the broker reject later batches"},
	} {
		ok, path := reg.Guarded(s, g.p)
		c.Check(ok, rule, fn, "guard:"+g.name, s.Instr(), "sequence taken only under "+g.name, g.bad, path)
	}
	esc, path := reg.From(s.After()).Escape(StoreTo(ConstBool(true), "ProducerMessage.hasSequence"))
	c.Check(!esc, rule, fn, "has-sequence", s.Instr(), "hasSequence = true follows", "hasSequence is not set after a sequence number was taken: a later failure does not bump the epoch and the sequence has a hole", path)
	// results stored into the message
	seqStored := len(reg.Find(StoreTo(p.ResultOf(0, "transactionManager.getAndIncrementSequenceNumber"), "ProducerMessage.sequenceNumber"))) == 1 &&
		len(reg.Find(StoreTo(p.ResultOf(1, "transactionManager.getAndIncrementSequenceNumber"), "ProducerMessage.producerEpoch"))) == 1
	c.Check(seqStored, rule, fn, "results-stored", s.Instr(), "sequence and epoch results stored to msg.sequenceNumber / msg.producerEpoch", "the (sequence, epoch) pair returned is not stored into the message", nil)
	var callers []string
	for _, f := range p.Fns {
		if hasItem(f, call) {
			callers = append(callers, p.Name(f))
		}
	}
	sort.Strings(callers)
	c.Check(len(callers) == 1, rule, fn, "single-caller", nil, "only caller: "+strings.Join(callers, ","), "sequence numbers are taken in several places: "+strings.Join(callers, ","), nil)
}

func c05Epoch(c *Ctx) {
	p := c.P
	rule := "C05.epoch"
	c.Doc(rule, "bumpEpoch is called only from returnError and only under msg.hasSequence; wherever transactionManager.sequenceNumbers entries are reset to 0, producerEpoch is incremented on the same path")
	c.Floor(rule, 3)
	call := p.CallTo("transactionManager.bumpEpoch")
	var callers []string
	for _, f := range p.Fns {
		if hasItem(f, call) {
			callers = append(callers, p.Name(f))
		}
	}
	sort.Strings(callers)
	c.Check(len(callers) == 1 && callers[0] == "asyncProducer.returnError", rule, nil, "single-caller", nil, "bumpEpoch called only by returnError", "bumpEpoch callers: "+strings.Join(callers, ",")+" (expected only returnError)", nil)
	// an epoch is the unit within which (producer id, epoch, sequence) identifies a batch: the sequence counters
	// are reset exactly when the epoch moves on.  A reset without an increment hands out pairs that were already
	// used in the current epoch (the broker answers "duplicate", which the producer counts as success).
	nReset := 0
	for _, f := range p.Fns {
		if f.Pkg != p.Sarama {
			continue
		}
		reset := MapUpdateOn(FieldLoad("transactionManager.sequenceNumbers"))
		isReset := func(it Item) bool {
			mu, ok := it.In.(*ssa.MapUpdate)
			return ok && reset(it) && ConstInt(0)(mu.Value)
		}
		inc := StoreTo(BinOpOf(token.ADD, FieldLoad("transactionManager.producerEpoch"), ConstInt(1)), "transactionManager.producerEpoch")
		reg := WholeFn(f)
		rs := Info(f).Find(isReset)
		if len(rs) == 0 {
			continue
		}
		nReset++
		bad := false
		var path []*ssa.BasicBlock
		for _, r := range rs {
			// reachable without a preceding increment, and no increment follows either
			if it, _ := reg.Reach(IsItem(r), inc); !it.IsZero() {
				if esc, pth := reg.From(r.After()).Escape(inc); esc {
					bad, path = true, pth
				}
			}
		}
		c.Check(!bad, rule, f, "reset-only-with-bump", rs[0].Instr(), "the sequence counters are reset only together with an epoch increment",
			"the sequence counters can be reset to 0 on a path that does not increment the producer epoch: sequence numbers already used in the current epoch are handed out again, the broker answers DuplicateSequenceNumber and a message that was never appended is reported successful", path)
	}
	if nReset == 0 {
		c.Unresolved(rule, "reset of transactionManager.sequenceNumbers")
	}
	if fn := c.NeedFn(rule, "asyncProducer.returnError"); fn != nil {
		reg := WholeFn(fn)
		for _, s := range reg.Find(call) {
			g, path := reg.Guarded(s, Truth{FieldLoadOf("ProducerMessage.hasSequence", ParamN(1)), true})
			c.Check(g, rule, fn, "guard:has-sequence", s.Instr(), "epoch bumped only when the failed message had a sequence number",
				"the epoch is bumped for every failed message (also unsequenced ones): in-flight sequenced batches of other partitions are fenced / sequence reset while acknowledged writes exist", path)
		}
	}
}

func c05Batch(c *Ctx) {
	p := c.P
	rule := "C05.batch"
	c.Doc(rule, "produceSet.add: RecordBatch{FirstSequence ← msg.sequenceNumber under Idempotent, ProducerID/ProducerEpoch ← ps.producerID/producerEpoch}; newProduceSet takes them from txnmgr.getProducerID(); retryBatch re-sends the very partition set it was given")
	c.Floor(rule, 8)
	if fn := c.NeedFn(rule, "produceSet.add"); fn != nil {
		lits := p.literalsOf(fn, "RecordBatch")
		if len(lits) != 1 {
			c.Unresolved(rule, "RecordBatch literal in add")
		} else {
			l := lits[0]
			c.Check(l.fields["ProducerID"] != nil && FieldLoad("produceSet.producerID")(l.fields["ProducerID"]), rule, fn, "ProducerID", l.alloc, "batch.ProducerID ← ps.producerID", "batch.ProducerID is not the produce set's producer id", nil)
			c.Check(l.fields["ProducerEpoch"] != nil && FieldLoad("produceSet.producerEpoch")(l.fields["ProducerEpoch"]), rule, fn, "ProducerEpoch", l.alloc, "batch.ProducerEpoch ← ps.producerEpoch", "batch.ProducerEpoch is not the produce set's epoch", nil)
			st := l.stores["FirstSequence"]
			if st == nil {
				c.Fail(rule, fn, "FirstSequence", l.alloc, "batch.FirstSequence is never set: every idempotent batch starts at sequence 0", nil)
			} else {
				okVal := FieldLoadOf("ProducerMessage.sequenceNumber", ParamN(1))(st.Val)
				g, path := WholeFn(fn).Guarded(Item{In: st}, Truth{FieldLoad("Config.Producer.Idempotent"), true})
				c.Check(okVal && g, rule, fn, "FirstSequence", st, "batch.FirstSequence ← sequenceNumber of the first message, under Idempotent", "batch.FirstSequence is not the first message's sequence number (or set without Idempotent)", path)
			}
		}
	}
	// the identity of a batch is fixed when it is built: nobody re-stamps an existing batch (a resent batch must carry
	// the identical sequence range and epoch, or the broker cannot recognise it as a duplicate)
	nW := 0
	for _, fn := range p.Fns {
		if rootOf(fn).Pkg != p.Sarama || p.Name(fn) == "RecordBatch.decode" {
			continue
		}
		for _, b := range fn.Blocks {
			for _, in := range b.Instrs {
				st, ok := in.(*ssa.Store)
				if !ok {
					continue
				}
				ch := fieldChain(st.Addr)
				if len(ch) == 0 || ch[len(ch)-1].owner != "RecordBatch" {
					continue
				}
				f := ch[len(ch)-1].name
				if f != "ProducerID" && f != "ProducerEpoch" && f != "FirstSequence" {
					continue
				}
				nW++
				_, fresh := ch[0].base.(*ssa.Alloc)
				fresh = fresh && len(ch) == 1
				c.Check(fresh, rule, fn, "identity-set-at-construction:"+f, st, "RecordBatch."+f+" is assigned on the batch being built", "RecordBatch."+f+" of an existing batch is overwritten: a batch that is sent again (retryBatch wraps the failed partition set in a new produce set) no longer carries the sequence range / producer id / epoch it was first sent with, so the broker cannot recognise the duplicate (or fences the resend)", nil)
			}
		}
	}
	if nW < 3 {
		c.Unresolved(rule, fmt.Sprintf("stores to RecordBatch.ProducerID/ProducerEpoch/FirstSequence (found %d)", nW))
	}
	if fn := c.NeedFn(rule, "newProduceSet"); fn != nil {
		lits := p.literalsOf(fn, "produceSet")
		ok := len(lits) == 1 && lits[0].fields["producerID"] != nil && p.ResultOf(0, "transactionManager.getProducerID")(lits[0].fields["producerID"]) &&
			lits[0].fields["producerEpoch"] != nil && p.ResultOf(1, "transactionManager.getProducerID")(lits[0].fields["producerEpoch"])
		c.Check(ok, rule, fn, "identity", nil, "(producerID, producerEpoch) ← txnmgr.getProducerID()", "a produce set's identity does not come from getProducerID()", nil)
	}
	if fn := c.NeedFn(rule, "asyncProducer.retryBatch"); fn != nil {
		var pset ssa.Value
		for _, pr := range fn.Params {
			if isPtrToNamed(pr.Type(), "partitionSet") {
				pset = pr
			}
		}
		ups := Info(fn).Find(func(it Item) bool {
			u, ok := it.In.(*ssa.MapUpdate)
			return ok && isPtrToNamed(u.Value.Type(), "partitionSet")
		})
		ok := pset != nil && len(ups) == 1 && sameValue(ups[0].In.(*ssa.MapUpdate).Value, pset)
		c.Check(ok, rule, fn, "resend-same-set", nil, "the resent produce set holds the very partition set that failed (same records, sequence range, epoch)", "retryBatch does not resend the partition set it was given", nil)
		// and it is sent on the new leader's output exactly once on the success path
		sends := Info(fn).Find(SendOn(FieldLoad("brokerProducer.output"), nil))
		c.Check(len(sends) == 1, rule, fn, "resend-once", nil, "the rebuilt set is handed to a broker worker once", "the rebuilt set is handed over zero or several times", nil)
	}
}

func c05DupIsSuccess(c *Ctx) {
	p := c.P
	rule := "C05.dup-is-success"
	c.Doc(rule, "handleSuccess first pass, case → action: ErrNoError and ErrDuplicateSequenceNumber → returnSuccesses; the retriable list → deferral (or returnErrors when Retry.Max <= 0); default → returnErrors")
	c.Floor(rule, 4)
	hs := c.NeedFn(rule, "brokerProducer.handleSuccess")
	if hs == nil {
		return
	}
	calls := Info(hs).Find(p.CallTo("produceSet.eachPartition"))
	if len(calls) == 0 {
		c.Unresolved(rule, "eachPartition")
		return
	}
	cb := p.closureArg(calls[0], 1)
	if cb == nil {
		c.Unresolved(rule, "callback")
		return
	}
	msgs := FieldLoad("partitionSet.msgs")
	succ := p.CallWith("asyncProducer.returnSuccesses", 1, msgs)
	fail := p.CallWith("asyncProducer.returnErrors", 1, msgs)
	deferral := func(it Item) bool {
		st, ok := it.In.(*ssa.Store)
		if !ok {
			return false
		}
		_, ok = st.Addr.(*ssa.FreeVar)
		return ok
	}
	any := Or(succ, fail, deferral)
	cases := constCases(cb, FieldLoad("ProduceResponseBlock.Err"))
	noErr, _ := p.ConstNamed("ErrNoError")
	dup, _ := p.ConstNamed("ErrDuplicateSequenceNumber")
	seen := map[string]bool{}
	reg := WholeFn(cb)
	var caseBlocks []*ssa.BasicBlock
	for tgt := range cases {
		caseBlocks = append(caseBlocks, tgt)
	}
	sort.Slice(caseBlocks, func(i, j int) bool { return caseBlocks[i].Index < caseBlocks[j].Index })
	for _, tgt := range caseBlocks {
		ks := cases[tgt]
		sub := reg.From(Pt{tgt, 0})
		onlySucc := func() bool {
			it, _ := sub.Reach(Or(fail, deferral), nil)
			esc, _ := sub.Escape(succ)
			return it.IsZero() && !esc
		}
		switch {
		case len(ks) == 1 && ks[0] == noErr:
			seen["noerr"] = true
			c.Check(onlySucc(), rule, cb, "case:ErrNoError", tgt.Instrs[0], "ErrNoError → returnSuccesses", "ErrNoError does not lead to returnSuccesses on every path", nil)
		case len(ks) == 1 && ks[0] == dup:
			seen["dup"] = true
			c.Check(onlySucc(), rule, cb, "case:ErrDuplicateSequenceNumber", tgt.Instrs[0], "ErrDuplicateSequenceNumber → returnSuccesses (the batch is already in the log)",
				"a duplicate-sequence answer is not reported as success: the application retries a message that is already written (duplicate write)", nil)
		default:
			seen["retriable"] = true
			it, _ := sub.Reach(succ, nil)
			esc, _ := sub.Escape(Or(fail, deferral))
			c.Check(it.IsZero() && !esc, rule, cb, "case:retriable", tgt.Instrs[0], "retriable codes → deferral to the retry pass or returnErrors: "+strings.Join(p.kerrNames(ks), ","),
				"a retriable error code can be reported as success or dropped", nil)
		}
	}
	if !seen["noerr"] || !seen["dup"] || !seen["retriable"] {
		c.Fail(rule, cb, "cases", nil, "expected case arms for ErrNoError, ErrDuplicateSequenceNumber and the retriable list in the first pass", nil)
	}
	// default arm: the path that fails every case test
	r2 := *reg
	r2.Cut = func(from, to *ssa.BasicBlock) bool {
		_, isCase := cases[to]
		if !isCase {
			return false
		}
		iff, ok := lastInstr(from).(*ssa.If)
		return ok && from.Succs[0] == to && iff != nil
	}
	// start after the block==nil test: find the first case-test block
	var firstTest *ssa.BasicBlock
	for _, b := range cb.Blocks {
		if iff, ok := lastInstr(b).(*ssa.If); ok {
			if _, isCase := cases[b.Succs[0]]; isCase && iff != nil {
				firstTest = b
				break
			}
		}
	}
	if firstTest == nil {
		c.Unresolved(rule, "switch on block.Err")
		return
	}
	r3 := r2.From(Pt{firstTest, 0})
	it, _ := r3.Reach(Or(succ, deferral), nil)
	esc, path := r3.Escape(fail)
	c.Check(it.IsZero() && !esc, rule, cb, "default", firstTest.Instrs[0], "every other code → returnErrors", "an unlisted error code is not failed with returnErrors on every path (reported as success, deferred forever or dropped)", path)
	_ = any
}

func c05Rollover(c *Ctx) {
	p := c.P
	rule := "C05.rollover"
	c.Doc(rule, "brokerProducer.run: buffer.add(msg) is reached only over edges on which the producer is not idempotent or buffer.producerEpoch == msg.producerEpoch, or after waitForSpace(msg, true); waitForSpace returns nil only after the buffer was replaced by a fresh one (rollOver() or the same store) unless its forceRollover parameter is false")
	c.Floor(rule, 3)
	fn := c.NeedFn(rule, "brokerProducer.run")
	if fn == nil {
		return
	}
	fi := Info(fn)
	if len(fi.Loops) == 0 {
		c.Unresolved(rule, "run loop")
		return
	}
	reg := fi.Iteration(fi.Loops[0])
	differs := Cmp{token.NEQ, FieldLoad("produceSet.producerEpoch"), FieldLoad("ProducerMessage.producerEpoch")}
	if len(reg.EstablishingEdges(differs)) == 0 {
		c.Fail(rule, fn, "epoch-test", nil, "no test buffer.producerEpoch != msg.producerEpoch before buffer.add: records of two epochs end up in one batch", nil)
	}
	// every path to buffer.add either knows the producer is not idempotent, or knows the epochs are equal, or
	// passed a forced rollover — whatever else the condition mentions (a conjunct such as !buffer.empty()
	// opens a path around the rollover)
	noPid, _ := p.ConstNamed("noProducerID")
	safe := AnyOf{
		Cmp{token.EQL, FieldLoad("transactionManager.producerID"), ConstInt(noPid)},
		Cmp{token.EQL, FieldLoad("produceSet.producerEpoch"), FieldLoad("ProducerMessage.producerEpoch")},
	}
	forced := p.CallWith("brokerProducer.waitForSpace", 2, ConstBool(true))
	r2 := *reg
	r2.Cut = func(from, to *ssa.BasicBlock) bool { return Establishes(from, to, safe) }
	adds := reg.Find(p.CallTo("produceSet.add"))
	if len(adds) == 0 {
		c.Unresolved(rule, "buffer.add in run")
	}
	for _, a := range adds {
		it, path := r2.Reach(IsItem(a), forced)
		c.Check(it.IsZero(), rule, fn, "rollover-before-add", a.Instr(), "buffer.add is reached only with equal epochs, a non-idempotent producer, or after a forced rollover",
			"a message can be added to a buffer created under another producer epoch without a forced rollover (e.g. when the stale buffer is empty): the batch is stamped with the old epoch and the broker answers duplicate/out-of-order", path)
	}
	// the forced rollover is honoured by waitForSpace: it reports success (nil) only after rollOver(), unless the
	// caller did not force it
	if wf := c.NeedFn(rule, "brokerProducer.waitForSpace"); wf != nil {
		wreg := WholeFn(wf)
		rets := wreg.Find(ReturnNilErr())
		if len(rets) == 0 {
			c.Unresolved(rule, "successful return of waitForSpace")
		}
		r3 := *wreg
		notForced := Truth{ParamN(2), false}
		r3.Cut = func(from, to *ssa.BasicBlock) bool { return Establishes(from, to, notForced) }
		for _, r := range rets {
			rolled := p.Lifted(StoreTo(p.ResultOf(0, "newProduceSet"), "brokerProducer.buffer"))
			it, path := r3.Reach(IsItem(r), rolled)
			c.Check(it.IsZero(), rule, wf, "forced-rollover-honoured", r.Instr(), "waitForSpace returns nil only after rollOver(), or when the rollover was not forced",
				"waitForSpace(msg, true) can report success without having rolled the buffer over (for instance when the buffer is empty): the caller adds the message to the buffer of the previous epoch", path)
		}
	}
}

func c05Config(c *Ctx) {
	p := c.P
	rule := "C05.config"
	c.Doc(rule, "Config.Validate: with Producer.Idempotent set, nil can be returned only if Version >= 0.11, Retry.Max != 0, RequiredAcks == WaitForAll and Net.MaxOpenRequests <= 1 were each established on the path")
	c.Floor(rule, 4)
	fn := c.NeedFn(rule, "Config.Validate")
	if fn == nil {
		return
	}
	reg := WholeFn(fn)
	idem := Truth{FieldLoad("Config.Producer.Idempotent"), true}
	es := reg.EstablishingEdges(idem)
	if len(es) == 0 {
		c.Unresolved(rule, "test of Producer.Idempotent in Validate")
		return
	}
	waitAll, _ := p.ConstNamed("WaitForAll")
	goods := []struct {
		name string
		p    Pred
	}{
		{"version>=0.11", Truth{p.IsAtLeast("V0_11_0_0"), true}},
		{"retry.max>=1", AnyOf{Cmp{token.NEQ, FieldLoad("Config.Producer.Retry.Max"), ConstInt(0)}, Cmp{token.GEQ, FieldLoad("Config.Producer.Retry.Max"), ConstInt(1)}, Cmp{token.GTR, FieldLoad("Config.Producer.Retry.Max"), ConstInt(0)}}},
		{"acks==all", Cmp{token.EQL, FieldLoad("Config.Producer.RequiredAcks"), ConstInt(waitAll)}},
		{"max-open-requests<=1", AnyOf{Cmp{token.LEQ, FieldLoad("Config.Net.MaxOpenRequests"), ConstInt(1)}, Cmp{token.EQL, FieldLoad("Config.Net.MaxOpenRequests"), ConstInt(1)}, Cmp{token.LSS, FieldLoad("Config.Net.MaxOpenRequests"), ConstInt(2)}}},
	}
	for _, g := range goods {
		bad := false
		var path []*ssa.BasicBlock
		for _, e := range es {
			sub := *reg.From(Pt{e.To, 0})
			sub.Cut = func(from, to *ssa.BasicBlock) bool { return Establishes(from, to, g.p) }
			if it, pth := sub.Reach(ReturnNilErr(), nil); !it.IsZero() {
				bad, path = true, pth
			}
		}
		c.Check(!bad, rule, fn, "requires:"+g.name, nil, "an idempotent configuration is accepted only with "+g.name,
			"Validate can accept Producer.Idempotent without "+g.name+": the idempotence guarantee is void (reordering / unacknowledged writes / no retries)", path)
	}
}

func c05Lock(c *Ctx) {
	runLockset(c, "C05.lock", []guardedField{
		{"transactionManager.sequenceNumbers", "transactionManager.mutex", "next sequence number per topic-partition"},
		{"transactionManager.producerEpoch", "transactionManager.mutex", "current producer epoch"},
	}, 2)
}
