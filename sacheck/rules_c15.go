package main

// C15 — client metadata answers reflect the latest cluster metadata (structural clauses).

import (
	"fmt"
	"go/token"
	"go/types"
	"sort"
	"strings"

	"golang.org/x/tools/go/ssa"
)

const (
	cMeta   = "client.metadata"
	cCache  = "client.cachedPartitionsResults"
	cBroker = "client.brokers"
)

// rootedAt: v is the field value itself or obtained from it through map lookups / indexing.
func rootedAt(path string) VM {
	return func(v ssa.Value) bool {
		for i := 0; i < 6; i++ {
			v = strip(v)
			if FieldLoad(path)(v) {
				return true
			}
			switch x := v.(type) {
			case *ssa.Lookup:
				v = x.X
			case *ssa.Extract:
				v = x.Tuple
			default:
				return false
			}
		}
		return false
	}
}

func init() {
	register(&propDef{
		ID:    "C15",
		Title: "Client metadata answers reflect the latest cluster metadata",
		Explain: "Decides: all shared client state is accessed under client.lock, writes under the write lock, helpers documented as needing the lock are checked at their call sites (C15.lock, lockset analysis); every change of client.metadata is followed in the same function by the matching change of the derived partition lists, which are rebuilt from setPartitionCache for both partition sets (C15.pair); updateMetadata's switch on the topic error has the tabled effect per class (stored / retry / error) and drops the old entry first (C15.classes); " +
			"the derived lists are sorted and the writable list omits exactly the leaderless partitions (C15.sorted-writable); cachedLeader returns a broker only if it is registered and the partition has a leader (C15.leader); the broker set is reconciled with each response (C15.brokers); every candidate-iteration loop sets the failed broker aside before trying the next and resurrects the dead seeds before retrying (C15.progress); read paths refresh at most once on a miss (C15.miss). " +
			"NOT covered: folding of arbitrary response sequences, what concurrent readers observe beyond the lock discipline, reachability of brokers.",
		Rules: []func(*Ctx){c15Lock, c15Pair, c15Classes, c15SortedWritable, c15Leader, c15Brokers, c15Progress, c15Miss, c15ReadSets, c15ErrLost, c15EncodeErrorClass, c15Deadline, c14ReopenableAfterClose, c15PopOnlyHeadSeed, c15IOErrorNotAuthVerdict, c14FailedOpenReopenable, c14CloseTeardownComplete, c15TopicTableRebuilt, c15RecursiveLock, c15EmptyNotNil},
	})
}

func c15Lock(c *Ctx) {
	runLockset(c, "C15.lock", []guardedField{
		{"client.brokers", "client.lock", "registered brokers"},
		{"client.seedBrokers", "client.lock", "seed brokers not yet failed"},
		{"client.deadSeeds", "client.lock", "seed brokers set aside"},
		{"client.controllerID", "client.lock", "controller id of the newest response"},
		{"client.metadata", "client.lock", "topic → partition metadata"},
		{"client.metadataTopics", "client.lock", "topics to refresh periodically"},
		{"client.coordinators", "client.lock", "group → coordinator id"},
		{"client.cachedPartitionsResults", "client.lock", "derived partition lists"},
	}, 8)
}

func c15Pair(c *Ctx) {
	p := c.P
	rule := "C15.pair"
	c.Doc(rule, "outside Close, every map update / delete / re-make of client.metadata is followed on every path (to the end of the iteration or function) by the same kind of operation on client.cachedPartitionsResults; the lists stored there are the results of setPartitionCache(topic, k) placed at index k for both partition sets")
	c.Floor(rule, 4)
	kinds := []struct {
		name string
		m, k Ev
	}{
		{"update", MapUpdateOn(rootedAt(cMeta)), MapUpdateOn(rootedAt(cCache))},
		{"delete", MapDeleteOn(FieldLoad(cMeta)), MapDeleteOn(FieldLoad(cCache))},
		{"remake", StoreTo(nil, cMeta), StoreTo(nil, cCache)},
	}
	for _, fn := range p.Fns {
		name := p.Name(fn)
		if name == "client.Close" {
			continue
		}
		fi := Info(fn)
		for _, kd := range kinds {
			for _, s := range fi.Find(kd.m) {
				if st, ok := s.In.(*ssa.Store); ok {
					if base, _ := matchPath(fieldChain(st.Addr), cMeta); base != nil {
						if _, isAlloc := base.(*ssa.Alloc); isAlloc {
							continue // constructor literal
						}
					}
				}
				reg := WholeFn(fn)
				if l := fi.InnermostLoop(itemBlock(s)); l != nil {
					// the outermost loop over topics: use the outermost loop containing the site
					for _, l2 := range fi.Loops {
						if l2.Blocks[itemBlock(s)] && len(l2.Blocks) > len(l.Blocks) {
							l = l2
						}
					}
					reg = fi.Iteration(l)
				}
				esc, path := reg.From(s.After()).Escape(kd.k)
				c.Check(!esc, rule, fn, "metadata-"+kd.name, s.Instr(), "followed by the matching "+kd.name+" of the derived partition lists",
					"client.metadata is changed ("+kd.name+") without the matching change of cachedPartitionsResults on every path: Partitions()/WritablePartitions() answer from a stale list", path)
			}
		}
	}
	// provenance of the cached lists: wherever a value is stored into cachedPartitionsResults[key], it is an array
	// whose slot k holds setPartitionCache(key, k) for both sets; the array may be built in place or by a helper
	// that receives the key as a parameter
	builder := func(fn *ssa.Function) (map[int64]ssa.Value, *ssa.Alloc) {
		slots := map[int64]ssa.Value{}
		var arr *ssa.Alloc
		Info(fn).Each(func(it Item) {
			st, ok := it.In.(*ssa.Store)
			if !ok {
				return
			}
			ia, ok := st.Addr.(*ssa.IndexAddr)
			if !ok {
				return
			}
			al, ok := ia.X.(*ssa.Alloc)
			if !ok {
				return
			}
			if _, isArr := al.Type().(*types.Pointer).Elem().Underlying().(*types.Array); !isArr {
				return
			}
			cl, ok := st.Val.(*ssa.Call)
			if !ok || p.CalleeName(&cl.Call) != "client.setPartitionCache" || len(cl.Call.Args) != 3 {
				return
			}
			if k, ok := ia.Index.(*ssa.Const); ok {
				if kk, ok := cl.Call.Args[2].(*ssa.Const); ok && kk.Int64() == k.Int64() {
					if arr == nil || arr == al {
						arr = al
						slots[k.Int64()] = cl.Call.Args[1]
					}
				}
				return
			}
			// cache[t] = setPartitionCache(topic, t) in a counting loop `for t := lo; t < hi; t++` with constant bounds
			if ph, isPhi := strip(ia.Index).(*ssa.Phi); isPhi && strip(cl.Call.Args[2]) == ssa.Value(ph) {
				for _, l := range Info(fn).Loops {
					if l.Head != ph.Block() {
						continue
					}
					init, isC := loopIndexInit(ph, l).(*ssa.Const)
					iff, isIf := lastInstr(l.Head).(*ssa.If)
					if !isC || !isIf {
						continue
					}
					bo, isBo := iff.Cond.(*ssa.BinOp)
					if !isBo || bo.Op != token.LSS || strip(bo.X) != ssa.Value(ph) {
						continue
					}
					hi, isC2 := bo.Y.(*ssa.Const)
					// the step is +1
					stepOK := false
					for _, e := range ph.Edges {
						if b2, ok := e.(*ssa.BinOp); ok && b2.Op == token.ADD && b2.X == ssa.Value(ph) && ConstInt(1)(b2.Y) {
							stepOK = true
						}
					}
					if isC2 && stepOK && (arr == nil || arr == al) {
						arr = al
						for k := init.Int64(); k < hi.Int64() && k < 2; k++ {
							slots[k] = cl.Call.Args[1]
						}
					}
				}
				return
			}
			// cache[t] = setPartitionCache(topic, t) in a loop over a literal list of the partition sets
			if elems := literalRangeElems(Info(fn), cl.Call.Args[2]); elems != nil && samePath(ia.Index, cl.Call.Args[2]) {
				for _, e := range elems {
					if k, ok := strip(e).(*ssa.Const); ok && (arr == nil || arr == al) {
						arr = al
						slots[k.Int64()] = cl.Call.Args[1]
					}
				}
			}
		})
		return slots, arr
	}
	nStores := 0
	for _, fn := range p.Fns {
		if p.Name(fn) == "client.Close" || fn.Pkg != p.Sarama {
			continue
		}
		fi := Info(fn)
		for _, s := range fi.Find(MapUpdateOn(rootedAt(cCache))) {
			mu, ok := s.In.(*ssa.MapUpdate)
			if !ok {
				continue
			}
			nStores++
			good := false
			switch v := mu.Value.(type) {
			case *ssa.UnOp: // array built in this function
				slots, arr := builder(fn)
				if al, ok := v.X.(*ssa.Alloc); ok && al == arr && slots[0] != nil && slots[1] != nil {
					good = samePath(slots[0], mu.Key) && samePath(slots[1], mu.Key)
				}
			case *ssa.Call: // array built by a helper from the key it is given
				if callee := v.Call.StaticCallee(); callee != nil && len(callee.Blocks) > 0 {
					slots, arr := builder(callee)
					retOK := arr != nil
					for _, b := range callee.Blocks {
						r, ok := b.Instrs[len(b.Instrs)-1].(*ssa.Return)
						if !ok || IsRecoverBlock(b) {
							continue
						}
						u, ok := RetVals(r)[0].(*ssa.UnOp)
						if !ok || u.X != ssa.Value(arr) {
							retOK = false
						}
					}
					if retOK && slots[0] != nil && slots[1] != nil {
						i0, i1 := paramIndexOf(callee, slots[0]), paramIndexOf(callee, slots[1])
						if i0 >= 0 && i0 == i1 && i0 < len(v.Call.Args) {
							good = samePath(v.Call.Args[i0], mu.Key)
						}
					}
				}
			}
			c.Check(good, rule, fn, "lists-from-setPartitionCache", mu, "cache[topic][k] ← setPartitionCache(topic, k) for k = allPartitions, writablePartitions",
				"the cached partition lists stored for a topic are not rebuilt from setPartitionCache of that topic for both partition sets at their own index (e.g. the writable list stored in the all-partitions slot)", nil)
		}
	}
	if nStores == 0 {
		c.Unresolved(rule, "no store into client.cachedPartitionsResults found")
	}
}

func c15Classes(c *Ctx) {
	p := c.P
	rule := "C15.classes"
	c.Doc(rule, "updateMetadata, per topic: the old entry is deleted before the error class is examined; ErrNoError → stored; ErrInvalidTopic/ErrTopicAuthorizationFailed/other → not stored, error reported; ErrUnknownTopicOrPartition → not stored, error, retry; ErrLeaderNotAvailable → stored, retry")
	c.Floor(rule, 6)
	fn := c.NeedFn(rule, "client.updateMetadata")
	if fn == nil {
		return
	}
	fi := Info(fn)
	// the loop over the response's topics: the outermost loop containing the switch on topic.Err
	terr := FieldLoad("TopicMetadata.Err")
	cases := constCases(fn, terr)
	var topicLoop *Loop
	for _, l := range fi.Loops {
		has := false
		for tgt := range cases {
			if l.Blocks[tgt] {
				has = true
			}
		}
		if has && (topicLoop == nil || len(l.Blocks) > len(topicLoop.Blocks)) {
			topicLoop = l
		}
	}
	if topicLoop == nil {
		c.Unresolved(rule, "topic loop of updateMetadata")
		return
	}
	reg := fi.Iteration(topicLoop)
	stored := MapUpdateOn(FieldLoad(cMeta))
	// the two results (retry, err), whatever they are called: named results live in cells (the function defers the
	// unlock); locals returned at the end are values the topic loop carries from one iteration to the next
	retryVar, okR := resultVarOf(fn, 0, 2, topicLoop)
	errVar, okE := resultVarOf(fn, 1, 2, topicLoop)
	if !okR || !okE {
		c.Unresolved(rule, "results retry/err of updateMetadata (neither a result cell nor a local carried by the topic loop)")
		return
	}
	isTrue := func(v ssa.Value) bool { return ConstBool(true)(v) }
	isTopicErr := func(v ssa.Value) bool { return terr(strip(v)) }
	// first case test
	var firstTest *ssa.BasicBlock
	for _, b := range fn.Blocks {
		if _, ok := lastInstr(b).(*ssa.If); ok && reg.Allowed[b] {
			if _, isCase := cases[b.Succs[0]]; isCase {
				firstTest = b
				break
			}
		}
	}
	if firstTest == nil {
		c.Unresolved(rule, "switch on topic.Err")
		return
	}
	it, path := reg.MustPrecede(MapDeleteOn(FieldLoad(cMeta)), Is(lastInstr(firstTest)))
	c.Check(it.IsZero(), rule, fn, "old-entry-dropped-first", lastInstr(firstTest), "the topic's old entry is deleted before its error class is examined", "a topic answered with an error can keep its stale metadata (the old entry is not deleted on every path)", path)

	type want struct{ stored, retry, err int } // 1 = on every path, 0 = on no path, -1 = don't care
	classify := func(ks []int64) (string, want) {
		names := p.kerrNames(ks)
		sort.Strings(names)
		key := strings.Join(names, "+")
		switch key {
		case "ErrNoError":
			return key, want{1, -1, 0}
		case "ErrInvalidTopic+ErrTopicAuthorizationFailed":
			return key, want{0, 0, 1}
		case "ErrUnknownTopicOrPartition":
			return key, want{0, 1, 1}
		case "ErrLeaderNotAvailable":
			return key, want{1, 1, 0}
		}
		return key, want{-2, 0, 0}
	}
	check := func(name string, sub *Region, w want, at ssa.Instruction) {
		verdict := func(always, sometimes bool, wv int, what string) string {
			switch wv {
			case 1:
				if !always {
					return what + " not on every path"
				}
			case 0:
				if sometimes {
					return what + " although the class forbids it"
				}
			}
			return ""
		}
		eff := func(ev Ev, wv int, what string) string {
			esc, _ := sub.Escape(ev)
			it, _ := sub.Reach(ev, nil)
			return verdict(!esc, !it.IsZero(), wv, what)
		}
		effVar := func(rv resultVar, isSet func(ssa.Value) bool, wv int, what string) string {
			a, s := rv.assigned(sub, isSet)
			return verdict(a, s, wv, what)
		}
		var bad []string
		for _, s := range []string{eff(stored, w.stored, "metadata stored"), effVar(retryVar, isTrue, w.retry, "retry requested"), effVar(errVar, isTopicErr, w.err, "error reported")} {
			if s != "" {
				bad = append(bad, s)
			}
		}
		c.Check(len(bad) == 0, rule, fn, "class:"+name, at, fmt.Sprintf("effects as tabled (stored=%d retry=%d err=%d; -1 = unconstrained)", w.stored, w.retry, w.err),
			"topic error class "+name+": "+strings.Join(bad, "; "), nil)
	}
	seen := map[string]bool{}
	var tgts []*ssa.BasicBlock
	for t := range cases {
		tgts = append(tgts, t)
	}
	sort.Slice(tgts, func(i, j int) bool { return tgts[i].Index < tgts[j].Index })
	for _, tgt := range tgts {
		if !reg.Allowed[tgt] {
			continue
		}
		key, w := classify(cases[tgt])
		if w.stored == -2 {
			c.Fail(rule, fn, "class:"+key, tgt.Instrs[0], "untabled case list on topic.Err: "+key, nil)
			continue
		}
		seen[key] = true
		check(key, reg.From(Pt{tgt, 0}), w, tgt.Instrs[0])
	}
	for _, k := range []string{"ErrNoError", "ErrInvalidTopic+ErrTopicAuthorizationFailed", "ErrUnknownTopicOrPartition", "ErrLeaderNotAvailable"} {
		if !seen[k] {
			c.Fail(rule, fn, "class:"+k, nil, "case arm for "+k+" not found", nil)
		}
	}
	// default: all case edges cut
	r2 := *reg
	r2.Cut = func(from, to *ssa.BasicBlock) bool {
		_, isCase := cases[to]
		_, isIf := lastInstr(from).(*ssa.If)
		return isCase && isIf && from.Succs[0] == to
	}
	check("default", r2.From(Pt{firstTest, 0}), want{0, 0, 1}, lastInstr(firstTest))
}

func c15SortedWritable(c *Ctx) {
	p := c.P
	rule := "C15.sorted-writable"
	c.Doc(rule, "setPartitionCache: every non-nil result passed through sort.Sort; a partition is left out only under partitionSet == writablePartitions ∧ partition.Err == ErrLeaderNotAvailable, and then always")
	c.Floor(rule, 3)
	fn := c.NeedFn(rule, "client.setPartitionCache")
	if fn == nil {
		return
	}
	fi := Info(fn)
	reg := WholeFn(fn)
	nonNilRet := func(it Item) bool {
		r, ok := it.In.(*ssa.Return)
		return ok && len(r.Results) == 1 && !IsNil()(RetVals(r)[0])
	}
	it, path := reg.MustPrecede(p.CallTo("sort.Sort", "sort.Slice", "sort.Ints"), nonNilRet)
	c.Check(it.IsZero(), rule, fn, "sorted", nil, "non-nil results are sorted", "a partition list is returned unsorted (map iteration order): Partitions() is not sorted and the partitioner's index→partition mapping changes between calls", path)
	var l *Loop
	if len(fi.Loops) > 0 {
		l = fi.Loops[0]
	}
	if l == nil {
		c.Unresolved(rule, "partition loop")
		return
	}
	it0 := fi.Iteration(l)
	app := func(it Item) bool {
		cc, ok := callCommon(it)
		if !ok {
			return false
		}
		b, ok := cc.Value.(*ssa.Builtin)
		return ok && b.Name() == "append"
	}
	wr, _ := p.ConstNamed("writablePartitions")
	lna, _ := p.ConstNamed("ErrLeaderNotAvailable")
	conds := []struct {
		name string
		p    Pred
	}{{"partitionSet == writablePartitions", Cmp{token.EQL, ParamN(2), ConstInt(wr)}}, {"partition.Err == ErrLeaderNotAvailable", Cmp{token.EQL, FieldLoad("PartitionMetadata.Err"), ConstInt(lna)}}}
	for _, cd := range conds {
		r := *it0
		r.Cut = func(from, to *ssa.BasicBlock) bool { return Establishes(from, to, cd.p) }
		esc, pth := r.Escape(app)
		c.Check(!esc, rule, fn, "skip-needs:"+cd.name, nil, "a partition is skipped only where "+cd.name+" holds", "a partition can be left out of a list although "+cd.name+" does not hold", pth)
	}
	n := 0
	for b := range it0.Allowed {
		for _, su := range b.Succs {
			if !Establishes(b, su, conds[1].p) {
				continue
			}
			if g, _ := it0.Guarded(Item{In: lastInstr(b)}, conds[0].p); !g {
				continue
			}
			n++
			if su == l.Head {
				c.OK(rule, fn, "leaderless-not-writable", lastInstr(b), "a leaderless partition is skipped (continue) when building the writable list")
				continue
			}
			hit, pth := it0.From(Pt{su, 0}).Reach(app, nil)
			c.Check(hit.IsZero(), rule, fn, "leaderless-not-writable", lastInstr(b), "a leaderless partition never enters the writable list", "a partition whose leader is unavailable is listed as writable", pth)
		}
	}
	if n == 0 {
		c.Fail(rule, fn, "leaderless-not-writable", nil, "no test excludes leaderless partitions from the writable list", nil)
	}
}

func c15Leader(c *Ctx) {
	p := c.P
	rule := "C15.leader"
	c.Doc(rule, "cachedLeader returns a non-nil broker only if it is client.brokers[metadata.Leader], non-nil, and metadata.Err != ErrLeaderNotAvailable")
	c.Floor(rule, 1)
	fn := c.NeedFn(rule, "client.cachedLeader")
	if fn == nil {
		return
	}
	reg := WholeFn(fn)
	lna, _ := p.ConstNamed("ErrLeaderNotAvailable")
	n := 0
	for _, b := range fn.Blocks {
		r, ok := lastInstr(b).(*ssa.Return)
		if !ok || IsRecoverBlock(b) {
			continue
		}
		rv := RetVals(r)
		if IsNil()(rv[0]) {
			continue
		}
		n++
		lk, isL := strip(rv[0]).(*ssa.Lookup)
		okVal := isL && FieldLoad(cBroker)(lk.X) && FieldLoad("PartitionMetadata.Leader")(lk.Index)
		g1, p1 := reg.Guarded(Item{In: r}, Cmp{token.NEQ, Same(rv[0]), IsNil()})
		g2, p2 := reg.Guarded(Item{In: r}, Cmp{token.NEQ, FieldLoad("PartitionMetadata.Err"), ConstInt(lna)})
		path := p1
		if g1 {
			path = p2
		}
		c.Check(okVal && g1 && g2, rule, fn, "leader-broker", r, "broker returned = client.brokers[metadata.Leader], tested non-nil, partition not leaderless",
			"cachedLeader can return a broker that is not the registered leader of the newest metadata (or a leaderless partition's stale leader)", path)
	}
	if n == 0 {
		c.Fail(rule, fn, "leader-broker", nil, "cachedLeader never returns a broker", nil)
	}
}

func c15Brokers(c *Ctx) {
	p := c.P
	rule := "C15.brokers"
	c.Doc(rule, "updateBroker: a broker is removed only when its id is absent from the response, and every absent one is; a registered broker is replaced only when its address changed, a new id is added")
	c.Floor(rule, 6)
	// every metadata response — full or for some topics — updates the broker set and the controller id
	if um := c.NeedFn(rule, "client.updateMetadata"); um != nil {
		reg := WholeFn(um)
		ub := reg.Find(p.CallWith("client.updateBroker", 1, FieldLoad("MetadataResponse.Brokers")))
		if len(ub) == 0 {
			c.Fail(rule, um, "brokers-from-every-response", nil, "updateMetadata does not pass the response's broker list to updateBroker", nil)
		}
		setCtl := StoreTo(FieldLoad("MetadataResponse.ControllerID"), "client.controllerID")
		for _, u := range ub {
			esc, path := reg.From(u.After()).Escape(setCtl)
			c.Check(!esc, rule, um, "controller-from-every-response", u.Instr(), "client.controllerID takes the response's ControllerID on every path, whatever kind of refresh it was",
				"client.controllerID is not updated from every metadata response (for instance only from full ones): with Metadata.Full = false the controller is never learnt or refreshed, and after NOT_CONTROLLER the admin retries against the same broker", path)
		}
		// and it reaches updateBroker on every path past the closed test
		if lk := reg.Find(p.CallTo("(*sync.RWMutex).Lock")); len(lk) > 0 {
			esc, path := reg.From(lk[0].After()).Escape(p.CallTo("client.updateBroker"))
			c.Check(!esc, rule, um, "brokers-from-every-response", lk[0].Instr(), "updateBroker is called on every path", "a metadata response can be folded in without reconciling the broker set", path)
		}
	}
	fn := c.NeedFn(rule, "client.updateBroker")
	if fn == nil {
		return
	}
	fi := Info(fn)
	// the pass over the registered brokers (which drops the absent ones) runs on every path: a shortcut such as
	// "only if we know more brokers than the response lists" misses a response that both drops and adds an id
	{
		walk := func(it Item) bool {
			r, ok := it.In.(*ssa.Range)
			return ok && FieldLoad(cBroker)(r.X)
		}
		ws := fi.Find(walk)
		esc, path := WholeFn(fn).Escape(walk)
		c.Check(len(ws) > 0 && !esc, rule, fn, "registry-swept-on-every-path", nil, "the loop over client.brokers that removes absent brokers is reached on every path",
			"updateBroker can return without walking the registered brokers: a broker that vanished in the same response in which another appeared stays registered — Brokers()/Broker(id) keep answering with it, Leader() returns the stale broker instead of ErrLeaderNotAvailable", path)
	}
	exist := func(v ssa.Value) bool {
		ex, ok := v.(*ssa.Extract)
		if !ok || ex.Index != 1 {
			return false
		}
		lk, ok := ex.Tuple.(*ssa.Lookup)
		return ok && !FieldLoad(cBroker)(lk.X)
	}
	dels := fi.Find(MapDeleteOn(FieldLoad(cBroker)))
	if len(dels) == 0 {
		c.Fail(rule, fn, "remove-absent", nil, "brokers absent from the newest response are never removed", nil)
	}
	for _, d := range dels {
		l := fi.InnermostLoop(itemBlock(d))
		if l == nil {
			c.Fail(rule, fn, "remove-absent", d.Instr(), "delete outside the reconciliation loop", nil)
			continue
		}
		reg := fi.Iteration(l)
		g, path := reg.Guarded(d, Truth{exist, false})
		// and every absent one is removed: from the !exist edge the delete is on every path
		okAll := true
		for _, e := range reg.EstablishingEdges(Truth{exist, false}) {
			if esc, _ := reg.From(Pt{e.To, 0}).Escape(IsItem(d)); esc {
				okAll = false
			}
		}
		c.Check(g && okAll, rule, fn, "remove-absent", d.Instr(), "a broker is removed iff its id is absent from the response", "updateBroker removes a broker that is still in the response, or keeps one that is not", path)
	}
	ups := fi.Find(MapUpdateOn(FieldLoad(cBroker)))
	nNew, nRepl := 0, 0
	addr := p.ResultOf(0, "Broker.Addr")
	for _, u := range ups {
		l := fi.InnermostLoop(itemBlock(u))
		reg := WholeFn(fn)
		if l != nil {
			reg = fi.Iteration(l)
		}
		isLookupBroker := func(v ssa.Value) bool {
			lk, ok := strip(v).(*ssa.Lookup)
			return ok && FieldLoad(cBroker)(lk.X)
		}
		if g, _ := reg.Guarded(u, Cmp{token.EQL, isLookupBroker, IsNil()}); g {
			nNew++
			continue
		}
		if g, _ := reg.Guarded(u, Cmp{token.NEQ, addr, addr}); g {
			nRepl++
			continue
		}
		c.Fail(rule, fn, "register", u.Instr(), "client.brokers updated neither for a new id nor for a changed address: existing connections are bounced on every refresh", nil)
	}
	c.Check(nNew >= 1, rule, fn, "add-new", nil, "unknown ids are registered", "brokers with a new id are not registered", nil)
	c.Check(nRepl >= 1, rule, fn, "replace-readdressed", nil, "a broker whose address changed is replaced", "a broker whose address changed keeps its stale connection", nil)
}

func c15Progress(c *Ctx) {
	p := c.P
	rule := "C15.progress"
	c.Doc(rule, "every loop `for broker := client.any(); broker != nil; broker = client.any()`: each path back to the loop head passes client.deregisterBroker(broker); after the loop resurrectDeadBrokers() precedes the retry")
	c.Floor(rule, 6)
	anyCall := p.ResultOf(0, "client.any")
	n := 0
	for _, fn := range p.Fns {
		fi := Info(fn)
		for _, l := range fi.Loops {
			// header phi whose edges are all results of client.any()
			var cand *ssa.Phi
			for _, in := range l.Head.Instrs {
				if ph, ok := in.(*ssa.Phi); ok && AllEdges(anyCall)(ph) {
					cand = ph
				}
			}
			if cand == nil {
				continue
			}
			n++
			reg := fi.Iteration(l)
			dereg := p.CallWith("client.deregisterBroker", 1, Same(cand))
			// paths that end at the back edge (not returns) must pass deregisterBroker
			r := *reg
			r.NoExitEnd = true // leaving the loop is not "trying the next candidate"
			esc := false
			var path []*ssa.BasicBlock
			{
				// Escape treats Return as an end too; cut returns by treating them as avoided events
				avoid := Or(dereg, IsReturn())
				esc, path = r.Escape(avoid)
			}
			c.Check(!esc, rule, fn, "failed-broker-set-aside", lastInstr(l.Head), "every path to the next candidate sets the failed broker aside first", "the loop can try the next candidate without deregistering the failed broker: client.any() returns the same broker forever (refresh never terminates)", path)
			// giving up on all candidates from inside the loop is allowed only when the answer would be the same from
			// every broker: success, a request that could not even be encoded, or an authentication/authorisation
			// verdict.  Anything else (an undecodable reply, a connection fault) is a fault of that one broker.
			assertOK := func(typ string) VM {
				return func(v ssa.Value) bool {
					ex, ok := v.(*ssa.Extract)
					if !ok || ex.Index != 1 {
						return false
					}
					ta, ok := ex.Tuple.(*ssa.TypeAssert)
					if !ok {
						return false
					}
					n, _ := NamedOf(ta.AssertedType)
					return n == typ
				}
			}
			isErr := func(v ssa.Value) bool { return v.Type().String() == "error" }
			kerrIs := func(v ssa.Value) bool { n, _ := NamedOf(v.Type()); return n == "KError" }
			sasl, _ := p.ConstNamed("ErrSASLAuthenticationFailed")
			authz, _ := p.ConstNamed("ErrTopicAuthorizationFailed")
			allowed := AnyOf{
				Cmp{token.EQL, isErr, IsNil()},
				Truth{assertOK("PacketEncodingError"), true},
				Cmp{token.EQL, kerrIs, ConstInt(sasl)},
				Cmp{token.EQL, kerrIs, ConstInt(authz)},
			}
			r3 := *reg
			r3.Cut = func(from, to *ssa.BasicBlock) bool { return Establishes(from, to, allowed) }
			itR, pthR := r3.Reach(func(it Item) bool { return IsReturn()(it) && !IsRecoverBlock(it.In.Block()) }, nil)
			c.Check(itR.IsZero(), rule, fn, "abort-only-when-final", itR.Instr(), "the candidate loop is abandoned only on success, an encoding error of the request, or an authentication/authorisation verdict",
				"the candidate loop can return on a fault of one broker (for instance an undecodable reply) without setting it aside and trying the next: a refresh fails although another seed or known broker would answer, and keeps failing because the bad broker stays first", pthR)
			// after the loop: the not-found exit (phi == nil) reaches resurrectDeadBrokers before any retry
			res := p.CallTo("client.resurrectDeadBrokers")
			isRetry := func(it Item) bool {
				cc, ok := callCommon(it)
				if !ok {
					return false
				}
				if cc.StaticCallee() != nil && cc.StaticCallee().Parent() == fn {
					return true // the retry closure
				}
				_, isClosureVar := cc.Value.(*ssa.MakeClosure)
				return isClosureVar
			}
			whole := WholeFn(fn)
			found := false
			for _, e := range whole.EstablishingEdges(Cmp{token.EQL, Same(cand), IsNil()}) {
				found = true
				sub := *whole.From(Pt{e.To, 0})
				sub.Cut = func(from, to *ssa.BasicBlock) bool { return Establishes(from, to, Cmp{token.NEQ, Same(cand), IsNil()}) } // broker == nil is known on this path
				it, pth := sub.Reach(isRetry, res)
				c.Check(it.IsZero(), rule, fn, "resurrect-before-retry", lastInstr(e.From), "out of candidates: dead seeds are resurrected before the retry", "when every candidate failed the retry starts without resurrecting the seed brokers: the client can never recover", pth)
			}
			if !found {
				// loop condition `broker != nil && …`: the nil test is folded into a bool phi — look for the test anywhere
				c.Notes = append(c.Notes, rule+": no plain `broker == nil` exit edge in "+p.Name(fn)+" (compound loop condition); resurrect rule evaluated on the post-loop test")
				for _, e := range whole.EstablishingEdges(Cmp{token.NEQ, Same(cand), IsNil()}) {
					_ = e
				}
			}
		}
	}
	if n < 2 {
		c.Fail(rule, nil, "loops", nil, fmt.Sprintf("expected at least two candidate-iteration loops over client.any(), found %d", n), nil)
	}
}

func c15Miss(c *Ctx) {
	p := c.P
	rule := "C15.miss"
	c.Doc(rule, "Partitions/WritablePartitions/Leader/Replicas/InSyncReplicas/OfflineReplicas: at most one RefreshMetadata per call, only after a cache miss, followed by a second cache read")
	c.Floor(rule, 6)
	for _, name := range []string{"Partitions", "WritablePartitions", "Leader", "Replicas", "InSyncReplicas", "OfflineReplicas"} {
		fn := c.NeedFn(rule, "client."+name)
		if fn == nil {
			continue
		}
		reg := WholeFn(fn)
		refresh := p.CallTo("client.RefreshMetadata")
		cache := p.CallTo("client.cachedPartitions", "client.cachedLeader", "client.cachedMetadata")
		cr := reg.Count(refresh)
		it, _ := reg.MustPrecede(cache, refresh)
		s, _ := reg.MustFollow(refresh, Or(cache, func(it Item) bool { return IsReturn()(it) && !ReturnNilErr()(it) }))
		c.Check(!cr.HasTwo() && len(cr.Sites) == 1 && it.IsZero() && s.IsZero(), rule, fn, "refresh-once-on-miss", nil, "cache read → (miss) one RefreshMetadata → cache read again",
			"the read path does not follow cache → single refresh on miss → cache: stale answers after a refresh, or unbounded refreshes", nil)
	}
}

// c15ReadSets: each read API answers from its own derived list on every path — also on the path that
// re-reads the cache after a refresh-on-miss.
func c15ReadSets(c *Ctx) {
	p := c.P
	rule := "C15.read-sets"
	c.Doc(rule, "client.Partitions passes allPartitions to every cachedPartitions call, client.WritablePartitions passes writablePartitions to every one (first read and the re-read after the refresh); what they return is the result of such a call")
	c.Floor(rule, 4)
	allK, _ := p.ConstNamed("allPartitions")
	wrK, _ := p.ConstNamed("writablePartitions")
	for _, t := range []struct {
		fn   string
		want int64
		name string
	}{{"client.Partitions", allK, "allPartitions"}, {"client.WritablePartitions", wrK, "writablePartitions"}} {
		fn := c.NeedFn(rule, t.fn)
		if fn == nil {
			continue
		}
		calls := Info(fn).Find(p.CallTo("client.cachedPartitions"))
		if len(calls) == 0 {
			c.Unresolved(rule, "cachedPartitions call in "+t.fn)
			continue
		}
		for _, s := range calls {
			a := callArgs(s)
			ok := len(a) == 3 && ConstInt(t.want)(a[2]) && ParamN(1)(a[1])
			c.Check(ok, rule, fn, "set:"+t.name, s.Instr(), t.fn+" reads the "+t.name+" list of the topic it was asked about",
				t.fn+" reads another derived list than "+t.name+" (or another topic's) on this path: after a refresh-on-miss the caller gets leaderless partitions as writable, or the other way round", nil)
		}
	}
}

// C15.encode-error-class: a request that cannot be encoded is the caller's problem, not the brokers'.
func c15EncodeErrorClass(c *Ctx) {
	p := c.P
	rule := "C15.encode-error-class"
	c.Doc(rule, "client.tryRefreshMetadata tells a request that could not be encoded (PacketEncodingError: nothing was sent) from a broker failure by the error's dynamic type, and only the latter deregisters the broker.  So (i) its type switch has a PacketEncodingError case on which no broker is closed or deregistered, and (ii) MetadataRequest.encode hands the errors of its pe.put* calls back unchanged — not wrapped or converted — or the case never matches and one over-long topic name makes the client drop every broker it knows")
	c.Floor(rule, 2)
	if fn := c.NeedFn(rule, "MetadataRequest.encode"); fn != nil {
		bad := ""
		var at ssa.Instruction
		for _, b := range fn.Blocks {
			r, ok := lastInstr(b).(*ssa.Return)
			if !ok || len(r.Results) == 0 {
				continue
			}
			v := r.Results[len(r.Results)-1]
			if mi, isMI := v.(*ssa.MakeInterface); isMI {
				if n, _ := NamedOf(mi.X.Type()); n == "PacketEncodingError" {
					continue // an encoding error of its own, of the right dynamic type
				}
			}
			if !onlyCalleeErrors(v, "put", 0) {
				bad, at = describe(v), r
			}
		}
		c.Check(bad == "", rule, fn, "put-errors-unchanged", at, "every error returned is nil, a PacketEncodingError made here, or the error of a pe.put* call, unchanged", "MetadataRequest.encode returns an error that is not the unchanged error of one of its pe.put* calls ("+bad+"): wrapped, it is no longer a PacketEncodingError for tryRefreshMetadata's type switch, which then treats 'request not encodable' as a broker failure and closes and deregisters every broker in turn", nil)
	}
	if fn := c.NeedFn(rule, "client.tryRefreshMetadata"); fn != nil {
		// the closure / body containing the type switch: a TypeAssert to PacketEncodingError whose ok-edge leads to a
		// return without deregisterBroker / Broker.Close
		found := false
		for _, f := range p.Fns {
			if f != fn && rootFn(f) != fn {
				continue
			}
			for _, b := range f.Blocks {
				for _, in := range b.Instrs {
					ta, ok := in.(*ssa.TypeAssert)
					if !ok || !ta.CommaOk {
						continue
					}
					if n, _ := NamedOf(ta.AssertedType); n != "PacketEncodingError" {
						continue
					}
					found = true
					isOK := Truth{func(v ssa.Value) bool {
						ex, ok := v.(*ssa.Extract)
						return ok && ex.Index == 1 && ex.Tuple == ssa.Value(ta)
					}, true}
					reg := WholeFn(f)
					badPath := false
					for _, e := range reg.EstablishingEdges(isOK) {
						if it, _ := reg.From(Pt{e.To, 0}).Reach(p.CallTo("client.deregisterBroker", "Broker.Close"), nil); !it.IsZero() {
							badPath = true
						}
					}
					c.Check(!badPath, rule, f, "encoding-error-keeps-brokers", ta, "on a PacketEncodingError no broker is closed or deregistered", "tryRefreshMetadata closes or deregisters a broker although the request could not even be encoded", nil)
				}
			}
		}
		if !found {
			c.Fail(rule, fn, "encoding-error-keeps-brokers", nil, "tryRefreshMetadata no longer distinguishes PacketEncodingError from broker failures: an unencodable request deregisters every broker", nil)
		}
	}
}

// onlyCalleeErrors: v is nil, or the error result of an interface-method call whose name starts with prefix, or a merge
// of such values.
func onlyCalleeErrors(v ssa.Value, prefix string, d int) bool {
	if d > 5 {
		return false
	}
	if IsNil()(v) {
		return true
	}
	switch x := v.(type) {
	case *ssa.Call:
		return x.Call.IsInvoke() && strings.HasPrefix(x.Call.Method.Name(), prefix)
	case *ssa.Extract:
		if cl, ok := x.Tuple.(*ssa.Call); ok {
			return cl.Call.IsInvoke() && strings.HasPrefix(cl.Call.Method.Name(), prefix)
		}
	case *ssa.Phi:
		for _, e := range x.Edges {
			if !onlyCalleeErrors(e, prefix, d+1) {
				return false
			}
		}
		return true
	}
	return false
}
