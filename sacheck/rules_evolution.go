package main

import (
	"fmt"
	"go/token"

	"golang.org/x/tools/go/ssa"
)

// Rules for protocol evolution and small features (round-14 seeds): a field written under one version gate and filled
// in under another, a fast path in a primitive, a base value that moves after deltas were taken from it, an attempt
// that a new "not now" window can suppress.

// underVersion: the edges that cannot be taken when the configured version is exactly V (every IsAtLeast test has a
// known outcome).
func (vt *versionTable) underVersion(V string) func(from, to *ssa.BasicBlock) bool {
	lim := vt.vers[V]
	return func(from, to *ssa.BasicBlock) bool {
		for _, n := range vt.names {
			atl := vt.vers[n].leq(lim)
			if atl && Establishes(from, to, Truth{vt.p.IsAtLeast(n), false}) {
				return true
			}
			if !atl && Establishes(from, to, Truth{vt.p.IsAtLeast(n), true}) {
				return true
			}
		}
		return false
	}
}

// writtenVersions: the request versions (0..maxV) for which <typ>.encode writes field (passes it to an encoder method).
func writtenVersions(p *Program, typ, field string, maxV int64) (map[int64]bool, bool) {
	enc := p.Fn(typ + ".encode")
	if enc == nil || enc.Blocks == nil {
		return nil, false
	}
	isField := FieldLoad(typ + "." + field)
	writes := Info(enc).Find(func(it Item) bool {
		cc, ok := callCommon(it)
		if !ok || !cc.IsInvoke() {
			return false
		}
		for _, a := range cc.Args {
			if isField(strip(a)) {
				return true
			}
		}
		return false
	})
	if len(writes) == 0 {
		return nil, false
	}
	ver := FieldLoad(typ + ".Version")
	out := map[int64]bool{}
	for k := int64(0); k <= maxV; k++ {
		reg := WholeFn(enc)
		r := *reg
		kk := k
		r.Cut = func(from, to *ssa.BasicBlock) bool {
			iff, ok := lastInstr(from).(*ssa.If)
			if !ok || len(from.Succs) != 2 {
				return false
			}
			bo, ok := iff.Cond.(*ssa.BinOp)
			if !ok {
				return false
			}
			var x ssa.Value
			switch {
			case ver(strip(bo.X)):
				x = bo.X
			case ver(strip(bo.Y)):
				x = bo.Y
			default:
				return false
			}
			val, known := evalCmpWith(iff.Cond, x, kk)
			if !known {
				return false
			}
			if val {
				return to == from.Succs[1] && from.Succs[0] != from.Succs[1]
			}
			return to == from.Succs[0] && from.Succs[0] != from.Succs[1]
		}
		for _, w := range writes {
			if it, _ := r.Reach(IsItem(w), nil); !it.IsZero() {
				out[k] = true
			}
		}
	}
	return out, true
}

// gatedFieldRule: for every configured Kafka version, on the paths of builder that the version allows, if the request
// version selected there is one for which <typ>.encode writes field, the field is assigned before the request leaves.
func gatedFieldRule(c *Ctx, rule, builder, typ, field string, end Ev, source VM, why string) {
	p := c.P
	fn := c.NeedFn(rule, builder)
	if fn == nil {
		return
	}
	vt := p.versionTable()
	if len(vt.names) < 20 {
		c.Unresolved(rule, "version globals")
		return
	}
	W, ok := writtenVersions(p, typ, field, 16)
	if !ok {
		c.Unresolved(rule, "the write of "+typ+"."+field+" in "+typ+".encode")
		return
	}
	reg := WholeFn(fn)
	ends := reg.Find(end)
	if len(ends) == 0 {
		c.Unresolved(rule, "the point where "+builder+" hands the "+typ+" on")
		return
	}
	assign := func(it Item) bool {
		st, ok := it.In.(*ssa.Store)
		if !ok {
			return false
		}
		ch := fieldChain(st.Addr)
		if len(ch) == 0 || ch[len(ch)-1].name != field || ch[len(ch)-1].owner != typ {
			return false
		}
		return source == nil || source(strip(st.Val))
	}
	sites, _, nonConst := versionSites(fn, typ)
	if len(nonConst) > 0 {
		c.Fail(rule, fn, "field:"+typ+"."+field, nonConst[0], typ+".Version is assigned a value that is not a constant (or a choice between constants): the fields the version needs cannot be determined", nil)
		return
	}
	isVerStore := func(it Item) bool {
		for _, s := range sites {
			if it.In == ssa.Instruction(s.st) {
				return true
			}
		}
		return false
	}
	bad := ""
	var at ssa.Instruction
	var wpath []*ssa.BasicBlock
	for _, V := range vt.names {
		cut := vt.underVersion(V)
		r := *reg
		r.Cut = cut
		avoid := Or(assign, isVerStore)
		// version 0: no store on the path
		if W[0] {
			for _, e := range ends {
				if it, path := r.Reach(IsItem(e), avoid); !it.IsZero() {
					bad = fmt.Sprintf("with the configured version %s the request goes out as version 0, which carries %s, but the field is not assigned on that path", V, field)
					at, wpath = e.Instr(), path
				}
			}
		}
		for _, s := range sites {
			if !W[s.k] {
				continue
			}
			rs := *reg
			rs.Cut = func(from, to *ssa.BasicBlock) bool {
				if s.to != nil && to == s.to && from != s.from {
					return true
				}
				return cut(from, to)
			}
			before, _ := rs.Reach(Is(s.st), assign)
			if before.IsZero() {
				continue
			}
			for _, e := range ends {
				if it, path := rs.From(Item{In: s.st}.After()).Reach(IsItem(e), avoid); !it.IsZero() {
					bad = fmt.Sprintf("with the configured version %s the request goes out as version %d, which carries %s, but the field is not assigned on that path", V, s.k, field)
					at, wpath = s.st, path
				}
			}
		}
		if bad != "" {
			break
		}
	}
	c.Check(bad == "", rule, fn, "field:"+typ+"."+field, at, fmt.Sprintf("%s.%s is assigned for every configured version whose request version carries it", typ, field), bad+": "+why, wpath)
}

// C07.identity / gated fields: the member id (and generation) are filled in for every version that carries them.
func c07GatedIdentity(c *Ctx) {
	p := c.P
	rule := "C07.identity"
	why := "the coordinator gets a request without the identity it issued (an empty member id, generation 0) and answers UNKNOWN_MEMBER_ID / ILLEGAL_GENERATION — leave() takes that for success, Close returns while the member stays in the group holding its partitions until the session times out"
	gatedFieldRule(c, rule, "consumerGroup.leave", "LeaveGroupRequest", "MemberId", p.CallTo("Broker.LeaveGroup"), FieldLoad("consumerGroup.memberID"), why)
	gatedFieldRule(c, rule, "consumerGroup.heartbeatRequest", "HeartbeatRequest", "MemberId", p.CallTo("Broker.Heartbeat"), nil, why)
	gatedFieldRule(c, rule, "consumerGroup.heartbeatRequest", "HeartbeatRequest", "GenerationId", p.CallTo("Broker.Heartbeat"), nil, why)
	gatedFieldRule(c, rule, "consumerGroup.syncGroupRequest", "SyncGroupRequest", "MemberId", p.CallTo("Broker.SyncGroup"), nil, why)
	gatedFieldRule(c, rule, "consumerGroup.syncGroupRequest", "SyncGroupRequest", "GenerationId", p.CallTo("Broker.SyncGroup"), nil, why)
	gatedFieldRule(c, rule, "consumerGroup.joinGroupRequest", "JoinGroupRequest", "MemberId", p.CallTo("Broker.JoinGroup"), nil, why)
}

// C09.prim / uvarint-fast-path: a shortcut in front of binary.Uvarint / binary.Varint takes single-byte encodings only.
func c09VarintFastPath(c *Ctx) {
	p := c.P
	rule := "C09.null"
	for _, name := range []string{"realDecoder.getUVarint", "realDecoder.getVarint"} {
		fn := c.NeedFn(rule, name)
		if fn == nil {
			continue
		}
		reg := WholeFn(fn)
		std := p.ResultOf(0, "encoding/binary.Uvarint", "encoding/binary.Varint")
		n := 0
		for _, r := range reg.Find(ReturnNilErr()) {
			rv := RetVals(r.In.(*ssa.Return))
			if len(rv) != 2 {
				continue
			}
			n++
			v := throughCell(rv[0])
			if std(v) || std(strip(v)) {
				continue
			}
			// a value taken from one byte of the input: only under byte < 0x80 (the single-byte encodings)
			var b ssa.Value
			x := v
			for d := 0; d < 4; d++ {
				x = strip(x)
				if bo, ok := x.(*ssa.BinOp); ok && (bo.Op == token.SHR || bo.Op == token.AND || bo.Op == token.XOR) {
					x = bo.X
					continue
				}
				if u, ok := x.(*ssa.UnOp); ok && u.Op == token.SUB {
					x = u.X
					continue
				}
				break
			}
			if u, ok := x.(*ssa.UnOp); ok && u.Op == token.MUL {
				if _, isIdx := u.X.(*ssa.IndexAddr); isIdx {
					b = u
				}
			}
			okFast := false
			if b != nil {
				same := Same(b)
				for _, pr := range []Pred{Cmp{token.LSS, same, ConstInt(0x80)}, Cmp{token.LEQ, same, ConstInt(0x7f)}} {
					if g, _ := reg.Guarded(r, pr); g {
						okFast = true
					}
				}
			}
			c.Check(okFast, rule, fn, "varint-fast-path", r.Instr(), "a shortcut in front of encoding/binary takes one-byte encodings only (byte < 0x80)", name+" returns a value that does not come from encoding/binary and is not a single input byte known to be < 0x80: 0x80 is a continuation byte (the first byte of 128, 256, …) — such a value is read back wrong and the rest of its encoding is left in the stream, every compact string, array and tagged-field count of that length (127, 255, … bytes or entries) misaligns the body: decode(encode(v)) fails or yields shifted values", nil)
		}
		if n == 0 {
			c.Unresolved(rule, "successful return of "+name)
		}
	}
}

// C04.deltas / base-fixed: the base a record's delta was taken from does not move afterwards.
func c04BaseFixed(c *Ctx) {
	p := c.P
	rule := "C04.deltas"
	n := 0
	for _, fn := range p.Fns {
		if fn.Blocks == nil || rootOf(fn).Pkg != p.Sarama {
			continue
		}
		if !(p.inFile(fn, "produce_set.go") || p.inFile(fn, "record_batch.go") || p.inFile(fn, "async_producer.go") || p.inFile(fn, "records.go")) {
			continue
		}
		name := p.Name(rootOf(fn))
		Info(fn).Each(func(it Item) {
			st, ok := it.In.(*ssa.Store)
			if !ok {
				return
			}
			ch := fieldChain(st.Addr)
			if len(ch) == 0 || ch[len(ch)-1].owner != "RecordBatch" {
				return
			}
			f := ch[len(ch)-1].name
			if f != "FirstTimestamp" && f != "FirstOffset" {
				return
			}
			n++
			// allowed: the construction of the batch (a store into a freshly allocated RecordBatch), decoding, and the
			// base offset filled in from the produce response
			fresh := false
			if al, isA := canon(ch[0].base).(*ssa.Alloc); isA && al.Heap {
				if nm, _ := NamedOf(al.Type()); nm == "RecordBatch" {
					fresh = true
				}
			}
			okSite := fresh || name == "RecordBatch.decode" || (f == "FirstOffset" && name != "produceSet.add")
			c.Check(okSite, rule, fn, "base-fixed:"+f, st, "RecordBatch."+f+" is set where the batch is built (or decoded)", "RecordBatch."+f+" of an existing batch is changed in "+name+": every record already in the batch stored its delta against the old base — the broker (and every consumer) reconstructs base + delta, so the earlier records' timestamps/offsets shift by as much as the base moved (a later message with an earlier timestamp moves the earlier ones into the past)", nil)
		})
	}
	if n == 0 {
		c.Unresolved(rule, "stores to RecordBatch.FirstTimestamp / FirstOffset")
	}
}

// C06.commit-what-was-marked / every-flush-attempts: flushToBroker sends unless there is nothing to send or nobody
// to send it to.
func c06EveryFlushAttempts(c *Ctx) {
	p := c.P
	rule := "C06.commit-what-was-marked"
	fn := c.NeedFn(rule, "offsetManager.flushToBroker")
	if fn == nil {
		return
	}
	reg := WholeFn(fn)
	commit := p.CallTo("Broker.CommitOffset")
	if len(reg.Find(commit)) == 0 {
		c.Unresolved(rule, "Broker.CommitOffset in flushToBroker")
		return
	}
	nothing := Cmp{token.EQL, p.ResultOf(0, "offsetManager.constructRequest"), IsNil()}
	noCoord := Cmp{token.NEQ, p.ResultOf(1, "offsetManager.coordinator"), IsNil()}
	r := *reg
	r.Cut = func(from, to *ssa.BasicBlock) bool {
		return Establishes(from, to, nothing) || Establishes(from, to, noCoord)
	}
	esc, path := r.Escape(commit)
	c.Check(!esc, rule, fn, "every-flush-attempts", nil, "flushToBroker returns without a commit request only when there is nothing to commit or no coordinator", "flushToBroker can return without sending although there are offsets to commit and a coordinator to send them to (a back-off or throttle window, say): the final flush of Close makes its Retry.Max+1 attempts back to back — inside such a window every one of them returns at once and the partitions are force-released with their last marks uncommitted, without an error", path)
}

// C09.version-threaded: a nested element that gates on its own Version field sets it from what its parent passes in.
func c09VersionThreaded(c *Ctx) {
	p := c.P
	rule := "C09.mirror"
	n := 0
	for _, fn := range p.Fns {
		if fn.Blocks == nil || fn.Pkg != p.Sarama || fn.Parent() != nil || fn.Signature.Recv() == nil {
			continue
		}
		if fn.Name() != "encode" && fn.Name() != "decode" {
			continue
		}
		in := false
		for _, f := range codecFiles {
			if p.inFile(fn, f) {
				in = true
			}
		}
		if !in {
			continue
		}
		recvT, _ := NamedOf(fn.Signature.Recv().Type())
		if recvT == "" {
			continue
		}
		// top-level bodies carry their own version (version() method): only nested elements are concerned
		if p.Fn(recvT+".version") != nil || p.Fn(recvT+".requiredVersion") != nil {
			continue
		}
		ver := FieldLoad(recvT + ".Version")
		var gates []ssa.Instruction
		written := false
		for _, b := range fn.Blocks {
			for _, ins := range b.Instrs {
				switch x := ins.(type) {
				case *ssa.If:
					if bo, ok := x.Cond.(*ssa.BinOp); ok && (ver(strip(bo.X)) || ver(strip(bo.Y))) {
						gates = append(gates, ins)
					}
				case ssa.CallInstruction:
					for _, a := range x.Common().Args {
						if ver(strip(a)) {
							written = true // the version is data (a magic byte written to / read from the wire)
						}
					}
				}
			}
		}
		if len(gates) == 0 || written {
			continue
		}
		reg := WholeFn(fn)
		set := StoreTo(nil, recvT+".Version")
		for _, g := range gates {
			n++
			it, path := reg.Reach(Is(g), set)
			c.Check(it.IsZero(), rule, fn, "version-threaded", g, "the element's Version is set in this function before it gates the layout", recvT+"."+fn.Name()+" lays the element out according to its own Version field without setting it from the version its parent passes in: the field keeps whatever it was given when the element was created or decoded — a request whose Version is set (or changed) afterwards has its header and its per-partition blocks laid out for different versions, and the peer cannot decode it", path)
		}
	}
	c.Check(true, rule, nil, "version-threaded", nil, fmt.Sprintf("%d version gate(s) of nested elements examined", n), "", nil)
}
