package main

// C11 — read-committed consumers never see aborted or control records (structural clauses).

import (
	"fmt"
	"go/token"
	"go/types"
	"strings"

	"golang.org/x/tools/go/ssa"
)

func init() {
	register(&propDef{
		ID:    "C11",
		Title: "Read-committed consumers never see aborted or control records",
		Explain: "Decides on every path of partitionConsumer.parseResponse: the batch's messages are appended to the delivered list only when the batch is not a control batch and — under ReadCommitted — not (transactional ∧ its producer in the aborted set), while under ReadUncommitted nothing is filtered (C11.no-control); " +
			"parseRecords (which advances child.offset) runs before the control/aborted filters can skip the batch (C11.advance); the aborted set is extended only from index entries whose first offset is not beyond the batch and each used entry is popped, and an entry is removed only on an ABORT marker (C11.marker); the aborted index is sorted by FirstOffset (C11.sorted); the request carries the configured isolation level (C11.request). " +
			"NOT covered: transactions spanning fetch responses (the set is per response), completeness of the broker's index.",
		Rules: []func(*Ctx){c11Rules, c11ControlTolerant, c03FetchFields, c03FreshElement, c03ErrLost, c11DecodedElementKept, c11EveryBatchCounted, c03Advance},
	})
}

func c11Rules(c *Ctx) {
	p := c.P
	fn := c.NeedFn("C11.no-control", "partitionConsumer.parseResponse")
	if fn == nil {
		return
	}
	c.Doc("C11.no-control", "the append of a batch's parsed messages is guarded by isControl == false and by (IsolationLevel != ReadCommitted ∨ !IsTransactional ∨ !aborted[ProducerID]); from the IsolationLevel != ReadCommitted edge the append is reached on every path (no filtering)")
	c.Doc("C11.advance", "parseRecords precedes the isControl test and the aborted lookup on every path")
	c.Doc("C11.marker", "delete(abortedProducerIDs, pid) only under controlRecord.Type == ControlRecordAbort; insertion only under !(txn.FirstOffset > batch.LastOffset()) and followed by popping the index entry")
	c.Floor("C11.no-control", 3)
	c.Floor("C11.advance", 2)
	c.Floor("C11.marker", 3)
	fi := Info(fn)
	parse := p.CallTo("partitionConsumer.parseRecords")
	parsed := p.ResultOf(0, "partitionConsumer.parseRecords")
	// the append of the parsed batch messages
	appendParsed := func(it Item) bool {
		cc, ok := callCommon(it)
		if !ok {
			return false
		}
		b, ok := cc.Value.(*ssa.Builtin)
		return ok && b.Name() == "append" && len(cc.Args) == 2 && parsed(cc.Args[1])
	}
	sites := fi.Find(appendParsed)
	if len(sites) != 1 {
		c.Unresolved("C11.no-control", "append(messages, recordBatchMessages...) in parseResponse")
		return
	}
	site := sites[0]
	l := fi.InnermostLoop(itemBlock(site))
	if l == nil {
		c.Unresolved("C11.no-control", "records loop of parseResponse")
		return
	}
	reg := fi.Iteration(l)
	// the aborted set: a local map[int64]struct{}
	isAbortedMap := func(v ssa.Value) bool {
		m, ok := v.Type().Underlying().(*types.Map)
		if !ok {
			return false
		}
		_, isStruct := m.Elem().Underlying().(*types.Struct)
		b, isB := m.Key().Underlying().(*types.Basic)
		return isStruct && isB && b.Kind() == types.Int64
	}
	pid := FieldLoad("RecordBatch.ProducerID")
	isAborted := func(v ssa.Value) bool {
		ex, ok := strip(v).(*ssa.Extract)
		if !ok || ex.Index != 1 {
			return false
		}
		lk, ok := ex.Tuple.(*ssa.Lookup)
		return ok && isAbortedMap(lk.X) && pid(lk.Index)
	}
	isControl := p.ResultOf(0, "Records.isControl")
	rc, _ := p.ConstNamed("ReadCommitted")
	iso := FieldLoad("Config.Consumer.IsolationLevel")

	g, path := reg.Guarded(site, Truth{isControl, false})
	c.Check(g, "C11.no-control", fn, "not-control", site.Instr(), "batch messages appended only under isControl == false",
		"the records of a control batch can be appended to the delivered messages (commit/abort markers surface as data)", path)
	filter := AnyOf{Cmp{token.NEQ, iso, ConstInt(rc)}, Truth{FieldLoad("RecordBatch.IsTransactional"), false}, Truth{isAborted, false}}
	g2, path2 := reg.Guarded(site, filter)
	c.Check(g2, "C11.no-control", fn, "aborted-filter", site.Instr(), "under ReadCommitted the batch is appended only if it is not (transactional ∧ producer in the aborted set)",
		"a batch can be appended under ReadCommitted without consulting IsTransactional ∧ abortedProducerIDs[ProducerID]: aborted records are delivered", path2)
	// completeness under ReadCommitted: a batch is skipped only when transactional AND aborted
	for _, pr := range []struct {
		name string
		p    Pred
	}{{"IsTransactional", Truth{FieldLoad("RecordBatch.IsTransactional"), true}}, {"aborted[ProducerID]", Truth{isAborted, true}}} {
		for _, e := range reg.EstablishingEdges(Cmp{token.EQL, iso, ConstInt(rc)}) {
			if it, _ := reg.From(Pt{e.To, 0}).Reach(IsItem(site), nil); it.IsZero() {
				continue // the ReadCommitted test in the error arm, not the filter
			}
			sub := *reg.From(Pt{e.To, 0})
			sub.Cut = func(from, to *ssa.BasicBlock) bool { return Establishes(from, to, pr.p) }
			esc, path := sub.Escape(IsItem(site))
			c.Check(!esc, "C11.no-control", fn, "skip-needs:"+pr.name, lastInstr(e.From), "under ReadCommitted a data batch is skipped only on a path where "+pr.name+" holds",
				"under ReadCommitted a data batch can be skipped although "+pr.name+" does not hold: committed or non-transactional records are withheld", path)
		}
	}
	// ReadUncommitted: no filtering after the isolation test
	n := 0
	{
		for _, e := range reg.EstablishingEdges(Cmp{token.NEQ, iso, ConstInt(rc)}) {
			{
				b, s := e.From, e.To
				{
					if it, _ := reg.From(Pt{s, 0}).Reach(IsItem(site), nil); it.IsZero() {
						continue
					}
					n++
					esc, path := reg.From(Pt{s, 0}).Escape(IsItem(site))
					c.Check(!esc, "C11.no-control", fn, "uncommitted-unfiltered", lastInstr(b), "with IsolationLevel != ReadCommitted every path appends the batch (nothing filtered)",
						"with ReadUncommitted a data batch can be skipped", path)
				}
			}
		}
	}
	if n == 0 {
		c.Unresolved("C11.no-control", "IsolationLevel test on the path to the append")
	}

	// C11.advance
	isCtlCall := p.CallTo("Records.isControl")
	it, pth := reg.MustPrecede(parse, isCtlCall)
	c.Check(it.IsZero() && len(reg.Find(isCtlCall)) > 0, "C11.advance", fn, "parse-before-control-filter", nil, "parseRecords precedes the isControl test",
		"a control batch can be skipped before parseRecords advanced child.offset: the consumer re-fetches the marker forever", pth)
	lookup := func(it Item) bool {
		lk, ok := it.In.(*ssa.Lookup)
		return ok && isAbortedMap(lk.X)
	}
	it2, pth2 := reg.MustPrecede(parse, lookup)
	c.Check(it2.IsZero() && len(reg.Find(lookup)) > 0, "C11.advance", fn, "parse-before-aborted-filter", nil, "parseRecords precedes the aborted-transaction filter",
		"an aborted batch can be skipped before parseRecords advanced child.offset: the consumer stalls on it", pth2)

	// C11.marker
	abortK, _ := p.ConstNamed("ControlRecordAbort")
	dels := reg.Find(MapDeleteOn(isAbortedMap))
	if len(dels) == 0 {
		c.Fail("C11.marker", fn, "delete-on-abort", nil, "no delete(abortedProducerIDs, …): an aborted producer id stays filtered after its abort marker, hiding its later committed transactions", nil)
	}
	for _, d := range dels {
		g, path := reg.Guarded(d, Cmp{token.EQL, func(v ssa.Value) bool {
			ch := fieldChain(strip(v))
			return len(ch) > 0 && ch[len(ch)-1].owner == "ControlRecord" && ch[len(ch)-1].name == "Type"
		}, ConstInt(abortK)})
		okKey := len(callArgs(d)) == 2 && pid(callArgs(d)[1])
		c.Check(g && okKey, "C11.marker", fn, "delete-on-abort", d.Instr(), "producer id removed from the aborted set only on an ABORT control record, keyed by the batch's ProducerID",
			"delete(abortedProducerIDs, …) is not guarded by controlRecord.Type == ControlRecordAbort (or uses another key): a COMMIT marker un-hides aborted data / an abort never ends", path)
	}
	ins := reg.Find(MapUpdateOn(isAbortedMap))
	if len(ins) == 0 {
		c.Fail("C11.marker", fn, "insert", nil, "no insertion into abortedProducerIDs: aborted transactions are never filtered", nil)
	}
	for _, s := range ins {
		mu := s.In.(*ssa.MapUpdate)
		inner := fi.InnermostLoop(mu.Block())
		r2 := reg
		if inner != nil && inner != l {
			r2 = fi.Iteration(inner)
		}
		first := FieldLoad("AbortedTransaction.FirstOffset")
		last := p.ResultOf(0, "RecordBatch.LastOffset")
		g, path := r2.Guarded(s, Cmp{token.LEQ, first, last})
		okKey := FieldLoad("AbortedTransaction.ProducerID")(mu.Key)
		c.Check(g && okKey, "C11.marker", fn, "insert-guard", mu, "producer id inserted only for index entries with FirstOffset <= batch.LastOffset()",
			"an aborted-transaction entry is activated without the test FirstOffset <= batch.LastOffset(): earlier committed data of that producer is hidden", path)
		pop := func(it Item) bool {
			sl, ok := it.In.(*ssa.Slice)
			if !ok || sl.Low == nil || !ConstInt(1)(sl.Low) || !isSliceOfPtrToNamed(sl.X.Type(), "AbortedTransaction") {
				return false
			}
			// the shortened slice must become the new value of the variable (phi at a loop header) or be stored
			for _, r := range *sl.Referrers() {
				switch r.(type) {
				case *ssa.Phi, *ssa.Store:
					return true
				}
			}
			return false
		}
		// the index is consumed for every batch, control batches included: the walk precedes the removal on an
		// abort marker and the aborted lookup (otherwise an entry whose marker opens the response is activated
		// after its marker and never removed)
		if inner != nil && inner != l {
			walk := func(it Item) bool { return it.In != nil && it.In == inner.Head.Instrs[0] }
			for _, d := range dels {
				it, pth := reg.MustPrecede(walk, IsItem(d))
				c.Check(it.IsZero(), "C11.marker", fn, "activate-before-marker", d.Instr(), "the aborted-transaction index is walked up to the batch before an abort marker removes the producer",
					"an abort marker can remove its producer from the aborted set before the index entry of that transaction was activated (the walk is skipped for control batches): the entry is activated later and hides the producer's following committed records", pth)
			}
		}
		esc, path2 := r2.From(s.After()).Escape(pop)
		c.Check(!esc, "C11.marker", fn, "insert-pops", mu, "each activated index entry is popped", "an activated index entry is not popped: it is re-activated after its abort marker", path2)
		// head consumption: the loop that pops the head must examine the head — indexing the shrinking
		// slice with an advancing index skips every other entry
		if inner != nil {
			okHead := true
			var badAt ssa.Instruction
			for b := range inner.Blocks {
				for _, in := range b.Instrs {
					ia, isIA := in.(*ssa.IndexAddr)
					if !isIA || !isSliceOfPtrToNamed(ia.X.Type(), "AbortedTransaction") {
						continue
					}
					ph, isPhi := ia.X.(*ssa.Phi)
					if !isPhi || ph.Block() != inner.Head {
						continue // a snapshot taken before the loop (range), fine
					}
					// is this phi the popped variable?
					popped := false
					for _, e := range ph.Edges {
						if sl, isS := e.(*ssa.Slice); isS && sl.Low != nil && ConstInt(1)(sl.Low) {
							popped = true
						}
					}
					if popped && !ConstInt(0)(ia.Index) {
						okHead, badAt = false, ia
					}
				}
			}
			c.Check(okHead, "C11.marker", fn, "pop-examines-head", badAt, "the loop that pops the index examines the snapshot/head consistently", "the aborted-transaction index is indexed with an advancing index while its head is popped in the same loop: every other eligible entry is skipped and that producer's aborted records are delivered", nil)
		}
	}

	// C11.sorted
	c.Doc("C11.sorted", "getAbortedTransactions returns the slice only after sort.Slice keyed on FirstOffset")
	c.Floor("C11.sorted", 1)
	if g := c.NeedFn("C11.sorted", "FetchResponseBlock.getAbortedTransactions"); g != nil {
		reg := WholeFn(g)
		srt := p.CallTo("sort.Slice", "sort.SliceStable")
		it, path := reg.MustPrecede(srt, IsReturn())
		okLess := false
		detail := ""
		for _, s := range reg.Find(srt) {
			if less := p.closureArg(s, 1); less != nil {
				// the comparator is interpreted over every combination of orderings of the fields it compares
				// (comparator.go): it must say "less" whenever FirstOffset is smaller, "not less" whenever it is
				// larger, and never both ways round
				m := buildCmpModel(less)
				key := ""
				for _, f := range m.fields {
					if f == firstOffsetField(p) {
						key = f
					}
				}
				if key == "" {
					detail = "the comparator does not compare FirstOffset of the two elements"
					continue
				}
				bad, undecided := m.primaryKeyViolations(key)
				// the elements compared must be those of the slice being sorted (sort.Slice swaps the elements of its
				// argument and asks the comparator about positions: a comparator reading another slice — the
				// original of which the argument is a copy — stops describing the argument after the first swap)
				otherSlice := false
				if a := callArgs(s); len(a) > 0 {
					for _, base := range comparedSlices(less) {
						if !samePath(base, strip(a[0])) && !sameSingleAssignmentCell(base, strip(a[0])) {
							otherSlice = true
						}
					}
				}
				switch {
				case otherSlice:
					detail = "the comparator reads the elements of a different slice than the one being sorted"
				case undecided:
					detail = "the comparator is outside the interpretable fragment (comparisons of corresponding fields combined with && / ||)"
				case len(bad) > 0:
					detail = "for the ordering " + bad[0] + fmt.Sprintf(" (%d such combinations)", len(bad))
				default:
					okLess = true
				}
			}
		}
		c.Check(it.IsZero() && okLess, "C11.sorted", g, "sorted-by-first-offset", nil, "aborted index sorted ascending by FirstOffset before use (comparator evaluated over all field orderings)",
			"the aborted-transaction index is returned unsorted, or its comparator is not an ordering by FirstOffset first ("+detail+"): parseResponse stops at the first entry beyond the batch, so an entry sorted behind a later one is activated too late and aborted records are delivered", path)
	}
	// what is returned is the slice that was sorted — all of it
	if g := p.Fn("FetchResponseBlock.getAbortedTransactions"); g != nil && g.Blocks != nil {
		reg := WholeFn(g)
		var sorted []ssa.Value
		for _, s := range reg.Find(p.CallTo("sort.Slice", "sort.SliceStable")) {
			if a := callArgs(s); len(a) > 0 {
				sorted = append(sorted, strip(a[0]))
			}
		}
		for _, r := range reg.Find(IsReturn()) {
			rv := RetVals(r.In.(*ssa.Return))
			if len(rv) != 1 {
				continue
			}
			ok := false
			for _, sv := range sorted {
				if samePath(throughCell(rv[0]), throughCell(sv)) || samePath(strip(rv[0]), sv) {
					ok = true
				}
			}
			c.Check(ok, "C11.sorted", g, "returns-what-it-sorted", r.Instr(), "the slice handed to sort.Slice is what is returned", "getAbortedTransactions returns something other than the slice it sorted ("+describe(rv[0])+") — a filtered or re-built list: parseResponse removes a producer from the aborted set at its ABORT marker and relies on that producer's *next* index entry to put it back; an index reduced to one entry per producer (or cut in any other way) lets the records of the later aborted transaction through", nil)
		}
	}
	// parseResponse must take the index from getAbortedTransactions
	usesSorted := hasItem(fn, p.CallTo("FetchResponseBlock.getAbortedTransactions"))
	c.Check(usesSorted, "C11.sorted", fn, "uses-sorted-index", nil, "parseResponse iterates the sorted index", "parseResponse does not use getAbortedTransactions(): unsorted index", nil)

	// C11.request
	c.Doc("C11.request", "fetchNewMessages stores conf.Consumer.IsolationLevel into request.Isolation")
	c.Floor("C11.request", 1)
	if f := c.NeedFn("C11.request", "brokerConsumer.fetchNewMessages"); f != nil {
		st := Info(f).Find(StoreTo(iso, "FetchRequest.Isolation"))
		c.Check(len(st) > 0, "C11.request", f, "isolation-in-request", nil, "request.Isolation ← conf.Consumer.IsolationLevel", "the configured isolation level is not sent with the fetch request: the broker returns no aborted index", nil)
	}
}

// firstOffsetField: the comparator model names fields by index path; FirstOffset is field #1 of AbortedTransaction.
func firstOffsetField(p *Program) string {
	obj := p.Sarama.Pkg.Scope().Lookup("AbortedTransaction")
	if obj == nil {
		return "#1"
	}
	if st, ok := obj.Type().Underlying().(*types.Struct); ok {
		for i := 0; i < st.NumFields(); i++ {
			if st.Field(i).Name() == "FirstOffset" {
				return fmt.Sprintf("#%d", i)
			}
		}
	}
	return "#1"
}

// sameSingleAssignmentCell: a and b are loads of the same local variable cell (directly or through a closure's
// captured reference), and that variable is assigned exactly once — so both loads yield the same value.
func sameSingleAssignmentCell(a, b ssa.Value) bool {
	ua, ok1 := a.(*ssa.UnOp)
	ub, ok2 := b.(*ssa.UnOp)
	if !ok1 || !ok2 || ua.Op != token.MUL || ub.Op != token.MUL {
		return false
	}
	ca, cb := cellOf(ua.X), cellOf(ub.X)
	al, ok := ca.(*ssa.Alloc)
	if !ok || ca != cb {
		return false
	}
	n := 0
	for _, r := range *al.Referrers() {
		if st, ok := r.(*ssa.Store); ok && st.Addr == ssa.Value(al) {
			n++
		}
	}
	return n == 1
}

// cellOf: the local variable cell an address denotes — the Alloc itself, or for a closure's free variable the cell
// the enclosing function bound it to when it made the closure (function literals have one MakeClosure site).
func cellOf(v ssa.Value) ssa.Value {
	for d := 0; d < 6; d++ {
		fv, ok := v.(*ssa.FreeVar)
		if !ok {
			return v
		}
		g := fv.Parent()
		par := g.Parent()
		if par == nil {
			return v
		}
		idx := -1
		for i, f := range g.FreeVars {
			if f == fv {
				idx = i
			}
		}
		var bound ssa.Value
		for _, b := range par.Blocks {
			for _, in := range b.Instrs {
				if mc, ok := in.(*ssa.MakeClosure); ok && mc.Fn == ssa.Value(g) && idx >= 0 && idx < len(mc.Bindings) {
					bound = mc.Bindings[idx]
				}
			}
		}
		if bound == nil {
			return v
		}
		v = bound
	}
	return v
}

// C11.control-tolerant: a marker the client does not fully understand is skipped, never an error.
func c11ControlTolerant(c *Ctx) {
	p := c.P
	rule := "C11.control-tolerant"
	c.Doc(rule, "ControlRecord.decode returns a non-nil error only when one of its reads (packetDecoder.get*) failed: it rejects nothing on its own account — unknown marker types become ControlRecordUnknown, key/value versions are read and kept.  An error here makes parseResponse give up the whole fetch response, including the data batches that precede the marker, after the offset has moved past them")
	c.Floor(rule, 4)
	fn := c.NeedFn(rule, "ControlRecord.decode")
	if fn == nil {
		return
	}
	n := 0
	for _, b := range fn.Blocks {
		r, ok := lastInstr(b).(*ssa.Return)
		if !ok || len(r.Results) == 0 {
			continue
		}
		n++
		v := r.Results[len(r.Results)-1]
		ok = false
		var check func(v ssa.Value, d int) bool
		check = func(v ssa.Value, d int) bool {
			if d > 4 {
				return false
			}
			if IsNil()(v) {
				return true
			}
			switch x := v.(type) {
			case *ssa.Extract:
				if cl, isC := x.Tuple.(*ssa.Call); isC && cl.Call.IsInvoke() && strings.HasPrefix(cl.Call.Method.Name(), "get") {
					return true
				}
			case *ssa.Phi:
				for _, e := range x.Edges {
					if !check(e, d+1) {
						return false
					}
				}
				return true
			}
			return false
		}
		ok = check(v, 0)
		c.Check(ok, rule, fn, fmt.Sprintf("return#%d-error-is-a-read-error", n), r, "the error returned is nil or the error of a read", "ControlRecord.decode returns an error of its own making ("+describe(v)+"): a well-formed commit/abort marker it does not like (for instance a newer key version) fails the whole fetch response — the data records fetched before the marker are dropped although the offset has advanced past them, at every isolation level", nil)
	}
	_ = p
}

// throughCell: a load of a local variable that is assigned exactly once stands for the value assigned.
func throughCell(v ssa.Value) ssa.Value {
	for d := 0; d < 4; d++ {
		v = strip(v)
		u, ok := v.(*ssa.UnOp)
		if !ok || u.Op != token.MUL {
			return v
		}
		al, ok := u.X.(*ssa.Alloc)
		if !ok {
			return v
		}
		var stored []ssa.Value
		for _, r := range *al.Referrers() {
			if st, ok := r.(*ssa.Store); ok && st.Addr == ssa.Value(al) {
				stored = append(stored, st.Val)
			}
		}
		if len(stored) != 1 {
			return v
		}
		v = stored[0]
	}
	return v
}
