package main

// Value matchers (E4 provenance), event constructors (E1) and the guard engine (E2).

import (
	"go/constant"
	"go/token"
	"go/types"
	"strings"

	"golang.org/x/tools/go/ssa"
)

// ---------------------------------------------------------------- value helpers

// strip removes representation-only wrappers.
func strip(v ssa.Value) ssa.Value {
	for {
		switch x := v.(type) {
		case *ssa.Convert:
			v = x.X
		case *ssa.ChangeType:
			v = x.X
		case *ssa.ChangeInterface:
			v = x.X
		case *ssa.MakeInterface:
			v = x.X
		case *ssa.Call:
			// the value of an immediately-invoked literal with a single return is what it returns
			if r := iifeResult(x, 0); r != nil && x.Call.Signature().Results().Len() == 1 {
				v = r
				continue
			}
			return v
		case *ssa.Extract:
			if cl, ok := x.Tuple.(*ssa.Call); ok {
				if r := iifeResult(cl, x.Index); r != nil {
					v = r
					continue
				}
			}
			return v
		default:
			return v
		}
	}
}

// iifeResult: result k of the single return of the immediately-invoked literal called by cl (nil otherwise).
func iifeResult(cl *ssa.Call, k int) ssa.Value {
	g := iifeCallee(cl)
	if g == nil {
		return nil
	}
	var ret *ssa.Return
	for _, b := range g.Blocks {
		if r, ok := b.Instrs[len(b.Instrs)-1].(*ssa.Return); ok && g.Recover != b {
			if ret != nil {
				return nil
			}
			ret = r
		}
	}
	if ret == nil || k >= len(ret.Results) {
		return nil
	}
	return ret.Results[k]
}

// captured: the parent's cell a free variable of an immediately-invoked literal is bound to.
func captured(fv *ssa.FreeVar) ssa.Value {
	g := fv.Parent()
	cl := iifeCall(g)
	if cl == nil {
		return nil
	}
	mc, ok := cl.Call.Value.(*ssa.MakeClosure)
	if !ok {
		return nil
	}
	for i, f := range g.FreeVars {
		if f == fv && i < len(mc.Bindings) {
			return mc.Bindings[i]
		}
	}
	return nil
}

// canon identifies a load of a local cell (captured variable or address-taken local) with the cell.
func canon(v ssa.Value) ssa.Value {
	v = strip(v)
	if u, ok := v.(*ssa.UnOp); ok && u.Op == token.MUL {
		switch x := u.X.(type) {
		case *ssa.Alloc:
			return x
		case *ssa.FreeVar:
			// a variable captured by an immediately-invoked literal is the parent's variable
			for d := 0; d < 8; d++ {
				b := captured(x)
				if b == nil {
					break
				}
				if fv2, ok := b.(*ssa.FreeVar); ok {
					x = fv2
					continue
				}
				return b
			}
			return x
		}
	}
	return v
}

func sameValue(a, b ssa.Value) bool { return canon(a) == canon(b) }

// samePath: the two values are the same SSA value, or loads of the same field path from the same base
// (go/ssa performs no common-subexpression elimination, so `t.Name` read twice is two instructions).
func samePath(a, b ssa.Value) bool {
	a, b = canon(a), canon(b)
	if a == b {
		return true
	}
	ua, ok1 := a.(*ssa.UnOp)
	ub, ok2 := b.(*ssa.UnOp)
	if ok1 && ok2 && ua.Op == token.MUL && ub.Op == token.MUL {
		fa, ok1 := ua.X.(*ssa.FieldAddr)
		fb, ok2 := ub.X.(*ssa.FieldAddr)
		return ok1 && ok2 && fa.Field == fb.Field && samePath(fa.X, fb.X)
	}
	if pa, ok1 := a.(*ssa.FieldAddr); ok1 {
		pb, ok2 := b.(*ssa.FieldAddr)
		return ok2 && pa.Field == pb.Field && samePath(pa.X, pb.X)
	}
	fa, ok1 := a.(*ssa.Field)
	fb, ok2 := b.(*ssa.Field)
	return ok1 && ok2 && fa.Field == fb.Field && samePath(fa.X, fb.X)
}

// paramIndexOf: index in fn.Params of the parameter v is (directly or through its spill cell), else -1.
func paramIndexOf(fn *ssa.Function, v ssa.Value) int {
	v = canon(v)
	if al, ok := v.(*ssa.Alloc); ok {
		if pp := paramOfCell(al); pp != nil {
			v = pp
		}
	}
	for i, p := range fn.Params {
		if ssa.Value(p) == v {
			return i
		}
	}
	return -1
}

type seg struct {
	owner string // named struct type declaring the field ("" for anonymous structs)
	name  string
	base  ssa.Value // value (pointer or struct) whose field is selected
}

// fieldChain decomposes an address or value into the chain of field selections that produced it,
// outermost first.  p.conf.Producer.Retry.Max gives
// [asyncProducer.conf Config.Producer .Retry .Max].
func fieldChain(v ssa.Value) []seg {
	var rev []seg
	for depth := 0; depth < 32; depth++ {
		switch x := v.(type) {
		case *ssa.FieldAddr:
			pt, ok := x.X.Type().Underlying().(*types.Pointer)
			if !ok {
				goto done
			}
			st, ok := pt.Elem().Underlying().(*types.Struct)
			if !ok {
				goto done
			}
			owner, _ := NamedOf(pt.Elem())
			rev = append(rev, seg{owner, st.Field(x.Field).Name(), x.X})
			v = x.X
		case *ssa.Field:
			st, ok := x.X.Type().Underlying().(*types.Struct)
			if !ok {
				goto done
			}
			owner, _ := NamedOf(x.X.Type())
			rev = append(rev, seg{owner, st.Field(x.Field).Name(), x.X})
			v = x.X
		case *ssa.UnOp:
			if x.Op != token.MUL {
				goto done
			}
			v = x.X
		case *ssa.IndexAddr:
			v = x.X
		case *ssa.Index:
			v = x.X
		case *ssa.Convert:
			v = x.X
		case *ssa.ChangeType:
			v = x.X
		default:
			goto done
		}
	}
done:
	for i, j := 0, len(rev)-1; i < j; i, j = i+1, j-1 {
		rev[i], rev[j] = rev[j], rev[i]
	}
	return rev
}

// matchPath: does the chain end with the dotted path "Owner.f.g"?  Returns the base value at the
// Owner segment.
func matchPath(chain []seg, path string) (ssa.Value, bool) {
	parts := strings.Split(path, ".")
	if len(parts) < 2 {
		return nil, false
	}
	owner, names := parts[0], parts[1:]
	if len(chain) < len(names) {
		return nil, false
	}
	start := len(chain) - len(names)
	if chain[start].owner != owner {
		return nil, false
	}
	for i, n := range names {
		if chain[start+i].name != n {
			return nil, false
		}
	}
	return chain[start].base, true
}

// isLoad reports whether v is a read of memory/struct field (as opposed to an address).
func isFieldRead(v ssa.Value) bool {
	switch x := v.(type) {
	case *ssa.UnOp:
		if x.Op == token.MUL {
			_, ok := x.X.(*ssa.FieldAddr)
			return ok
		}
	case *ssa.Field:
		return true
	}
	return false
}

// PathOf renders the field chain of a value for reports ("asyncProducer.conf.Producer.Retry.Max").
func PathOf(v ssa.Value) string {
	ch := fieldChain(strip(v))
	if len(ch) == 0 {
		return ""
	}
	var sb strings.Builder
	for i, s := range ch {
		if i == 0 {
			sb.WriteString(s.owner)
		} else if s.owner != "" && ch[i-1].name != "" {
			// pointer hop into another named struct: keep it readable
		}
		sb.WriteString(".")
		sb.WriteString(s.name)
	}
	return sb.String()
}

// ---------------------------------------------------------------- value matchers

type VM func(v ssa.Value) bool

func AnyV() VM { return func(ssa.Value) bool { return true } }

// FieldLoad matches a read of the field named by any of the dotted paths.
func FieldLoad(paths ...string) VM {
	conf := len(paths) > 0
	for _, p := range paths {
		if !strings.HasPrefix(p, "Config.") {
			conf = false
		}
	}
	return func(v ssa.Value) bool {
		v = strip(v)
		if conf && !isFieldRead(v) {
			// a validated Config is never written again: `x := conf.F; … x …` reads the same value
			v = hoistedValue(v)
		}
		if !isFieldRead(v) {
			return false
		}
		ch := fieldChain(v)
		for _, p := range paths {
			if _, ok := matchPath(ch, p); ok {
				return true
			}
		}
		return false
	}
}

// hoistedValue: for a load of a local variable (also one captured by a closure, immediately invoked or
// not) that is written exactly once in the whole function nest, the value written; v otherwise.
func hoistedValue(v ssa.Value) ssa.Value {
	v = strip(v)
	u, ok := v.(*ssa.UnOp)
	if !ok || u.Op != token.MUL {
		return v
	}
	cell := u.X
	for d := 0; d < 8; d++ {
		fv, ok := cell.(*ssa.FreeVar)
		if !ok {
			break
		}
		g := fv.Parent()
		par := g.Parent()
		if par == nil {
			return v
		}
		var b ssa.Value
		for _, blk := range par.Blocks {
			for _, in := range blk.Instrs {
				if mc, ok := in.(*ssa.MakeClosure); ok && mc.Fn == ssa.Value(g) {
					for i, f := range g.FreeVars {
						if f == fv && i < len(mc.Bindings) {
							b = mc.Bindings[i]
						}
					}
				}
			}
		}
		if b == nil {
			return v
		}
		cell = b
	}
	al, ok := cell.(*ssa.Alloc)
	if !ok {
		return v
	}
	var stored []ssa.Value
	var scan func(f *ssa.Function, c ssa.Value)
	scan = func(f *ssa.Function, c ssa.Value) {
		for _, blk := range f.Blocks {
			for _, in := range blk.Instrs {
				switch x := in.(type) {
				case *ssa.Store:
					if x.Addr == c {
						stored = append(stored, x.Val)
					}
				case *ssa.MakeClosure:
					if g, ok := x.Fn.(*ssa.Function); ok {
						for i, bnd := range x.Bindings {
							if bnd == c && i < len(g.FreeVars) {
								scan(g, g.FreeVars[i])
							}
						}
					}
				}
			}
		}
	}
	scan(al.Parent(), al)
	if len(stored) != 1 {
		return v
	}
	return strip(stored[0])
}

// FieldLoadOf additionally requires the owner's base value to satisfy base.
func FieldLoadOf(path string, base VM) VM {
	return func(v ssa.Value) bool {
		v = strip(v)
		if !isFieldRead(v) {
			return false
		}
		b, ok := matchPath(fieldChain(v), path)
		return ok && base(b)
	}
}

// FieldAddrOf matches the address of the field.
func FieldAddrOf(paths ...string) VM {
	return func(v ssa.Value) bool {
		if _, ok := v.(*ssa.FieldAddr); !ok {
			return false
		}
		ch := fieldChain(v)
		for _, p := range paths {
			if _, ok := matchPath(ch, p); ok {
				return true
			}
		}
		return false
	}
}

func Same(w ssa.Value) VM { return func(v ssa.Value) bool { return sameValue(v, w) } }

func ConstInt(k int64) VM {
	return func(v ssa.Value) bool {
		c, ok := strip(v).(*ssa.Const)
		if !ok || c.Value == nil || c.Value.Kind() != constant.Int {
			return false
		}
		x, exact := constant.Int64Val(c.Value)
		return exact && x == k
	}
}

func ConstBool(b bool) VM {
	return func(v ssa.Value) bool {
		c, ok := strip(v).(*ssa.Const)
		if !ok || c.Value == nil || c.Value.Kind() != constant.Bool {
			return false
		}
		return constant.BoolVal(c.Value) == b
	}
}

func IsNil() VM {
	return func(v ssa.Value) bool {
		c, ok := strip(v).(*ssa.Const)
		return ok && c.Value == nil
	}
}

// NamedConst matches a constant equal to the value of the package-level constant `name` of sarama.
func (p *Program) NamedConst(name string) VM {
	obj, _ := p.Sarama.Pkg.Scope().Lookup(name).(*types.Const)
	return func(v ssa.Value) bool {
		if obj == nil {
			return false
		}
		c, ok := strip(v).(*ssa.Const)
		if !ok || c.Value == nil {
			return false
		}
		return constant.Compare(c.Value, token.EQL, obj.Val())
	}
}

// GlobalLoad matches a read of the package-level variable (e.g. the Err* sentinel errors).
func GlobalLoad(names ...string) VM {
	return func(v ssa.Value) bool {
		u, ok := strip(v).(*ssa.UnOp)
		if !ok || u.Op != token.MUL {
			return false
		}
		g, ok := u.X.(*ssa.Global)
		if !ok {
			return false
		}
		for _, n := range names {
			if g.Name() == n {
				return true
			}
		}
		return false
	}
}

func ParamN(i int) VM {
	return func(v ssa.Value) bool {
		v = canon(v)
		pr, ok := v.(*ssa.Parameter)
		if ok {
			ps := pr.Parent().Params
			return i < len(ps) && ps[i] == pr
		}
		// a parameter spilled to a cell (captured or address-taken): cell initialised from the param
		if a, ok := v.(*ssa.Alloc); ok {
			for _, r := range *a.Referrers() {
				if st, ok := r.(*ssa.Store); ok && st.Addr == a {
					if pr, ok := st.Val.(*ssa.Parameter); ok {
						ps := pr.Parent().Params
						return i < len(ps) && ps[i] == pr
					}
				}
			}
		}
		return false
	}
}

func ParamNamed(name string) VM {
	return func(v ssa.Value) bool {
		v = canon(v)
		switch x := v.(type) {
		case *ssa.Parameter:
			return x.Name() == name
		case *ssa.FreeVar:
			return x.Name() == name
		case *ssa.Alloc:
			return x.Comment == name
		}
		return false
	}
}

// ResultOf matches the value (or the idx-th extracted result) of a call to one of the callees.
func (p *Program) ResultOf(idx int, callees ...string) VM {
	return func(v ssa.Value) bool {
		v = strip(v)
		if ex, ok := v.(*ssa.Extract); ok {
			if ex.Index != idx {
				return false
			}
			v = ex.Tuple
		} else if idx > 0 {
			return false
		}
		c, ok := v.(*ssa.Call)
		if !ok {
			return false
		}
		n := p.CalleeName(&c.Call)
		for _, w := range callees {
			if n == w {
				return true
			}
		}
		return false
	}
}

func BinOpOf(op token.Token, x, y VM) VM {
	return func(v ssa.Value) bool {
		b, ok := strip(v).(*ssa.BinOp)
		if !ok || b.Op != op {
			return false
		}
		if x(b.X) && y(b.Y) {
			return true
		}
		switch op {
		case token.ADD, token.MUL, token.AND, token.OR, token.XOR, token.EQL, token.NEQ:
			return x(b.Y) && y(b.X)
		}
		return false
	}
}

func OrV(ms ...VM) VM {
	return func(v ssa.Value) bool {
		for _, m := range ms {
			if m(v) {
				return true
			}
		}
		return false
	}
}

// LenOf matches len(x).
func LenOf(x VM) VM {
	return func(v ssa.Value) bool {
		c, ok := strip(v).(*ssa.Call)
		if !ok {
			return false
		}
		b, ok := c.Call.Value.(*ssa.Builtin)
		return ok && b.Name() == "len" && len(c.Call.Args) == 1 && x(c.Call.Args[0])
	}
}

// ---------------------------------------------------------------- callee naming

// CalleeName: short name for functions of the root packages ("asyncProducer.returnError"),
// "Iface.Method" for interface invokes on sarama interfaces, the full ssa name otherwise
// ("(*sync.WaitGroup).Done"), "builtin close" for builtins, "" if dynamic.
func (p *Program) CalleeName(cc *ssa.CallCommon) string {
	if cc.IsInvoke() {
		n, pk := NamedOf(cc.Value.Type())
		if pk == saramaPath || pk == "" {
			return n + "." + cc.Method.Name()
		}
		if pk == saramaPath+"/mocks" {
			return "mocks." + n + "." + cc.Method.Name()
		}
		return pk + "." + n + "." + cc.Method.Name()
	}
	if b, ok := cc.Value.(*ssa.Builtin); ok {
		return "builtin " + b.Name()
	}
	f := cc.StaticCallee()
	if f == nil {
		return ""
	}
	if f.Pkg == p.Sarama || f.Pkg == p.Mocks || f.Parent() != nil {
		if f.Synthetic != "" && f.Object() != nil {
			// bound/thunk wrappers: name the underlying method
			if fo, ok := f.Object().(*types.Func); ok {
				if u := p.Prog.FuncValue(fo); u != nil {
					return p.Name(u)
				}
			}
		}
		return p.Name(f)
	}
	return f.String()
}

// FuncOfValue resolves a function-typed value to the function it denotes (closures, bound
// methods, plain functions), or nil.
func (p *Program) FuncOfValue(v ssa.Value) *ssa.Function {
	switch x := v.(type) {
	case *ssa.Function:
		return p.unwrapSynthetic(x)
	case *ssa.MakeClosure:
		if f, ok := x.Fn.(*ssa.Function); ok {
			return p.unwrapSynthetic(f)
		}
	case *ssa.ChangeType:
		return p.FuncOfValue(x.X)
	}
	return nil
}

func (p *Program) unwrapSynthetic(f *ssa.Function) *ssa.Function {
	if f.Synthetic != "" && f.Object() != nil {
		if fo, ok := f.Object().(*types.Func); ok {
			if u := p.Prog.FuncValue(fo); u != nil {
				return u
			}
		}
	}
	return f
}

// ---------------------------------------------------------------- events

func callCommon(it Item) (*ssa.CallCommon, bool) {
	if it.In == nil {
		return nil, false
	}
	c, ok := it.In.(*ssa.Call)
	if !ok {
		return nil, false
	}
	return &c.Call, true
}

// CallTo: a (non-go, non-defer) call whose callee is one of names; args optionally constrained
// (nil = any).  Receiver counts as Args[0] for static method calls.
func (p *Program) CallTo(names ...string) Ev {
	return func(it Item) bool {
		cc, ok := callCommon(it)
		if !ok {
			return false
		}
		n := p.CalleeName(cc)
		for _, w := range names {
			if n == w {
				return true
			}
		}
		return false
	}
}

// CallWith: call to name whose i-th argument (receiver = 0 for static method calls; for invokes
// the receiver is not counted) satisfies m.
func (p *Program) CallWith(name string, i int, m VM) Ev {
	return func(it Item) bool {
		cc, ok := callCommon(it)
		if !ok || p.CalleeName(cc) != name {
			return false
		}
		return i < len(cc.Args) && m(cc.Args[i])
	}
}

func (p *Program) DeferTo(names ...string) Ev {
	return func(it Item) bool {
		d, ok := it.In.(*ssa.Defer)
		if !ok {
			return false
		}
		n := p.CalleeName(&d.Call)
		for _, w := range names {
			if n == w {
				return true
			}
		}
		return false
	}
}

// WG matches (*sync.WaitGroup).<method> on the field path (call, not defer).
func (p *Program) WG(method string, paths ...string) Ev {
	fa := FieldAddrOf(paths...)
	return func(it Item) bool {
		cc, ok := callCommon(it)
		if !ok || p.CalleeName(cc) != "(*sync.WaitGroup)."+method || len(cc.Args) == 0 {
			return false
		}
		return fa(cc.Args[0])
	}
}

func (p *Program) WGDefer(method string, paths ...string) Ev {
	fa := FieldAddrOf(paths...)
	return func(it Item) bool {
		d, ok := it.In.(*ssa.Defer)
		if !ok || p.CalleeName(&d.Call) != "(*sync.WaitGroup)."+method || len(d.Call.Args) == 0 {
			return false
		}
		return fa(d.Call.Args[0])
	}
}

// SendOn: a send (plain or select case) on a channel satisfying ch; val optionally constrains the
// value sent.
func SendOn(ch VM, val VM) Ev {
	return func(it Item) bool {
		if it.Sel != nil {
			st := it.Sel.States[it.Case]
			return st.Dir == types.SendOnly && ch(st.Chan) && (val == nil || val(st.Send))
		}
		s, ok := it.In.(*ssa.Send)
		return ok && ch(s.Chan) && (val == nil || val(s.X))
	}
}

// RecvFrom: a receive (plain, range, or select case) from a channel satisfying ch.
func RecvFrom(ch VM) Ev {
	return func(it Item) bool {
		if it.Sel != nil {
			st := it.Sel.States[it.Case]
			return st.Dir == types.RecvOnly && ch(st.Chan)
		}
		u, ok := it.In.(*ssa.UnOp)
		return ok && u.Op == token.ARROW && ch(u.X)
	}
}

// CloseOf: close(ch) as a plain call.
func CloseOf(ch VM) Ev {
	return func(it Item) bool {
		cc, ok := callCommon(it)
		if !ok {
			return false
		}
		b, ok := cc.Value.(*ssa.Builtin)
		return ok && b.Name() == "close" && len(cc.Args) == 1 && ch(cc.Args[0])
	}
}

func DeferCloseOf(ch VM) Ev {
	return func(it Item) bool {
		d, ok := it.In.(*ssa.Defer)
		if !ok {
			return false
		}
		b, ok := d.Call.Value.(*ssa.Builtin)
		return ok && b.Name() == "close" && len(d.Call.Args) == 1 && ch(d.Call.Args[0])
	}
}

// StoreTo: store to the field path; val optionally constrains the stored value.
func StoreTo(val VM, paths ...string) Ev {
	fa := FieldAddrOf(paths...)
	return func(it Item) bool {
		s, ok := it.In.(*ssa.Store)
		return ok && fa(s.Addr) && (val == nil || val(s.Val))
	}
}

// MapUpdateOn / MapDeleteOn: m[k] = v / delete(m, k) where m satisfies mv.
func MapUpdateOn(mv VM) Ev {
	return func(it Item) bool {
		u, ok := it.In.(*ssa.MapUpdate)
		return ok && mv(u.Map)
	}
}

func MapDeleteOn(mv VM) Ev {
	return func(it Item) bool {
		cc, ok := callCommon(it)
		if !ok {
			return false
		}
		b, ok := cc.Value.(*ssa.Builtin)
		return ok && b.Name() == "delete" && len(cc.Args) == 2 && mv(cc.Args[0])
	}
}

// GoOf: `go f(...)`; returns the spawned function resolved through withRecover and bound methods.
func (p *Program) GoTarget(it Item) *ssa.Function {
	g, ok := it.In.(*ssa.Go)
	if !ok {
		return nil
	}
	if g.Call.IsInvoke() {
		return nil
	}
	f := p.FuncOfValue(g.Call.Value)
	if f == nil {
		return nil
	}
	if p.Name(f) == "withRecover" && len(g.Call.Args) == 1 {
		return p.FuncOfValue(g.Call.Args[0])
	}
	return f
}

func (p *Program) GoOf(names ...string) Ev {
	return func(it Item) bool {
		f := p.GoTarget(it)
		if f == nil {
			return false
		}
		n := p.Name(f)
		for _, w := range names {
			if n == w {
				return true
			}
		}
		return false
	}
}

func IsReturn() Ev {
	return func(it Item) bool {
		_, ok := it.In.(*ssa.Return)
		return ok
	}
}

func Is(in ssa.Instruction) Ev { return func(it Item) bool { return it.In == in && in != nil } }

func IsItem(w Item) Ev {
	return func(it Item) bool {
		if w.Sel != nil {
			return it.Sel == w.Sel && it.Case == w.Case && it.From == w.From
		}
		return it.In == w.In && it.In != nil
	}
}

// ---------------------------------------------------------------- guard engine

type Pred interface {
	holds(cond ssa.Value, neg bool) bool
}

// Cmp: X op Y (canonical: operand order and edge polarity folded in).
type Cmp struct {
	Op   token.Token
	X, Y VM
}

func swapOp(op token.Token) token.Token {
	switch op {
	case token.LSS:
		return token.GTR
	case token.GTR:
		return token.LSS
	case token.LEQ:
		return token.GEQ
	case token.GEQ:
		return token.LEQ
	}
	return op
}

func negOp(op token.Token) token.Token {
	switch op {
	case token.LSS:
		return token.GEQ
	case token.GEQ:
		return token.LSS
	case token.GTR:
		return token.LEQ
	case token.LEQ:
		return token.GTR
	case token.EQL:
		return token.NEQ
	case token.NEQ:
		return token.EQL
	}
	return op
}

func (c Cmp) holds(cond ssa.Value, neg bool) bool {
	bo, ok := cond.(*ssa.BinOp)
	if !ok {
		return false
	}
	op := bo.Op
	if neg {
		op = negOp(op)
	}
	if op == c.Op && c.X(bo.X) && c.Y(bo.Y) {
		return true
	}
	if swapOp(op) == c.Op && c.X(bo.Y) && c.Y(bo.X) {
		return true
	}
	return false
}

// Truth: the boolean value V is Want.
type Truth struct {
	V    VM
	Want bool
}

func (t Truth) holds(cond ssa.Value, neg bool) bool {
	return t.V(cond) && (!neg) == t.Want
}

type AnyOf []Pred

func (a AnyOf) holds(cond ssa.Value, neg bool) bool {
	for _, p := range a {
		if p.holds(cond, neg) {
			return true
		}
	}
	return false
}

// Establishes: does taking the edge from->to establish p?
func Establishes(from, to *ssa.BasicBlock, p Pred) bool {
	iff, ok := lastInstr(from).(*ssa.If)
	if !ok || len(from.Succs) != 2 || from.Succs[0] == from.Succs[1] {
		return false
	}
	neg := false
	if from.Succs[1] == to {
		neg = true
	} else if from.Succs[0] != to {
		return false
	}
	cond := iff.Cond
	for {
		if u, ok := cond.(*ssa.UnOp); ok && u.Op == token.NOT {
			cond = u.X
			neg = !neg
			continue
		}
		break
	}
	if ph, ok := cond.(*ssa.Phi); ok && ph.Block() == from {
		// `a && b` / `a || b` in value position: on the edge where φ is true every incoming value
		// that is not the constant false was true (and conversely); the walker prunes the
		// infeasible constant edges (see feasible()).
		n := 0
		simple := true
		for _, e := range ph.Edges {
			if c, isC := e.(*ssa.Const); isC && c.Value != nil && c.Value.Kind() == constant.Bool {
				if constant.BoolVal(c.Value) == neg {
					continue // this incoming value cannot produce the edge taken
				}
				simple = false // constant that takes this edge unconditionally: nothing established by it
				break
			}
			ev, eneg := e, neg
			for {
				if u, ok := ev.(*ssa.UnOp); ok && u.Op == token.NOT {
					ev, eneg = u.X, !eneg
					continue
				}
				break
			}
			if !p.holds(ev, eneg) {
				simple = false
				break
			}
			n++
		}
		if simple && n > 0 {
			return true
		}
	}
	// a boolean computed by short-circuit evaluation and branched on (possibly in a later block, possibly nested — what
	// an inlined-back predicate helper leaves: `skip := rc && batch.IsTransactional && aborted; if skip { continue }`):
	// every incoming value that can produce the value taken satisfies p itself, implies it recursively, or arrives over
	// an in-edge that is only taken where p holds
	// (not for EstablishingEdges: the fact was established inside the computation of the boolean, and a rule that asks
	// what follows the establishing edge must start there, not at the later branch on the result)
	if ph, ok := cond.(*ssa.Phi); ok && boolPhiDepth == 0 && phiNilDepth == 0 {
		boolPhiDepth++
		r := boolPhiImplies(ph, p, neg, 0)
		boolPhiDepth--
		if r {
			return true
		}
	}
	if p.holds(cond, neg) {
		return true
	}
	// errors merged into one variable: `if err == nil { err = f() }; if err != nil { return }`.  On the edge where the
	// merged value φ is nil, an incoming value that was known non-nil on its way in cannot be the one that arrived, so
	// the remaining incoming values were nil.
	if c, isCmp := p.(Cmp); isCmp && c.Op == token.EQL && phiNilDepth == 0 {
		phiNilDepth++
		defer func() { phiNilDepth-- }()
		if bo, isBo := cond.(*ssa.BinOp); isBo && (bo.Op == token.EQL || bo.Op == token.NEQ) {
			isNilEdge := (bo.Op == token.EQL) != neg
			var ph *ssa.Phi
			switch {
			case IsNil()(bo.Y):
				ph, _ = bo.X.(*ssa.Phi)
			case IsNil()(bo.X):
				ph, _ = bo.Y.(*ssa.Phi)
			}
			if isNilEdge && ph != nil && c.Y(nilConstOf(ph.Type())) {
				return phiNilImplies(ph, c.X, 0)
			}
		}
	}
	return false
}

// phiNilDepth guards the φ-nil reasoning against re-entering itself through Guarded/Establishes.
var phiNilDepth int

// nilConstOf: a nil constant of type t (for asking a value matcher "do you match nil?").
func nilConstOf(t types.Type) ssa.Value { return ssa.NewConst(nil, t) }

// phiNilImplies: knowing φ == nil, is a value matching x known to be nil?  True when x matches an incoming value
// (or, recursively, an incoming φ implies it) and every other incoming value is provably non-nil on its in-edge.
func phiNilImplies(ph *ssa.Phi, x VM, depth int) bool {
	if depth > 4 {
		return false
	}
	found := false
	for i, e := range ph.Edges {
		if i >= len(ph.Block().Preds) {
			return false
		}
		pred := ph.Block().Preds[i]
		if x(e) {
			found = true
			continue
		}
		if inner, isPhi := e.(*ssa.Phi); isPhi && phiNilImplies(inner, x, depth+1) {
			found = true
			continue
		}
		if nonNilOnEdge(e, pred, ph.Block(), depth) {
			continue
		}
		// or the fact is already known on that way in (the branch that computed e was entered under x == nil)
		isNil := Cmp{token.EQL, x, IsNil()}
		if Establishes(pred, ph.Block(), isNil) {
			found = true
			continue
		}
		if fn := pred.Parent(); fn != nil {
			if g, _ := WholeFn(fn).Guarded(Item{In: lastInstr(pred)}, isNil); g {
				found = true
				continue
			}
		}
		return false
	}
	return found
}

// nonNilOnEdge: the value v is known to be non-nil when control arrives over pred→blk.
func nonNilOnEdge(v ssa.Value, pred, blk *ssa.BasicBlock, depth int) bool {
	switch x := v.(type) {
	case *ssa.MakeInterface:
		return true
	case *ssa.Const:
		return !x.IsNil()
	case *ssa.Phi:
		if depth > 4 {
			return false
		}
		for i, e := range x.Edges {
			if i >= len(x.Block().Preds) || !nonNilOnEdge(e, x.Block().Preds[i], x.Block(), depth+1) {
				return false
			}
		}
		return true
	}
	notNil := Cmp{token.NEQ, Same(v), IsNil()}
	if Establishes(pred, blk, notNil) {
		return true
	}
	if fn := pred.Parent(); fn != nil {
		if g, _ := WholeFn(fn).Guarded(Item{In: lastInstr(pred)}, notNil); g {
			return true
		}
	}
	return false
}

// Guarded: every path from the region starts to the site crosses an edge establishing p.
// Returns (true, nil) when guarded, else a witness path.
func (r *Region) Guarded(site Item, p Pred) (bool, []*ssa.BasicBlock) {
	c := *r
	old := r.Cut
	c.Cut = func(from, to *ssa.BasicBlock) bool {
		if old != nil && old(from, to) {
			return true
		}
		return Establishes(from, to, p)
	}
	it, path := c.Reach(IsItem(site), nil)
	if it.IsZero() {
		return true, nil
	}
	return false, path
}

// RetVals resolves the results of a Return: in functions with defers go/ssa spills results to
// local cells, stores them, runs the defers and reloads them; the value stored in the same block
// is the value returned.
func RetVals(r *ssa.Return) []ssa.Value {
	out := make([]ssa.Value, len(r.Results))
	b := r.Block()
	idx := len(b.Instrs) - 1
	for i, v := range r.Results {
		out[i] = v
		u, ok := v.(*ssa.UnOp)
		if !ok || u.Op != token.MUL {
			continue
		}
		al, ok := u.X.(*ssa.Alloc)
		if !ok {
			continue
		}
		for j := idx - 1; j >= 0; j-- {
			if st, ok := b.Instrs[j].(*ssa.Store); ok && st.Addr == ssa.Value(al) {
				out[i] = st.Val
				break
			}
		}
	}
	return out
}

// IsRecoverBlock: the synthetic block that returns the named results after a recovered panic.
func IsRecoverBlock(b *ssa.BasicBlock) bool { return b.Parent().Recover == b }

// ReturnNilErr: a Return (not the recover block's) whose last result is the nil constant.
func ReturnNilErr() Ev {
	return func(it Item) bool {
		r, ok := it.In.(*ssa.Return)
		if !ok || len(r.Results) == 0 || IsRecoverBlock(r.Block()) {
			return false
		}
		vs := RetVals(r)
		c, ok := vs[len(vs)-1].(*ssa.Const)
		return ok && c.Value == nil
	}
}

// ErrVal matches an error value that is the sarama sentinel `name`, whether it is declared as a
// KError constant or as a package-level error variable.
func (p *Program) ErrVal(name string) VM { return OrV(p.NamedConst(name), GlobalLoad(name)) }

// Edge of the CFG inside a region.
type Edge struct{ From, To *ssa.BasicBlock }

// EstablishingEdges: the edges inside the region (target in the region, not the back edge to the
// loop header) that establish p, in block order.
func (r *Region) EstablishingEdges(p Pred) []Edge {
	var out []Edge
	boolPhiDepth++
	defer func() { boolPhiDepth-- }()
	for _, b := range r.Fi.Fn.Blocks {
		if r.Allowed != nil && !r.Allowed[b] {
			continue
		}
		for _, s := range b.Succs {
			if r.Head != nil && s == r.Head {
				continue
			}
			if r.Allowed != nil && !r.Allowed[s] {
				continue
			}
			if Establishes(b, s, p) {
				out = append(out, Edge{b, s})
			}
		}
	}
	return out
}

// Lifted: the event itself, or a plain call of a function of the package on every path of which the event
// occurs (helpers looked through to a small depth).  Lets must-rules survive the extraction of a few
// statements into a helper.  Value matchers inside ev are evaluated in the helper's own frame, so an event
// that names the caller's locals does not lift.
func (p *Program) Lifted(ev Ev) Ev { return p.liftedDepth(ev, 2) }

func (p *Program) liftedDepth(ev Ev, depth int) Ev {
	return func(it Item) bool {
		if ev(it) {
			return true
		}
		if depth == 0 {
			return false
		}
		cl, ok := it.In.(*ssa.Call)
		if !ok || cl.Call.IsInvoke() {
			return false
		}
		callee := cl.Call.StaticCallee()
		if callee == nil || len(callee.Blocks) == 0 || (callee.Pkg != p.Sarama && callee.Pkg != p.Mocks) {
			return false
		}
		esc, _ := WholeFn(callee).Escape(p.liftedDepth(ev, depth-1))
		return !esc
	}
}


// boolPhiDepth guards boolPhiImplies against re-entering itself through Guarded.
var boolPhiDepth int

func boolPhiImplies(ph *ssa.Phi, p Pred, neg bool, depth int) bool {
	if depth > 4 {
		return false
	}
	n := 0
	guardedIn := func(i int) bool {
		pred := ph.Block().Preds[i]
		if Establishes(pred, ph.Block(), p) {
			return true
		}
		// … or over a chain of single-predecessor blocks inside the φ's own computation (below the φ block's immediate
		// dominator): a guard further up holds there as well, but is not established by this branch
		idom := ph.Block().Idom()
		for b, k := pred, 0; k < 4 && idom != nil && b != idom && idom.Dominates(b) && len(b.Preds) == 1; k++ {
			if Establishes(b.Preds[0], b, p) {
				return true
			}
			b = b.Preds[0]
		}
		return false
	}
	for i, e := range ph.Edges {
		if i >= len(ph.Block().Preds) {
			return false
		}
		if c, isC := e.(*ssa.Const); isC && c.Value != nil && c.Value.Kind() == constant.Bool {
			if constant.BoolVal(c.Value) == neg {
				continue // cannot produce the value taken
			}
			if guardedIn(i) {
				n++
				continue
			}
			return false
		}
		ev, eneg := e, neg
		for {
			if u, ok := ev.(*ssa.UnOp); ok && u.Op == token.NOT {
				ev, eneg = u.X, !eneg
				continue
			}
			break
		}
		if p.holds(ev, eneg) {
			n++
			continue
		}
		if inner, isPhi := ev.(*ssa.Phi); isPhi && boolPhiImplies(inner, p, eneg, depth+1) {
			n++
			continue
		}
		if guardedIn(i) {
			n++
			continue
		}
		return false
	}
	return n > 0
}
