package main

// C02 — per-partition submission order survives retries (structural clauses).

import (
	"fmt"
	"go/token"
	"go/types"
	"sort"
	"strings"

	"golang.org/x/tools/go/ssa"
)

// AppendOf matches append(s, …, e, …) where some appended element satisfies elem.
func AppendOf(elem VM) VM {
	return func(v ssa.Value) bool {
		c, ok := strip(v).(*ssa.Call)
		if !ok {
			return false
		}
		b, ok := c.Call.Value.(*ssa.Builtin)
		if !ok || b.Name() != "append" || len(c.Call.Args) != 2 {
			return false
		}
		sl, ok := c.Call.Args[1].(*ssa.Slice)
		if !ok {
			return elem(c.Call.Args[1])
		}
		al, ok := sl.X.(*ssa.Alloc)
		if !ok {
			return false
		}
		for _, r := range *al.Referrers() {
			ia, ok := r.(*ssa.IndexAddr)
			if !ok {
				continue
			}
			for _, r2 := range *ia.Referrers() {
				if st, ok := r2.(*ssa.Store); ok && st.Addr == ia && elem(st.Val) {
					return true
				}
			}
		}
		return false
	}
}

func init() {
	register(&propDef{
		ID:    "C02",
		Title: "Per-partition submission order survives retries",
		Explain: "Ordering of a history is not a code shape; decided are the structural necessary conditions of the retry-level protocol on every CFG path: " +
			"the partition worker routes each message to exactly one of forward / park / fail / (fin) account, value-sensitively (C02.route-once); a message below the high watermark is parked and can never reach the forward send, the park is guarded by retries < highWatermark (C02.park-guard); " +
			"the sent set is retried before the buffered messages of the same partition and the bounce state (currentRetries / closing) is set on the same path (C02.sent-before-buffered); parked buffers are flushed in index order and cleared, and highWatermark is written only by newHighWatermark/flushRetryBuffers (C02.flush); " +
			"one produce request in flight per broker worker: unbuffered bridge, synchronous Produce, tabled senders on brokerProducer.output (C02.single-flight); the retry queue is used strictly FIFO (C02.fifo). " +
			"NOT covered: the interleaving argument itself, reordering with Retry.Max=0 / abandoned brokers (value- and schedule-dependent).",
		Rules: []func(*Ctx){c02RouteOnce, c02SentBeforeBuffered, c02Recheck, c02Flush, c02RetryStateKept, c02SingleFlight, c02Fifo, c01ErrLost, c02RetryLevelWidth, c02MarkerCreators, c02SlabNotReused, c04Accounting},
	})
}

func c02RouteOnce(c *Ctx) {
	p := c.P
	c.Doc("C02.route-once", "partitionProducer.dispatch, one iteration of range pp.input: the received message is forwarded to brokerProducer.input, or parked in retryState[..].buf, or (fin) accounted with Done, or failed — exactly one of them on every path (events are value-sensitive: only operations on the iteration's message count)")
	c.Doc("C02.park-guard", "the park is guarded by msg.retries < pp.highWatermark, and from the edge where that holds the forward send is unreachable within the iteration")
	c.Floor("C02.route-once", 1)
	c.Floor("C02.park-guard", 3)
	fn := c.NeedFn("C02.route-once", "partitionProducer.dispatch")
	if fn == nil {
		return
	}
	fi := Info(fn)
	loops, vals := rangeChanLoops(fi, FieldLoad("partitionProducer.input"))
	if len(loops) != 1 {
		c.Unresolved("C02.route-once", "range pp.input loop")
		return
	}
	reg, msg := fi.Iteration(loops[0]), vals[0]
	isMsg := Same(msg)
	forward := SendOn(FieldLoad("brokerProducer.input"), isMsg)
	park := StoreTo(AppendOf(isMsg), "partitionRetryState.buf")
	fail := p.callDisposer(p.disposers(), isMsg)
	done := p.evDone()
	ev := Or(forward, park, fail, done)
	cr := reg.Count(ev)
	switch {
	case len(reg.Find(forward)) == 0 || len(reg.Find(park)) == 0:
		c.Unresolved("C02.route-once", "forward send / park append not found in partitionProducer.dispatch")
	case cr.HasNone():
		c.Fail("C02.route-once", fn, "route", nil, "a path of the iteration neither forwards, parks, fails nor accounts the message", cr.NonePath)
	case cr.HasTwo():
		c.Fail("C02.route-once", fn, "route", cr.Second.Instr(), "a message is routed twice on one path (first at "+p.Pos(cr.First.Instr())+"): e.g. parked and forwarded — duplicated and reordered", nil)
	default:
		c.OK("C02.route-once", fn, "route", nil, fmt.Sprintf("exactly one routing event on every path (%d sites)", len(cr.Sites)))
	}
	retries := FieldLoadOf("ProducerMessage.retries", isMsg)
	hwm := FieldLoad("partitionProducer.highWatermark")
	below := Cmp{token.LSS, retries, hwm}
	// a parked message goes into the buffer of ITS OWN retry level, retryState[msg.retries]: flushRetryBuffers
	// releases the levels one after the other, which is what puts once-bounced messages in front of fresh ones
	for _, s := range reg.Find(park) {
		st := s.In.(*ssa.Store)
		okLevel := false
		if fa, ok := st.Addr.(*ssa.FieldAddr); ok {
			if ia, ok := fa.X.(*ssa.IndexAddr); ok {
				okLevel = FieldLoadOf("ProducerMessage.retries", isMsg)(ia.Index) && FieldLoad("partitionProducer.retryState")(ia.X)
			}
		}
		c.Check(okLevel, "C02.park-guard", fn, "park-level", st, "a message is parked in retryState[msg.retries]", "a message is parked in another level's buffer than retryState[msg.retries]: messages of different retry levels are mixed in arrival order and the level-by-level flush no longer restores submission order", nil)
	}
	for _, s := range reg.Find(park) {
		g, path := reg.Guarded(s, below)
		c.Check(g, "C02.park-guard", fn, "park-guard", s.Instr(), "park guarded by msg.retries < pp.highWatermark",
			"message parked without the test msg.retries < pp.highWatermark: current-level messages would be parked forever or out of order", path)
	}
	// from every edge establishing retries < hwm the forward is unreachable
	n := 0
	for _, e := range reg.EstablishingEdges(below) {
		n++
		it, path := reg.From(Pt{e.To, 0}).Reach(forward, nil)
		c.Check(it.IsZero(), "C02.park-guard", fn, "no-forward-below-hwm", lastInstr(e.From),
			"a message below the high watermark cannot reach the forward send in this iteration",
			"a message with retries < highWatermark can be forwarded to the broker worker: it overtakes the messages parked before it", path)
	}
	if n == 0 {
		c.Unresolved("C02.park-guard", "no branch on msg.retries < pp.highWatermark")
	}
}

func c02SentBeforeBuffered(c *Ctx) {
	p := c.P
	rule := "C02.sent-before-buffered"
	c.Doc(rule, "handleSuccess (retriable arm) and handleError: the retry of the sent set precedes the retry of the buffered messages of the same partition, and the bounce state (currentRetries[topic][partition] / bp.closing) is set on the same path, so that later arrivals bounce instead of overtaking")
	c.Floor(rule, 4)
	d := p.disposers()
	bd := p.batchDisposers(d)
	_ = bd
	// handleSuccess second pass
	hs := c.NeedFn(rule, "brokerProducer.handleSuccess")
	if hs != nil {
		calls := Info(hs).Find(p.CallTo("produceSet.eachPartition"))
		if len(calls) < 2 {
			c.Unresolved(rule, "second eachPartition pass in handleSuccess")
		} else if cb := p.closureArg(calls[1], 1); cb == nil {
			c.Unresolved(rule, "second-pass callback of handleSuccess")
		} else {
			reg := WholeFn(cb)
			sent := Or(p.CallWith("asyncProducer.retryMessages", 1, FieldLoad("partitionSet.msgs")), func(it Item) bool {
				g, ok := it.In.(*ssa.Go)
				if !ok {
					return false
				}
				f := p.FuncOfValue(g.Call.Value)
				return f != nil && p.Name(f) == "asyncProducer.retryBatch"
			})
			buffered := p.CallWith("asyncProducer.retryMessages", 1, p.ResultOf(0, "produceSet.dropPartition"))
			bounce := MapUpdateOn(func(v ssa.Value) bool {
				// bp.currentRetries[topic] (a map lookup on the field)
				lk, ok := strip(v).(*ssa.Lookup)
				return ok && FieldLoad("brokerProducer.currentRetries")(lk.X)
			})
			bs := reg.Find(buffered)
			if len(bs) == 0 {
				c.Fail(rule, cb, "buffered-retry", nil, "the buffered messages of a failed partition are not retried with the sent set (dropPartition): they would be sent after the bounce ends, before the resent ones", nil)
			}
			// and whenever the sent set of a partition is sent round the retry loop, so are its buffered messages —
			// whatever the error code was: buffered messages that stay behind are sent with the next request, ahead of
			// the retried ones
			for _, s := range reg.Find(sent) {
				esc, path := reg.From(s.After()).Escape(buffered)
				c.Check(!esc, rule, cb, "buffered-follow-sent", s.Instr(), "after the retry of a partition's sent set its buffered messages are retried on every path",
					"the sent set of a partition is retried while (for some error codes) its buffered messages stay in the pending buffer: they go out with the next request and are appended before the retried, earlier messages", path)
			}
			for _, b := range bs {
				it, path := reg.MustPrecede(sent, IsItem(b))
				c.Check(it.IsZero(), rule, cb, "sent-then-buffered", b.Instr(),
					"retry of the sent set precedes the retry of the buffered messages on every path",
					"buffered messages are re-queued before (or without) the sent set: FIFO retry queue then reorders them", path)
				it2, path2 := reg.MustPrecede(p.Lifted(bounce), IsItem(b))
				c.Check(it2.IsZero(), rule, cb, "bounce-state", b.Instr(),
					"currentRetries[topic][partition] is set before the partition's messages are bounced",
					"partition is retried without marking it in currentRetries: later arrivals are sent ahead of the retried ones", path2)
			}
		}
	}
	he := c.NeedFn(rule, "brokerProducer.handleError")
	if he != nil {
		reg := WholeFn(he)
		retries := func(sw sweep) bool { return sw.cb != nil && hasItem(sw.cb, p.CallTo("asyncProducer.retryMessages")) }
		sentParam := ParamN(1)
		isBuf := FieldLoad("brokerProducer.buffer")
		var sentSw, bufSw []sweep
		for _, sw := range p.sweepsOf(he) {
			if !retries(sw) {
				continue
			}
			if sentParam(sw.recv) {
				sentSw = append(sentSw, sw)
			}
			if isBuf(sw.recv) {
				bufSw = append(bufSw, sw)
			}
		}
		closing := StoreTo(nil, "brokerProducer.closing")
		if len(bufSw) == 0 {
			c.Fail(rule, he, "buffered-retry", nil, "handleError does not retry the buffered messages together with the sent set", nil)
		}
		for _, b := range bufSw {
			// the sent set's retry precedes: an earlier element of the same literal loop, or an earlier call on every path
			ok := false
			var path []*ssa.BasicBlock
			for _, s := range sentSw {
				if s.call == b.call && s.idx < b.idx {
					ok = true
				}
			}
			if !ok {
				var others []Item
				for _, s := range sentSw {
					if s.call != b.call {
						others = append(others, s.call)
					}
				}
				if len(others) > 0 {
					isSent := func(it Item) bool {
						for _, o := range others {
							if IsItem(o)(it) {
								return true
							}
						}
						return false
					}
					var it Item
					it, path = reg.MustPrecede(isSent, IsItem(b.call))
					ok = it.IsZero()
				}
			}
			c.Check(ok, rule, he, "sent-then-buffered", b.call.Instr(),
				"retry of the sent set precedes the retry of the buffered set on every path",
				"buffered set re-queued before the sent set: the FIFO retry queue then holds later messages ahead of earlier ones", path)
			it2, path2 := reg.MustPrecede(closing, IsItem(b.call))
			c.Check(it2.IsZero(), rule, he, "bounce-state", b.call.Instr(),
				"bp.closing is set before messages are bounced",
				"messages are bounced without setting bp.closing: later arrivals are sent on the dead connection ahead of them", path2)
		}
	}
}

func c02Flush(c *Ctx) {
	p := c.P
	rule := "C02.flush"
	c.Doc(rule, "flushRetryBuffers: each level's parked buffer is sent in index order to brokerProducer.input and then cleared (buf = nil follows the loop on every path); pp.highWatermark is stored only by newHighWatermark and flushRetryBuffers")
	c.Floor(rule, 5)
	fn := c.NeedFn(rule, "partitionProducer.flushRetryBuffers")
	if fn == nil {
		return
	}
	fi := Info(fn)
	// the inner range loop over retryState[..].buf
	var found bool
	for _, s := range fi.Find(SendOn(FieldLoad("brokerProducer.input"), nil)) {
		snd := s.In.(*ssa.Send)
		sl, l, ok := rangeElem(fi, snd.X)
		if !ok || !FieldLoad("partitionRetryState.buf")(sl) {
			continue
		}
		found = true
		// index order: induction by +1 from -1 (ssa rangeindex form)
		asc := false
		for _, in := range l.Head.Instrs {
			if ph, ok := in.(*ssa.Phi); ok {
				for _, e := range ph.Edges {
					if bo, ok := e.(*ssa.BinOp); ok && bo.Op == token.ADD && bo.X == ph && ConstInt(1)(bo.Y) {
						asc = true
					}
				}
			}
		}
		c.Check(asc, rule, fn, "index-order", snd, "parked messages are flushed in ascending index order", "flush loop does not walk the parked buffer in ascending index order", nil)
		// buf = nil must follow on every path after the loop exits; approximate: from the send, every path to
		// the next outer iteration / return passes a store of nil to .buf
		clear := clearsParkedBuffer
		outer := fi.InnermostLoop(l.Head)
		var reg *Region
		for _, ol := range fi.Loops {
			if ol != l && ol.Blocks[l.Head] {
				outer = ol
			}
		}
		if outer != nil && outer != l {
			reg = fi.Iteration(outer)
		} else {
			reg = WholeFn(fn)
		}
		esc, path := reg.From(s.After()).Escape(clear)
		c.Check(!esc, rule, fn, "clear-after-flush", snd, "the flushed buffer is cleared before the next level / return on every path",
			"a flushed buffer is not cleared: its messages are sent again at the next flush (duplicates, out of order)", path)
	}
	if !found {
		c.Unresolved(rule, "range over retryState[..].buf sending to brokerProducer.input")
	}
	// the other way a parked buffer is used up: handed to a function as a whole (returnErrors when no leader can be
	// found).  The same clearing must follow, or the messages — which have had their final event — are flushed
	// again with the next level.
	for _, s := range fi.Find(func(it Item) bool {
		cc, ok := callCommon(it)
		if !ok {
			return false
		}
		if _, isB := cc.Value.(*ssa.Builtin); isB {
			return false
		}
		for _, a := range cc.Args {
			if FieldLoad("partitionRetryState.buf")(strip(a)) {
				return true
			}
		}
		return false
	}) {
		var reg *Region
		if l := fi.InnermostLoop(s.In.Block()); l != nil {
			reg = fi.Iteration(l)
		} else {
			reg = WholeFn(fn)
		}
		esc, path := reg.From(s.After()).Escape(clearsParkedBuffer)
		cc, _ := callCommon(s)
		c.Check(!esc, rule, fn, "clear-after-handing-over:"+p.CalleeName(cc), s.In, "a parked buffer handed to "+p.CalleeName(cc)+" is cleared before the next level / return on every path",
			"a parked buffer handed to "+p.CalleeName(cc)+" is not cleared on every path: its messages have already had their final event and are flushed again with the next level (a second event for the same message, inFlight released twice)", path)
	}
	// the flush descends level by level and stops only at a level that still waits for its chaser, or at level 0:
	// every way out of the loop crosses one of those two tests (an early way out — say, after a failed leader lookup —
	// leaves the partition parked on a level no chaser will ever release: later messages are buffered for ever)
	if len(fi.Loops) > 0 {
		var outer *Loop
		for _, l := range fi.Loops {
			if outer == nil || len(l.Blocks) > len(outer.Blocks) {
				outer = l
			}
		}
		it0 := fi.Iteration(outer)
		r := WholeFn(fn).From(it0.Starts...)
		stop := AnyOf{Truth{FieldLoad("partitionRetryState.expectChaser"), true}, Cmp{token.EQL, FieldLoad("partitionProducer.highWatermark"), ConstInt(0)}}
		r.Cut = func(from, to *ssa.BasicBlock) bool {
			return to == outer.Head || Establishes(from, to, stop)
		}
		left := func(it Item) bool {
			in := it.Instr()
			return in != nil && in.Parent() == fn && !outer.Blocks[in.Block()]
		}
		it, path := r.Reach(left, nil)
		c.Check(it.IsZero(), rule, fn, "stops-only-at-chaser-or-level-0", it.Instr(), "the flush loop is left only where the level reached expects its chaser or is level 0", "the flush of the parked buffers can stop at a level that neither waits for a chaser nor is level 0 (for instance right after a failed leader lookup): highWatermark stays above 0 with nothing left to bring it down, every later message of the partition is parked for ever — no outcome, Close never returns", path)
	} else {
		c.Unresolved(rule, "the level loop of flushRetryBuffers")
	}
	// who may store highWatermark
	allowed := map[string]bool{"partitionProducer.newHighWatermark": true, "partitionProducer.flushRetryBuffers": true}
	var writers []string
	for _, f := range p.Fns {
		if hasItem(f, StoreTo(nil, "partitionProducer.highWatermark")) {
			writers = append(writers, p.Name(f))
			if !allowed[p.Name(f)] {
				c.Fail(rule, f, "hwm-writer", nil, "pp.highWatermark is written outside newHighWatermark/flushRetryBuffers: the retry-level protocol is bypassed", nil)
			}
		}
	}
	sort.Strings(writers)
	c.Check(len(writers) == 2, rule, fn, "hwm-writers", nil, "highWatermark written only by "+strings.Join(writers, ", "), "expected exactly the two tabled writers of highWatermark, found "+strings.Join(writers, ", "), nil)
}

func c02SingleFlight(c *Ctx) {
	p := c.P
	rule := "C02.single-flight"
	c.Doc(rule, "one produce request in flight per broker worker: the bridge goroutine calls Broker.Produce synchronously inside its range loop (no go statement in the body), the bridge channel is unbuffered, and sends on brokerProducer.output occur only in the tabled functions")
	c.Floor(rule, 3)
	fn := c.NeedFn(rule, "asyncProducer.newBrokerProducer")
	if fn == nil {
		return
	}
	// the closure that ranges over the channel stored in brokerProducer.output
	var bridge ssa.Value
	for _, s := range Info(fn).Find(StoreTo(nil, "brokerProducer.output")) {
		bridge = strip(s.In.(*ssa.Store).Val)
	}
	// captured variables are cells: find the MakeChan stored into the cell
	var mk *ssa.MakeChan
	resolveChan := func(v ssa.Value) *ssa.MakeChan {
		if m, ok := v.(*ssa.MakeChan); ok {
			return m
		}
		if u, ok := v.(*ssa.UnOp); ok && u.Op == token.MUL {
			if al, ok := u.X.(*ssa.Alloc); ok {
				for _, r := range *al.Referrers() {
					if st, ok := r.(*ssa.Store); ok && st.Addr == al {
						if m, ok := strip(st.Val).(*ssa.MakeChan); ok {
							return m
						}
					}
				}
			}
		}
		return nil
	}
	if bridge != nil {
		mk = resolveChan(bridge)
	}
	if mk == nil {
		c.Unresolved(rule, "channel stored in brokerProducer.output")
		return
	}
	c.Check(ConstInt(0)(mk.Size), rule, fn, "bridge-unbuffered", mk, "bridge channel has constant capacity 0",
		"bridge channel is buffered: several produce sets can be queued to the broker while one is in flight, responses and retries interleave", nil)
	// the channel the bridge answers on: unbuffered too — the bridge stays in its send until the run loop has taken the
	// response, so no further set can be handed to it while a response is unhandled
	for _, s := range Info(fn).Find(StoreTo(nil, "brokerProducer.responses")) {
		if rm := resolveChan(strip(s.In.(*ssa.Store).Val)); rm != nil {
			c.Check(ConstInt(0)(rm.Size), rule, fn, "responses-unbuffered", rm, "responses channel has constant capacity 0",
				"the responses channel is buffered: the bridge goroutine leaves its response in the channel and takes the next produce set while the run loop has not handled the response yet — the buffer holding later messages of a partition is sent before handleSuccess marks the partition as retrying; they are appended ahead of the bounced earlier ones", nil)
		} else {
			c.Unresolved(rule, "channel stored in brokerProducer.responses")
		}
	}
	var cell ssa.Value
	if u, ok := bridge.(*ssa.UnOp); ok {
		cell = u.X
	}
	foundLoop := false
	for _, cl := range fn.AnonFuncs {
		cfi := Info(cl)
		loops, _ := rangeChanLoops(cfi, func(v ssa.Value) bool {
			u, ok := strip(v).(*ssa.UnOp)
			if !ok || u.Op != token.MUL {
				return false
			}
			fv, ok := u.X.(*ssa.FreeVar)
			if !ok {
				return false
			}
			// bound to the same cell
			for _, r := range *cell.(*ssa.Alloc).Referrers() {
				if mc, ok := r.(*ssa.MakeClosure); ok && mc.Fn == cl {
					for i, b := range mc.Bindings {
						if b == cell && cl.FreeVars[i] == fv {
							return true
						}
					}
				}
			}
			return false
		})
		if len(loops) != 1 {
			continue
		}
		foundLoop = true
		reg := cfi.Iteration(loops[0])
		produce := p.CallTo("Broker.Produce")
		cr := reg.Count(produce)
		gos := reg.Find(func(it Item) bool { _, ok := it.In.(*ssa.Go); return ok })
		c.Check(!cr.HasNone() && !cr.HasTwo() && len(gos) == 0, rule, cl, "sync-produce", nil,
			"each produce set taken from the bridge is sent with one synchronous Broker.Produce call; no goroutine is spawned in the loop body",
			"the bridge loop does not call Broker.Produce exactly once synchronously per set (or spawns goroutines): more than one request in flight", cr.NonePath)
	}
	if !foundLoop {
		c.Unresolved(rule, "bridge goroutine ranging over the output channel")
	}
	allowed := map[string]bool{"brokerProducer.run": true, "brokerProducer.shutdown": true, "brokerProducer.waitForSpace": true, "asyncProducer.retryBatch": true}
	var senders []string
	for _, f := range p.Fns {
		if hasItem(f, SendOn(FieldLoad("brokerProducer.output"), nil)) {
			senders = append(senders, p.Name(f))
			if !allowed[p.Name(f)] {
				c.Fail(rule, f, "output-sender", nil, "sends on brokerProducer.output outside the tabled functions (run, shutdown, waitForSpace, retryBatch)", nil)
			}
		}
	}
	sort.Strings(senders)
	c.Check(len(senders) >= 3, rule, fn, "output-senders", nil, "senders on brokerProducer.output: "+strings.Join(senders, ", "), "fewer senders on brokerProducer.output than tabled: "+strings.Join(senders, ", "), nil)
}

func c02Fifo(c *Ctx) {
	p := c.P
	rule := "C02.fifo"
	c.Doc(rule, "retryHandler: the queue is used only through Add/Peek/Remove/Length; what is sent to the dispatcher is the Peek()ed head and Remove() follows that send exactly once; what is Add()ed is the message received from p.retries")
	c.Floor(rule, 3)
	fn := c.NeedFn(rule, "asyncProducer.retryHandler")
	if fn == nil {
		return
	}
	fi := Info(fn)
	const q = "(*github.com/eapache/queue.Queue)."
	okMethods := map[string]bool{q + "Add": true, q + "Peek": true, q + "Remove": true, q + "Length": true, "github.com/eapache/queue.New": true}
	bad := ""
	nq := 0
	fi.Each(func(it Item) {
		cc, ok := callCommon(it)
		if !ok {
			return
		}
		n := p.CalleeName(cc)
		if strings.Contains(n, "eapache/queue") {
			nq++
			if !okMethods[n] {
				bad = n
			}
		}
	})
	c.Check(bad == "" && nq >= 4, rule, fn, "queue-api", nil, fmt.Sprintf("queue used only through New/Add/Peek/Remove/Length (%d calls)", nq), "queue used through "+bad+" (not FIFO) or queue calls missing", nil)
	send := SendOn(FieldLoad(pInputCh), func(v ssa.Value) bool {
		ta, ok := strip(v).(*ssa.TypeAssert)
		return ok && p.ResultOf(0, q+"Peek")(ta.X)
	})
	sends := fi.Find(send)
	if len(sends) != 1 {
		c.Fail(rule, fn, "send-head", nil, "the message sent back to the dispatcher is not the Peek()ed head of the queue", nil)
	} else {
		l := fi.InnermostLoop(itemBlock(sends[0]))
		reg := fi.Iteration(l).From(sends[0].After())
		cr := reg.Count(p.CallTo(q + "Remove"))
		c.Check(!cr.HasNone() && !cr.HasTwo(), rule, fn, "remove-after-send", sends[0].Instr(),
			"Remove() is called exactly once after the head was handed to the dispatcher", "head sent without exactly one Remove(): message re-sent (duplicate) or the next one dropped", cr.NonePath)
		add := p.CallWith(q+"Add", 1, func(v ssa.Value) bool { return true })
		it, _ := reg.Reach(add, nil)
		c.Check(it.IsZero(), rule, fn, "no-add-on-send-path", sends[0].Instr(), "no Add on the path that sent the head", "Add executed on the send path: stale message re-queued", nil)
	}
}

// c02Recheck: handling a response can put the message's partition into the bounce state; whoever holds a
// message across handleResponse must ask needsRetry(msg) again before letting it through.
func c02Recheck(c *Ctx) {
	p := c.P
	rule := "C02.recheck"
	c.Doc(rule, "brokerProducer.run buffers a message only after needsRetry(msg) == nil; waitForSpace, which handles responses while it holds a message, returns nil after a handleResponse only across a fresh needsRetry(msg) == nil test (per-partition bounce state included, not only bp.closing)")
	c.Floor(rule, 2)
	// "the message need not be retried": needsRetry(msg) == nil, or the same test written out where the helper
	// was inlined — the per-partition bounce state bp.currentRetries[msg.Topic][msg.Partition] compared with nil,
	// directly or merged (phi) with bp.closing
	clear := func(msg VM, after ssa.Instruction) Pred {
		// fresh: the value is computed after the instruction `after` on every path (nil: no such requirement) — a
		// result computed before a response was handled says nothing about the state the response left
		fresh := func(v ssa.Value) bool {
			if after == nil {
				return true
			}
			in, ok := v.(ssa.Instruction)
			return ok && instrDominates(after, in)
		}
		bounce := func(v ssa.Value) bool {
			lk, ok := strip(v).(*ssa.Lookup)
			if !ok || !FieldLoadOf("ProducerMessage.Partition", msg)(lk.Index) || !fresh(lk) {
				return false
			}
			lk2, ok := strip(lk.X).(*ssa.Lookup)
			return ok && FieldLoad("brokerProducer.currentRetries")(lk2.X) && FieldLoadOf("ProducerMessage.Topic", msg)(lk2.Index)
		}
		merged := func(v ssa.Value) bool {
			ph, ok := v.(*ssa.Phi)
			if !ok {
				return false
			}
			has := false
			for _, e := range ph.Edges {
				switch {
				case bounce(e):
					has = true
				case FieldLoad("brokerProducer.closing")(e):
				default:
					return false
				}
			}
			return has
		}
		call := func(v ssa.Value) bool {
			cl, ok := v.(*ssa.Call)
			return ok && p.CalleeName(&cl.Call) == "brokerProducer.needsRetry" && len(cl.Call.Args) == 2 && msg(cl.Call.Args[1]) && fresh(cl)
		}
		return AnyOf{Cmp{token.EQL, call, IsNil()}, Cmp{token.EQL, bounce, IsNil()}, Cmp{token.EQL, merged, IsNil()}}
	}
	if fn := c.NeedFn(rule, "brokerProducer.waitForSpace"); fn != nil {
		reg := WholeFn(fn)
		hr := reg.Find(p.CallTo("brokerProducer.handleResponse"))
		if len(hr) == 0 {
			c.Unresolved(rule, "handleResponse call in waitForSpace")
		}
		for _, h := range hr {
			r2 := *reg.From(h.After())
			pr := clear(ParamN(1), h.Instr())
			r2.Cut = func(from, to *ssa.BasicBlock) bool { return Establishes(from, to, pr) }
			// any return that is not the verdict of a needsRetry(msg) made after the response — `return nil`, but also
			// `return bp.closing`, which forgets the per-partition half of the verdict
			hInstr := h.Instr()
			verdict := func(v ssa.Value) bool {
				v = throughCell(v)
				cl, ok := v.(*ssa.Call)
				return ok && p.CalleeName(&cl.Call) == "brokerProducer.needsRetry" && instrDominates(hInstr, cl)
			}
			notVerdict := func(it Item) bool {
				ret, ok := it.In.(*ssa.Return)
				if !ok || IsRecoverBlock(ret.Block()) {
					return false
				}
				rv := RetVals(ret)
				if len(rv) != 1 || verdict(rv[0]) {
					return false
				}
				// an error known to be non-nil where it is returned (`if bp.closing != nil { return bp.closing }`, the
				// helper written out) refuses the message: fine
				if !IsNil()(rv[0]) {
					v := rv[0]
					same := func(w ssa.Value) bool { return samePath(w, v) || samePath(throughCell(w), throughCell(v)) }
					if g, _ := reg.Guarded(Item{In: ret}, Cmp{token.NEQ, same, IsNil()}); g {
						return false
					}
				}
				return true
			}
			it, path := r2.Reach(notVerdict, nil)
			c.Check(it.IsZero(), rule, fn, "recheck-after-response", h.Instr(), "after handling a response the waiting message is re-checked with needsRetry(msg) before it is let through",
				"waitForSpace can return nil after handling a response without re-checking needsRetry(msg) (which includes the per-partition bounce state): the parked message is buffered and sent ahead of the earlier messages of its partition that are still on the retry path", path)
		}
	}
	if fn := c.NeedFn(rule, "brokerProducer.run"); fn != nil {
		fi := Info(fn)
		if len(fi.Loops) > 0 {
			reg := fi.Iteration(fi.Loops[0])
			for _, a := range reg.Find(p.CallTo("produceSet.add")) {
				msg := callArgs(a)[1]
				g, path := reg.Guarded(a, clear(Same(msg), nil))
				c.Check(g, rule, fn, "needsRetry-before-add", a.Instr(), "a message is buffered only after needsRetry(msg) == nil", "a message can be buffered without the needsRetry test: it overtakes the bounced messages of its partition", path)
			}
		}
	}
}

// C02.retry-state-kept: the per-topic map of bp.currentRetries is created only when missing.
func c02RetryStateKept(c *Ctx) {
	p := c.P
	rule := "C02.retry-state-kept"
	c.Doc(rule, "bp.currentRetries[topic] (the per-topic map of partitions that are being retried) is assigned only where the lookup bp.currentRetries[topic] has just been found nil / absent for the same key: replacing an existing map would wipe the retrying mark of the topic's other partitions, whose later messages would then overtake the ones being retried")
	c.Floor(rule, 3)
	outer := FieldLoad("brokerProducer.currentRetries")
	var inner func(v ssa.Value) bool
	inner = func(v ssa.Value) bool {
		switch x := strip(v).(type) {
		case *ssa.Lookup:
			return outer(x.X)
		case *ssa.Extract:
			lk, ok := x.Tuple.(*ssa.Lookup)
			return ok && x.Index == 0 && outer(lk.X)
		case *ssa.Phi:
			// `inner, ok := m[k]; if !ok { inner = make(…); m[k] = inner }`
			any := false
			for _, e := range x.Edges {
				if _, isMake := e.(*ssa.MakeMap); isMake {
					continue
				}
				if !inner(e) {
					return false
				}
				any = true
			}
			return any
		}
		return false
	}
	finK, _ := p.ConstNamed("fin")
	synK, _ := p.ConstNamed("syn")
	// underFlag: the instruction is reached only where msg.flags has flag k set
	underFlag := func(fn *ssa.Function, it Item, k int64) bool {
		fi := Info(fn)
		reg := WholeFn(fn)
		if l := fi.InnermostLoop(itemBlock(it)); l != nil {
			for _, l2 := range fi.Loops {
				if l2.Blocks[itemBlock(it)] && len(l2.Blocks) > len(l.Blocks) {
					l = l2
				}
			}
			reg = fi.Iteration(l)
		}
		r := *reg
		r.Cut = func(from, to *ssa.BasicBlock) bool {
			iff, ok := lastInstr(from).(*ssa.If)
			if !ok || len(from.Succs) != 2 {
				return false
			}
			kk, setOnTrue, _, ok := flagTest(iff.Cond)
			if !ok || kk != k {
				return false
			}
			return (from.Succs[0] == to) == setOnTrue
		}
		reached, _ := r.Reach(IsItem(it), nil)
		return reached.IsZero()
	}
	// the marks of the retrying state are cleared only by the partition's own hand-shake: its syn (the partition
	// (re)opens on this worker: its entry is reset to nil) and its fin (the chaser is back: the entry is deleted).
	// Nobody deletes a whole topic, and nobody clears an entry on another occasion (a success, say): the entry is what
	// makes the worker bounce the partition's later messages — and the fin itself — until the retried ones are through
	for _, fn := range p.Fns {
		if rootOf(fn).Pkg != p.Sarama {
			continue
		}
		for _, s := range Info(fn).Find(MapDeleteOn(outer)) {
			c.Fail(rule, fn, "no-topic-wide-delete", s.Instr(), "a whole topic is deleted from bp.currentRetries: the retrying marks of all its partitions on this worker are lost, their later messages overtake the ones being retried and their fin is sent to the broker as an empty record", nil)
		}
		for _, s := range Info(fn).Find(MapDeleteOn(inner)) {
			okFn := p.Name(rootOf(fn)) == "brokerProducer.run"
			c.Check(okFn && underFlag(fn, s, finK), rule, fn, "entry-deleted-only-at-fin", s.Instr(), "a partition's retrying mark is deleted only where its fin arrived", "a partition's entry is deleted from bp.currentRetries elsewhere than on the arrival of its fin: with the mark gone early the fin is not bounced but buffered and sent to the broker as an empty record (a phantom record and success), and later messages overtake the retried ones", nil)
		}
		for _, s := range Info(fn).Find(MapUpdateOn(inner)) {
			mu := s.In.(*ssa.MapUpdate)
			if !IsNil()(mu.Value) {
				continue
			}
			okFn := p.Name(rootOf(fn)) == "brokerProducer.run"
			c.Check(okFn && underFlag(fn, s, synK), rule, fn, "entry-reset-only-at-syn", s.Instr(), "a partition's retrying mark is reset to nil only where its syn arrived", "a partition's entry in bp.currentRetries is reset to nil elsewhere than on the arrival of its syn", nil)
		}
	}
	for _, fn := range p.Fns {
		if fn.Pkg != p.Sarama {
			continue
		}
		fi := Info(fn)
		for _, s := range fi.Find(MapUpdateOn(outer)) {
			mu := s.In.(*ssa.MapUpdate)
			sameLookup := func(v ssa.Value) bool {
				lk, ok := strip(v).(*ssa.Lookup)
				return ok && outer(lk.X) && samePath(lk.Index, mu.Key)
			}
			// `m[k] == nil`, or `_, ok := m[k]; !ok`
			missing := AnyOf{Cmp{token.EQL, sameLookup, IsNil()}, Truth{func(v ssa.Value) bool {
				ex, ok := v.(*ssa.Extract)
				return ok && ex.Index == 1 && sameLookup(ex.Tuple)
			}, false}}
			root := fn
			for root.Parent() != nil && iifeCall(root) != nil {
				root = root.Parent()
			}
			ok, path := WholeFn(root).Guarded(s, missing)
			c.Check(ok, rule, fn, "create-only-if-missing", mu, "the per-topic map is created only where it is missing", "the per-topic map of bp.currentRetries is replaced without testing that it is missing: the retrying marks of the topic's other partitions are lost and their later messages overtake the retried ones", path)
		}
	}
}

// instrDominates: a is executed before b on every path that reaches b.
func instrDominates(a, b ssa.Instruction) bool {
	if a == nil || b == nil || a.Parent() != b.Parent() {
		return false
	}
	if a.Block() != b.Block() {
		return a.Block().Dominates(b.Block())
	}
	for _, in := range a.Block().Instrs {
		if in == a {
			return true
		}
		if in == b {
			return false
		}
	}
	return false
}

// clearsParkedBuffer: `<retry state>.buf = nil` on the partition producer's own state — a store through a pointer or
// an element address, not into a local copy of the partitionRetryState struct (clearing a copy clears nothing).
func clearsParkedBuffer(it Item) bool {
	if !StoreTo(IsNil(), "partitionRetryState.buf")(it) {
		return false
	}
	st := it.In.(*ssa.Store)
	ch := fieldChain(st.Addr)
	if len(ch) == 0 {
		return false
	}
	if al, isLocal := ch[0].base.(*ssa.Alloc); isLocal {
		// a local variable holding a partitionRetryState by value
		if _, isPtr := al.Type().Underlying().(*types.Pointer).Elem().Underlying().(*types.Pointer); !isPtr {
			return false
		}
	}
	return true
}
