package main

// Obligations, known findings, evidence and replay files.

import (
	"bufio"
	"encoding/json"
	"fmt"
	"os"
	"path/filepath"
	"sort"
	"strings"

	"golang.org/x/tools/go/ssa"
)

type Obligation struct {
	Rule   string   `json:"rule"`
	Key    string   `json:"key"`
	Func   string   `json:"function,omitempty"`
	Pos    string   `json:"pos,omitempty"`
	Status string   `json:"status"` // ok | violation | known | unresolved
	Detail string   `json:"detail,omitempty"`
	Path   []string `json:"path,omitempty"`
}

type Ctx struct {
	P        *Program
	Prop     string
	Obls     []*Obligation
	keys     map[string]int
	floors   map[string]int
	Notes    []string
	FnsSeen  map[string]bool
	Assume   []string
	Explain  string
	ruleDocs map[string]string
}

func NewCtx(p *Program, prop string) *Ctx {
	return &Ctx{P: p, Prop: prop, keys: map[string]int{}, floors: map[string]int{}, FnsSeen: map[string]bool{}, ruleDocs: map[string]string{}}
}

func (c *Ctx) mkKey(rule, fn, construct string) string {
	construct = strings.ReplaceAll(construct, " ", "_")
	k := rule + "|" + fn + "|" + construct
	c.keys[k]++
	if n := c.keys[k]; n > 1 {
		k = fmt.Sprintf("%s#%d", k, n)
	}
	return k
}

func (c *Ctx) add(status, rule string, fn *ssa.Function, construct string, at ssa.Instruction, detail string, path []*ssa.BasicBlock) *Obligation {
	fname := ""
	pos := ""
	if fn != nil {
		fname = c.P.Name(fn)
		c.FnsSeen[fname] = true
		pos = c.P.PosOf(fn.Pos())
	}
	if at != nil {
		pos = c.P.Pos(at)
	}
	o := &Obligation{Rule: rule, Key: c.mkKey(rule, fname, construct), Func: fname, Pos: pos, Status: status, Detail: detail}
	for _, b := range path {
		o.Path = append(o.Path, c.blockPos(b))
	}
	c.Obls = append(c.Obls, o)
	return o
}

func (c *Ctx) blockPos(b *ssa.BasicBlock) string {
	for _, in := range b.Instrs {
		if in.Pos().IsValid() {
			return fmt.Sprintf("b%d@%s", b.Index, c.P.PosOf(in.Pos()))
		}
	}
	return fmt.Sprintf("b%d(%s)", b.Index, b.Comment)
}

// OK records a discharged obligation.
func (c *Ctx) OK(rule string, fn *ssa.Function, construct string, at ssa.Instruction, detail string) {
	c.add("ok", rule, fn, construct, at, detail, nil)
}

// Fail records a violated obligation.
func (c *Ctx) Fail(rule string, fn *ssa.Function, construct string, at ssa.Instruction, detail string, path []*ssa.BasicBlock) {
	c.add("violation", rule, fn, construct, at, detail, path)
}

// Check records ok/violation by cond.
func (c *Ctx) Check(cond bool, rule string, fn *ssa.Function, construct string, at ssa.Instruction, okDetail, failDetail string, path []*ssa.BasicBlock) bool {
	if cond {
		c.OK(rule, fn, construct, at, okDetail)
	} else {
		c.Fail(rule, fn, construct, at, failDetail, path)
	}
	return cond
}

// Unresolved: an anchor the rule needs is gone: fail closed.
func (c *Ctx) Unresolved(rule, what string) {
	o := &Obligation{Rule: rule, Key: c.mkKey(rule, "", "unresolved:"+what), Status: "unresolved", Detail: "anchor not found: " + what}
	c.Obls = append(c.Obls, o)
}

// NeedFn resolves a function anchor or records an unresolved obligation.
func (c *Ctx) NeedFn(rule, name string) *ssa.Function {
	f := c.P.Fn(name)
	if f == nil {
		c.Unresolved(rule, "function "+name)
	}
	return f
}

// Floor: rule must have produced at least n obligations.
func (c *Ctx) Floor(rule string, n int) { c.floors[rule] = n }

func (c *Ctx) Doc(rule, text string) { c.ruleDocs[rule] = text }

func (c *Ctx) finishFloors() {
	cnt := map[string]int{}
	for _, o := range c.Obls {
		cnt[o.Rule]++
	}
	rules := make([]string, 0, len(c.floors))
	for r := range c.floors {
		rules = append(rules, r)
	}
	sort.Strings(rules)
	for _, r := range rules {
		if cnt[r] < c.floors[r] {
			o := &Obligation{Rule: r, Key: c.mkKey(r, "", "floor"), Status: "violation",
				Detail: fmt.Sprintf("rule matched %d instances, floor confirmed on the pinned tree is %d (vacuity guard)", cnt[r], c.floors[r])}
			c.Obls = append(c.Obls, o)
		}
	}
}

// ---------------------------------------------------------------- known findings

type knownFinding struct {
	Prop, Key, Text string
}

func loadKnown(file string) ([]knownFinding, error) {
	f, err := os.Open(file)
	if err != nil {
		if os.IsNotExist(err) {
			return nil, nil
		}
		return nil, err
	}
	defer f.Close()
	var out []knownFinding
	sc := bufio.NewScanner(f)
	sc.Buffer(make([]byte, 1<<20), 1<<20)
	for sc.Scan() {
		line := strings.TrimSpace(sc.Text())
		if !strings.HasPrefix(line, "finding:") {
			continue // comments and "fixed:" entries suppress nothing
		}
		rest := strings.TrimSpace(strings.TrimPrefix(line, "finding:"))
		var kf knownFinding
		fields := strings.SplitN(rest, " ", 3)
		for i, fl := range fields {
			if i < 2 {
				if strings.HasPrefix(fl, "property=") {
					kf.Prop = strings.TrimPrefix(fl, "property=")
				} else if strings.HasPrefix(fl, "key=") {
					kf.Key = strings.TrimPrefix(fl, "key=")
				}
			} else {
				kf.Text = fl
			}
		}
		if kf.Prop != "" && kf.Key != "" {
			out = append(out, kf)
		}
	}
	return out, sc.Err()
}

// ---------------------------------------------------------------- evidence

type ruleSummary struct {
	Rule       string `json:"rule"`
	Doc        string `json:"doc,omitempty"`
	Instances  int    `json:"instances"`
	Floor      int    `json:"floor"`
	Discharged int    `json:"discharged"`
	Known      int    `json:"known_findings"`
	Violated   int    `json:"violated"`
}

func (c *Ctx) summaries() []ruleSummary {
	m := map[string]*ruleSummary{}
	var order []string
	for _, o := range c.Obls {
		s := m[o.Rule]
		if s == nil {
			s = &ruleSummary{Rule: o.Rule, Floor: c.floors[o.Rule], Doc: c.ruleDocs[o.Rule]}
			m[o.Rule] = s
			order = append(order, o.Rule)
		}
		s.Instances++
		switch o.Status {
		case "ok":
			s.Discharged++
		case "known":
			s.Known++
		default:
			s.Violated++
		}
	}
	sort.Strings(order)
	var out []ruleSummary
	for _, r := range order {
		out = append(out, *m[r])
	}
	return out
}

func writeJSON(file string, v interface{}) error {
	if err := os.MkdirAll(filepath.Dir(file), 0o755); err != nil {
		return err
	}
	b, err := json.MarshalIndent(v, "", " ")
	if err != nil {
		return err
	}
	tmp := file + ".tmp"
	if err := os.WriteFile(tmp, append(b, '\n'), 0o644); err != nil {
		return err
	}
	return os.Rename(tmp, file)
}
