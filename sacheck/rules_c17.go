package main

// C17 — partitioners keep their contract and the producer honours their choice.

import (
	"go/token"
	"go/types"
	"sort"
	"strings"

	"golang.org/x/tools/go/ssa"
)

func init() {
	register(&propDef{
		ID:    "C17",
		Title: "Partitioners keep their contract and the producer honours their choice",
		Explain: "Decides: every successful return of the built-in hash, random and round-robin partitioners lies in [0, numPartitions) by an interval analysis relative to the symbolic partition count (sign handling before/after the modulo, the round-robin cursor invariant, rand.Intn's contract trusted) and manual returns the message's own partition (C17.range); " +
			"the hash partitioner consults its fallback only for nil keys, resets the hasher before writing, and requires consistency exactly for keyed messages (C17.consistent); no partitioner is installed as its own fallback and every option constructor uses its argument (C17.no-self); " +
			"the producer offers all partitions to consistency-requiring choices and writable ones otherwise, refuses when there are none, range-checks the choice before indexing and fails the message on error (C17.producer, with C04.partition-once). " +
			"NOT covered: equality of the hash with the Java client's, uniformity of random/round-robin.",
		Rules: []func(*Ctx){c17Range, c17Consistent, c17NoSelf, c17Producer, c17OwnHasher, c04PartitionOnce, c15ReadSets, c01ErrLost, c15Pair, c17HashAlwaysConsistent},
	})
}

func c17Range(c *Ctx) {
	p := c.P
	rule := "C17.range"
	c.Doc(rule, "every `return v, nil` of hashPartitioner/randomPartitioner/roundRobinPartitioner.Partition has v ∈ [0, numPartitions) (interval analysis, n ≥ 1 symbolic); manualPartitioner returns message.Partition")
	c.Floor(rule, 4)
	// invariant of the round-robin cursor: all stores are 0 or cursor+1
	fieldInv := func(path string) (ival, bool) {
		if path != "roundRobinPartitioner.partition" {
			return ivAny, false
		}
		// inductive check: assuming the cursor is ≥ 0 on entry, every value stored into it is 0, or x+1 for an x
		// that is known to lie in [0, n−1] at that point (below the partition count, or just reset).  "+1 of
		// something unbounded" would wrap to negative values after 2^31 increments.
		assumed := func(string) (ival, bool) { return ival{lo: loZero, hi: hiPosInf}, true }
		ok, n := true, 0
		for _, f := range p.Fns {
			Info(f).Each(func(it Item) {
				if !StoreTo(nil, path)(it) {
					return
				}
				n++
				st := it.In.(*ssa.Store)
				v := st.Val
				if ConstInt(0)(v) {
					return
				}
				bo, isBo := v.(*ssa.BinOp)
				if !isBo || bo.Op != token.ADD || len(f.Params) != 3 {
					ok = false
					return
				}
				x := bo.X
				if !ConstInt(1)(bo.Y) {
					if !ConstInt(1)(bo.X) {
						ok = false
						return
					}
					x = bo.Y
				}
				eng := &intervalEngine{p: p, fn: f, n: f.Params[2], fieldInv: assumed}
				var facts []fact
				if b := st.Block(); len(b.Preds) == 1 {
					facts = eng.pathFacts(b.Preds[0], b)
				}
				iv := eng.eval(x, facts)
				if iv.lo < loZero || iv.hi > hiN1 {
					ok = false
				}
			})
		}
		if !ok || n == 0 {
			return ivAny, false
		}
		return ival{lo: loZero, hi: hiPosInf}, true
	}
	for _, name := range []string{"hashPartitioner.Partition", "randomPartitioner.Partition", "roundRobinPartitioner.Partition"} {
		fn := c.NeedFn(rule, name)
		if fn == nil {
			continue
		}
		if len(fn.Params) != 3 {
			c.Unresolved(rule, name+" signature")
			continue
		}
		eng := &intervalEngine{p: p, fn: fn, n: fn.Params[2], fieldInv: fieldInv}
		nret := 0
		for _, b := range fn.Blocks {
			r, ok := lastInstr(b).(*ssa.Return)
			if !ok || len(r.Results) != 2 {
				continue
			}
			if !IsNil()(r.Results[1]) {
				// error return, or delegation to the fallback partitioner (its contract is its own)
				if ex, isEx := r.Results[1].(*ssa.Extract); isEx {
					if cl, isCall := ex.Tuple.(*ssa.Call); isCall && p.CalleeName(&cl.Call) == "Partitioner.Partition" {
						continue
					}
				}
				continue
			}
			nret++
			var facts []fact
			if len(b.Preds) == 1 {
				facts = eng.pathFacts(b.Preds[0], b)
			}
			iv := eng.eval(r.Results[0], facts)
			c.Check(iv.inRange(), rule, fn, "return-in-range", r, "returned partition ∈ "+iv.String()+" ⊆ [0, n)",
				"a successful return can be outside [0, numPartitions): value ∈ "+iv.String()+" — the producer fails every such message with ErrInvalidPartition (or a custom caller indexes out of range)", nil)
		}
		if nret == 0 {
			c.Fail(rule, fn, "return-in-range", nil, "no successful return found", nil)
		}
	}
	if fn := c.NeedFn(rule, "manualPartitioner.Partition"); fn != nil {
		ok := true
		for _, b := range fn.Blocks {
			if r, isR := lastInstr(b).(*ssa.Return); isR {
				if !(len(r.Results) == 2 && FieldLoadOf("ProducerMessage.Partition", ParamN(1))(r.Results[0]) && IsNil()(r.Results[1])) {
					ok = false
				}
			}
		}
		c.Check(ok, rule, fn, "manual", nil, "manual partitioner returns message.Partition", "manual partitioner does not return the message's own partition", nil)
	}
}

func c17Consistent(c *Ctx) {
	p := c.P
	rule := "C17.consistent"
	c.Doc(rule, "hashPartitioner.Partition: the fallback is consulted only under message.Key == nil; hasher.Reset() precedes hasher.Write(); the result is computed from hasher.Sum32(); MessageRequiresConsistency returns message.Key != nil")
	c.Floor(rule, 4)
	fn := c.NeedFn(rule, "hashPartitioner.Partition")
	if fn != nil {
		reg := WholeFn(fn)
		fb := func(it Item) bool {
			cc, ok := callCommon(it)
			return ok && cc.IsInvoke() && p.CalleeName(cc) == "Partitioner.Partition" && FieldLoad("hashPartitioner.random")(cc.Value)
		}
		fbs := reg.Find(fb)
		if len(fbs) == 0 {
			c.Fail(rule, fn, "fallback-on-nil-key", nil, "the fallback partitioner is never consulted: keyless messages are hashed (all to one partition) or fail", nil)
		}
		for _, s := range fbs {
			g, path := reg.Guarded(s, Cmp{token.EQL, FieldLoadOf("ProducerMessage.Key", ParamN(1)), IsNil()})
			c.Check(g, rule, fn, "fallback-on-nil-key", s.Instr(), "fallback used only for messages without key", "a keyed message can be routed by the (random) fallback: equal keys land on different partitions", path)
		}
		reset := p.CallTo("hash.Hash32.Reset")
		write := p.CallTo("hash.Hash32.Write")
		sum := p.CallTo("hash.Hash32.Sum32")
		it, path := reg.MustPrecede(reset, write)
		c.Check(it.IsZero() && len(reg.Find(write)) > 0, rule, fn, "reset-before-write", nil, "hasher.Reset() precedes hasher.Write()", "the hasher is written without a preceding Reset(): the partition of a key depends on the keys hashed before it", path)
		// between Write and Sum32 no Reset
		for _, w := range reg.Find(write) {
			it, _ := reg.From(w.After()).Reach(reset, sum)
			c.Check(it.IsZero(), rule, fn, "no-reset-before-sum", w.Instr(), "no Reset between Write and Sum32", "hasher reset between Write and Sum32: every key hashes to the same value", nil)
		}
		// successful non-fallback returns depend on Sum32
		dep := func(v ssa.Value) bool {
			seen := map[ssa.Value]bool{}
			var walk func(v ssa.Value) bool
			walk = func(v ssa.Value) bool {
				if seen[v] {
					return false
				}
				seen[v] = true
				if cl, ok := v.(*ssa.Call); ok && p.CalleeName(&cl.Call) == "hash.Hash32.Sum32" {
					return true
				}
				if in, ok := v.(ssa.Instruction); ok {
					for _, op := range in.Operands(nil) {
						if *op != nil && walk(*op) {
							return true
						}
					}
				}
				return false
			}
			return walk(v)
		}
		for _, b := range fn.Blocks {
			if r, ok := lastInstr(b).(*ssa.Return); ok && len(r.Results) == 2 && IsNil()(r.Results[1]) {
				c.Check(dep(r.Results[0]), rule, fn, "result-from-sum32", r, "the partition is computed from hasher.Sum32()", "the partition of a keyed message does not depend on the key's hash", nil)
			}
		}
	}
	if fn := c.NeedFn(rule, "hashPartitioner.MessageRequiresConsistency"); fn != nil {
		ok := true
		for _, b := range fn.Blocks {
			if r, isR := lastInstr(b).(*ssa.Return); isR {
				if !(len(r.Results) == 1 && BinOpOf(token.NEQ, FieldLoadOf("ProducerMessage.Key", ParamN(1)), IsNil())(r.Results[0])) {
					ok = false
				}
			}
		}
		c.Check(ok, rule, fn, "requires-consistency-iff-keyed", nil, "MessageRequiresConsistency ⇔ Key != nil", "MessageRequiresConsistency is not `message.Key != nil`: keyed messages are offered only writable partitions (key→partition mapping changes with leader availability)", nil)
	}
}

func c17NoSelf(c *Ctx) {
	p := c.P
	rule := "C17.no-self"
	c.Doc(rule, "no store x.random = x (a partitioner must not be its own fallback: infinite recursion on keyless messages); every option constructor's closure uses each parameter of the constructor")
	c.Floor(rule, 5)
	for _, fn := range p.Fns {
		for _, s := range Info(fn).Find(StoreTo(nil, "hashPartitioner.random")) {
			st := s.In.(*ssa.Store)
			base, _ := matchPath(fieldChain(st.Addr), "hashPartitioner.random")
			self := sameValue(strip(st.Val), base)
			c.Check(!self, rule, fn, "fallback-not-self", st, "fallback ← "+describe(strip(st.Val)), "the hash partitioner is installed as its own fallback: a message without key recurses forever (stack overflow)", nil)
		}
	}
	// option constructors: functions returning HashPartitionerOption
	for _, fn := range p.Fns {
		if fn.Parent() != nil || fn.Signature.Results().Len() != 1 {
			continue
		}
		if n, _ := NamedOf(fn.Signature.Results().At(0).Type()); n != "HashPartitionerOption" {
			continue
		}
		for _, pr := range fn.Params {
			used := false
			for _, cl := range fn.AnonFuncs {
				for _, fv := range cl.FreeVars {
					if fv.Name() == pr.Name() && len(*fv.Referrers()) > 0 {
						used = true
					}
				}
			}
			c.Check(used, rule, fn, "option-uses:"+pr.Name(), nil, "option closure uses parameter "+pr.Name(), "the option returned by "+p.Name(fn)+" ignores its argument "+pr.Name()+": the caller's choice has no effect", nil)
		}
	}
}

func c17Producer(c *Ctx) {
	p := c.P
	rule := "C17.producer"
	c.Doc(rule, "partitionMessage: Partitions() when consistency is required, WritablePartitions() otherwise; the partitioner is called only with numPartitions != 0; an error from partitionMessage fails the message and nothing is forwarded")
	c.Floor(rule, 4)
	pm := c.NeedFn(rule, "topicProducer.partitionMessage")
	if pm != nil {
		var cl *ssa.Function
		for _, a := range pm.AnonFuncs {
			if hasItem(a, p.CallTo("Client.Partitions")) || hasItem(a, p.CallTo("Client.WritablePartitions")) {
				cl = a
			}
		}
		if cl == nil {
			c.Unresolved(rule, "closure fetching the partition list")
		} else {
			reg := WholeFn(cl)
			// requiresConsistency value: phi of MessageRequiresConsistency / RequiresConsistency results
			rc := func(v ssa.Value) bool {
				for _, e := range phiEdges(v) {
					if !(p.ResultOf(0, "DynamicConsistencyPartitioner.MessageRequiresConsistency")(e) || p.ResultOf(0, "Partitioner.RequiresConsistency")(e) || ConstBool(false)(e)) {
						return false
					}
				}
				return true
			}
			all := reg.Find(p.CallTo("Client.Partitions"))
			wr := reg.Find(p.CallTo("Client.WritablePartitions"))
			if len(all) != 1 || len(wr) != 1 {
				c.Fail(rule, cl, "partition-list", nil, "expected one Partitions() and one WritablePartitions() call", nil)
			} else {
				g1, p1 := reg.Guarded(all[0], Truth{rc, true})
				g2, p2 := reg.Guarded(wr[0], Truth{rc, false})
				c.Check(g1, rule, cl, "all-when-consistent", all[0].Instr(), "all partitions offered when the message requires consistency", "Partitions() is not chosen by the consistency requirement", p1)
				c.Check(g2, rule, cl, "writable-otherwise", wr[0].Instr(), "only writable partitions offered otherwise", "WritablePartitions() is used although the message requires consistency (or unconditionally)", p2)
			}
		}
		reg := WholeFn(pm)
		for _, s := range reg.Find(p.CallTo("Partitioner.Partition")) {
			num := func(v ssa.Value) bool { _, ok := strip(v).(*ssa.Call); return ok && LenOf(AnyV())(strip(v)) }
			g, path := reg.Guarded(s, Cmp{token.NEQ, num, ConstInt(0)})
			c.Check(g, rule, pm, "no-partitions-refused", s.Instr(), "the partitioner is called only when at least one partition is available", "the partitioner can be called with numPartitions == 0 (modulo by zero panics the topic worker)", path)
		}
	}
	if fn := c.NeedFn(rule, "topicProducer.dispatch"); fn != nil {
		fi := Info(fn)
		loops, vals := rangeChanLoops(fi, FieldLoad("topicProducer.input"))
		if len(loops) == 1 {
			reg, msg := fi.Iteration(loops[0]), vals[0]
			es := reg.EstablishingEdges(Cmp{token.NEQ, p.ResultOf(0, "topicProducer.partitionMessage"), IsNil()})
			if len(es) == 0 {
				c.Fail(rule, fn, "error-fails-message", nil, "the error of partitionMessage is not tested", nil)
			}
			for _, e := range es {
				sub := reg.From(Pt{e.To, 0})
				fw, _ := sub.Reach(SendOn(AnyV(), Same(msg)), nil)
				esc, path := sub.Escape(p.CallWith("asyncProducer.returnError", 1, Same(msg)))
				c.Check(fw.IsZero() && !esc, rule, fn, "error-fails-message", lastInstr(e.From), "a partitioning error fails the message and nothing is forwarded", "after a partitioning error the message is forwarded anyway or gets no outcome", path)
			}
		}
	}
	_ = types.Typ
	_ = sort.Strings
	_ = strings.Join
}

// C17.own-hasher: a hash.Hash32 is stateful (Reset / Write / Sum32); every hash partitioner must own its instance.
func c17OwnHasher(c *Ctx) {
	p := c.P
	rule := "C17.own-hasher"
	c.Doc(rule, "every store to hashPartitioner.hasher stores the result of a call made in the same function activation that builds (or configures) that partitioner — a new hasher per partitioner — never a value captured from an enclosing function or loaded from shared state: partitioners of different topics run in different goroutines, and a shared hasher mixes their Reset/Write/Sum32 sequences (equal keys no longer map to equal partitions)")
	c.Floor(rule, 5)
	for _, fn := range p.Fns {
		if rootOf(fn).Pkg != p.Sarama {
			continue
		}
		for _, s := range Info(fn).Find(StoreTo(nil, "hashPartitioner.hasher")) {
			st, ok := s.In.(*ssa.Store)
			if !ok || st.Parent() != fn {
				continue
			}
			v := st.Val
			for {
				switch x := v.(type) {
				case *ssa.MakeInterface:
					v = x.X
					continue
				case *ssa.ChangeInterface:
					v = x.X
					continue
				}
				break
			}
			cl, isCall := v.(*ssa.Call)
			c.Check(isCall && cl.Parent() == fn, rule, fn, "fresh-hasher", st, "the hasher stored is created by a call in the same function activation", "hashPartitioner.hasher is given a value that is not created for this partitioner ("+describe(st.Val)+"): one hasher instance is shared by the partitioners of several topics, whose goroutines interleave Reset/Write/Sum32 — the same key is sent to different partitions", nil)
		}
	}
}
