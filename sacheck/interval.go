package main

// E7: a tiny interval analysis over int32 values relative to the symbolic partition count n ≥ 1.
// Bounds are symbolic: lower ∈ {−∞, −(n−1), 0, 1}, upper ∈ {−1, 0, n−1, +∞}.

import (
	"go/constant"
	"go/token"

	"golang.org/x/tools/go/ssa"
)

type lob int
type hib int

const (
	loNegInf lob = iota
	loNegN1      // −(n−1)
	loZero
	loOne
)
const (
	hiNegOne hib = iota
	hiZero
	hiN1 // n−1
	hiPosInf
)

type ival struct {
	lo  lob
	hi  hib
	bot bool
}

var ivAny = ival{lo: loNegInf, hi: hiPosInf}
var ivBot = ival{bot: true}

func (a ival) join(b ival) ival {
	if a.bot {
		return b
	}
	if b.bot {
		return a
	}
	r := a
	if b.lo < r.lo {
		r.lo = b.lo
	}
	if b.hi > r.hi {
		r.hi = b.hi
	}
	return r
}

func (a ival) inRange() bool { return !a.bot && a.lo >= loZero && a.hi <= hiN1 }

func (a ival) String() string {
	if a.bot {
		return "⊥"
	}
	return "[" + [...]string{"−∞", "−(n−1)", "0", "1"}[a.lo] + ", " + [...]string{"−1", "0", "n−1", "+∞"}[a.hi] + "]"
}

func (a ival) neg() ival {
	if a.bot {
		return a
	}
	var r ival
	switch a.hi {
	case hiNegOne:
		r.lo = loOne
	case hiZero:
		r.lo = loZero
	case hiN1:
		r.lo = loNegN1
	default:
		r.lo = loNegInf
	}
	switch a.lo {
	case loOne:
		r.hi = hiNegOne
	case loZero:
		r.hi = hiZero
	case loNegN1:
		r.hi = hiN1
	default:
		r.hi = hiPosInf
	}
	return r
}

// fact: a branch condition known on a path, about one SSA value.
type fact struct {
	v   ssa.Value
	op  token.Token // v op rhs
	rhs int         // 0: constant zero, 1: n
}

func (a ival) refine(f fact) ival {
	if a.bot {
		return a
	}
	switch {
	case f.rhs == 0 && f.op == token.LSS: // v < 0
		if a.hi > hiNegOne {
			a.hi = hiNegOne
		}
	case f.rhs == 0 && f.op == token.GEQ: // v >= 0
		if a.lo < loZero {
			a.lo = loZero
		}
	case f.rhs == 0 && f.op == token.GTR: // v > 0
		if a.lo < loOne {
			a.lo = loOne
		}
	case f.rhs == 0 && f.op == token.LEQ: // v <= 0
		if a.hi > hiZero {
			a.hi = hiZero
		}
	case f.rhs == 1 && f.op == token.LSS: // v < n
		if a.hi > hiN1 {
			a.hi = hiN1
		}
	}
	return a
}

type intervalEngine struct {
	p     *Program
	fn    *ssa.Function
	n     ssa.Value // the partition-count parameter
	depth int
	// fieldInv: invariant of a struct field (all stores are 0 or field+1): [0, +∞)
	fieldInv func(path string) (ival, bool)
	trace    []string
}

func (e *intervalEngine) isN(v ssa.Value) bool {
	v = strip(v)
	return v == e.n
}

// condFacts: facts established by taking the edge from->to.
func (e *intervalEngine) condFacts(from, to *ssa.BasicBlock) []fact {
	iff, ok := lastInstr(from).(*ssa.If)
	if !ok || len(from.Succs) != 2 || from.Succs[0] == from.Succs[1] {
		return nil
	}
	neg := from.Succs[1] == to
	cond := iff.Cond
	for {
		if u, ok := cond.(*ssa.UnOp); ok && u.Op == token.NOT {
			cond, neg = u.X, !neg
			continue
		}
		break
	}
	bo, ok := cond.(*ssa.BinOp)
	if !ok {
		return nil
	}
	op := bo.Op
	if neg {
		op = negOp(op)
	}
	mk := func(v, rhs ssa.Value, op token.Token) []fact {
		if c, ok := strip(rhs).(*ssa.Const); ok && c.Value != nil && c.Value.Kind() == constant.Int {
			if k, exact := constant.Int64Val(c.Value); exact && k == 0 {
				return []fact{{v, op, 0}}
			}
			return nil
		}
		if e.isN(rhs) {
			switch op {
			case token.LSS:
				return []fact{{v, token.LSS, 1}}
			}
		}
		return nil
	}
	out := mk(bo.X, bo.Y, op)
	out = append(out, mk(bo.Y, bo.X, swapOp(op))...)
	return out
}

// pathFacts: facts known on entry to block b when coming from pred (walking up single-pred chains).
func (e *intervalEngine) pathFacts(pred, b *ssa.BasicBlock) []fact {
	var fs []fact
	fs = append(fs, e.condFacts(pred, b)...)
	x := pred
	for i := 0; i < 16 && len(x.Preds) == 1; i++ {
		fs = append(fs, e.condFacts(x.Preds[0], x)...)
		x = x.Preds[0]
	}
	return fs
}

func (e *intervalEngine) apply(a ival, v ssa.Value, fs []fact) ival {
	for _, f := range fs {
		if f.v == v {
			a = a.refine(f)
		}
	}
	return a
}

// eval computes the interval of v; facts are conditions known at the use.
func (e *intervalEngine) eval(v ssa.Value, fs []fact) ival {
	e.depth++
	defer func() { e.depth-- }()
	if e.depth > 40 {
		return ivAny
	}
	r := e.eval0(v, fs)
	return e.apply(r, v, fs)
}

func (e *intervalEngine) eval0(v ssa.Value, fs []fact) ival {
	switch x := v.(type) {
	case *ssa.Const:
		if x.Value == nil || x.Value.Kind() != constant.Int {
			return ivAny
		}
		k, _ := constant.Int64Val(x.Value)
		switch {
		case k == 0:
			return ival{lo: loZero, hi: hiZero}
		case k > 0:
			return ival{lo: loOne, hi: hiPosInf}
		default:
			return ival{lo: loNegInf, hi: hiNegOne}
		}
	case *ssa.Convert:
		// conversions between signed integer types keep a value known to lie in [−(n−1), n−1] (n is an
		// int32); conversions from unsigned or wider unknown values give no information
		in := e.eval(x.X, fs)
		if in.lo >= loNegN1 && in.hi <= hiN1 {
			return in
		}
		return ivAny
	case *ssa.ChangeType:
		return e.eval(x.X, fs)
	case *ssa.BinOp:
		switch x.Op {
		case token.REM:
			if e.isN(x.Y) {
				l := e.eval(x.X, fs)
				if l.lo >= loZero {
					return ival{lo: loZero, hi: hiN1}
				}
				return ival{lo: loNegN1, hi: hiN1}
			}
		case token.AND:
			for _, m := range []ssa.Value{x.X, x.Y} {
				if c, ok := m.(*ssa.Const); ok && c.Value != nil && c.Value.Kind() == constant.Int {
					if k, exact := constant.Int64Val(c.Value); exact && k >= 0 {
						return ival{lo: loZero, hi: hiPosInf}
					}
				}
			}
		}
		return ivAny
	case *ssa.UnOp:
		switch x.Op {
		case token.SUB:
			return e.eval(x.X, fs).neg()
		case token.MUL:
			return e.evalLoad(x, fs)
		}
		return ivAny
	case *ssa.Phi:
		r := ivBot
		for i, ed := range x.Edges {
			pf := e.pathFacts(x.Block().Preds[i], x.Block())
			r = r.join(e.eval(ed, pf))
		}
		return r
	case *ssa.Call:
		name := e.p.CalleeName(&x.Call)
		if name == "(*math/rand.Rand).Intn" && len(x.Call.Args) == 2 && e.isN(x.Call.Args[1]) {
			return ival{lo: loZero, hi: hiN1} // trusted library contract: Intn(k) ∈ [0, k)
		}
		return ivAny
	}
	return ivAny
}

// evalLoad: value of a field load, by backward search for the last store to / load of the same
// field of the same base object.
func (e *intervalEngine) evalLoad(ld *ssa.UnOp, fs []fact) ival {
	fa, ok := ld.X.(*ssa.FieldAddr)
	if !ok {
		return ivAny
	}
	same := func(a ssa.Value) bool {
		o, ok := a.(*ssa.FieldAddr)
		return ok && o.Field == fa.Field && sameValue(o.X, fa.X)
	}
	b := ld.Block()
	idx := -1
	for i, in := range b.Instrs {
		if in == ssa.Instruction(ld) {
			idx = i
		}
	}
	visited := map[*ssa.BasicBlock]bool{}
	var back func(b *ssa.BasicBlock, from int, facts []fact) ival
	back = func(b *ssa.BasicBlock, from int, facts []fact) ival {
		for i := from; i >= 0; i-- {
			switch in := b.Instrs[i].(type) {
			case *ssa.Store:
				if same(in.Addr) {
					return e.eval(in.Val, facts)
				}
			case *ssa.UnOp:
				if in.Op == token.MUL && in != ld && same(in.X) {
					// same memory, no store in between on this path: the earlier load's value
					return e.apply(e.evalLoad(in, nil), in, facts)
				}
			case *ssa.Call:
				// calls could write the field through the receiver; the partitioners do not call out
				// between the test and the use except into their own hasher/rand, which cannot alias
			}
		}
		if len(b.Preds) == 0 {
			// function entry: the field invariant
			ch := fieldChain(fa)
			if len(ch) > 0 && e.fieldInv != nil {
				if iv, ok := e.fieldInv(ch[len(ch)-1].owner + "." + ch[len(ch)-1].name); ok {
					return iv
				}
			}
			return ivAny
		}
		if visited[b] {
			return ivAny
		}
		visited[b] = true
		r := ivBot
		for _, pr := range b.Preds {
			pf := append(append([]fact{}, facts...), e.condFacts(pr, b)...)
			r = r.join(back(pr, len(pr.Instrs)-1, pf))
		}
		return r
	}
	return back(b, idx-1, fs)
}
