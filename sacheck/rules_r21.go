package main

import (
	"go/constant"
	"go/token"
	"go/types"
	"strings"

	"golang.org/x/tools/go/ssa"
)

// Rules from the second round of language-level traps (round 21): typed nil into a pool, rounding direction of
// time.Duration, a shutdown arm that does not leave its loop, truncating arithmetic in the balance score, a heap
// filled behind container/heap's back, a map reused instead of rebuilt, the caller's Config slice written in place.

// C10.pool-nil / no-nil-into-pool: what goes back into a pool is an object.
func c10NoNilIntoPool(c *Ctx) {
	p := c.P
	rule := "C09.pool-once"
	for _, name := range []string{"decompress", "compress"} {
		fn := c.NeedFn(rule, name)
		if fn == nil {
			continue
		}
		reg := WholeFn(fn)
		Info(fn).Each(func(it Item) {
			var cc *ssa.CallCommon
			switch x := it.In.(type) {
			case *ssa.Call:
				cc = &x.Call
			case *ssa.Defer:
				cc = &x.Call
			}
			if cc == nil || p.CalleeName(cc) != "(*sync.Pool).Put" || len(cc.Args) != 2 {
				return
			}
			// can the object be the first result of a (T, error) call?
			var ctor *ssa.Call
			seen := map[ssa.Value]bool{}
			var walk func(v ssa.Value, d int)
			walk = func(v ssa.Value, d int) {
				if v == nil || seen[v] || d > 8 {
					return
				}
				seen[v] = true
				v = strip(v)
				switch x := v.(type) {
				case *ssa.Phi:
					for _, e := range x.Edges {
						walk(e, d+1)
					}
				case *ssa.Extract:
					if cl, ok := x.Tuple.(*ssa.Call); ok && x.Index == 0 {
						if tup, ok := cl.Type().(*types.Tuple); ok && tup.Len() == 2 && tup.At(1).Type().String() == "error" {
							ctor = cl
						}
					}
				case *ssa.UnOp:
					if w := throughCell(x); w != ssa.Value(x) {
						walk(w, d+1)
					} else if al, ok := x.X.(*ssa.Alloc); ok && x.Op == token.MUL {
						for _, r := range *al.Referrers() {
							if st, ok := r.(*ssa.Store); ok && st.Addr == ssa.Value(al) {
								walk(st.Val, d+1)
							}
						}
					}
				}
			}
			walk(cc.Args[1], 0)
			if ctor == nil {
				return
			}
			isErr := func(v ssa.Value) bool { return v.Type().String() == "error" }
			g, path := reg.Guarded(it, Cmp{token.EQL, isErr, IsNil()})
			c.Check(g, rule, fn, "no-nil-into-pool", it.In, "an object that may come from a failed constructor is put into the pool only where the error was found nil", "the object handed to (*sync.Pool).Put can be the first result of "+describeCall(p, ctor)+" and the Put is reached also where that call failed: the constructor returns a nil pointer then, the pool keeps it as a non-nil interface value, and the next Get().(*T) succeeds with a nil *T — the next payload of that codec panics in Reset (nil pointer dereference) in the consumer's broker worker, for whatever partition or consumer happens to decode next", path)
		})
	}
}

// C04.deltas / delta-of-floored-timestamps: a record's delta is a difference of whole milliseconds.
func c04DeltaOfFloored(c *Ctx) {
	p := c.P
	rule := "C04.deltas"
	fn := c.NeedFn(rule, "produceSet.add")
	if fn == nil {
		return
	}
	reg := *WholeFn(fn)
	notV2 := Truth{p.IsAtLeast("V0_11_0_0"), false}
	reg.Cut = func(from, to *ssa.BasicBlock) bool { return Establishes(from, to, notV2) }
	trunc := p.CallTo("(time.Time).Truncate")
	n := 0
	for _, s := range Info(fn).Find(StoreTo(nil, "Record.TimestampDelta")) {
		n++
		it, path := reg.Reach(IsItem(s), trunc)
		c.Check(it.IsZero(), rule, fn, "delta-of-floored-timestamps", s.Instr(), "on the record path the message timestamp is floored to milliseconds before the delta is taken", "a record's TimestampDelta can be computed from a message timestamp that was not floored with time.Time.Truncate(time.Millisecond) on the record-batch path: Record.encode divides the delta by time.Millisecond, and Go's integer division — like time.Duration.Truncate — rounds toward ZERO, not toward the past: for a record older than the batch's first message by a non-whole number of milliseconds the delta comes out 1 ms too large and the log holds a timestamp 1 ms later than the one supplied (floor(b) − floor(a) is exact; trunc(b − floor(a)) is not)", path)
		// and nothing re-rounds the difference
		st, _ := s.In.(*ssa.Store)
		if st == nil {
			continue
		}
		var bad ssa.Instruction
		seen := map[ssa.Value]bool{}
		var walk func(v ssa.Value, d int)
		walk = func(v ssa.Value, d int) {
			if v == nil || seen[v] || d > 8 {
				return
			}
			seen[v] = true
			v = strip(throughCell(v))
			switch x := v.(type) {
			case *ssa.Phi:
				for _, e := range x.Edges {
					walk(e, d+1)
				}
			case *ssa.Call:
				switch p.CalleeName(&x.Call) {
				case "(time.Duration).Truncate", "(time.Duration).Round":
					bad = x
				}
			case *ssa.BinOp:
				if x.Op == token.QUO || x.Op == token.REM {
					bad = x
				}
				walk(x.X, d+1)
				walk(x.Y, d+1)
			}
		}
		walk(st.Val, 0)
		c.Check(bad == nil, rule, fn, "delta-not-rerounded", bad, "the delta stored is not rounded again", "the TimestampDelta stored went through time.Duration.Truncate/Round or an integer division: those round toward zero (or to nearest), which for a negative delta is 1 ms later than flooring the two timestamps first", nil)
	}
	if n == 0 {
		c.Unresolved(rule, "store of Record.TimestampDelta in produceSet.add")
	}
}

// C12.dying / shutdown-arm-leaves-the-loop: taking the shutdown case of a select ends the waiting.
func shutdownArmLeaves(c *Ctx, names ...string) {
	rule := "C12.dying"
	for _, name := range names {
		fn := c.NeedFn(rule, name)
		if fn == nil {
			continue
		}
		chans := dyingTable[name]
		fi := Info(fn)
		reg := WholeFn(fn)
		fi.Each(func(it Item) {
			if it.Sel == nil || !it.Sel.Blocking {
				return
			}
			st := it.Sel.States[it.Case]
			isCtxDone := func(v ssa.Value) bool {
				cl, ok := strip(v).(*ssa.Call)
				return ok && cl.Call.IsInvoke() && cl.Call.Method.Name() == "Done"
			}
			if st.Dir != types.RecvOnly || !(FieldLoad(chans...)(st.Chan) || isCtxDone(st.Chan)) {
				return
			}
			sel := it.Sel
			r := *reg.From(it.After())
			// the select sits in an immediately-invoked literal that reports "keep going" (a loop step inlined
			// back into `for step() {}`): where every return reachable from the arm yields the same constant,
			// the caller's branch on the call takes that side only
			if g := sel.Parent(); g != nil {
				if cl := iifeCall(g); cl != nil {
					if k, ok := constReturnFrom(it.To, sel); ok {
						if iff, isIf := lastInstr(cl.Block()).(*ssa.If); isIf && strip(iff.Cond) == ssa.Value(cl) && len(cl.Block().Succs) == 2 {
							dead := cl.Block().Succs[0]
							if k {
								dead = cl.Block().Succs[1]
							}
							from := cl.Block()
							r.Cut = func(a, b *ssa.BasicBlock) bool { return a == from && b == dead }
						}
					}
				}
			}
			back, path := r.Reach(func(x Item) bool { return x.In == ssa.Instruction(sel) }, nil)
			c.Check(back.IsZero(), rule, fn, "shutdown-arm-leaves-the-loop", sel, "after the shutdown case is taken the same select is not entered again", "after the case on "+strings.Join(chans, "/")+" is taken "+name+" can come back to the very same select: a closed channel is always ready, so the goroutine spins on it and never reaches what it has to do on the way out (its deferred session.cancel(), a close, a Done) — for a session without claims this watcher is the only thing that turns Close() into the end of the session: Consume never returns, and Close deadlocks behind it", path)
		})
	}
}

func c07ShutdownArmLeaves(c *Ctx) {
	shutdownArmLeaves(c, "consumerGroup.loopCheckPartitionNumbers", "consumerGroupSession.heartbeatLoop", "consumerGroup.retryNewSession")
}

func c12ShutdownArmLeaves(c *Ctx) {
	// not armed for partitionConsumer.dispatcher (its dying arm closes pc.trigger, which ends the `range pc.trigger`
	// the select sits in) and partitionConsumer.responseFeeder (its dying arm keeps draining pc.feeder on purpose):
	// both come back to the select by design
	skip := map[string]bool{"partitionConsumer.dispatcher": true, "partitionConsumer.responseFeeder": true}
	var names []string
	for n := range dyingTable {
		if !skip[n] {
			names = append(names, n)
		}
	}
	sortStrings(names)
	shutdownArmLeaves(c, names...)
}

// C13.balance-test / score-exact: the balance score is computed without truncation.
func c13ScoreExact(c *Ctx) {
	rule := "C13.balance-test"
	fn := c.NeedFn(rule, "getBalanceScore")
	if fn == nil {
		return
	}
	var bad ssa.Instruction
	Info(fn).Each(func(it Item) {
		bo, ok := it.In.(*ssa.BinOp)
		if !ok || bad != nil {
			return
		}
		if bo.Op != token.QUO && bo.Op != token.REM && bo.Op != token.SHR {
			return
		}
		if bt, ok := bo.Type().Underlying().(*types.Basic); ok && bt.Info()&types.IsInteger != 0 {
			bad = bo
		}
	})
	c.Check(bad == nil, rule, fn, "score-exact", bad, "getBalanceScore uses no truncating integer operation", "getBalanceScore divides (or shifts) integers: a score built on a truncated mean does not drop for every genuine improvement ((3,1,1) → (2,2,1) scores 2 → 2), and stickyBalanceStrategy.balance reverts to the pre-balance snapshot whenever the score did not strictly drop — the snapshot lacks the members set aside as fixed, so a member that is the only subscriber of its topic disappears from the plan and its partitions are assigned to nobody", nil)
}

// C13.sorted-order / heap-initialised: the member queue is a heap before it is used as one.
func c13HeapInitialised(c *Ctx) {
	p := c.P
	rule := "C13.sort-round"
	fn := c.NeedFn(rule, "sortPartitions")
	if fn == nil {
		return
	}
	isHeap := func(names ...string) Ev {
		return func(it Item) bool {
			cc, ok := callCommon(it)
			if !ok {
				return false
			}
			f := cc.StaticCallee()
			if f == nil || f.Pkg == nil || f.Pkg.Pkg.Path() != "container/heap" {
				return false
			}
			for _, n := range names {
				if f.Name() == n {
					return true
				}
			}
			return false
		}
	}
	reg := WholeFn(fn)
	uses := reg.Find(isHeap("Pop", "Fix", "Remove"))
	if len(uses) == 0 {
		c.Unresolved(rule, "heap.Pop/heap.Fix in sortPartitions")
		return
	}
	// raw insertions: an element store, or the queue's own Push method called directly
	raw := func(it Item) bool {
		if cc, ok := callCommon(it); ok {
			n := p.CalleeName(cc)
			return strings.HasSuffix(n, "assignmentPriorityQueue.Push")
		}
		if st, ok := it.In.(*ssa.Store); ok {
			if ia, ok := st.Addr.(*ssa.IndexAddr); ok {
				return strings.Contains(ia.X.Type().String(), "assignmentPriorityQueue")
			}
		}
		return false
	}
	if len(reg.Find(raw)) == 0 {
		c.Check(true, rule, fn, "heap-initialised", nil, "the queue is filled through container/heap only", "", nil)
		return
	}
	for _, u := range uses {
		it, path := reg.MustPrecede(isHeap("Init"), IsItem(u))
		c.Check(it.IsZero(), rule, fn, "heap-initialised", u.Instr(), "heap.Init precedes every heap.Pop/heap.Fix on a queue that is filled directly", "the member queue of sortPartitions is filled directly (element stores, or the queue's own Push method — a plain append, not heap.Push) and heap.Pop/heap.Fix can run without heap.Init before: the queue then sits in map-iteration order, its root is whichever member the map yields first and not the most loaded one, the partitions are offered in a different order on every run and — with an uneven previous plan and a joiner — a surplus partition goes to an old member instead of the joiner: partitions move between old members", path)
	}
}

// C15.pair / topic-table-rebuilt: a refreshed topic's partition table is a new map.
func c15TopicTableRebuilt(c *Ctx) {
	rule := "C15.pair"
	fn := c.NeedFn(rule, "client.updateMetadata")
	if fn == nil {
		return
	}
	n := 0
	Info(fn).Each(func(it Item) {
		mu, ok := it.In.(*ssa.MapUpdate)
		if !ok || !FieldLoad("client.metadata")(mu.Map) {
			return
		}
		n++
		var bad ssa.Value
		seen := map[ssa.Value]bool{}
		var walk func(v ssa.Value, d int)
		walk = func(v ssa.Value, d int) {
			if v == nil || seen[v] || d > 8 {
				return
			}
			seen[v] = true
			v = strip(v)
			switch x := v.(type) {
			case *ssa.MakeMap:
			case *ssa.Phi:
				for _, e := range x.Edges {
					walk(e, d+1)
				}
			case *ssa.UnOp:
				if al, ok := x.X.(*ssa.Alloc); ok && x.Op == token.MUL {
					for _, r := range *al.Referrers() {
						if st, ok := r.(*ssa.Store); ok && st.Addr == ssa.Value(al) {
							walk(st.Val, d+1)
						}
					}
					return
				}
				bad = v
			case *ssa.Const:
				if !x.IsNil() {
					bad = v
				}
			default:
				bad = v
			}
		}
		walk(mu.Value, 0)
		what := ""
		if bad != nil {
			what = describe(bad)
		}
		c.Check(bad == nil, rule, fn, "topic-table-rebuilt", mu, "the table stored for a refreshed topic is a map made for this response", "the partition table stored into client.metadata for a refreshed topic can be a map that existed before ("+what+" — e.g. the old table, looked up before the delete and reused \"to save the allocation\"): partition ids of the previous response that the newest one no longer lists survive in it, so after a topic was re-created smaller Partitions/WritablePartitions still list the removed ids and Leader/Replicas answer for them from stale data", nil)
	})
	if n == 0 {
		c.Unresolved(rule, "client.metadata[topic] = … in updateMetadata")
	}
}

// C18.chain / config-slices-not-written: the library does not write into the caller's Config.
func c18ConfigSliceNotWritten(c *Ctx) {
	p := c.P
	rule := "C18.once-producer"
	// values that are (re-slices of) a slice read out of a Config
	var fromConfig func(v ssa.Value, d int, seen map[ssa.Value]bool) bool
	fromConfig = func(v ssa.Value, d int, seen map[ssa.Value]bool) bool {
		if v == nil || seen[v] || d > 8 {
			return false
		}
		seen[v] = true
		v = strip(v)
		if isFieldRead(v) {
			ch := fieldChain(v)
			inConfig := false
			for _, l := range ch {
				if l.owner == "Config" {
					inConfig = true
				}
			}
			if inConfig {
				if _, ok := v.Type().Underlying().(*types.Slice); ok {
					return true
				}
			}
		}
		switch x := v.(type) {
		case *ssa.Slice:
			return fromConfig(x.X, d+1, seen)
		case *ssa.Phi:
			for _, e := range x.Edges {
				if fromConfig(e, d+1, seen) {
					return true
				}
			}
		case *ssa.UnOp:
			if x.Op == token.MUL {
				if fa, ok := x.X.(*ssa.FieldAddr); ok {
					// a struct field of the library that was assigned such a slice in the same function
					for _, b := range x.Parent().Blocks {
						for _, in := range b.Instrs {
							if st, ok := in.(*ssa.Store); ok {
								if fa2, ok := st.Addr.(*ssa.FieldAddr); ok && fa2.Field == fa.Field && sameValue(fa2.X, fa.X) {
									if fromConfig(st.Val, d+1, seen) {
										return true
									}
								}
							}
						}
					}
				}
				if w := hoistedValue(x); w != ssa.Value(x) {
					return fromConfig(w, d+1, seen)
				}
			}
		case *ssa.Call:
			if b, ok := x.Call.Value.(*ssa.Builtin); ok && b.Name() == "append" && len(x.Call.Args) > 0 {
				return fromConfig(x.Call.Args[0], d+1, seen)
			}
		}
		return false
	}
	n := 0
	for _, fn := range p.Fns {
		if fn.Blocks == nil || rootOf(fn).Pkg != p.Sarama || p.inFile(fn, "config.go") {
			continue
		}
		Info(fn).Each(func(it Item) {
			switch x := it.In.(type) {
			case *ssa.Call:
				if b, ok := x.Call.Value.(*ssa.Builtin); ok && b.Name() == "append" && len(x.Call.Args) > 0 {
					n++
					bad := fromConfig(x.Call.Args[0], 0, map[ssa.Value]bool{})
					if bad {
						c.Fail(rule, fn, "config-slices-not-written", x, "append to a slice that is (a re-slice of) a slice field of the caller's Config — e.g. the filter-in-place idiom `kept := conf.Producer.Interceptors[:0]`: the survivors are written over the caller's array while the Config's own slice keeps its length ([A nil B] becomes [A B B]); the next producer built from the same Config runs interceptor B twice on every message", nil)
					}
				}
			case *ssa.Store:
				if ia, ok := x.Addr.(*ssa.IndexAddr); ok {
					if fromConfig(ia.X, 0, map[ssa.Value]bool{}) {
						c.Fail(rule, fn, "config-slices-not-written", x, "an element of a slice field of the caller's Config is overwritten", nil)
					}
				}
			}
		})
	}
	c.Check(n > 0, rule, nil, "config-slices-not-written:scanned", nil, "every append and element store of the package was looked at", "no append found in the package (loader problem)", nil)
}

// constReturnFrom: every return of the function reachable from block b (without passing the select again) returns
// the same boolean constant.
func constReturnFrom(b *ssa.BasicBlock, sel *ssa.Select) (bool, bool) {
	seen := map[*ssa.BasicBlock]bool{}
	var vals []bool
	ok := true
	var walk func(x *ssa.BasicBlock)
	walk = func(x *ssa.BasicBlock) {
		if seen[x] || !ok {
			return
		}
		seen[x] = true
		for _, in := range x.Instrs {
			if in == ssa.Instruction(sel) {
				ok = false
				return
			}
		}
		if r, isRet := lastInstr(x).(*ssa.Return); isRet {
			if len(r.Results) != 1 {
				ok = false
				return
			}
			c, isC := r.Results[0].(*ssa.Const)
			if !isC || c.Value == nil || c.Value.Kind() != constant.Bool {
				ok = false
				return
			}
			vals = append(vals, constant.BoolVal(c.Value))
			return
		}
		for _, s := range x.Succs {
			walk(s)
		}
	}
	walk(b)
	if !ok || len(vals) == 0 {
		return false, false
	}
	for _, v := range vals {
		if v != vals[0] {
			return false, false
		}
	}
	return vals[0], true
}

// C09.prep-real / size:varintLengthField.reserveLength: the room reserved for a varint length is what the varint takes.
func c09VarintReserve(c *Ctx) {
	p := c.P
	rule := "C09.prep-real"
	fn := c.NeedFn(rule, "varintLengthField.reserveLength")
	if fn == nil {
		return
	}
	ok := true
	n := 0
	for _, b := range fn.Blocks {
		r, isRet := lastInstr(b).(*ssa.Return)
		if !isRet {
			continue
		}
		for _, v := range RetVals(r) {
			n++
			cl, isCall := strip(throughCell(v)).(*ssa.Call)
			if !isCall || p.CalleeName(&cl.Call) != "encoding/binary.PutVarint" || len(cl.Call.Args) != 2 || !FieldLoad("varintLengthField.length")(cl.Call.Args[1]) {
				ok = false
			}
		}
	}
	c.Check(ok && n > 0, rule, fn, "size:varintLengthField.reserveLength", nil, "reserveLength returns binary.PutVarint(scratch, l.length) — the size of the very encoding run() writes", "varintLengthField.reserveLength does not return what binary.PutVarint reports for l.length (a hand-written size computation cannot be compared with the encoder's: e.g. `for ux > 0x80` instead of `>= 0x80` reserves one byte too few exactly where the zig-zag value is a power of 128 — a record whose body is 64 or 8192..8255 bytes long): the 2-byte length is written into a 1-byte slot over the record's attributes, the batch is one byte short, length and CRC are computed over the garbled bytes and look valid — the broker stores a batch whose records do not parse and the producer reports success for a message that is not in the log", nil)
}

// C13.sticky-kept / userdata-fallback-on-empty: a member without static user data forwards what it got at its last sync.
func c13UserDataFallback(c *Ctx) {
	rule := "C13.sticky-kept"
	fn := c.NeedFn(rule, "consumerGroup.joinGroupRequest")
	if fn == nil {
		return
	}
	cfg := FieldLoad("Config.Consumer.Group.Member.UserData")
	n := 0
	Info(fn).Each(func(it Item) {
		st, ok := it.In.(*ssa.Store)
		if !ok || !StoreTo(nil, "ConsumerGroupMemberMetadata.UserData")(it) {
			return
		}
		n++
		v := strip(throughCell(st.Val))
		ph, isPhi := v.(*ssa.Phi)
		if !isPhi {
			c.Check(!cfg(v), rule, fn, "userdata-fallback-on-empty", st, "", "the member metadata always carries the static Member.UserData, the user data of the last sync is never forwarded: the sticky leader has no previous plan to keep", nil)
			return
		}
		hasLast := false
		for i, e := range ph.Edges {
			if FieldLoad("consumerGroup.userData")(e) {
				hasLast = true
			}
			if !cfg(e) {
				continue
			}
			from, to := ph.Block().Preds[i], ph.Block()
			nonEmpty := AnyOf{Cmp{token.NEQ, LenOf(cfg), ConstInt(0)}, Cmp{token.GTR, LenOf(cfg), ConstInt(0)}}
			ok := Establishes(from, to, nonEmpty)
			c.Check(ok, rule, fn, "userdata-fallback-on-empty", st, "the static Member.UserData is sent only where it is non-empty (len > 0)", "the static Member.UserData is used wherever it is non-nil, also when it is EMPTY ([]byte(\"\"), []byte(os.Getenv(\"UNSET\"))): the member then never forwards the user data it received at its last sync and sends a zero-length, non-nil blob instead, which the sticky leader cannot decode ('insufficient data to decode packet') — Plan fails instead of returning the previous plan", nil)
		}
		c.Check(hasLast, rule, fn, "userdata-fallback-on-empty:last-sync", st, "the user data of the last sync is one of the values sent", "the user data received at the last sync (c.userData) is never sent in the next join: the sticky strategy loses its previous plan", nil)
	})
	if n == 0 {
		c.Unresolved(rule, "store of ConsumerGroupMemberMetadata.UserData in joinGroupRequest")
	}
}

// C05.seq-once / stamp-atomic: sequence number and epoch of a stamp are read in one critical section.
func c05StampAtomic(c *Ctx) {
	rule := "C05.seq-once"
	fn := c.NeedFn(rule, "transactionManager.getAndIncrementSequenceNumber")
	if fn == nil {
		return
	}
	at := acquisitionsAt(fn)
	site := func(in ssa.Instruction) ssa.Instruction {
		for d := 0; d < 6 && in != nil && in.Parent() != fn; d++ {
			cl := iifeCall(in.Parent())
			if cl == nil {
				return nil
			}
			in = cl
		}
		return in
	}
	type touch struct {
		in   ssa.Instruction
		what string
		base ssa.Value
	}
	var touches []touch
	// everything the function (with helpers one level down) does to the two fields
	for _, f := range c.P.withHelpers(fn, 1) {
		if f != fn && rootOf(f) != fn {
			// a helper that was not inlined back: what it touches happens at its call site
			var calls []ssa.Instruction
			Info(fn).Each(func(it Item) {
				if cl, ok := it.In.(*ssa.Call); ok && cl.Call.StaticCallee() == f {
					calls = append(calls, cl)
				}
			})
			touchesField := false
			Info(f).Each(func(it Item) {
				for _, op := range it.In.Operands(nil) {
					if fa, ok := (*op).(*ssa.FieldAddr); ok {
						if o, n, _, ok := ownerField(fa); ok && o == "transactionManager" && (n == "sequenceNumbers" || n == "producerEpoch") {
							touchesField = true
						}
					}
				}
			})
			if touchesField {
				for _, cl := range calls {
					touches = append(touches, touch{cl, "call of " + c.P.Name(f), canon(fn.Params[0])})
				}
			}
			continue
		}
		Info(f).Each(func(it Item) {
			for _, op := range it.In.Operands(nil) {
				if fa, ok := (*op).(*ssa.FieldAddr); ok {
					if o, n, base, ok := ownerField(fa); ok && o == "transactionManager" && (n == "sequenceNumbers" || n == "producerEpoch") {
						if s := site(it.In); s != nil {
							touches = append(touches, touch{s, n, base})
						}
					}
				}
			}
		})
	}
	if len(touches) < 2 {
		c.Unresolved(rule, "reads of sequenceNumbers and producerEpoch in getAndIncrementSequenceNumber")
		return
	}
	acq := map[ssa.Instruction]bool{}
	bad := ""
	var badAt ssa.Instruction
	for _, t := range touches {
		cur := at[t.in][lockKey{t.base, "mutex"}]
		switch {
		case len(cur) == 0:
			bad, badAt = t.what+" is not under the transaction manager's mutex as held by getAndIncrementSequenceNumber itself (a helper that takes the lock on its own is a critical section of its own)", t.in
		case len(cur) > 1:
			bad, badAt = t.what+" may be under different acquisitions of the mutex", t.in
		default:
			for a := range cur {
				acq[a] = true
			}
		}
	}
	if bad == "" && len(acq) > 1 {
		bad = "the sequence number and the epoch are read under different acquisitions of the mutex"
	}
	c.Check(bad == "", rule, fn, "stamp-atomic", badAt, "the sequence counter and the epoch are read (and the counter advanced) under one acquisition of t.mutex", "getAndIncrementSequenceNumber does not take the sequence number and the epoch in one critical section ("+bad+"): bumpEpoch — run by another partition's failure — can slip in between, and the stamp is torn: a sequence number of the old epoch with the new epoch.  The first batch of the new epoch then does not start at 0 (OutOfOrderSequenceNumber, which bumps again), or two messages carry (0, E+1) and the second is answered DuplicateSequenceNumber — reported successful without being in the log", nil)
}

// C19.verdict / failure-ends-the-fan-out: a broker that fails fails the operation.
func c19FailureEndsFanOut(c *Ctx) {
	p := c.P
	rule := "C19.verdict"
	n := 0
	for _, fn := range p.Fns {
		if fn.Blocks == nil || fn.Parent() != nil || !p.inFile(fn, "admin.go") {
			continue
		}
		fi := Info(fn)
		reg := WholeFn(fn)
		for _, b := range fn.Blocks {
			l := fi.InnermostLoop(b)
			if l == nil {
				continue
			}
			for _, in := range b.Instrs {
				cl, ok := in.(*ssa.Call)
				if !ok || cl.Call.IsInvoke() {
					continue
				}
				callee := cl.Call.StaticCallee()
				if callee == nil || callee.Signature.Recv() == nil || !isPtrToNamed(callee.Signature.Recv().Type(), "Broker") {
					continue
				}
				res := callee.Signature.Results()
				if res.Len() != 2 || res.At(1).Type().String() != "error" {
					continue
				}
				// the error of this call: the extract, or the variable it is stored into
				isErr := func(v ssa.Value) bool {
					v = strip(v)
					if ex, ok := v.(*ssa.Extract); ok && ex.Tuple == ssa.Value(cl) && ex.Index == 1 {
						return true
					}
					if u, ok := v.(*ssa.UnOp); ok && u.Op == token.MUL {
						if al, ok := u.X.(*ssa.Alloc); ok {
							for _, r := range *al.Referrers() {
								if st, ok := r.(*ssa.Store); ok && st.Addr == ssa.Value(al) {
									if ex, ok := strip(st.Val).(*ssa.Extract); ok && ex.Tuple == ssa.Value(cl) && ex.Index == 1 {
										return true
									}
								}
							}
						}
					}
					return false
				}
				edges := reg.EstablishingEdges(Cmp{token.NEQ, isErr, IsNil()})
				for _, e := range edges {
					if !l.Blocks[e.From] {
						continue
					}
					n++
					head := l.Head
					// … or the error is put aside (appended to a list of errors, sent on a channel) before going on
					kept := func(x Item) bool {
						if cl2, ok := x.In.(*ssa.Call); ok {
							if b, ok := cl2.Call.Value.(*ssa.Builtin); ok && b.Name() == "append" {
								for _, a := range cl2.Call.Args[1:] {
									if isErr(a) {
										return true
									}
									// append(errs, err) passes the element through a one-element slice
									if sl, ok := a.(*ssa.Slice); ok {
										if al, ok := sl.X.(*ssa.Alloc); ok {
											for _, r := range *al.Referrers() {
												if ia, ok := r.(*ssa.IndexAddr); ok {
													for _, r2 := range *ia.Referrers() {
														if st, ok := r2.(*ssa.Store); ok && isErr(st.Val) {
															return true
														}
													}
												}
											}
										}
									}
								}
							}
						}
						if snd, ok := x.In.(*ssa.Send); ok && isErr(snd.X) {
							return true
						}
						return false
					}
					it, path := reg.From(Pt{e.To, 0}).Reach(func(x Item) bool {
						return x.In != nil && x.In.Block() == head && x.In == head.Instrs[0]
					}, kept)
					c.Check(it.IsZero(), rule, fn, "failure-ends-the-fan-out:"+callee.Name(), cl, "where a broker's request failed the loop over the brokers is left, or the error is put aside in a list before the next broker is asked", "after "+p.Name(callee)+" failed for one broker "+p.Name(fn)+" goes on with the next one: whatever error variable it keeps is overwritten by the next broker's verdict, and with the map's random iteration order a healthy broker visited after the failed one turns the failure into success — the operation reports nil with a silently incomplete result", path)
				}
			}
		}
	}
	c.Check(n > 0, rule, nil, "failure-ends-the-fan-out:instances", nil, "synchronous per-broker loops found in admin.go", "no synchronous per-broker request loop found in admin.go (anchor drifted)", nil)
}

// a deferred Unlock inside a loop: the unlock runs when the FUNCTION returns, the next iteration locks again.
func deferUnlockInLoopRule(c *Ctx, rule string, files []string) {
	p := c.P
	n := 0
	for _, fn := range p.Fns {
		if fn.Blocks == nil || rootOf(fn).Pkg == nil || (rootOf(fn).Pkg != p.Sarama && rootOf(fn).Pkg != p.Mocks) {
			continue
		}
		if files != nil {
			in := false
			for _, f := range files {
				if p.inFile(fn, f) {
					in = true
				}
			}
			if !in {
				continue
			}
		}
		fi := Info(fn)
		for _, b := range fn.Blocks {
			for _, in := range b.Instrs {
				d, ok := in.(*ssa.Defer)
				if !ok {
					continue
				}
				switch p.CalleeName(&d.Call) {
				case "(*sync.Mutex).Unlock", "(*sync.RWMutex).Unlock", "(*sync.RWMutex).RUnlock":
				default:
					continue
				}
				n++
				l := fi.InnermostLoop(b)
				c.Check(l == nil, rule, fn, "no-deferred-unlock-in-a-loop", d, "the deferred unlock is not inside a loop", "`defer mu.Unlock()` inside a loop body: the unlock runs when the function (or function literal) returns, not at the end of the iteration — the second iteration locks a mutex the first one still holds and blocks for ever.  In the final flush loop of offsetManager.Close that is the second attempt: one rejected commit and Close never returns, the latest mark never reaches the coordinator that would accept it", nil)
			}
		}
	}
	_ = n
}

func c06DeferUnlockInLoop(c *Ctx) {
	deferUnlockInLoopRule(c, "C06.lock", []string{"offset_manager.go", "consumer_group.go"})
}
func c12DeferUnlockInLoop(c *Ctx) { deferUnlockInLoopRule(c, "C12.pairing", nil) }

// recursive acquisition: a method that takes a lock of its receiver is called while that very lock is held.
func recursiveLockRule(c *Ctx, rule string, files []string) {
	p := c.P
	takes := func(cl *ssa.Call) (lockKey, string, bool) {
		cal := cl.Call.StaticCallee()
		if cal == nil || cal.Blocks == nil || cal.Signature.Recv() == nil || len(cal.Params) == 0 || len(cl.Call.Args) == 0 {
			return lockKey{}, "", false
		}
		recv := canon(cal.Params[0])
		for _, b := range cal.Blocks {
			for _, i := range b.Instrs {
				if _, isDefer := i.(*ssa.Defer); isDefer {
					continue
				}
				if k, op, ok := lockOp(i); ok && (op == "Lock" || op == "RLock") && k.base == recv {
					return lockKey{canon(cl.Call.Args[0]), k.lock}, op, true
				}
			}
		}
		return lockKey{}, "", false
	}
	n := 0
	for _, fn := range p.Fns {
		if fn.Blocks == nil || rootOf(fn).Pkg == nil || (rootOf(fn).Pkg != p.Sarama && rootOf(fn).Pkg != p.Mocks) {
			continue
		}
		if files != nil {
			in := false
			for _, f := range files {
				if p.inFile(fn, f) {
					in = true
				}
			}
			if !in {
				continue
			}
		}
		var at map[ssa.Instruction]acqState
		for _, b := range fn.Blocks {
			for _, in := range b.Instrs {
				cl, ok := in.(*ssa.Call)
				if !ok {
					continue
				}
				k, op, ok := takes(cl)
				if !ok {
					continue
				}
				if at == nil {
					at = acquisitionsAt(fn)
				}
				n++
				held := at[cl][k]
				c.Check(len(held) == 0, rule, fn, "no-recursive-acquisition:"+k.lock, cl, "the callee's lock is not already held at the call", p.Name(fn)+" calls "+p.CalleeName(&cl.Call)+", which takes "+k.lock+"."+op+"(), while it already holds that lock itself: sync.(RW)Mutex is not re-entrant — a second Lock blocks at once, and a second RLock blocks as soon as a writer is queued between the two (the writer waits for the outer reader, the inner reader waits behind the writer): the lock is wedged for good and every Close that needs it hangs", nil)
			}
		}
	}
	_ = n
}

func c12RecursiveLock(c *Ctx) { recursiveLockRule(c, "C12.pairing", nil) }
func c06RecursiveLock(c *Ctx) {
	recursiveLockRule(c, "C06.lock", []string{"offset_manager.go", "consumer_group.go"})
}
func c15RecursiveLock(c *Ctx) { recursiveLockRule(c, "C15.lock", []string{"client.go"}) }

// C15.sorted-writable / empty-not-nil: for a topic the client knows, setPartitionCache returns a list — possibly
// empty — never nil (WritablePartitions tells "unknown topic" from "no writable partition" by nil).
func c15EmptyNotNil(c *Ctx) {
	rule := "C15.sorted-writable"
	fn := c.NeedFn(rule, "client.setPartitionCache")
	if fn == nil {
		return
	}
	reg := WholeFn(fn)
	unknown := Cmp{token.EQL, func(v ssa.Value) bool {
		lk, ok := strip(v).(*ssa.Lookup)
		return ok && FieldLoad("client.metadata")(lk.X)
	}, IsNil()}
	n := 0
	for _, r := range reg.Find(IsReturn()) {
		ret := r.In.(*ssa.Return)
		rv := RetVals(ret)
		if len(rv) == 0 || IsRecoverBlock(ret.Block()) {
			continue
		}
		n++
		// can the value be nil?  Leaves through φ and append's first operand
		canBeNil := false
		seen := map[ssa.Value]bool{}
		var walk func(v ssa.Value, d int)
		walk = func(v ssa.Value, d int) {
			if v == nil || seen[v] || d > 10 {
				return
			}
			seen[v] = true
			switch x := strip(throughCell(v)).(type) {
			case *ssa.Phi:
				for i, e := range x.Edges {
					// nil carried in over an edge on which the topic was found unknown is the permitted nil
					if cst, isC := e.(*ssa.Const); isC && cst.IsNil() && i < len(x.Block().Preds) {
						pred := x.Block().Preds[i]
						if Establishes(pred, x.Block(), unknown) {
							continue
						}
						if g, _ := reg.Guarded(Item{In: lastInstr(pred)}, unknown); g {
							continue
						}
					}
					walk(e, d+1)
				}
			case *ssa.Call:
				if b, ok := x.Call.Value.(*ssa.Builtin); ok && b.Name() == "append" && len(x.Call.Args) > 0 {
					// append(nil-or-x, …) is nil only if x is and nothing was appended — keep following x
					walk(x.Call.Args[0], d+1)
				}
			case *ssa.Const:
				if x.IsNil() {
					canBeNil = true
				}
			case *ssa.Slice:
				walk(x.X, d+1)
			}
		}
		walk(rv[0], 0)
		if !canBeNil {
			c.Check(true, rule, fn, "empty-not-nil", ret, "the list returned is made, not nil", "", nil)
			continue
		}
		g, path := reg.Guarded(r, unknown)
		c.Check(g, rule, fn, "empty-not-nil", ret, "nil is returned only for a topic that is not in the metadata", "setPartitionCache can return nil for a topic that IS in the metadata (a list declared `var ret []int32` and only appended to): with no writable partition the writable list is nil, and WritablePartitions reports ErrUnknownTopicOrPartition where it should report an empty list — a topic whose partitions are all in leader election looks deleted", path)
	}
	if n == 0 {
		c.Unresolved(rule, "returns of setPartitionCache")
	}
}
