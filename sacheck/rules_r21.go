package main

import (
	"go/token"
	"go/types"
	"strings"

	"golang.org/x/tools/go/ssa"
)

// Rules from the second round of language-level traps (round 21): typed nil into a pool, rounding direction of
// time.Duration, a shutdown arm that does not leave its loop, truncating arithmetic in the balance score, a heap
// filled behind container/heap's back, a map reused instead of rebuilt, the caller's Config slice written in place.

// C10.pool-nil / no-nil-into-pool: what goes back into a pool is an object.
func c10NoNilIntoPool(c *Ctx) {
	p := c.P
	rule := "C09.pool-once"
	for _, name := range []string{"decompress", "compress"} {
		fn := c.NeedFn(rule, name)
		if fn == nil {
			continue
		}
		reg := WholeFn(fn)
		Info(fn).Each(func(it Item) {
			var cc *ssa.CallCommon
			switch x := it.In.(type) {
			case *ssa.Call:
				cc = &x.Call
			case *ssa.Defer:
				cc = &x.Call
			}
			if cc == nil || p.CalleeName(cc) != "(*sync.Pool).Put" || len(cc.Args) != 2 {
				return
			}
			// can the object be the first result of a (T, error) call?
			var ctor *ssa.Call
			seen := map[ssa.Value]bool{}
			var walk func(v ssa.Value, d int)
			walk = func(v ssa.Value, d int) {
				if v == nil || seen[v] || d > 8 {
					return
				}
				seen[v] = true
				v = strip(v)
				switch x := v.(type) {
				case *ssa.Phi:
					for _, e := range x.Edges {
						walk(e, d+1)
					}
				case *ssa.Extract:
					if cl, ok := x.Tuple.(*ssa.Call); ok && x.Index == 0 {
						if tup, ok := cl.Type().(*types.Tuple); ok && tup.Len() == 2 && tup.At(1).Type().String() == "error" {
							ctor = cl
						}
					}
				case *ssa.UnOp:
					if w := throughCell(x); w != ssa.Value(x) {
						walk(w, d+1)
					} else if al, ok := x.X.(*ssa.Alloc); ok && x.Op == token.MUL {
						for _, r := range *al.Referrers() {
							if st, ok := r.(*ssa.Store); ok && st.Addr == ssa.Value(al) {
								walk(st.Val, d+1)
							}
						}
					}
				}
			}
			walk(cc.Args[1], 0)
			if ctor == nil {
				return
			}
			isErr := func(v ssa.Value) bool { return v.Type().String() == "error" }
			g, path := reg.Guarded(it, Cmp{token.EQL, isErr, IsNil()})
			c.Check(g, rule, fn, "no-nil-into-pool", it.In, "an object that may come from a failed constructor is put into the pool only where the error was found nil", "the object handed to (*sync.Pool).Put can be the first result of "+describeCall(p, ctor)+" and the Put is reached also where that call failed: the constructor returns a nil pointer then, the pool keeps it as a non-nil interface value, and the next Get().(*T) succeeds with a nil *T — the next payload of that codec panics in Reset (nil pointer dereference) in the consumer's broker worker, for whatever partition or consumer happens to decode next", path)
		})
	}
}

// C04.deltas / delta-of-floored-timestamps: a record's delta is a difference of whole milliseconds.
func c04DeltaOfFloored(c *Ctx) {
	p := c.P
	rule := "C04.deltas"
	fn := c.NeedFn(rule, "produceSet.add")
	if fn == nil {
		return
	}
	reg := *WholeFn(fn)
	notV2 := Truth{p.IsAtLeast("V0_11_0_0"), false}
	reg.Cut = func(from, to *ssa.BasicBlock) bool { return Establishes(from, to, notV2) }
	trunc := p.CallTo("(time.Time).Truncate")
	n := 0
	for _, s := range Info(fn).Find(StoreTo(nil, "Record.TimestampDelta")) {
		n++
		it, path := reg.Reach(IsItem(s), trunc)
		c.Check(it.IsZero(), rule, fn, "delta-of-floored-timestamps", s.Instr(), "on the record path the message timestamp is floored to milliseconds before the delta is taken", "a record's TimestampDelta can be computed from a message timestamp that was not floored with time.Time.Truncate(time.Millisecond) on the record-batch path: Record.encode divides the delta by time.Millisecond, and Go's integer division — like time.Duration.Truncate — rounds toward ZERO, not toward the past: for a record older than the batch's first message by a non-whole number of milliseconds the delta comes out 1 ms too large and the log holds a timestamp 1 ms later than the one supplied (floor(b) − floor(a) is exact; trunc(b − floor(a)) is not)", path)
		// and nothing re-rounds the difference
		st, _ := s.In.(*ssa.Store)
		if st == nil {
			continue
		}
		var bad ssa.Instruction
		seen := map[ssa.Value]bool{}
		var walk func(v ssa.Value, d int)
		walk = func(v ssa.Value, d int) {
			if v == nil || seen[v] || d > 8 {
				return
			}
			seen[v] = true
			v = strip(throughCell(v))
			switch x := v.(type) {
			case *ssa.Phi:
				for _, e := range x.Edges {
					walk(e, d+1)
				}
			case *ssa.Call:
				switch p.CalleeName(&x.Call) {
				case "(time.Duration).Truncate", "(time.Duration).Round":
					bad = x
				}
			case *ssa.BinOp:
				if x.Op == token.QUO || x.Op == token.REM {
					bad = x
				}
				walk(x.X, d+1)
				walk(x.Y, d+1)
			}
		}
		walk(st.Val, 0)
		c.Check(bad == nil, rule, fn, "delta-not-rerounded", bad, "the delta stored is not rounded again", "the TimestampDelta stored went through time.Duration.Truncate/Round or an integer division: those round toward zero (or to nearest), which for a negative delta is 1 ms later than flooring the two timestamps first", nil)
	}
	if n == 0 {
		c.Unresolved(rule, "store of Record.TimestampDelta in produceSet.add")
	}
}

// C12.dying / shutdown-arm-leaves-the-loop: taking the shutdown case of a select ends the waiting.
func shutdownArmLeaves(c *Ctx, names ...string) {
	rule := "C12.dying"
	for _, name := range names {
		fn := c.NeedFn(rule, name)
		if fn == nil {
			continue
		}
		chans := dyingTable[name]
		fi := Info(fn)
		reg := WholeFn(fn)
		fi.Each(func(it Item) {
			if it.Sel == nil || !it.Sel.Blocking {
				return
			}
			st := it.Sel.States[it.Case]
			isCtxDone := func(v ssa.Value) bool {
				cl, ok := strip(v).(*ssa.Call)
				return ok && cl.Call.IsInvoke() && cl.Call.Method.Name() == "Done"
			}
			if st.Dir != types.RecvOnly || !(FieldLoad(chans...)(st.Chan) || isCtxDone(st.Chan)) {
				return
			}
			sel := it.Sel
			back, path := reg.From(it.After()).Reach(func(x Item) bool { return x.In == ssa.Instruction(sel) }, nil)
			c.Check(back.IsZero(), rule, fn, "shutdown-arm-leaves-the-loop", sel, "after the shutdown case is taken the same select is not entered again", "after the case on "+strings.Join(chans, "/")+" is taken "+name+" can come back to the very same select: a closed channel is always ready, so the goroutine spins on it and never reaches what it has to do on the way out (its deferred session.cancel(), a close, a Done) — for a session without claims this watcher is the only thing that turns Close() into the end of the session: Consume never returns, and Close deadlocks behind it", path)
		})
	}
}

func c07ShutdownArmLeaves(c *Ctx) {
	shutdownArmLeaves(c, "consumerGroup.loopCheckPartitionNumbers", "consumerGroupSession.heartbeatLoop", "consumerGroup.retryNewSession")
}

func c12ShutdownArmLeaves(c *Ctx) {
	// not armed for partitionConsumer.dispatcher (its dying arm closes pc.trigger, which ends the `range pc.trigger`
	// the select sits in) and partitionConsumer.responseFeeder (its dying arm keeps draining pc.feeder on purpose):
	// both come back to the select by design
	skip := map[string]bool{"partitionConsumer.dispatcher": true, "partitionConsumer.responseFeeder": true}
	var names []string
	for n := range dyingTable {
		if !skip[n] {
			names = append(names, n)
		}
	}
	sortStrings(names)
	shutdownArmLeaves(c, names...)
}

// C13.balance-test / score-exact: the balance score is computed without truncation.
func c13ScoreExact(c *Ctx) {
	rule := "C13.balance-test"
	fn := c.NeedFn(rule, "getBalanceScore")
	if fn == nil {
		return
	}
	var bad ssa.Instruction
	Info(fn).Each(func(it Item) {
		bo, ok := it.In.(*ssa.BinOp)
		if !ok || bad != nil {
			return
		}
		if bo.Op != token.QUO && bo.Op != token.REM && bo.Op != token.SHR {
			return
		}
		if bt, ok := bo.Type().Underlying().(*types.Basic); ok && bt.Info()&types.IsInteger != 0 {
			bad = bo
		}
	})
	c.Check(bad == nil, rule, fn, "score-exact", bad, "getBalanceScore uses no truncating integer operation", "getBalanceScore divides (or shifts) integers: a score built on a truncated mean does not drop for every genuine improvement ((3,1,1) → (2,2,1) scores 2 → 2), and stickyBalanceStrategy.balance reverts to the pre-balance snapshot whenever the score did not strictly drop — the snapshot lacks the members set aside as fixed, so a member that is the only subscriber of its topic disappears from the plan and its partitions are assigned to nobody", nil)
}

// C13.sorted-order / heap-initialised: the member queue is a heap before it is used as one.
func c13HeapInitialised(c *Ctx) {
	p := c.P
	rule := "C13.sort-round"
	fn := c.NeedFn(rule, "sortPartitions")
	if fn == nil {
		return
	}
	isHeap := func(names ...string) Ev {
		return func(it Item) bool {
			cc, ok := callCommon(it)
			if !ok {
				return false
			}
			f := cc.StaticCallee()
			if f == nil || f.Pkg == nil || f.Pkg.Pkg.Path() != "container/heap" {
				return false
			}
			for _, n := range names {
				if f.Name() == n {
					return true
				}
			}
			return false
		}
	}
	reg := WholeFn(fn)
	uses := reg.Find(isHeap("Pop", "Fix", "Remove"))
	if len(uses) == 0 {
		c.Unresolved(rule, "heap.Pop/heap.Fix in sortPartitions")
		return
	}
	// raw insertions: an element store, or the queue's own Push method called directly
	raw := func(it Item) bool {
		if cc, ok := callCommon(it); ok {
			n := p.CalleeName(cc)
			return strings.HasSuffix(n, "assignmentPriorityQueue.Push")
		}
		if st, ok := it.In.(*ssa.Store); ok {
			if ia, ok := st.Addr.(*ssa.IndexAddr); ok {
				return strings.Contains(ia.X.Type().String(), "assignmentPriorityQueue")
			}
		}
		return false
	}
	if len(reg.Find(raw)) == 0 {
		c.Check(true, rule, fn, "heap-initialised", nil, "the queue is filled through container/heap only", "", nil)
		return
	}
	for _, u := range uses {
		it, path := reg.MustPrecede(isHeap("Init"), IsItem(u))
		c.Check(it.IsZero(), rule, fn, "heap-initialised", u.Instr(), "heap.Init precedes every heap.Pop/heap.Fix on a queue that is filled directly", "the member queue of sortPartitions is filled directly (element stores, or the queue's own Push method — a plain append, not heap.Push) and heap.Pop/heap.Fix can run without heap.Init before: the queue then sits in map-iteration order, its root is whichever member the map yields first and not the most loaded one, the partitions are offered in a different order on every run and — with an uneven previous plan and a joiner — a surplus partition goes to an old member instead of the joiner: partitions move between old members", path)
	}
}

// C15.pair / topic-table-rebuilt: a refreshed topic's partition table is a new map.
func c15TopicTableRebuilt(c *Ctx) {
	rule := "C15.pair"
	fn := c.NeedFn(rule, "client.updateMetadata")
	if fn == nil {
		return
	}
	n := 0
	Info(fn).Each(func(it Item) {
		mu, ok := it.In.(*ssa.MapUpdate)
		if !ok || !FieldLoad("client.metadata")(mu.Map) {
			return
		}
		n++
		var bad ssa.Value
		seen := map[ssa.Value]bool{}
		var walk func(v ssa.Value, d int)
		walk = func(v ssa.Value, d int) {
			if v == nil || seen[v] || d > 8 {
				return
			}
			seen[v] = true
			v = strip(v)
			switch x := v.(type) {
			case *ssa.MakeMap:
			case *ssa.Phi:
				for _, e := range x.Edges {
					walk(e, d+1)
				}
			case *ssa.UnOp:
				if al, ok := x.X.(*ssa.Alloc); ok && x.Op == token.MUL {
					for _, r := range *al.Referrers() {
						if st, ok := r.(*ssa.Store); ok && st.Addr == ssa.Value(al) {
							walk(st.Val, d+1)
						}
					}
					return
				}
				bad = v
			case *ssa.Const:
				if !x.IsNil() {
					bad = v
				}
			default:
				bad = v
			}
		}
		walk(mu.Value, 0)
		what := ""
		if bad != nil {
			what = describe(bad)
		}
		c.Check(bad == nil, rule, fn, "topic-table-rebuilt", mu, "the table stored for a refreshed topic is a map made for this response", "the partition table stored into client.metadata for a refreshed topic can be a map that existed before ("+what+" — e.g. the old table, looked up before the delete and reused \"to save the allocation\"): partition ids of the previous response that the newest one no longer lists survive in it, so after a topic was re-created smaller Partitions/WritablePartitions still list the removed ids and Leader/Replicas answer for them from stale data", nil)
	})
	if n == 0 {
		c.Unresolved(rule, "client.metadata[topic] = … in updateMetadata")
	}
}

// C18.chain / config-slices-not-written: the library does not write into the caller's Config.
func c18ConfigSliceNotWritten(c *Ctx) {
	p := c.P
	rule := "C18.once-producer"
	// values that are (re-slices of) a slice read out of a Config
	var fromConfig func(v ssa.Value, d int, seen map[ssa.Value]bool) bool
	fromConfig = func(v ssa.Value, d int, seen map[ssa.Value]bool) bool {
		if v == nil || seen[v] || d > 8 {
			return false
		}
		seen[v] = true
		v = strip(v)
		if isFieldRead(v) {
			ch := fieldChain(v)
			inConfig := false
			for _, l := range ch {
				if l.owner == "Config" {
					inConfig = true
				}
			}
			if inConfig {
				if _, ok := v.Type().Underlying().(*types.Slice); ok {
					return true
				}
			}
		}
		switch x := v.(type) {
		case *ssa.Slice:
			return fromConfig(x.X, d+1, seen)
		case *ssa.Phi:
			for _, e := range x.Edges {
				if fromConfig(e, d+1, seen) {
					return true
				}
			}
		case *ssa.UnOp:
			if x.Op == token.MUL {
				if fa, ok := x.X.(*ssa.FieldAddr); ok {
					// a struct field of the library that was assigned such a slice in the same function
					for _, b := range x.Parent().Blocks {
						for _, in := range b.Instrs {
							if st, ok := in.(*ssa.Store); ok {
								if fa2, ok := st.Addr.(*ssa.FieldAddr); ok && fa2.Field == fa.Field && sameValue(fa2.X, fa.X) {
									if fromConfig(st.Val, d+1, seen) {
										return true
									}
								}
							}
						}
					}
				}
				if w := hoistedValue(x); w != ssa.Value(x) {
					return fromConfig(w, d+1, seen)
				}
			}
		case *ssa.Call:
			if b, ok := x.Call.Value.(*ssa.Builtin); ok && b.Name() == "append" && len(x.Call.Args) > 0 {
				return fromConfig(x.Call.Args[0], d+1, seen)
			}
		}
		return false
	}
	n := 0
	for _, fn := range p.Fns {
		if fn.Blocks == nil || rootOf(fn).Pkg != p.Sarama || p.inFile(fn, "config.go") {
			continue
		}
		Info(fn).Each(func(it Item) {
			switch x := it.In.(type) {
			case *ssa.Call:
				if b, ok := x.Call.Value.(*ssa.Builtin); ok && b.Name() == "append" && len(x.Call.Args) > 0 {
					n++
					bad := fromConfig(x.Call.Args[0], 0, map[ssa.Value]bool{})
					if bad {
						c.Fail(rule, fn, "config-slices-not-written", x, "append to a slice that is (a re-slice of) a slice field of the caller's Config — e.g. the filter-in-place idiom `kept := conf.Producer.Interceptors[:0]`: the survivors are written over the caller's array while the Config's own slice keeps its length ([A nil B] becomes [A B B]); the next producer built from the same Config runs interceptor B twice on every message", nil)
					}
				}
			case *ssa.Store:
				if ia, ok := x.Addr.(*ssa.IndexAddr); ok {
					if fromConfig(ia.X, 0, map[ssa.Value]bool{}) {
						c.Fail(rule, fn, "config-slices-not-written", x, "an element of a slice field of the caller's Config is overwritten", nil)
					}
				}
			}
		})
	}
	c.Check(n > 0, rule, nil, "config-slices-not-written:scanned", nil, "every append and element store of the package was looked at", "no append found in the package (loader problem)", nil)
}
