package main

// Comparator evaluation.  A `less(i, j)` function handed to sort.Slice touches the two elements only through
// comparisons of corresponding fields, so its behaviour is a function of finitely many orderings: for every
// field f that is compared, f(elem i) is less than, equal to or greater than f(elem j).  The function is
// interpreted over all combinations of those orderings; the rule then states what the result must be.

import (
	"fmt"
	"go/constant"
	"go/token"
	"sort"
	"strings"

	"golang.org/x/tools/go/ssa"
)

type cmpModel struct {
	fields []string // compared field paths, sorted
	eval   func(ord map[string]int) (result bool, ok bool)
	why    string // set when the function is outside the interpretable fragment
}

// elemField: v loads field path `f` of element idx (0 = first index parameter, 1 = second) of the sorted slice.
func elemField(fn *ssa.Function, v ssa.Value) (idx int, field string, ok bool) {
	v = strip(v)
	var names []string
	for d := 0; d < 8; d++ {
		u, isU := v.(*ssa.UnOp)
		if isU && u.Op == token.MUL {
			switch x := u.X.(type) {
			case *ssa.FieldAddr:
				names = append(names, fieldNameOf(x.X.Type(), x.Field))
				v = x.X
				continue
			case *ssa.IndexAddr:
				for k := 0; k < 2 && k < len(fn.Params); k++ {
					if x.Index == ssa.Value(fn.Params[k]) {
						for i, j := 0, len(names)-1; i < j; i, j = i+1, j-1 {
							names[i], names[j] = names[j], names[i]
						}
						return k, strings.Join(names, "."), true
					}
				}
				return 0, "", false
			}
		}
		if f, isF := v.(*ssa.Field); isF {
			names = append(names, fieldNameOf(f.X.Type(), f.Field))
			v = f.X
			continue
		}
		if cl, isC := v.(*ssa.Call); isC && len(cl.Call.Args) == 1 && !cl.Call.IsInvoke() {
			// len(x.f) and pure single-argument helpers applied to a field: part of the key
			name := "call"
			if b, ok := cl.Call.Value.(*ssa.Builtin); ok {
				name = b.Name()
			} else if c := cl.Call.StaticCallee(); c != nil {
				name = c.Name()
			}
			names = append(names, name+"()")
			v = cl.Call.Args[0]
			continue
		}
		return 0, "", false
	}
	return 0, "", false
}

func fieldNameOf(t interface{ String() string }, i int) string {
	return fmt.Sprintf("#%d", i)
}

// buildCmpModel interprets a less-function.
func buildCmpModel(fn *ssa.Function) *cmpModel {
	m := &cmpModel{}
	if fn == nil || len(fn.Params) < 2 || len(fn.Blocks) == 0 {
		m.why = "not a two-index function"
		return m
	}
	fieldSet := map[string]bool{}
	type cmpInfo struct {
		field string
		swap  bool // X is from element j
	}
	cmps := map[*ssa.BinOp]cmpInfo{}
	for _, b := range fn.Blocks {
		for _, in := range b.Instrs {
			bo, ok := in.(*ssa.BinOp)
			if !ok {
				continue
			}
			switch bo.Op {
			case token.LSS, token.GTR, token.LEQ, token.GEQ, token.EQL, token.NEQ:
			default:
				continue
			}
			xi, xf, ok1 := elemField(fn, bo.X)
			yi, yf, ok2 := elemField(fn, bo.Y)
			if ok1 && ok2 && xf == yf && xi != yi {
				cmps[bo] = cmpInfo{xf, xi == 1}
				fieldSet[xf] = true
			}
		}
	}
	for f := range fieldSet {
		m.fields = append(m.fields, f)
	}
	sort.Strings(m.fields)
	m.eval = func(ord map[string]int) (bool, bool) {
		var evalV func(v ssa.Value, from *ssa.BasicBlock, depth int) (bool, bool)
		evalV = func(v ssa.Value, from *ssa.BasicBlock, depth int) (bool, bool) {
			if depth > 20 {
				return false, false
			}
			switch x := v.(type) {
			case *ssa.Const:
				if x.Value != nil && x.Value.Kind() == constant.Bool {
					return constant.BoolVal(x.Value), true
				}
			case *ssa.UnOp:
				if x.Op == token.NOT {
					r, ok := evalV(x.X, from, depth+1)
					return !r, ok
				}
			case *ssa.BinOp:
				if ci, ok := cmps[x]; ok {
					o := ord[ci.field]
					if ci.swap {
						o = -o
					}
					switch x.Op {
					case token.LSS:
						return o < 0, true
					case token.GTR:
						return o > 0, true
					case token.LEQ:
						return o <= 0, true
					case token.GEQ:
						return o >= 0, true
					case token.EQL:
						return o == 0, true
					case token.NEQ:
						return o != 0, true
					}
				}
			}
			return false, false
		}
		// walk the CFG
		b := fn.Blocks[0]
		var prev *ssa.BasicBlock
		phiVal := map[*ssa.Phi]bool{}
		for steps := 0; steps < 200; steps++ {
			for _, in := range b.Instrs {
				if ph, ok := in.(*ssa.Phi); ok {
					for i, pr := range b.Preds {
						if pr == prev {
							e := ph.Edges[i]
							if p2, isP := e.(*ssa.Phi); isP {
								phiVal[ph] = phiVal[p2]
							} else if r, ok := evalV(e, prev, 0); ok {
								phiVal[ph] = r
							} else {
								return false, false
							}
						}
					}
				}
			}
			val := func(v ssa.Value) (bool, bool) {
				if ph, ok := v.(*ssa.Phi); ok {
					r, has := phiVal[ph]
					return r, has
				}
				if u, ok := v.(*ssa.UnOp); ok && u.Op == token.NOT {
					if ph, ok := u.X.(*ssa.Phi); ok {
						r, has := phiVal[ph]
						return !r, has
					}
				}
				return evalV(v, prev, 0)
			}
			switch t := b.Instrs[len(b.Instrs)-1].(type) {
			case *ssa.Return:
				if len(t.Results) != 1 {
					return false, false
				}
				return val(t.Results[0])
			case *ssa.If:
				r, ok := val(t.Cond)
				if !ok {
					return false, false
				}
				prev = b
				if r {
					b = b.Succs[0]
				} else {
					b = b.Succs[1]
				}
			case *ssa.Jump:
				prev = b
				b = b.Succs[0]
			default:
				return false, false
			}
		}
		return false, false
	}
	return m
}

// primaryKeyViolations: orderings under which the comparator disagrees with "ascending by `key` first", or is not
// asymmetric.  key is matched as a suffix of the field path (e.g. "#1" for the second field).
func (m *cmpModel) primaryKeyViolations(key string) (bad []string, undecided bool) {
	if m.why != "" {
		return nil, true
	}
	hasKey := false
	for _, f := range m.fields {
		if f == key {
			hasKey = true
		}
	}
	if !hasKey {
		return []string{"the key is never compared"}, false
	}
	n := len(m.fields)
	total := 1
	for i := 0; i < n; i++ {
		total *= 3
	}
	for code := 0; code < total; code++ {
		ord := map[string]int{}
		rev := map[string]int{}
		x := code
		var desc []string
		for _, f := range m.fields {
			o := x%3 - 1
			x /= 3
			ord[f] = o
			rev[f] = -o
			desc = append(desc, fmt.Sprintf("%s:%s", f, map[int]string{-1: "<", 0: "=", 1: ">"}[o]))
		}
		r, ok := m.eval(ord)
		r2, ok2 := m.eval(rev)
		if !ok || !ok2 {
			return nil, true
		}
		switch {
		case ord[key] < 0 && !r:
			bad = append(bad, strings.Join(desc, " ")+" → less = false")
		case ord[key] > 0 && r:
			bad = append(bad, strings.Join(desc, " ")+" → less = true")
		case r && r2:
			bad = append(bad, strings.Join(desc, " ")+" → less(i,j) and less(j,i) both true")
		}
	}
	return bad, false
}

// comparedSlices: the slices a less-function indexes with its two index parameters.
func comparedSlices(fn *ssa.Function) []ssa.Value {
	var out []ssa.Value
	for _, b := range fn.Blocks {
		for _, in := range b.Instrs {
			ia, ok := in.(*ssa.IndexAddr)
			if !ok {
				continue
			}
			for k := 0; k < 2 && k < len(fn.Params); k++ {
				if ia.Index == ssa.Value(fn.Params[k]) {
					out = append(out, ia.X)
				}
			}
		}
	}
	return out
}
