package main

// Normalisation of the analysed source against the frozen function inventory.
//
// The rules name the functions they reason about (anchors, who-may-call tables, case tables).  A
// behaviour-preserving refactoring that moves a few statements into a NEW helper function — or turns a
// function literal into a new named function — would make every such rule fire although nothing changed.
// Before the rules run, calls of functions that are not in the inventory frozen from the pinned tree
// (inventory.txt) are therefore inlined back into their callers, with the source-level inliner of
// golang.org/x/tools (internal/refactor/inline, copied under xt/: it is semantics-preserving by
// construction), and the helpers that become unreferenced are deleted.  The rules then see a program with
// the pinned function structure; a violation introduced inside a new helper is judged in its caller.
//
// Functions in the inventory are never touched, so on the pinned tree (and on any tree that adds no
// function) this is the identity and costs nothing.

import (
	"bytes"
	_ "embed"
	"fmt"
	"go/ast"
	"go/format"
	"go/token"
	"go/types"
	"os"
	"path/filepath"
	"sort"
	"strings"

	"golang.org/x/tools/go/packages"
	"golang.org/x/tools/go/types/typeutil"
	"golang.org/x/tools/imports"

	"sacheck/xt/inline"
)

//go:embed inventory.txt
var inventoryTxt string

var inventory map[string]bool

func loadInventory() map[string]bool {
	if inventory != nil {
		return inventory
	}
	inventory = map[string]bool{}
	for _, l := range strings.Split(inventoryTxt, "\n") {
		l = strings.TrimSpace(l)
		if l == "" || strings.HasPrefix(l, "#") {
			continue
		}
		inventory[l] = true
	}
	return inventory
}

// declaredFuncs: FullName → declaration, for the non-test files of the root packages.
type funcDecl struct {
	pkg  *packages.Package
	file *ast.File
	decl *ast.FuncDecl
	obj  *types.Func
}

func declaredFuncs(pkgs []*packages.Package) map[string]*funcDecl {
	out := map[string]*funcDecl{}
	for _, pkg := range pkgs {
		for _, f := range pkg.Syntax {
			name := pkg.Fset.File(f.Pos()).Name()
			if strings.HasSuffix(name, "_test.go") {
				continue
			}
			for _, d := range f.Decls {
				fd, ok := d.(*ast.FuncDecl)
				if !ok || fd.Body == nil {
					continue
				}
				obj, _ := pkg.TypesInfo.Defs[fd.Name].(*types.Func)
				if obj == nil {
					continue
				}
				out[obj.FullName()] = &funcDecl{pkg, f, fd, obj}
			}
		}
	}
	return out
}

func loadPkgs(repo, goarch string, overlay map[string][]byte) ([]*packages.Package, error) {
	env := append(os.Environ(), "GOFLAGS=-mod=mod", "GOPROXY=off", "GOSUMDB=off", "GOWORK=off", "GOTOOLCHAIN=local", "CGO_ENABLED=0")
	if goarch != "" {
		env = append(env, "GOARCH="+goarch)
	}
	cfg := &packages.Config{Mode: packages.LoadSyntax, Dir: repo, Env: env, Overlay: overlay}
	pkgs, err := packages.Load(cfg, ".", "./mocks")
	if err != nil {
		return nil, err
	}
	nerr := 0
	var first string
	packages.Visit(pkgs, nil, func(p *packages.Package) {
		for _, e := range p.Errors {
			if nerr == 0 {
				first = e.Error()
			}
			nerr++
		}
	})
	if nerr > 0 {
		return nil, fmt.Errorf("%d type/parse errors, first: %s", nerr, first)
	}
	return pkgs, nil
}

// NormaliseReport: what the normaliser did (goes into the evidence).
type NormaliseReport struct {
	NewFuncs   []string `json:"new_functions,omitempty"`
	Inlined    []string `json:"inlined_call_sites,omitempty"`
	Deleted    []string `json:"deleted_helpers,omitempty"`
	Kept       []string `json:"new_functions_kept,omitempty"` // not inlinable: exported, recursive, used as a value, inliner refused
	Iterations int      `json:"iterations,omitempty"`
	Delambda   int      `json:"function_literals_spliced,omitempty"`
}

// normalise returns the overlay (absolute file → content) of the normalised source, or the overlay it was
// given when there is nothing to do.
func normalise(repo, goarch string, overlay map[string][]byte) (map[string][]byte, *NormaliseReport, error) {
	inv := loadInventory()
	rep := &NormaliseReport{}
	cur := map[string][]byte{}
	for k, v := range overlay {
		cur[k] = v
	}
	refused := map[string]bool{} // "callee@caller" pairs the inliner refused
	keptWhy := map[string]string{}
	var prev map[string][]byte // state before the last round
	var lastRound []string     // sites inlined in the last round
	for iter := 0; iter < 80; iter++ {
		pkgs, err := loadPkgs(repo, goarch, cur)
		if err != nil {
			if iter == 0 {
				return overlay, rep, nil // let the ordinary loader report the error
			}
			if prev == nil {
				return nil, rep, fmt.Errorf("normalise: the source does not type-check after inlining step %d: %v", iter, err)
			}
			// an inlining of the last round does not compile: undo the round and do not try those sites again
			cur, prev = prev, nil
			for _, k := range lastRound {
				refused[k] = true
				keptWhy[strings.SplitN(k, "@", 2)[0]] = "inlining did not type-check"
			}
			rep.Inlined = rep.Inlined[:len(rep.Inlined)-len(lastRound)]
			lastRound = nil
			continue
		}
		decls := declaredFuncs(pkgs)
		// new functions and which of them may be inlined
		newF := map[*types.Func]*funcDecl{}
		for name, d := range decls {
			if !inv[name] {
				newF[d.obj] = d
			}
		}
		if iter == 0 {
			for _, d := range newF {
				rep.NewFuncs = append(rep.NewFuncs, d.obj.FullName())
			}
			sort.Strings(rep.NewFuncs)
		}
		if len(newF) == 0 {
			break
		}
		inlinable := map[*types.Func]bool{}
		for obj, d := range newF {
			if obj.Exported() {
				keptWhy[obj.FullName()] = "exported"
				continue
			}
			inlinable[obj] = true
			_ = d
		}
		// uses that are not the callee of a call disqualify; direct recursion disqualifies
		for _, pkg := range pkgs {
			for _, f := range pkg.Syntax {
				callees := map[*ast.Ident]bool{}
				ast.Inspect(f, func(n ast.Node) bool {
					if call, ok := n.(*ast.CallExpr); ok {
						switch fun := ast.Unparen(call.Fun).(type) {
						case *ast.Ident:
							callees[fun] = true
						case *ast.SelectorExpr:
							callees[fun.Sel] = true
						}
					}
					return true
				})
				for id, obj := range pkg.TypesInfo.Uses {
					fo, ok := obj.(*types.Func)
					if !ok || !inlinable[fo] {
						continue
					}
					if id.Pos() < f.Pos() || id.Pos() > f.End() {
						continue
					}
					if !callees[id] {
						inlinable[fo] = false
						keptWhy[fo.FullName()] = "used as a value"
					}
				}
			}
		}
		for obj, d := range newF {
			if !inlinable[obj] {
				continue
			}
			ast.Inspect(d.decl.Body, func(n ast.Node) bool {
				if call, ok := n.(*ast.CallExpr); ok {
					if typeutil.StaticCallee(d.pkg.TypesInfo, call) == obj {
						inlinable[obj] = false
						keptWhy[obj.FullName()] = "recursive"
					}
				}
				return true
			})
		}
		// one call site per file per round: the last eligible call in a function that stays
		type site struct {
			pkg    *packages.Package
			file   *ast.File
			call   *ast.CallExpr
			callee *funcDecl
			caller string
		}
		var sites []site
		remaining := 0
		for _, pkg := range pkgs {
			for _, f := range pkg.Syntax {
				fname := pkg.Fset.File(f.Pos()).Name()
				if strings.HasSuffix(fname, "_test.go") {
					continue
				}
				var pick *site
				for _, d := range f.Decls {
					fd, ok := d.(*ast.FuncDecl)
					if !ok || fd.Body == nil {
						continue
					}
					callerObj, _ := pkg.TypesInfo.Defs[fd.Name].(*types.Func)
					if callerObj != nil && inlinable[callerObj] {
						continue // calls inside a helper that will itself be inlined are handled in its callers
					}
					ast.Inspect(fd.Body, func(n ast.Node) bool {
						call, ok := n.(*ast.CallExpr)
						if !ok {
							return true
						}
						callee := typeutil.StaticCallee(pkg.TypesInfo, call)
						if callee == nil || !inlinable[callee] {
							return true
						}
						cd := newF[callee]
						key := callee.FullName() + "@" + fname + ":" + fd.Name.Name
						if refused[key] {
							return true
						}
						remaining++
						s := site{pkg, f, call, cd, key}
						if pick == nil || call.Pos() > pick.call.Pos() {
							pick = &s
						}
						return true
					})
				}
				if pick != nil {
					sites = append(sites, *pick)
				}
			}
		}
		if len(sites) == 0 {
			// nothing left to inline
			// (1) de-literalise what the inliner could not splice
			var before map[string][]byte // the sources before the last de-literalisation round
			for round := 0; round < 12; round++ {
				pk, err := loadPkgs(repo, goarch, cur)
				if err != nil && before != nil {
					// the last round produced something the compiler rejects: keep the literals of that round as
					// they were (the walkers step through immediately-invoked literals) and stop
					if dir := os.Getenv("SACHECK_DEBUG_DIR"); dir != "" {
						for fn, c := range cur {
							_ = os.WriteFile(filepath.Join(dir, filepath.Base(fn)), c, 0o644)
						}
					}
					rep.Kept = append(rep.Kept, fmt.Sprintf("(de-literalisation round %d undone: %s)", round, firstLines(err.Error(), 2)))
					cur = before
					break
				}
				if err != nil {
					return nil, rep, fmt.Errorf("normalise: the source does not type-check after de-literalisation round %d: %v", round, err)
				}
				changed := 0
				snap := map[string][]byte{}
				for a, b := range cur {
					snap[a] = b
				}
				for _, pkg := range pk {
					for _, f := range pkg.Syntax {
						fn := pkg.Fset.File(f.Pos()).Name()
						if strings.HasSuffix(fn, "_test.go") {
							continue
						}
						if _, touched := cur[fn]; !touched {
							continue // only files the inliner changed can contain its literals
						}
						content, err := fileContent(fn, cur)
						if err != nil {
							return nil, rep, err
						}
						nc, k := delambdaFile(pkg.Fset, f, content)
						if k > 0 {
							if formatted, ferr := format.Source(nc); ferr == nil {
								nc = formatted
							}
							cur[fn] = nc
							changed += k
							rep.Delambda += k
						}
					}
				}
				if changed == 0 {
					break
				}
				before = snap
			}
			// (2) delete the helpers nobody references any more
			pkgs, err = loadPkgs(repo, goarch, cur)
			if err != nil {
				return nil, rep, fmt.Errorf("normalise: the source does not type-check after de-literalisation: %v", err)
			}
			decls = declaredFuncs(pkgs)
			used := map[*types.Func]bool{}
			for _, pkg := range pkgs {
				for _, obj := range pkg.TypesInfo.Uses {
					if fo, ok := obj.(*types.Func); ok {
						used[fo] = true
					}
				}
			}
			byFile := map[string][]*funcDecl{}
			for name, d := range decls {
				if inv[name] || d.obj.Exported() || used[d.obj] {
					continue
				}
				fn := d.pkg.Fset.File(d.file.Pos()).Name()
				byFile[fn] = append(byFile[fn], d)
			}
			for fn, ds := range byFile {
				content, err := fileContent(fn, cur)
				if err != nil {
					return nil, rep, err
				}
				sort.Slice(ds, func(i, j int) bool { return ds[i].decl.Pos() > ds[j].decl.Pos() })
				for _, d := range ds {
					tf := d.pkg.Fset.File(d.decl.Pos())
					start := d.decl.Pos()
					if d.decl.Doc != nil {
						start = d.decl.Doc.Pos()
					}
					a, b := tf.Offset(start), tf.Offset(d.decl.End())
					content = append(append([]byte{}, content[:a]...), content[b:]...)
					rep.Deleted = append(rep.Deleted, d.obj.FullName())
				}
				// imports that only the deleted helpers used
				if fixed, ierr := imports.Process(fn, content, &imports.Options{Comments: true, TabIndent: true, TabWidth: 8, FormatOnly: false}); ierr == nil {
					content = fixed
				}
				cur[fn] = content
			}
			if _, err := loadPkgs(repo, goarch, cur); err != nil {
				return nil, rep, fmt.Errorf("normalise: the source does not type-check after deleting the inlined helpers: %v", err)
			}
			rep.Iterations = iter
			break
		}
		prev = map[string][]byte{}
		for k, v := range cur {
			prev[k] = v
		}
		lastRound = nil
		for _, s := range sites {
			callerFile := s.pkg.Fset.File(s.file.Pos()).Name()
			callerContent, err := fileContent(callerFile, cur)
			if err != nil {
				return nil, rep, err
			}
			calleeFile := s.callee.pkg.Fset.File(s.callee.file.Pos()).Name()
			calleeContent, err := fileContent(calleeFile, cur)
			if err != nil {
				return nil, rep, err
			}
			logf := func(string, ...any) {}
			callee, err := inline.AnalyzeCallee(logf, s.callee.pkg.Fset, s.callee.pkg.Types, s.callee.pkg.TypesInfo, s.callee.decl, calleeContent)
			if err != nil {
				refused[s.caller] = true
				keptWhy[s.callee.obj.FullName()] = "inliner: " + err.Error()
				continue
			}
			caller := &inline.Caller{Fset: s.pkg.Fset, Types: s.pkg.Types, Info: s.pkg.TypesInfo, File: s.file, Call: s.call, Content: callerContent}
			res, err := inline.Inline(caller, callee, &inline.Options{Logf: logf, IgnoreEffects: false})
			if err != nil {
				refused[s.caller] = true
				keptWhy[s.callee.obj.FullName()] = "inliner: " + err.Error()
				continue
			}
			cur[callerFile] = res.Content
			rep.Inlined = append(rep.Inlined, s.caller)
			lastRound = append(lastRound, s.caller)
		}
		rep.Iterations = iter + 1
	}
	for n, why := range keptWhy {
		rep.Kept = append(rep.Kept, n+" ("+why+")")
	}
	sort.Strings(rep.Kept)
	sort.Strings(rep.Deleted)
	if len(rep.Inlined) == 0 && len(rep.Deleted) == 0 {
		return overlay, rep, nil
	}
	if dir := os.Getenv("SACHECK_DUMP_DIR"); dir != "" {
		// debugging aid: the sources the rules actually see
		for fn, c := range cur {
			_ = os.WriteFile(filepath.Join(dir, filepath.Base(fn)), c, 0o644)
		}
	}
	return cur, rep, nil
}

func fileContent(name string, overlay map[string][]byte) ([]byte, error) {
	if b, ok := overlay[name]; ok {
		return b, nil
	}
	return os.ReadFile(name)
}

// genInventory prints the inventory of the current tree.
func genInventory(repo string) error {
	pkgs, err := loadPkgs(repo, "", nil)
	if err != nil {
		return err
	}
	var names []string
	for n := range declaredFuncs(pkgs) {
		names = append(names, n)
	}
	// the 386 build sees files the amd64 build does not
	if pk2, err := loadPkgs(repo, "386", nil); err == nil {
		seen := map[string]bool{}
		for _, n := range names {
			seen[n] = true
		}
		for n := range declaredFuncs(pk2) {
			if !seen[n] {
				names = append(names, n)
			}
		}
	}
	sort.Strings(names)
	var b bytes.Buffer
	b.WriteString("# Functions and methods declared in the non-test files of github.com/Shopify/sarama and .../mocks,\n")
	b.WriteString("# frozen from the tree the rules were developed against (pinned commit + fix commits).\n")
	b.WriteString("# A function that is NOT listed here is new; calls of new unexported functions are inlined before the\n")
	b.WriteString("# rules run (normalise.go).  Regenerate only together with a review of the rules: sacheck -gen-inventory.\n")
	for _, n := range names {
		b.WriteString(n + "\n")
	}
	_, err = os.Stdout.Write(b.Bytes())
	return err
}

var _ = token.NoPos

// ---------------------------------------------------------------------------------------------------
// De-literalisation.  When the inliner cannot splice a callee's statements it leaves
//     x := func() T { S…; return e }()
// go/ssa compiles that to a closure and a call, which hides S from every intraprocedural rule.  Where the
// literal is invoked in a statement context that allows statements to be put in front of it, it is rewritten to
//     var r T
//     L: switch { default: S…; r = e; break L }
//     x := r
// which has the same meaning (the literal takes no parameters, captures by reference, and contains no defer,
// recover, label or named result — otherwise it is left alone).

type litSite struct {
	stmt ast.Stmt      // the statement to replace
	call *ast.CallExpr // the immediately-invoked literal
	lit  *ast.FuncLit
	kind string
}

func findLitSites(f *ast.File) []litSite {
	var out []litSite
	var stack []ast.Node
	ast.Inspect(f, func(n ast.Node) bool {
		if n == nil {
			stack = stack[:len(stack)-1]
			return true
		}
		stack = append(stack, n)
		call, ok := n.(*ast.CallExpr)
		if !ok || len(call.Args) != 0 {
			return true
		}
		lit, ok := ast.Unparen(call.Fun).(*ast.FuncLit)
		if !ok || lit.Type.Params != nil && len(lit.Type.Params.List) != 0 || !litBodyOK(lit) {
			return true
		}
		// nearest enclosing statement; nothing conditional or deferred in between
		si := -1
		for i := len(stack) - 2; i >= 0; i-- {
			switch x := stack[i].(type) {
			case *ast.FuncLit:
				return true
			case *ast.BinaryExpr:
				if (x.Op == token.LAND || x.Op == token.LOR) && i+1 < len(stack) && stack[i+1] == ast.Node(x.Y) {
					return true // evaluated conditionally
				}
			}
			if _, isStmt := stack[i].(ast.Stmt); isStmt {
				si = i
				break
			}
		}
		if si < 1 {
			return true
		}
		// the init statement of an if/switch belongs to that statement
		switch x := stack[si-1].(type) {
		case *ast.IfStmt:
			if x.Init == stack[si].(ast.Stmt) {
				si--
			}
		case *ast.SwitchStmt:
			if x.Init == stack[si].(ast.Stmt) {
				si--
			}
		}
		if si < 1 {
			return true
		}
		stmt := stack[si].(ast.Stmt)
		switch stack[si-1].(type) {
		case *ast.BlockStmt, *ast.CaseClause, *ast.CommClause:
		default:
			return true // statements cannot be put in front of it (else-if, for post, …)
		}
		// the part of the statement that is evaluated when the statement is reached, in source order
		var evaluated []ast.Node
		kind := "stmt"
		switch x := stmt.(type) {
		case *ast.ExprStmt:
			if x.X == ast.Expr(call) {
				kind = "expr"
			}
			evaluated = []ast.Node{x.X}
		case *ast.AssignStmt:
			for _, e := range x.Lhs {
				evaluated = append(evaluated, e)
			}
			for _, e := range x.Rhs {
				evaluated = append(evaluated, e)
			}
		case *ast.ReturnStmt:
			for _, e := range x.Results {
				evaluated = append(evaluated, e)
			}
		case *ast.SendStmt:
			evaluated = []ast.Node{x.Chan, x.Value}
		case *ast.DeclStmt:
			gd, ok := x.Decl.(*ast.GenDecl)
			if !ok || gd.Tok != token.VAR || len(gd.Specs) != 1 {
				return true
			}
			evaluated = []ast.Node{gd.Specs[0]}
		case *ast.IfStmt:
			if x.Init != nil {
				evaluated = append(evaluated, x.Init)
			}
			evaluated = append(evaluated, x.Cond)
		case *ast.SwitchStmt:
			if x.Init != nil {
				evaluated = append(evaluated, x.Init)
			}
			if x.Tag != nil {
				evaluated = append(evaluated, x.Tag)
			}
		case *ast.RangeStmt:
			evaluated = []ast.Node{x.X}
		default:
			return true
		}
		// the literal's call must be the first call, receive or conversion-with-effects in that part
		first, found, within := true, false, false
		for _, e := range evaluated {
			ast.Inspect(e, func(m ast.Node) bool {
				if found || m == nil {
					return false
				}
				if m == ast.Node(call) {
					found, within = true, true
					return false
				}
				switch y := m.(type) {
				case *ast.FuncLit:
					return false
				case *ast.CallExpr:
					// an enclosing call is evaluated after its operands; a call that does not contain ours and
					// comes first in source order is evaluated before
					if !(y.Pos() <= call.Pos() && call.End() <= y.End()) && !isConversionOrPure(y) {
						first = false
					}
				case *ast.UnaryExpr:
					if y.Op == token.ARROW && !(y.Pos() <= call.Pos() && call.End() <= y.End()) {
						first = false
					}
				}
				return true
			})
		}
		if !within || !first {
			return true
		}
		out = append(out, litSite{stmt, call, lit, kind})
		return true
	})
	return out
}

// isConversionOrPure: a call expression that is a type conversion or a side-effect-free builtin (len, cap).
func isConversionOrPure(c *ast.CallExpr) bool {
	switch f := ast.Unparen(c.Fun).(type) {
	case *ast.ChanType, *ast.ArrayType, *ast.MapType, *ast.StarExpr, *ast.InterfaceType, *ast.FuncType:
		return true
	case *ast.Ident:
		switch f.Name {
		case "len", "cap", "int", "int8", "int16", "int32", "int64", "uint", "uint8", "uint16", "uint32", "uint64", "string", "float64", "float32", "byte", "rune", "bool":
			return true
		}
	}
	return false
}

func isBasicLit(e ast.Expr) bool {
	switch x := ast.Unparen(e).(type) {
	case *ast.BasicLit:
		return true
	case *ast.UnaryExpr:
		return isBasicLit(x.X)
	}
	return false
}

func lhsSimple(lhs []ast.Expr) bool {
	for _, e := range lhs {
		if !sideEffectFree(e) {
			return false
		}
	}
	return true
}

func sideEffectFree(e ast.Expr) bool {
	switch x := ast.Unparen(e).(type) {
	case *ast.Ident:
		return true
	case *ast.SelectorExpr:
		return sideEffectFree(x.X)
	case *ast.StarExpr:
		return sideEffectFree(x.X)
	case *ast.CallExpr:
		// a conversion such as chan<- T(ch)
		if len(x.Args) == 1 {
			switch ast.Unparen(x.Fun).(type) {
			case *ast.ChanType, *ast.ArrayType, *ast.MapType, *ast.StarExpr:
				return sideEffectFree(x.Args[0])
			}
		}
	}
	return false
}

// soleStatementSites: an immediately-invoked literal that is the only statement of the enclosing function's
// body (`func() { func() { S }() }`, what is left when a literal was turned into a named function and inlined
// back): the enclosing body is replaced by S.  Defers then run when the enclosing function returns, which is
// the same moment.
type soleSite struct {
	outer *ast.BlockStmt
	lit   *ast.FuncLit
}

func findSoleSites(f *ast.File) []soleSite {
	var out []soleSite
	check := func(body *ast.BlockStmt, results *ast.FieldList) {
		if body == nil || len(body.List) != 1 {
			return
		}
		var call *ast.CallExpr
		switch st := body.List[0].(type) {
		case *ast.ExprStmt:
			call, _ = st.X.(*ast.CallExpr)
			if results != nil && len(results.List) > 0 {
				return
			}
		case *ast.ReturnStmt:
			if len(st.Results) == 1 {
				call, _ = st.Results[0].(*ast.CallExpr)
			}
		}
		if call == nil || len(call.Args) != 0 {
			return
		}
		lit, ok := ast.Unparen(call.Fun).(*ast.FuncLit)
		if !ok || lit.Type.Params != nil && len(lit.Type.Params.List) != 0 {
			return
		}
		if lit.Type.Results != nil {
			for _, fl := range lit.Type.Results.List {
				if len(fl.Names) > 0 {
					return
				}
			}
		}
		out = append(out, soleSite{body, lit})
	}
	ast.Inspect(f, func(n ast.Node) bool {
		switch x := n.(type) {
		case *ast.FuncDecl:
			check(x.Body, x.Type.Results)
		case *ast.FuncLit:
			check(x.Body, x.Type.Results)
		}
		return true
	})
	return out
}

func litBodyOK(lit *ast.FuncLit) bool {
	ok := true
	ast.Inspect(lit.Body, func(n ast.Node) bool {
		switch x := n.(type) {
		case *ast.FuncLit:
			return false
		case *ast.DeferStmt, *ast.LabeledStmt:
			ok = false
		case *ast.BranchStmt:
			if x.Tok == token.GOTO {
				ok = false
			}
		case *ast.CallExpr:
			if id, isID := x.Fun.(*ast.Ident); isID && id.Name == "recover" {
				ok = false
			}
		}
		return ok
	})
	// nested immediately-invoked literals are handled innermost first (a later round)
	nested := false
	ast.Inspect(lit.Body, func(n ast.Node) bool {
		if c, isC := n.(*ast.CallExpr); isC && len(c.Args) == 0 {
			if _, isL := ast.Unparen(c.Fun).(*ast.FuncLit); isL {
				nested = true
			}
		}
		return !nested
	})
	return ok && !nested
}

var litCounter int

// delambdaFile rewrites the eligible sites of one file (bottom-up); returns the new content.
func delambdaFile(fset *token.FileSet, f *ast.File, content []byte) ([]byte, int) {
	if sole := findSoleSites(f); len(sole) > 0 {
		// one per round (they may nest); the caller iterates
		s := sole[len(sole)-1]
		tf := fset.File(f.Pos())
		a, b := tf.Offset(s.outer.Lbrace)+1, tf.Offset(s.outer.Rbrace)
		la, lb := tf.Offset(s.lit.Body.Lbrace)+1, tf.Offset(s.lit.Body.Rbrace)
		body := append([]byte{}, content[la:lb]...)
		return append(append(append([]byte{}, content[:a]...), body...), content[b:]...), 1
	}
	sites := findLitSites(f)
	if len(sites) == 0 {
		return content, 0
	}
	sort.Slice(sites, func(i, j int) bool { return sites[i].stmt.Pos() > sites[j].stmt.Pos() })
	tf := fset.File(f.Pos())
	src := func(a, b token.Pos) string { return string(content[tf.Offset(a):tf.Offset(b)]) }
	n := 0
	var lastStart token.Pos = token.Pos(1 << 40)
	for _, s := range sites {
		if s.stmt.End() > lastStart {
			continue // overlaps a site already rewritten in this round
		}
		litCounter++
		id := litCounter
		label := fmt.Sprintf("inlined_%d", id)
		var rets []string
		var decls bytes.Buffer
		// named results become ordinary variables of the spliced block (declared at its top, zero-valued, and
		// referenced once so that an unused one does not stop the compiler)
		var named []string // names, parallel to rets ("" if unnamed)
		var namedDecl bytes.Buffer
		if s.lit.Type.Results != nil {
			k := 0
			for _, fld := range s.lit.Type.Results.List {
				typ := src(fld.Type.Pos(), fld.Type.End())
				cnt := len(fld.Names)
				if cnt == 0 {
					cnt = 1
				}
				for j := 0; j < cnt; j++ {
					name := fmt.Sprintf("inlinedResult_%d_%d", id, k)
					k++
					rets = append(rets, name)
					fmt.Fprintf(&decls, "var %s %s\n", name, typ)
					if len(fld.Names) > 0 && fld.Names[j].Name != "_" {
						named = append(named, fld.Names[j].Name)
						fmt.Fprintf(&namedDecl, "var %s %s\n_ = %s\n", fld.Names[j].Name, typ, fld.Names[j].Name)
					} else {
						named = append(named, "")
					}
				}
			}
		}
		// body with returns rewritten (bottom-up inside the body)
		type edit struct {
			a, b int
			text string
		}
		var edits []edit
		hasReturn := false
		bodyA, bodyB := tf.Offset(s.lit.Body.Lbrace)+1, tf.Offset(s.lit.Body.Rbrace)
		ast.Inspect(s.lit.Body, func(n ast.Node) bool {
			switch x := n.(type) {
			case *ast.FuncLit:
				return false
			case *ast.ReturnStmt:
				hasReturn = true
				var t bytes.Buffer
				t.WriteString("{ ")
				if len(x.Results) == 0 && len(rets) > 0 {
					// bare return: the named results
					for i := range rets {
						if named[i] != "" {
							fmt.Fprintf(&t, "%s = %s; ", rets[i], named[i])
						}
					}
				} else if len(rets) == 0 {
					// nothing to hand over
				} else if len(x.Results) == len(rets) {
					// evaluate all operands first (they may mention the named results), then assign
					if len(rets) == 1 {
						fmt.Fprintf(&t, "%s = %s; ", rets[0], src(x.Results[0].Pos(), x.Results[0].End()))
					} else {
						var rs []string
						for _, r := range x.Results {
							rs = append(rs, src(r.Pos(), r.End()))
						}
						fmt.Fprintf(&t, "%s = %s; ", strings.Join(rets, ", "), strings.Join(rs, ", "))
					}
				} else if len(x.Results) == 1 && len(rets) > 1 {
					fmt.Fprintf(&t, "%s = %s; ", strings.Join(rets, ", "), src(x.Results[0].Pos(), x.Results[0].End()))
				}
				fmt.Fprintf(&t, "break %s }", label)
				edits = append(edits, edit{tf.Offset(x.Pos()), tf.Offset(x.End()), t.String()})
			}
			return true
		})
		body := []byte(string(content[bodyA:bodyB]))
		sort.Slice(edits, func(i, j int) bool { return edits[i].a > edits[j].a })
		for _, e := range edits {
			body = append(append(append([]byte{}, body[:e.a-bodyA]...), e.text...), body[e.b-bodyA:]...)
		}
		var out bytes.Buffer
		out.Write(decls.Bytes())
		if hasReturn {
			fmt.Fprintf(&out, "%s:\nswitch {\ndefault:\n%s%s\n}\n", label, namedDecl.String(), body)
		} else {
			fmt.Fprintf(&out, "{\n%s%s\n}\n", namedDecl.String(), body)
		}
		callA, callB := tf.Offset(s.call.Pos()), tf.Offset(s.call.End())
		stmtA, stmtB := tf.Offset(s.stmt.Pos()), tf.Offset(s.stmt.End())
		repl := strings.Join(rets, ", ")
		switch s.kind {
		case "expr":
			for _, r := range rets {
				fmt.Fprintf(&out, "_ = %s\n", r)
			}
		default:
			// the original statement with the call replaced by the result variable(s)
			out.Write(content[stmtA:callA])
			out.WriteString(repl)
			out.Write(content[callB:stmtB])
			out.WriteString("\n")
		}
		content = append(append(append([]byte{}, content[:stmtA]...), out.Bytes()...), content[stmtB:]...)
		lastStart = s.stmt.Pos()
		n++
	}
	return content, n
}
