package main

import (
	"fmt"
	"go/token"
	"go/types"
	"strings"

	"golang.org/x/tools/go/ssa"
)

// Rules against "fixes" and "hardening" that over-reach (round-11 seeds): an element dropped from a decoded list, a
// null/empty distinction blurred, a shutdown test on a path that shutdown itself still needs, a skip added to a loop
// that has to serve every item, a bound that relates two quantities which have nothing to do with each other.

// leafRoots: the non-constant leaves v is computed from through arithmetic, conversions and merges.
func leafRoots(v ssa.Value) map[ssa.Value]bool {
	out := map[ssa.Value]bool{}
	seen := map[ssa.Value]bool{}
	var walk func(x ssa.Value, d int)
	walk = func(x ssa.Value, d int) {
		if x == nil || seen[x] || d > 10 {
			return
		}
		seen[x] = true
		switch y := x.(type) {
		case *ssa.Const:
		case *ssa.BinOp:
			walk(y.X, d+1)
			walk(y.Y, d+1)
		case *ssa.Convert:
			walk(y.X, d+1)
		case *ssa.ChangeType:
			walk(y.X, d+1)
		case *ssa.UnOp:
			if al, isA := y.X.(*ssa.Alloc); isA && y.Op == token.MUL && plainCell(al) {
				for _, r := range *al.Referrers() {
					if st, isS := r.(*ssa.Store); isS && st.Addr == ssa.Value(al) {
						walk(st.Val, d+1)
					}
				}
				return
			}
			if y.Op == token.MUL || y.Op == token.ARROW {
				out[y] = true
				return
			}
			walk(y.X, d+1)
		case *ssa.Phi:
			for _, e := range y.Edges {
				walk(e, d+1)
			}
		default:
			out[x] = true
		}
	}
	walk(v, 0)
	return out
}

// C03.frames / count-vs-compressed-size: the number of records of a batch is not measured against the wire length of
// its (possibly compressed) records section.
func c03CountVsCompressedSize(c *Ctx) {
	p := c.P
	rule := "C03.frames"
	c.Doc(rule, "RecordBatch.decode: the announced record count (getArrayLength) is never compared with a value computed from the batch's wire length (the argument of getRawBytes): for every codec but none that length is the size of the compressed records section, which says nothing about how many records it holds — a gzip batch of many small, similar records takes far fewer bytes than records; a bound of that kind refuses legal batches, the fetch fails with the same decoding error on every retry and the partition (and every partition fetched from the same broker) stops for good")
	c.Floor(rule, 1)
	fn := c.NeedFn(rule, "RecordBatch.decode")
	if fn == nil {
		return
	}
	fi := Info(fn)
	counts := fi.Find(p.CallTo("packetDecoder.getArrayLength"))
	raws := fi.Find(p.CallTo("packetDecoder.getRawBytes"))
	if len(counts) == 0 || len(raws) == 0 {
		c.Unresolved(rule, "getArrayLength / getRawBytes in RecordBatch.decode")
		return
	}
	countRoots := map[ssa.Value]bool{}
	for _, s := range counts {
		if v, ok := s.In.(ssa.Value); ok {
			countRoots[v] = true
		}
	}
	lenRoots := map[ssa.Value]bool{}
	for _, s := range raws {
		if a := callArgs(s); len(a) >= 2 {
			for r := range leafRoots(a[1]) {
				lenRoots[r] = true
			}
		} else if a := s.In.(ssa.CallInstruction).Common().Args; len(a) >= 1 {
			for r := range leafRoots(a[len(a)-1]) {
				lenRoots[r] = true
			}
		}
	}
	// leaves are Extracts of the call tuples: compare by the call
	callOf := func(v ssa.Value) ssa.Value {
		if e, ok := v.(*ssa.Extract); ok {
			return e.Tuple
		}
		return v
	}
	has := func(set map[ssa.Value]bool, roots map[ssa.Value]bool) bool {
		for r := range roots {
			if set[r] || set[callOf(r)] {
				return true
			}
		}
		return false
	}
	lenCalls := map[ssa.Value]bool{}
	for r := range lenRoots {
		lenCalls[r] = true
		lenCalls[callOf(r)] = true
	}
	var bad ssa.Instruction
	n := 0
	fi.Each(func(it Item) {
		b, ok := it.In.(*ssa.BinOp)
		if !ok {
			return
		}
		switch b.Op {
		case token.LSS, token.LEQ, token.GTR, token.GEQ, token.EQL, token.NEQ:
		default:
			return
		}
		n++
		x, y := leafRoots(b.X), leafRoots(b.Y)
		if (has(countRoots, x) && has(lenCalls, y)) || (has(countRoots, y) && has(lenCalls, x)) {
			bad = b
		}
	})
	c.Check(bad == nil, rule, fn, "count-vs-compressed-size", bad, "the record count is not compared with the batch's wire length", "the record count is compared with a value computed from the batch's wire length: for a compressed batch that is the size of the compressed section — a well-compressed batch of many small records is refused as corrupt, on every retry", nil)
}

// C06.close / final-flush-ignores-closing: nothing the final flush of Close goes through gives up because the
// manager is closing.
func c06FinalFlushIgnoresClosing(c *Ctx) {
	p := c.P
	rule := "C06.close"
	root := c.NeedFn(rule, "offsetManager.flushToBroker")
	if root == nil {
		return
	}
	closing := FieldLoad("offsetManager.closing")
	looks := func(in ssa.Instruction) bool {
		switch x := in.(type) {
		case *ssa.Select:
			for _, st := range x.States {
				if st.Dir == types.RecvOnly && closing(st.Chan) {
					return true
				}
			}
		case *ssa.UnOp:
			return x.Op == token.ARROW && closing(x.X)
		}
		return false
	}
	seen := map[*ssa.Function]bool{}
	var bad ssa.Instruction
	var badFn *ssa.Function
	var visit func(fn *ssa.Function, d int)
	visit = func(fn *ssa.Function, d int) {
		if fn == nil || seen[fn] || fn.Blocks == nil || d > 4 {
			return
		}
		seen[fn] = true
		if rootOf(fn).Pkg != p.Sarama {
			return
		}
		if !p.inFile(fn, "offset_manager.go") {
			return
		}
		for _, b := range fn.Blocks {
			for _, in := range b.Instrs {
				if looks(in) && bad == nil {
					bad, badFn = in, fn
				}
				if ci, ok := in.(ssa.CallInstruction); ok {
					if _, isGo := in.(*ssa.Go); isGo {
						continue
					}
					visit(ci.Common().StaticCallee(), d+1)
					for _, a := range ci.Common().Args {
						if mc, ok := a.(*ssa.MakeClosure); ok {
							visit(mc.Fn.(*ssa.Function), d+1)
						}
					}
				}
			}
		}
		for _, an := range fn.AnonFuncs {
			visit(an, d+1)
		}
	}
	visit(root, 0)
	at := root
	if badFn != nil {
		at = badFn
	}
	c.Check(bad == nil, rule, at, "final-flush-ignores-closing", bad, "nothing reachable from flushToBroker (in offset_manager.go) looks at om.closing", "a function the final flush of Close goes through looks at om.closing: Close closes that channel before its final flush attempts, so whatever gives up 'because the manager is closing' gives up during them — when the cached coordinator was just released (coordinator moved, connection dropped) the last marks are never committed although the coordinator would accept them", nil)
}

// C08.complete / sticky: every unassigned partition that somebody can take is handed to assignPartition.
func c08EveryUnassignedOffered(c *Ctx) {
	p := c.P
	rule := "C08.eligible"
	fn := c.NeedFn(rule, "stickyBalanceStrategy.balance")
	if fn == nil {
		return
	}
	fi := Info(fn)
	calls := fi.Find(p.CallTo("assignPartition"))
	if len(calls) == 0 {
		c.Fail(rule, fn, "sticky:every-unassigned-offered", nil, "balance never calls assignPartition", nil)
		return
	}
	for _, s := range calls {
		l := fi.InnermostLoop(s.Instr().Block())
		if l == nil {
			c.Fail(rule, fn, "sticky:every-unassigned-offered", s.Instr(), "assignPartition is not called in the loop over the unassigned partitions", nil)
			continue
		}
		reg := fi.Iteration(l)
		nobody := Cmp{token.EQL, LenOf(func(v ssa.Value) bool {
			lk, ok := strip(v).(*ssa.Lookup)
			return ok && ParamNamed("partition2AllPotentialConsumers")(lk.X)
		}), ConstInt(0)}
		r := *reg
		r.Cut = func(from, to *ssa.BasicBlock) bool { return Establishes(from, to, nobody) }
		esc, path := r.Escape(IsItem(s))
		c.Check(!esc, rule, fn, "sticky:every-unassigned-offered", s.Instr(), "every unassigned partition with a potential consumer is handed to assignPartition", "an unassigned partition that has potential consumers can be skipped (a further test in the loop): what Plan put on the unassigned list — new partitions, partitions of members that left or dropped the topic (whose entry in currentPartitionConsumer is still there) — must all be given out here, nothing later assigns them: they end up with nobody", path)
	}
}

// C09.null / null-vs-empty: a length of -1, and only that, decodes to nil.
func c09NullVsEmpty(c *Ctx) {
	p := c.P
	rule := "C09.null"
	for _, name := range []string{"realDecoder.getBytes", "realDecoder.getVarintBytes", "realDecoder.getCompactInt32Array"} {
		fn := c.NeedFn(rule, name)
		if fn == nil {
			continue
		}
		reg := WholeFn(fn)
		marker := int64(-1)
		lens := reg.Find(p.CallTo("realDecoder.getInt32", "realDecoder.getVarint"))
		if name == "realDecoder.getCompactInt32Array" {
			// compact form: the raw uvarint is length+1, 0 is null
			marker = 0
			lens = reg.Find(p.CallTo("realDecoder.getUVarint"))
			if len(lens) == 0 {
				c.Fail(rule, fn, "nil-only-for-null", nil, name+" does not read the raw uvarint itself (e.g. it goes through getCompactArrayLength, which answers 0 for the null marker 0 AND for the empty array's 1): a null array and an empty one can no longer be told apart — an empty list comes back as nil, and the nil-sensitive encoders write it as null (for AlterPartitionReassignments: 'cancel the reassignment') or refuse it", nil)
				continue
			}
		}
		if len(lens) == 0 {
			c.Unresolved(rule, "the length read in "+name)
			continue
		}
		lenCall, _ := lens[0].In.(ssa.Value)
		isLen := func(v ssa.Value) bool {
			for d := 0; d < 4; d++ {
				switch x := v.(type) {
				case *ssa.Convert:
					v = x.X
					continue
				case *ssa.Extract:
					return x.Tuple == lenCall && x.Index == 0
				}
				break
			}
			return false
		}
		null := Cmp{token.EQL, isLen, ConstInt(marker)}
		n := 0
		for _, s := range reg.Find(IsReturn()) {
			ret := s.In.(*ssa.Return)
			rv := RetVals(ret)
			if len(rv) != 2 || !IsNil()(rv[0]) || !IsNil()(rv[1]) {
				continue
			}
			n++
			g, path := reg.Guarded(s, null)
			c.Check(g, rule, fn, "nil-only-for-minus-one", ret, "nil (without error) is returned only for the length -1", name+" can return nil without an error for a length other than -1 (0, say): Kafka distinguishes a null field (-1) from an empty one (0) and the encoder still writes them differently — an empty key, value or header value comes back as null, decode(encode(v)) ≠ v, and re-encoding gives other bytes and another CRC", path)
		}
		if n == 0 {
			c.Fail(rule, fn, "nil-only-for-minus-one", nil, name+" has no return of nil without error: a null field (-1) no longer decodes to nil", nil)
		}
		for _, e := range reg.EstablishingEdges(null) {
			it, path := reg.From(Pt{e.To, 0}).Reach(func(it Item) bool {
				ret, ok := it.In.(*ssa.Return)
				if !ok {
					return false
				}
				rv := RetVals(ret)
				return !(len(rv) == 2 && IsNil()(rv[0]) && IsNil()(rv[1]))
			}, nil)
			c.Check(it.IsZero(), rule, fn, "minus-one-gives-nil", it.Instr(), "the length -1 always gives nil", name+" can answer the length -1 with something other than nil", path)
		}
	}
}

// decoded-element-kept: an element of a counted list that was decoded is stored.
func decodedElementKept(c *Ctx, rule string, files []string, floor int, why string) {
	p := c.P
	n := 0
	for _, fn := range p.Fns {
		if fn.Blocks == nil || rootOf(fn).Pkg != p.Sarama {
			continue
		}
		in := false
		for _, f := range files {
			if p.inFile(fn, f) {
				in = true
			}
		}
		if !in {
			continue
		}
		fi := Info(fn)
		for _, l := range fi.Loops {
			if !countedLoop(l) {
				continue
			}
			for b := range l.Blocks {
				if fi.InnermostLoop(b) != l {
					continue
				}
				for idx, ins := range b.Instrs {
					ci, ok := ins.(*ssa.Call)
					if !ok {
						continue
					}
					name := p.CalleeName(ci.Common())
					if !strings.HasSuffix(name, ".decode") || ci.Common().IsInvoke() || len(ci.Common().Args) == 0 {
						continue
					}
					elem, ok := ci.Common().Args[0].(*ssa.Alloc)
					if !ok || !l.Blocks[elem.Block()] {
						continue
					}
					n++
					// from the allocation on (the element may be put into its slot before it is filled)
					ab, ai := elem.Block(), 0
					for k, x := range ab.Instrs {
						if x == ssa.Instruction(elem) {
							ai = k + 1
						}
					}
					_ = idx
					skipAt, path := elementSkipped(fi, l, ab, ai, elem)
					c.Check(skipAt == nil, rule, fn, "decoded-element-kept:"+describeShort(elem), ins, "the decoded element is stored before the next one is read", "an element that was decoded successfully can be dropped (the loop goes on to the next one without having stored it): "+why, path)
				}
			}
		}
	}
	c.Floor(rule, floor)
	if n < floor {
		c.Unresolved(rule, "loops that decode one element per iteration (decoded-element-kept)")
	}
}

// countedLoop: `for i := 0; i < n; i++` / `for i := range s`: the header tests an index carried by the loop.
func countedLoop(l *Loop) bool {
	iff, ok := lastInstr(l.Head).(*ssa.If)
	if !ok {
		return false
	}
	b, ok := iff.Cond.(*ssa.BinOp)
	if !ok {
		return false
	}
	for _, v := range []ssa.Value{b.X, b.Y} {
		if ph, ok := v.(*ssa.Phi); ok && ph.Block() == l.Head {
			return true
		}
	}
	return false
}

// elementSkipped: from instruction idx of block b, can the loop head be reached without the element having been
// stored (by pointer or by value), put into a map or handed to another function?
func elementSkipped(fi *FnInfo, l *Loop, b *ssa.BasicBlock, idx int, elem *ssa.Alloc) (ssa.Instruction, []*ssa.BasicBlock) {
	isElem := func(v ssa.Value) bool {
		if v == ssa.Value(elem) {
			return true
		}
		if u, ok := v.(*ssa.UnOp); ok && u.Op == token.MUL && u.X == ssa.Value(elem) {
			return true
		}
		return false
	}
	keeps := func(in ssa.Instruction) bool {
		switch x := in.(type) {
		case *ssa.Store:
			return isElem(x.Val)
		case *ssa.MapUpdate:
			return isElem(x.Value)
		case *ssa.Call:
			for i, a := range x.Call.Args {
				if isElem(a) && (i > 0 || x.Call.IsInvoke()) {
					return true
				}
			}
		}
		return false
	}
	type st struct {
		b *ssa.BasicBlock
		i int
	}
	parent := map[*ssa.BasicBlock]*ssa.BasicBlock{}
	seen := map[*ssa.BasicBlock]bool{}
	work := []st{{b, idx}}
	for len(work) > 0 {
		cur := work[0]
		work = work[1:]
		kept := false
		for _, in := range cur.b.Instrs[cur.i:] {
			if keeps(in) {
				kept = true
				break
			}
		}
		if kept {
			continue
		}
		for k, succ := range cur.b.Succs {
			if !feasible(cur.b, k, parent[cur.b]) {
				continue
			}
			if succ == l.Head {
				return lastInstr(cur.b), append(pathTo(parent, cur.b), succ)
			}
			if !l.Blocks[succ] || seen[succ] {
				continue
			}
			seen[succ] = true
			parent[succ] = cur.b
			work = append(work, st{succ, 0})
		}
	}
	return nil, nil
}

// C11.index / decoded-element-kept (also C03): the fetch response keeps every entry it decoded.
func c11DecodedElementKept(c *Ctx) {
	rule := "C11.index-kept"
	c.Doc(rule, "fetch_response.go: in every loop that decodes one element per iteration into a fresh object (aborted transactions, partition blocks), the object is stored (slice element, append, map entry, or handed to another function) on every path from its successful decode to the next iteration.  The consumer filters aborted records with exactly the index the broker sent: an entry dropped by the decoder — for starting below the log start offset, say — makes the records of that aborted transaction that are still in the log look committed")
	decodedElementKept(c, rule, []string{"fetch_response.go"}, 2, "the consumer filters aborted data with the index the broker sent; an aborted transaction whose entry was dropped (its first offset lies before the log start offset, but later batches and the abort marker are still in the log) is delivered under ReadCommitted")
}

// C09: the same over every codec file (an element dropped on decode is not what was encoded).
func c09DecodedElementKept(c *Ctx) {
	rule := "C09.element-kept"
	c.Doc(rule, "all codec files: in every loop that decodes one element per iteration into a fresh object, the object is stored on every path from its successful decode to the next iteration — decode(encode(v)) has as many elements as v")
	decodedElementKept(c, rule, codecFiles, 15, "decode(encode(v)) ≠ v — the element count changes, and re-encoding gives other bytes")
}

// C12.who-sends / no-detached-send: nobody sends on a channel that gets closed from a goroutine started ad hoc.
func c12NoDetachedSend(c *Ctx) {
	p := c.P
	rule := "C12.who-sends"
	// the channel fields that are closed somewhere in the package
	closable := map[string]bool{}
	anyField := func(v ssa.Value) bool { return isFieldRead(strip(v)) && PathOf(v) != "" }
	for _, fn := range p.Fns {
		if fn.Blocks == nil || rootOf(fn).Pkg != p.Sarama {
			continue
		}
		Info(fn).Each(func(it Item) {
			var arg ssa.Value
			if cc, ok := callCommon(it); ok {
				if b, isB := cc.Value.(*ssa.Builtin); isB && b.Name() == "close" && len(cc.Args) == 1 {
					arg = cc.Args[0]
				}
			}
			if d, ok := it.In.(*ssa.Defer); ok {
				if b, isB := d.Call.Value.(*ssa.Builtin); isB && b.Name() == "close" && len(d.Call.Args) == 1 {
					arg = d.Call.Args[0]
				}
			}
			if arg != nil && anyField(arg) {
				closable[PathOf(arg)] = true
			}
		})
	}
	if len(closable) < 8 {
		c.Unresolved(rule, "channel fields closed in the package (found fewer than 8)")
		return
	}
	launched, sends := 0, 0
	for _, fn := range p.Fns {
		if fn.Blocks == nil || rootOf(fn).Pkg != p.Sarama {
			continue
		}
		for _, b := range fn.Blocks {
			for _, in := range b.Instrs {
				g, ok := in.(*ssa.Go)
				if !ok {
					continue
				}
				tgt := p.GoTarget(Item{In: g})
				if tgt == nil || tgt.Parent() == nil || tgt.Blocks == nil {
					continue // a named function or method: a goroutine with a name, covered by the senders table / pairing rules
				}
				launched++
				Info(tgt).Each(func(it Item) {
					var ch ssa.Value
					if it.Sel != nil {
						if st := it.Sel.States[it.Case]; st.Dir == types.SendOnly {
							ch = st.Chan
						}
					} else if s, ok := it.In.(*ssa.Send); ok {
						ch = s.Chan
					}
					if ch == nil || !anyField(ch) || !closable[PathOf(ch)] {
						return
					}
					sends++
					c.Fail(rule, tgt, "no-detached-send:"+PathOf(ch), it.Instr(), "a function literal started with `go` in "+p.Name(fn)+" sends on "+PathOf(ch)+", a channel that is closed elsewhere: the goroutine is outside the shutdown hand-shake — nothing waits for it before the channel is closed, so the send can come after the close (panic: send on closed channel; with a PanicHandler the event is lost)", nil)
				})
			}
		}
	}
	c.Check(true, rule, nil, "no-detached-send", nil, fmt.Sprintf("%d function literals started as goroutines examined, none sends on one of the %d channel fields that are closed in the package", launched, len(closable)), "", nil)
	_ = sends
}
