package main

// C20 — mocks replay scripted expectations faithfully and report deviations (structural clauses).

import (
	"fmt"
	"go/token"
	"sort"
	"strings"

	"golang.org/x/tools/go/ssa"
)

func init() {
	register(&propDef{
		ID:    "C20",
		Title: "Mocks replay scripted expectations faithfully and report deviations",
		Explain: "Decides on every path of the mocks package: the mock async producer gives each input message at most one outcome (one send on Successes/Errors per iteration) and the sync producer returns exactly the expectation's result or the partitioner/checker error (C20.one-outcome); expectations are consumed from the head, one per message, len(msgs) for SendMessages (C20.fifo); the partition is the configured partitioner's choice over the configured partition count and is what is stored in / returned for the message (C20.partition); " +
			"lastOffset is incremented exactly once per success and consumer offsets come from the atomic high-water-mark counter (C20.offsets); every deviation branch reports to the ErrorReporter exactly once and the set of reporting sites is the tabled one (C20.report); expectation state is accessed under the mock's mutex (C20.lock). " +
			"NOT covered: the behaviour of user-supplied checkers and partitioners, channel capacity effects.",
		Rules: []func(*Ctx){c20OneOutcome, c20Fifo, c20Partition, c20Offsets, c20Report, c20Lock, c20Atomic, c20OwnConfig, c20ErrLost, c20CloseAll, c20EveryPairStored, c20PartitionerKept, c17Range},
	})
}

func c20OneOutcome(c *Ctx) {
	p := c.P
	rule := "C20.one-outcome"
	c.Doc(rule, "mock AsyncProducer goroutine, one iteration of range mp.input: at most one send on mp.successes/mp.errors; a checker or partitioner error is the message's only outcome; mock SyncProducer.SendMessage: after a checker/partitioner error nothing else is returned")
	c.Floor(rule, 2)
	fn := c.NeedFn(rule, "mocks.NewAsyncProducer")
	if fn != nil {
		var loopFn *ssa.Function
		for _, a := range fn.AnonFuncs {
			if ls, _ := rangeChanLoops(Info(a), FieldLoad("AsyncProducer.input")); len(ls) == 1 {
				loopFn = a
			}
		}
		if loopFn == nil {
			c.Unresolved(rule, "goroutine ranging over mp.input")
		} else {
			fi := Info(loopFn)
			ls, _ := rangeChanLoops(fi, FieldLoad("AsyncProducer.input"))
			reg := fi.Iteration(ls[0])
			out := SendOn(FieldLoad("AsyncProducer.successes", "AsyncProducer.errors"), nil)
			cr := reg.Count(out)
			c.Check(!cr.HasTwo() && len(cr.Sites) >= 2, rule, loopFn, "at-most-one-outcome", cr.Second.Instr(),
				fmt.Sprintf("at most one outcome per input message (%d sites)", len(cr.Sites)),
				"one input message can yield two outcomes (first at "+p.Pos(cr.First.Instr())+"): e.g. a failing checker's error followed by the expectation's own result", nil)
		}
	}
	if sm := c.NeedFn(rule, "mocks.SyncProducer.SendMessage"); sm != nil {
		reg := WholeFn(sm)
		// every return's error is: nil (success), expectation.Result, the checker error, the partitioner error or errOutOfExpectations
		ok := true
		var bad ssa.Instruction
		for _, r := range reg.Find(IsReturn()) {
			ret := r.In.(*ssa.Return)
			if IsRecoverBlock(ret.Block()) {
				continue
			}
			rv := RetVals(ret)
			// the value may be merged from several places (phi): every source must be an allowed one
			good := true
			var sources []ssa.Value
			for _, e := range phiEdges(rv[len(rv)-1]) {
				// a value read back from a local variable cell (the named result, when a `:=` in the body's own scope
				// re-uses it): what was stored there
				if u, isU := e.(*ssa.UnOp); isU && u.Op == token.MUL {
					if cell, isA := u.X.(*ssa.Alloc); isA && plainCell(cell) {
						for _, ref := range *cell.Referrers() {
							if st, isS := ref.(*ssa.Store); isS && st.Addr == ssa.Value(cell) {
								for _, sv := range phiEdges(st.Val) {
									if u2, isU2 := sv.(*ssa.UnOp); isU2 && u2.Op == token.MUL && u2.X == ssa.Value(cell) {
										continue // the variable copied onto itself (`return …, err` with err the named result)
									}
									sources = append(sources, sv)
								}
							}
						}
						continue
					}
				}
				sources = append(sources, e)
			}
			for _, e := range sources {
				g := IsNil()(e) || FieldLoad("producerExpectation.Result")(e) || GlobalLoad("errOutOfExpectations")(e)
				if _, isEx := e.(*ssa.Extract); isEx {
					g = true // error result of the partitioner call
				}
				if cl, isCall := e.(*ssa.Call); isCall && !cl.Call.IsInvoke() && FieldLoad("producerExpectation.CheckFunction")(cl.Call.Value) {
					g = true
				}
				if !g {
					good = false
				}
			}
			if !good {
				ok, bad = false, ret
			}
		}
		c.Check(ok, rule, sm, "sync-result", bad, "SendMessage returns the expectation's result, or the partitioner/checker error", "SendMessage returns an error that is neither the scripted result nor a reported deviation", nil)
	}
}

func c20Fifo(c *Ctx) {
	p := c.P
	rule := "C20.fifo"
	c.Doc(rule, "the expectation used is expectations[0] and the queue is advanced by expectations[1:] (by len(msgs) in SendMessages) on the same path, under len(expectations) > 0")
	c.Floor(rule, 5)
	type host struct {
		name  string
		field string
	}
	for _, h := range []host{{"mocks.NewAsyncProducer$1", "AsyncProducer.expectations"}, {"mocks.SyncProducer.SendMessage", "SyncProducer.expectations"}} {
		fn := c.NeedFn(rule, h.name)
		if fn == nil {
			continue
		}
		fi := Info(fn)
		// head read: expectations[0]
		head := fi.Find(func(it Item) bool {
			u, ok := it.In.(*ssa.UnOp)
			if !ok || u.Op != token.MUL {
				return false
			}
			ia, ok := u.X.(*ssa.IndexAddr)
			return ok && FieldLoad(h.field)(ia.X) && ConstInt(0)(ia.Index)
		})
		pop := StoreTo(func(v ssa.Value) bool {
			sl, ok := v.(*ssa.Slice)
			return ok && FieldLoad(h.field)(sl.X) && sl.Low != nil && ConstInt(1)(sl.Low) && sl.High == nil
		}, h.field)
		if len(head) != 1 {
			c.Fail(rule, fn, "head", nil, "the expectation consumed is not expectations[0]", nil)
			continue
		}
		reg := WholeFn(fn)
		if l := fi.InnermostLoop(itemBlock(head[0])); l != nil {
			reg = fi.Iteration(l)
		}
		cr := reg.From(head[0].After()).Count(pop)
		c.Check(!cr.HasNone() && !cr.HasTwo(), rule, fn, "pop-one", head[0].Instr(), "expectations[0] is used and the queue advanced by exactly one on every path", "after taking expectations[0] the queue is not advanced by exactly one: an expectation is replayed or skipped", cr.NonePath)
		// every message that finds an expectation consumes it, whatever happens to the message afterwards (a
		// partitioner or checker error included): otherwise the script shifts by one for all later messages
		nonEmpty := AnyOf{Cmp{token.GTR, LenOf(FieldLoad(h.field)), ConstInt(0)}, Cmp{token.NEQ, LenOf(FieldLoad(h.field)), ConstInt(0)}}
		for _, e := range reg.EstablishingEdges(nonEmpty) {
			esc, pth := reg.From(Pt{e.To, 0}).Escape(pop)
			c.Check(!esc, rule, fn, "every-input-consumes", lastInstr(e.From), "with an expectation left, every path consumes exactly that one", "a message can be handled (for instance rejected by the partitioner) without consuming its expectation: every later message gets its predecessor's outcome and Close reports a leftover", pth)
		}
		g, path := reg.Guarded(head[0], nonEmpty)
		c.Check(g, rule, fn, "non-empty", head[0].Instr(), "guarded by len(expectations) > 0", "expectations[0] read without checking that an expectation is left: index out of range instead of a reported deviation", path)
	}
	if fn := c.NeedFn(rule, "mocks.SyncProducer.SendMessages"); fn != nil {
		fi := Info(fn)
		f := "SyncProducer.expectations"
		msgsLen := LenOf(ParamN(1))
		take := fi.Find(func(it Item) bool {
			sl, ok := it.In.(*ssa.Slice)
			return ok && FieldLoad(f)(sl.X) && sl.High != nil && msgsLen(sl.High) && (sl.Low == nil || ConstInt(0)(sl.Low))
		})
		adv := fi.Find(StoreTo(func(v ssa.Value) bool {
			sl, ok := v.(*ssa.Slice)
			return ok && FieldLoad(f)(sl.X) && sl.Low != nil && msgsLen(sl.Low) && sl.High == nil
		}, f))
		okGuard := false
		if len(take) == 1 {
			okGuard, _ = WholeFn(fn).Guarded(take[0], Cmp{token.GEQ, LenOf(FieldLoad(f)), msgsLen})
		}
		c.Check(len(take) == 1 && len(adv) == 1 && okGuard, rule, fn, "batch-pop", nil, "SendMessages uses expectations[0:len(msgs)] and advances by len(msgs), under len(expectations) >= len(msgs)", "SendMessages does not consume exactly the first len(msgs) expectations under the sufficiency test", nil)
	}
	_ = p
}

func c20Partition(c *Ctx) {
	p := c.P
	rule := "C20.partition"
	c.Doc(rule, "the partition stored into the message is the result of Partitioner.Partition(msg, partitions(topic))")
	c.Floor(rule, 3)
	choice := p.ResultOf(0, "Partitioner.Partition")
	for _, name := range []string{"mocks.NewAsyncProducer$1", "mocks.SyncProducer.SendMessage", "mocks.SyncProducer.SendMessages"} {
		fn := c.NeedFn(rule, name)
		if fn == nil {
			continue
		}
		fi := Info(fn)
		stores := fi.Find(StoreTo(nil, "ProducerMessage.Partition"))
		calls := fi.Find(p.CallTo("Partitioner.Partition"))
		ok := len(stores) == 1 && len(calls) == 1 && (choice(stores[0].In.(*ssa.Store).Val) || choice(reachingCellValue(fn, stores[0].In.(*ssa.Store).Val)))
		if ok {
			// partition count from TopicConfig.partitions(topic)
			a := callArgs(calls[0])
			ok = len(a) == 2 && p.ResultOf(0, "mocks.TopicConfig.partitions")(a[1])
		}
		c.Check(ok, rule, fn, "partitioner-choice", nil, "msg.Partition ← Partitioner.Partition(msg, partitions(topic))", "the message's partition is not the configured partitioner's choice over the configured partition count", nil)
	}
	// Not armed: "SendMessage returns the chosen partition".  The mock returns the literal 0 on success
	// (the choice is only stored in msg.Partition); the repository's own example test
	// (examples/http_server) pins that behaviour, so demanding more would be a false alarm (DESIGN §7, F17).
}

func c20Offsets(c *Ctx) {
	rule := "C20.offsets"
	c.Doc(rule, "lastOffset is incremented exactly once on each success path and the message's offset is that value; the mock consumer numbers yielded messages with atomic.AddInt64(&highWaterMarkOffset, 1)")
	c.Floor(rule, 3)
	p := c.P
	for _, h := range []struct{ name, field string }{{"mocks.NewAsyncProducer$1", "AsyncProducer.lastOffset"}, {"mocks.SyncProducer.SendMessage", "SyncProducer.lastOffset"}, {"mocks.SyncProducer.SendMessages", "SyncProducer.lastOffset"}} {
		fn := c.NeedFn(rule, h.name)
		if fn == nil {
			continue
		}
		fi := Info(fn)
		inc := StoreTo(BinOpOf(token.ADD, FieldLoad(h.field), ConstInt(1)), h.field)
		incs := fi.Find(inc)
		succ, _ := p.Mocks.Pkg.Scope().Lookup("errProduceSuccess").(interface{ Name() string })
		_ = succ
		okGuard := len(incs) == 1
		if okGuard {
			reg := WholeFn(fn)
			if l := fi.InnermostLoop(itemBlock(incs[0])); l != nil {
				reg = fi.Iteration(l)
			}
			g, _ := reg.Guarded(incs[0], Cmp{token.EQL, FieldLoad("producerExpectation.Result"), func(v ssa.Value) bool {
				u, ok := strip(v).(*ssa.UnOp)
				if !ok {
					return false
				}
				gl, ok := u.X.(*ssa.Global)
				return ok && gl.Name() == "errProduceSuccess"
			}})
			okGuard = g
		}
		c.Check(okGuard, rule, fn, "lastOffset++", nil, "lastOffset++ exactly once, on the success path only", "lastOffset is not incremented exactly once per successful message (offsets repeat or skip)", nil)
	}
	if fn := c.NeedFn(rule, "mocks.PartitionConsumer.YieldMessage"); fn != nil {
		ss := Info(fn).Find(StoreTo(nil, "ConsumerMessage.Offset"))
		ok := len(ss) == 1
		if ok {
			cl, isCall := ss[0].In.(*ssa.Store).Val.(*ssa.Call)
			ok = isCall && p.CalleeName(&cl.Call) == "sync/atomic.AddInt64" && FieldAddrOf("PartitionConsumer.highWaterMarkOffset")(cl.Call.Args[0]) && ConstInt(1)(cl.Call.Args[1])
		}
		c.Check(ok, rule, fn, "consumer-offsets", nil, "yielded message offset ← atomic.AddInt64(&highWaterMarkOffset, 1)", "yielded messages are not numbered consecutively from the high-water-mark counter", nil)
	}
}

func c20Report(c *Ctx) {
	p := c.P
	rule := "C20.report"
	c.Doc(rule, "the ErrorReporter is called exactly in the tabled deviation branches (no expectation left, leftovers at Close, partitioner error, checker error, unexpected partition/offset/metadata call, undrained channels, consumer never started) — one call per branch — and nowhere else")
	c.Floor(rule, 8)
	errorf := p.CallTo("mocks.ErrorReporter.Errorf")
	want := map[string]int{
		"mocks.NewAsyncProducer$1":        4,
		"mocks.SyncProducer.SendMessage":  3,
		"mocks.SyncProducer.SendMessages": 3,
		"mocks.SyncProducer.Close":        1,
		"mocks.Consumer.ConsumePartition": 2,
		"mocks.Consumer.Topics":           1,
		"mocks.Consumer.Partitions":       1,
		"mocks.PartitionConsumer.Close":   3,
	}
	got := map[string]int{}
	for _, fn := range p.Fns {
		if fn.Parent() != nil && iifeCall(fn) != nil {
			continue // an immediately-invoked literal (an inlined-back helper): its sites are counted with its caller's
		}
		if n := len(Info(fn).Find(errorf)); n > 0 {
			got[p.Name(fn)] = n
		}
	}
	names := map[string]bool{}
	for n := range want {
		names[n] = true
	}
	for n := range got {
		names[n] = true
	}
	var sorted []string
	for n := range names {
		sorted = append(sorted, n)
	}
	sort.Strings(sorted)
	for _, n := range sorted {
		c.Check(got[n] == want[n], rule, p.Fn(n), "sites", nil, fmt.Sprintf("%d reporting site(s) as tabled", got[n]), fmt.Sprintf("%s has %d ErrorReporter.Errorf sites, table says %d: a deviation is no longer reported, or something that is not a deviation is", n, got[n], want[n]), nil)
	}
	// one report per path in the per-message code
	for _, name := range []string{"mocks.NewAsyncProducer$1", "mocks.SyncProducer.SendMessage"} {
		fn := p.Fn(name)
		if fn == nil {
			continue
		}
		fi := Info(fn)
		reg := WholeFn(fn)
		if ls, _ := rangeChanLoops(fi, FieldLoad("AsyncProducer.input")); len(ls) == 1 {
			reg = fi.Iteration(ls[0])
		}
		cr := reg.Count(errorf)
		c.Check(!cr.HasTwo(), rule, fn, "one-report-per-message", cr.Second.Instr(), "at most one deviation report per message", "two deviation reports for one message on one path", nil)
	}
	// the deviation branches: empty queue → report
	for _, h := range []struct{ name, field string }{{"mocks.NewAsyncProducer$1", "AsyncProducer.expectations"}, {"mocks.SyncProducer.SendMessage", "SyncProducer.expectations"}, {"mocks.SyncProducer.Close", "SyncProducer.expectations"}} {
		fn := p.Fn(h.name)
		if fn == nil {
			continue
		}
		fi := Info(fn)
		reg := WholeFn(fn)
		if ls, _ := rangeChanLoops(fi, FieldLoad("AsyncProducer.input")); len(ls) == 1 {
			reg = fi.Iteration(ls[0])
		}
		n := 0
		empty := AnyOf{Cmp{token.LEQ, LenOf(FieldLoad(h.field)), ConstInt(0)}, Cmp{token.EQL, LenOf(FieldLoad(h.field)), ConstInt(0)}}
		if strings.HasSuffix(h.name, "Close") {
			empty = AnyOf{Cmp{token.GTR, LenOf(FieldLoad(h.field)), ConstInt(0)}}
		}
		for _, e := range reg.EstablishingEdges(empty) {
			n++
			esc, path := reg.From(Pt{e.To, 0}).Escape(errorf)
			c.Check(!esc, rule, fn, "deviation-reported", lastInstr(e.From), "the deviation branch reports to the ErrorReporter on every path", "a deviation (no expectation left / leftovers at Close) is not reported on every path", path)
		}
		if n == 0 {
			c.Fail(rule, fn, "deviation-reported", nil, "no test of len(expectations) found", nil)
		}
	}
}

func c20Lock(c *Ctx) {
	runLockset(c, "C20.lock", []guardedField{
		{"AsyncProducer.expectations", "AsyncProducer.l", "scripted expectations"},
		{"AsyncProducer.lastOffset", "AsyncProducer.l", "last assigned offset"},
		{"SyncProducer.expectations", "SyncProducer.l", "scripted expectations"},
		{"SyncProducer.lastOffset", "SyncProducer.l", "last assigned offset"},
		{"SyncProducer.partitioners", "SyncProducer.l", "per-topic partitioners"},
		{"Consumer.partitionConsumers", "Consumer.l", "expected partition consumers"},
		{"Consumer.metadata", "Consumer.l", "topic metadata"},
	}, 7)
}

// C20.atomic: taking the next expectation(s) and handing out the offset(s) that go with them is one critical section.
func c20Atomic(c *Ctx) {
	p := c.P
	rule := "C20.atomic"
	c.Doc(rule, "mock producers: in every function that takes expectations off the script (a store to X.expectations) and assigns offsets (a store to X.lastOffset), each offset assignment happens under exactly one acquisition of X.l, the same one under which the expectations were taken, and that acquisition dominates both — the mutex is not released in between, so a concurrent sender cannot take a later expectation and an earlier offset")
	c.Floor(rule, 3)
	n := 0
	for _, fn := range p.Fns {
		if rootFn(fn).Pkg != p.Mocks || fn.Blocks == nil {
			continue
		}
		if fn.Parent() != nil && iifeCall(fn) != nil {
			continue // an immediately-invoked literal (an inlined-back helper) is looked at with its caller
		}
		var pops, offs []*ssa.Store
		Info(fn).Each(func(it Item) {
			st, ok := it.In.(*ssa.Store)
			if !ok {
				return
			}
			owner, name, _, ok := ownerField(st.Addr)
			if !ok || (owner != "SyncProducer" && owner != "AsyncProducer") {
				return
			}
			switch name {
			case "expectations":
				// a pop: the new value is a slice of the old one
				if _, isSlice := strip(st.Val).(*ssa.Slice); isSlice {
					pops = append(pops, st)
				}
			case "lastOffset":
				offs = append(offs, st)
			}
		})
		if len(pops) == 0 || len(offs) == 0 {
			continue
		}
		at := acquisitionsAt(fn)
		// site: the instruction of fn at which a store inside an immediately-invoked literal takes place (the call)
		site := func(in ssa.Instruction) ssa.Instruction {
			for d := 0; d < 6 && in != nil && in.Parent() != fn; d++ {
				cl := iifeCall(in.Parent())
				if cl == nil {
					return nil
				}
				in = cl
			}
			return in
		}
		for _, o := range offs {
			n++
			_, _, base, _ := ownerField(o.Addr)
			k := lockKey{base, "l"}
			oSite := site(o)
			if oSite == nil {
				c.Unresolved(rule, "the place of an offset assignment in "+p.Name(fn))
				continue
			}
			cur := at[oSite][k]
			bad := ""
			switch {
			case len(cur) == 0:
				bad = "the offset is assigned without holding the mock's mutex"
			case len(cur) > 1:
				bad = "the offset is assigned under a different acquisition of the mock's mutex than the one under which the expectation was taken (the mutex is released and re-taken in between)"
			default:
				var a ssa.Instruction
				for x := range cur {
					a = x
				}
				okPop := false
				for _, pp := range pops {
					pSite := site(pp)
					if pSite == nil {
						continue
					}
					pc := at[pSite][k]
					if len(pc) == 1 && pc[a] && (pSite.Block().Dominates(oSite.Block())) {
						okPop = true
					}
				}
				if !okPop {
					bad = "no removal of expectations under the same acquisition of the mutex precedes the offset assignment"
				}
			}
			c.Check(bad == "", rule, fn, "offset-with-its-expectation", o, "expectation taken and offset assigned in one critical section", bad+": with concurrent senders a message gets the outcome of one expectation and the offset belonging to another (offsets not increasing in expectation order, batch offsets not consecutive)", nil)
		}
	}
	if n < 3 {
		c.Unresolved(rule, fmt.Sprintf("offset assignments in functions that also take expectations (found %d)", n))
	}
}

// C20.own-config: the configured partition counts are the mock's own copy.
func c20OwnConfig(c *Ctx) {
	p := c.P
	rule := "C20.own-config"
	c.Doc(rule, "TopicConfig.overridePartitions is only ever assigned a map made by the mock itself (make), never a map handed in by the caller: SetPartitions copies the entries, so what the partitioner is given depends only on the calls made to this mock, not on what the caller (or another mock configured from the same map) later does to its map")
	c.Floor(rule, 1)
	n := 0
	for _, fn := range p.Fns {
		if rootFn(fn).Pkg != p.Mocks {
			continue
		}
		for _, s := range Info(fn).Find(StoreTo(nil, "TopicConfig.overridePartitions")) {
			st, ok := s.In.(*ssa.Store)
			if !ok {
				continue
			}
			n++
			_, fresh := strip(st.Val).(*ssa.MakeMap)
			c.Check(fresh, rule, fn, "fresh-map", st, "overridePartitions ← a map made here", "TopicConfig.overridePartitions is assigned a map that is not made by the mock ("+describe(st.Val)+"): the mock's partition counts alias the caller's map — later changes to it (or SetPartitions on another mock configured from the same map) change the counts this mock hands to its partitioner, and the mock writes into the caller's map", nil)
		}
	}
	if n == 0 {
		c.Unresolved(rule, "stores to TopicConfig.overridePartitions")
	}
}

// C20.close-all: closing the mock consumer examines every partition.
func c20CloseAll(c *Ctx) {
	rule := "C20.close-all"
	c.Doc(rule, "mocks.Consumer.Close: the loops over the registered partition consumers are left only when their range is exhausted — no return or break from inside: every partition consumer is closed, so each one's close-time deviations (never started, channels not drained) reach the error reporter whatever the (random) map order and whatever another partition's Close returned")
	c.Floor(rule, 2)
	fn := c.NeedFn(rule, "mocks.Consumer.Close")
	if fn == nil {
		return
	}
	fi := Info(fn)
	if len(fi.Loops) < 2 {
		c.Unresolved(rule, fmt.Sprintf("loops of mocks.Consumer.Close (found %d)", len(fi.Loops)))
	}
	for i, l := range fi.Loops {
		var bad *ssa.BasicBlock
		for b := range l.Blocks {
			if b == l.Head {
				continue
			}
			if _, isRet := lastInstr(b).(*ssa.Return); isRet {
				bad = b
			}
			for _, succ := range b.Succs {
				if !l.Blocks[succ] {
					// leaving from the body; an inner loop's normal exit lands in the outer loop, which is fine
					inOuter := false
					for _, l2 := range fi.Loops {
						if l2 != l && l2.Blocks[succ] && l2.Blocks[b] {
							inOuter = true
						}
					}
					if !inOuter {
						bad = b
					}
				}
			}
		}
		var at ssa.Instruction
		if bad != nil {
			at = lastInstr(bad)
		}
		c.Check(bad == nil, rule, fn, fmt.Sprintf("loop#%d-runs-to-the-end", i), at, "every partition consumer is closed", "mocks.Consumer.Close can stop at the first partition whose Close returns something (left-over errors are legitimate): the partitions after it in map order are never closed nor examined — their deviations (consumer never started, channels not drained) are not reported", nil)
	}
}

// reachingCellValue: v is a load of a local cell (a named result spilled because the function defers): the value of
// the one store to that cell from which the load is reachable (nil if there is none or more than one).  The stores
// `return -1, -1, err` makes into named results sit right before the return and reach no later load.
func reachingCellValue(fn *ssa.Function, v ssa.Value) ssa.Value {
	u, ok := strip(v).(*ssa.UnOp)
	if !ok || u.Op != token.MUL {
		return nil
	}
	al, ok := u.X.(*ssa.Alloc)
	if !ok {
		return nil
	}
	reg := WholeFn(fn)
	var found ssa.Value
	n := 0
	for _, r := range *al.Referrers() {
		st, isSt := r.(*ssa.Store)
		if !isSt || st.Addr != ssa.Value(al) {
			continue
		}
		other := func(it Item) bool {
			s2, ok := it.In.(*ssa.Store)
			return ok && s2 != st && s2.Addr == ssa.Value(al)
		}
		if hit, _ := reg.From(Item{In: st}.After()).Reach(Is(u), other); !hit.IsZero() {
			found = st.Val
			n++
		}
	}
	if n != 1 {
		return nil
	}
	return found
}
