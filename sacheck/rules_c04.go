package main

// C04 — a reported success identifies exactly where and what was written (structural clauses).

import (
	"strings"
	"fmt"
	"go/token"
	"go/types"

	"golang.org/x/tools/go/ssa"
)

// idxOf matches the (possibly converted) induction value of loop l.
func idxOf(l *Loop) VM {
	return func(v ssa.Value) bool { return idxFromLoop(strip(v), l) }
}

// encodeOf matches `x.Encode()` result #0 where x reads the field path (Encoder invoke).
func (p *Program) encodeOf(path string, base VM) VM {
	return func(v ssa.Value) bool {
		ex, ok := strip(v).(*ssa.Extract)
		if !ok || ex.Index != 0 {
			return false
		}
		c, ok := ex.Tuple.(*ssa.Call)
		if !ok || !c.Call.IsInvoke() || c.Call.Method.Name() != "Encode" {
			return false
		}
		if base != nil {
			return FieldLoadOf(path, base)(c.Call.Value)
		}
		return FieldLoad(path)(c.Call.Value)
	}
}

func init() {
	register(&propDef{
		ID:    "C04",
		Title: "A reported success identifies exactly where and what was written",
		Explain: "Decides by provenance/guard/path analysis: the offset stored in the i-th message of an acknowledged partition set is block.Offset + i and the set is then reported (C04.offset); produceSet.add appends the message and its record exactly once together or not at all, with no error return after the append (C04.aligned); the record/message built carries the encoded key and value of that message and its headers index-for-index (C04.record); " +
			"buildRequest numbers records/inner messages by their index and sets LastOffsetDelta = len-1 (C04.deltas); the partition is chosen once (retries == 0) and the choice is range-checked before indexing (C04.partition-once); the byte/count accounting of add and dropPartition is symmetric (C04.accounting). " +
			"What compress() and its siblings hand out is never storage that the same function returns to a sync.Pool — the encoders cache a compressed payload between the sizing and the writing pass, and a pooled buffer would be overwritten by the next partition (C04.owned-output). Shared with C09 because C04 names nil/empty keys and values: the null marker of a byte field is written only under a nil test (C09.null) and the sizing and writing passes of every primitive agree (C09.prep-real). " +
			"NOT covered: codec output, per-version framing bytes (C09 decides encoder/decoder agreement), broker behaviour.",
		Rules: []func(*Ctx){c04Offset, c04Aligned, c04Record, c04Deltas, c04PartitionOnce, c04Accounting, c04OwnedOutput, c09Null, c09PrepReal, c04FormatGate, c04FreshElement, c02RetryStateKept, c01ErrLost, c04HeadersGate, c04BaseFixed, c04InnerMessagePlain, c04TimestampsFloored, c05Rollover, c02SlabNotReused, c04DeltaOfFloored, c09VarintReserve},
	})
}

func c04Offset(c *Ctx) {
	p := c.P
	rule := "C04.offset"
	c.Doc(rule, "handleSuccess, success arm: msg.Offset of the i-th element of pSet.msgs ← block.Offset + int64(i); returnSuccesses(pSet.msgs) follows on every path")
	c.Floor(rule, 2)
	hs := c.NeedFn(rule, "brokerProducer.handleSuccess")
	if hs == nil {
		return
	}
	calls := Info(hs).Find(p.CallTo("produceSet.eachPartition"))
	if len(calls) == 0 {
		c.Unresolved(rule, "eachPartition in handleSuccess")
		return
	}
	cb := p.closureArg(calls[0], 1)
	if cb == nil {
		c.Unresolved(rule, "first-pass callback")
		return
	}
	fi := Info(cb)
	stores := fi.Find(StoreTo(nil, "ProducerMessage.Offset"))
	if len(stores) == 0 {
		c.Fail(rule, cb, "offset-store", nil, "no store to ProducerMessage.Offset in the success arm: successes carry no offset", nil)
		return
	}
	for _, s := range stores {
		st := s.In.(*ssa.Store)
		base, _ := matchPath(fieldChain(st.Addr), "ProducerMessage.Offset")
		sl, l, ok := rangeElem(fi, base)
		good := ok && FieldLoad("partitionSet.msgs")(sl) &&
			BinOpOf(token.ADD, FieldLoad("ProduceResponseBlock.Offset"), idxOf(l))(st.Val)
		c.Check(good, rule, cb, "offset-store", st, "msg.Offset ← block.Offset + index of msg in pSet.msgs",
			"the offset reported for a message is not block.Offset + its index in the partition set (got "+describe(st.Val)+")", nil)
		esc, path := WholeFn(cb).From(s.After()).Escape(p.CallWith("asyncProducer.returnSuccesses", 1, FieldLoad("partitionSet.msgs")))
		c.Check(!esc, rule, cb, "then-report", st, "returnSuccesses(pSet.msgs) follows the offset assignment", "offsets assigned but the set is not reported successful on every path", path)
	}
}

func c04Aligned(c *Ctx) {
	p := c.P
	rule := "C04.aligned"
	c.Doc(rule, "produceSet.add: the append to set.msgs and the addRecord/addMessage happen together exactly once on every path that returns nil, never on a path that returns an error; no error return is reachable after the append (msgs[i] ↔ record i alignment)")
	c.Floor(rule, 4)
	fn := c.NeedFn(rule, "produceSet.add")
	if fn == nil {
		return
	}
	msg := fn.Params[1]
	reg := WholeFn(fn)
	app := StoreTo(AppendOf(Same(msg)), "partitionSet.msgs")
	rec := Or(p.CallTo("RecordBatch.addRecord"), p.CallTo("MessageSet.addMessage"))
	as := reg.Find(app)
	if len(as) == 0 {
		c.Unresolved(rule, "append of msg to set.msgs")
		return
	}
	errRet := func(it Item) bool { return IsReturn()(it) && !ReturnNilErr()(it) }
	for _, a := range as {
		it, path := reg.From(a.After()).Reach(errRet, nil)
		c.Check(it.IsZero(), rule, fn, "no-error-after-append", a.Instr(), "no error return reachable after the message was appended",
			"add can return an error after appending the message to set.msgs: the caller fails the message while it stays in the batch (sent anyway; outcome reported twice)", path)
		cr := reg.From(a.After()).Count(rec)
		c.Check(!cr.HasNone() && !cr.HasTwo(), rule, fn, "record-after-append", a.Instr(), "exactly one addRecord/addMessage follows the append on every path",
			"after appending the message no (or two) records are added: set.msgs and the batch records are misaligned, offsets are reported for the wrong messages", cr.NonePath)
	}
	it, path := reg.MustPrecede(app, rec)
	c.Check(it.IsZero(), rule, fn, "append-before-record", nil, "a record is added only after its message was appended", "a record can be added to the batch without its message in set.msgs", path)
	it2, path2 := reg.Reach(ReturnNilErr(), app)
	c.Check(it2.IsZero(), rule, fn, "nil-implies-appended", nil, "add returns nil only after appending the message", "add can return nil without having appended the message: it silently disappears", path2)
}

func c04Record(c *Ctx) {
	p := c.P
	rule := "C04.record"
	c.Doc(rule, "produceSet.add: Record{Key,Value} / Message{Key,Value} ← the encoded msg.Key / msg.Value (or nil when absent); rec.Headers[i] ← &msg.Headers[i] with the same index")
	c.Floor(rule, 5)
	fn := c.NeedFn(rule, "produceSet.add")
	if fn == nil {
		return
	}
	fi := Info(fn)
	msg := fn.Params[1]
	key := AllEdges(IsNil(), p.encodeOf("ProducerMessage.Key", Same(msg)))
	val := AllEdges(IsNil(), p.encodeOf("ProducerMessage.Value", Same(msg)))
	for _, tn := range []string{"Record", "Message"} {
		lits := p.literalsOf(fn, tn)
		if len(lits) != 1 {
			c.Unresolved(rule, tn+" literal in produceSet.add")
			continue
		}
		l := lits[0]
		c.Check(l.fields["Key"] != nil && key(l.fields["Key"]), rule, fn, tn+".Key", l.alloc, tn+".Key ← msg.Key.Encode() (nil if absent)", tn+".Key is not the encoded key of the message being added (got "+describe(l.fields["Key"])+")", nil)
		c.Check(l.fields["Value"] != nil && val(l.fields["Value"]), rule, fn, tn+".Value", l.alloc, tn+".Value ← msg.Value.Encode() (nil if absent)", tn+".Value is not the encoded value of the message being added (got "+describe(l.fields["Value"])+")", nil)
		// … and it is nil ONLY when absent: the edge that carries nil into the field is the one on which the
		// message's Encoder was found nil (an Encoder that is present but encodes to zero bytes is an EMPTY
		// field, length 0 on the wire, not a null one)
		for _, fld := range []string{"Key", "Value"} {
			v := l.fields[fld]
			if v == nil {
				continue
			}
			ph, isPhi := strip(throughCell(v)).(*ssa.Phi)
			if !isPhi {
				continue
			}
			absent := Cmp{token.EQL, FieldLoadOf("ProducerMessage."+fld, Same(msg)), IsNil()}
			reg := WholeFn(fn)
			for i, e := range ph.Edges {
				if !IsNil()(e) || i >= len(ph.Block().Preds) {
					continue
				}
				pred := ph.Block().Preds[i]
				ok := Establishes(pred, ph.Block(), absent)
				if !ok {
					ok, _ = reg.Guarded(Item{In: lastInstr(pred)}, absent)
				}
				c.Check(ok, rule, fn, tn+"."+fld+":nil-only-when-absent", ph, tn+"."+fld+" is nil only where msg."+fld+" == nil", tn+"."+fld+" can be nil although the message has a "+fld+" (e.g. an `Encoder.Length() == 0` shortcut): a present-but-empty "+strings.ToLower(fld)+" is written as null (length -1) instead of empty (length 0) — an empty value reaches the broker as a tombstone, which deletes the key on a compacted topic, and success is reported", nil)
			}
		}
	}
	// headers: store of &msg.Headers[i] into rec.Headers[i]
	n := 0
	fi.Each(func(it Item) {
		st, ok := it.In.(*ssa.Store)
		if !ok {
			return
		}
		dst, ok := st.Addr.(*ssa.IndexAddr)
		if !ok || !FieldLoad("Record.Headers")(dst.X) {
			return
		}
		n++
		src, ok := st.Val.(*ssa.IndexAddr)
		good := ok && FieldLoadOf("ProducerMessage.Headers", Same(msg))(src.X) && src.Index == dst.Index
		c.Check(good, rule, fn, "headers-same-index", st, "rec.Headers[i] ← &msg.Headers[i]", "record header i is not the message's header i", nil)
	})
	if n == 0 {
		c.Fail(rule, fn, "headers-same-index", nil, "headers of the message are not copied into the record", nil)
	}
}

func c04Deltas(c *Ctx) {
	p := c.P
	rule := "C04.deltas"
	c.Doc(rule, "buildRequest: record.OffsetDelta ← its index in rb.Records, rb.LastOffsetDelta ← len(rb.Records)-1, relative offset of wrapped legacy messages ← their index")
	c.Floor(rule, 3)
	fn := c.NeedFn(rule, "produceSet.buildRequest")
	if fn == nil {
		return
	}
	// the stores may sit in buildRequest or in a helper it calls (a few statements extracted)
	fns := p.withHelpers(fn, 2)
	chk := func(field, slicePath, what string) {
		n := 0
		for _, f := range fns {
			fi := Info(f)
			for _, s := range fi.Find(StoreTo(nil, field)) {
				n++
				st := s.In.(*ssa.Store)
				base, _ := matchPath(fieldChain(st.Addr), field)
				sl, l, ok := rangeElem(fi, base)
				good := ok && FieldLoad(slicePath)(sl) && idxOf(l)(st.Val)
				c.Check(good, rule, f, what, st, field+" ← index of the element in "+slicePath, field+" is not the element's index in "+slicePath+" (got "+describe(st.Val)+")", nil)
			}
		}
		if n == 0 {
			c.Fail(rule, fn, what, nil, "no store to "+field+" in buildRequest or its helpers: relative offsets are not numbered", nil)
		}
	}
	chk("Record.OffsetDelta", "RecordBatch.Records", "record-offset-delta")
	chk("MessageBlock.Offset", "MessageSet.Messages", "inner-relative-offset")
	n := 0
	for _, f := range fns {
		for _, s := range Info(f).Find(StoreTo(nil, "RecordBatch.LastOffsetDelta")) {
			n++
			st := s.In.(*ssa.Store)
			good := BinOpOf(token.SUB, LenOf(FieldLoad("RecordBatch.Records")), ConstInt(1))(st.Val)
			c.Check(good, rule, f, "last-offset-delta", st, "LastOffsetDelta ← len(rb.Records)-1", "LastOffsetDelta is not len(rb.Records)-1 (got "+describe(st.Val)+")", nil)
		}
	}
	if n == 0 {
		c.Fail(rule, fn, "last-offset-delta", nil, "LastOffsetDelta never set", nil)
	}
	_ = p
}

func c04PartitionOnce(c *Ctx) {
	p := c.P
	rule := "C04.partition-once"
	c.Doc(rule, "topicProducer.dispatch calls partitionMessage only under msg.retries == 0; partitionMessage stores msg.Partition = partitions[choice] only under 0 <= choice < numPartitions with choice the partitioner's result and numPartitions = len(partitions)")
	c.Floor(rule, 3)
	if fn := c.NeedFn(rule, "topicProducer.dispatch"); fn != nil {
		fi := Info(fn)
		loops, vals := rangeChanLoops(fi, FieldLoad("topicProducer.input"))
		if len(loops) != 1 {
			c.Unresolved(rule, "range tp.input")
		} else {
			reg := fi.Iteration(loops[0])
			cs := reg.Find(p.CallTo("topicProducer.partitionMessage"))
			if len(cs) == 0 {
				c.Unresolved(rule, "partitionMessage call")
			}
			for _, s := range cs {
				g, path := reg.Guarded(s, Cmp{token.EQL, FieldLoadOf("ProducerMessage.retries", Same(vals[0])), ConstInt(0)})
				c.Check(g, rule, fn, "first-pass", s.Instr(), "partition chosen only on the first pass (msg.retries == 0)",
					"the partitioner runs again for a retried message: it can move to another partition (duplicates across partitions, reported partition differs)", path)
			}
		}
	}
	if fn := c.NeedFn(rule, "topicProducer.partitionMessage"); fn != nil {
		reg := WholeFn(fn)
		ss := reg.Find(StoreTo(nil, "ProducerMessage.Partition"))
		if len(ss) == 0 {
			c.Unresolved(rule, "store to msg.Partition")
		}
		choice := p.ResultOf(0, "Partitioner.Partition")
		for _, s := range ss {
			st := s.In.(*ssa.Store)
			// value: partitions[choice]
			okIdx := false
			var slice ssa.Value
			if u, ok := strip(st.Val).(*ssa.UnOp); ok && u.Op == token.MUL {
				if ia, ok := u.X.(*ssa.IndexAddr); ok && choice(ia.Index) {
					okIdx, slice = true, ia.X
				}
			}
			c.Check(okIdx, rule, fn, "index-is-choice", st, "msg.Partition ← partitions[choice] with choice the partitioner's result", "msg.Partition is not partitions[<partitioner's choice>]", nil)
			if !okIdx {
				continue
			}
			n := func(v ssa.Value) bool { return LenOf(func(x ssa.Value) bool { return sameValue(x, slice) })(strip(v)) }
			g1, p1 := reg.Guarded(s, Cmp{token.GEQ, choice, ConstInt(0)})
			g2, p2 := reg.Guarded(s, Cmp{token.LSS, choice, n})
			c.Check(g1, rule, fn, "choice>=0", st, "guarded by choice >= 0", "partitions[choice] indexed without the test choice >= 0: a negative choice panics the topic worker", p1)
			c.Check(g2, rule, fn, "choice<n", st, "guarded by choice < numPartitions (= len(partitions))", "partitions[choice] indexed without the test choice < len(partitions): out-of-range choice panics the topic worker", p2)
		}
	}
}

func c04Accounting(c *Ctx) {
	rule := "C04.accounting"
	c.Doc(rule, "add: set.bufferBytes and ps.bufferBytes grow by the same size value and bufferCount by one; dropPartition subtracts set.bufferBytes and len(set.msgs), deletes the entry and returns set.msgs")
	c.Floor(rule, 5)
	p := c.P
	if fn := c.NeedFn(rule, "produceSet.add"); fn != nil {
		fi := Info(fn)
		var sizes []ssa.Value
		for _, path := range []string{"partitionSet.bufferBytes", "produceSet.bufferBytes"} {
			ss := fi.Find(StoreTo(nil, path))
			if len(ss) != 1 {
				c.Fail(rule, fn, "grow:"+path, nil, fmt.Sprintf("expected one update of %s, found %d", path, len(ss)), nil)
				continue
			}
			st := ss[0].In.(*ssa.Store)
			bo, ok := st.Val.(*ssa.BinOp)
			if ok && bo.Op == token.ADD && FieldLoad(path)(bo.X) {
				sizes = append(sizes, bo.Y)
				c.OK(rule, fn, "grow:"+path, st, path+" += size")
			} else {
				c.Fail(rule, fn, "grow:"+path, st, path+" is not incremented by the message size", nil)
			}
		}
		c.Check(len(sizes) == 2 && sameValue(sizes[0], sizes[1]), rule, fn, "same-size", nil, "both counters grow by the same size value", "the partition and the request byte counters grow by different amounts: dropPartition later corrupts the request size", nil)
		cs := fi.Find(StoreTo(BinOpOf(token.ADD, FieldLoad("produceSet.bufferCount"), ConstInt(1)), "produceSet.bufferCount"))
		c.Check(len(cs) == 1, rule, fn, "count++", nil, "bufferCount++ once", "bufferCount is not incremented exactly once per added message", nil)
	}
	if fn := c.NeedFn(rule, "produceSet.dropPartition"); fn != nil {
		fi := Info(fn)
		b := fi.Find(StoreTo(BinOpOf(token.SUB, FieldLoad("produceSet.bufferBytes"), FieldLoad("partitionSet.bufferBytes")), "produceSet.bufferBytes"))
		n := fi.Find(StoreTo(BinOpOf(token.SUB, FieldLoad("produceSet.bufferCount"), LenOf(FieldLoad("partitionSet.msgs"))), "produceSet.bufferCount"))
		d := fi.Find(MapDeleteOn(AnyV()))
		c.Check(len(b) == 1 && len(n) == 1 && len(d) == 1, rule, fn, "drop-symmetric", nil, "dropPartition subtracts set.bufferBytes and len(set.msgs) and deletes the entry",
			"dropPartition does not undo exactly what add accounted (bytes, count, map entry)", nil)
	}
	_ = p
}

// c04OwnedOutput: what a function hands out must not live in storage it returns to a pool.  The encoders
// keep a compressed payload between the sizing pass and the writing pass of a request; if compress() returned
// bytes that belong to a pooled buffer, compressing the next partition would overwrite them and the request
// would carry one partition's records under another partition's header — with valid CRCs.
func c04OwnedOutput(c *Ctx) {
	p := c.P
	rule := "C04.owned-output"
	c.Doc(rule, "every function of the package that puts an object into a sync.Pool (directly or by defer): none of its results is that object, a slice or field of it, or the result of a method called on it")
	// (the pinned tree has 16 Put sites, ten of them the per-level gzip writer pools of compress(), which a helper
	// returning the pool for a level reduces to one: the floor only guards against the rule matching nothing)
	c.Floor(rule, 4)
	isPut := func(cc *ssa.CallCommon) bool {
		f := cc.StaticCallee()
		return f != nil && f.String() == "(*sync.Pool).Put" && len(cc.Args) == 2
	}
	for _, fn := range p.Fns {
		if fn.Pkg != p.Sarama {
			continue
		}
		fi := Info(fn)
		var pooled []ssa.Value
		var sites []ssa.Instruction
		fi.Each(func(it Item) {
			switch x := it.In.(type) {
			case *ssa.Call:
				if isPut(&x.Call) {
					pooled = append(pooled, canon(x.Call.Args[1]))
					sites = append(sites, x)
				}
			case *ssa.Defer:
				if isPut(&x.Call) {
					pooled = append(pooled, canon(x.Call.Args[1]))
					sites = append(sites, x)
				}
			}
		})
		if len(pooled) == 0 {
			continue
		}
		// values that denote the pooled object: the value itself, the cell it was stored to, type assertions of it
		same := func(v ssa.Value, obj ssa.Value) bool {
			for d := 0; d < 6 && v != nil; d++ {
				v = canon(v)
				if v == obj {
					return true
				}
				switch x := v.(type) {
				case *ssa.TypeAssert:
					v = x.X
					continue
				case *ssa.Phi:
					for _, e := range x.Edges {
						if canon(e) == obj {
							return true
						}
					}
				case *ssa.Alloc:
					// a cell: what was stored into it
					for _, r := range *x.Referrers() {
						if st, ok := r.(*ssa.Store); ok && st.Addr == ssa.Value(x) && canon(st.Val) == obj {
							return true
						}
					}
				}
				break
			}
			return false
		}
		var derived func(v ssa.Value, obj ssa.Value, d int) bool
		derived = func(v ssa.Value, obj ssa.Value, d int) bool {
			if d > 5 {
				return false
			}
			if same(v, obj) {
				return true
			}
			switch x := strip(v).(type) {
			case *ssa.Call:
				// a method of the pooled object (buf.Bytes())
				if len(x.Call.Args) > 0 && !x.Call.IsInvoke() && x.Call.StaticCallee() != nil && x.Call.StaticCallee().Signature.Recv() != nil {
					return same(x.Call.Args[0], obj)
				}
				if x.Call.IsInvoke() {
					return same(x.Call.Value, obj)
				}
			case *ssa.Slice:
				return derived(x.X, obj, d+1)
			case *ssa.UnOp:
				return derived(x.X, obj, d+1)
			case *ssa.FieldAddr:
				return derived(x.X, obj, d+1)
			case *ssa.Field:
				return derived(x.X, obj, d+1)
			case *ssa.Extract:
				return derived(x.Tuple, obj, d+1)
			case *ssa.Phi:
				for _, e := range x.Edges {
					if derived(e, obj, d+1) {
						return true
					}
				}
			}
			return false
		}
		for i, obj := range pooled {
			bad := false
			var at ssa.Instruction = sites[i]
			for _, b := range fn.Blocks {
				r, ok := lastInstr(b).(*ssa.Return)
				if !ok || IsRecoverBlock(b) {
					continue
				}
				for _, rv := range RetVals(r) {
					// only results that can share storage: slices, pointers, maps (an error returned by a method of
					// the pooled object is a value of its own)
					switch rv.Type().Underlying().(type) {
					case *types.Slice, *types.Pointer, *types.Map:
					default:
						continue
					}
					if derived(rv, obj, 0) {
						bad, at = true, r
					}
				}
			}
			c.Check(!bad, rule, fn, fmt.Sprintf("pooled-object-%d-not-returned", i+1), at, "no result of the function lives in the object it returns to the pool",
				"a result of the function is (part of) an object that the function puts back into a sync.Pool: the next user of the pooled object overwrites what the caller still holds (a cached compressed payload is replaced by another partition's)", nil)
		}
	}
}
