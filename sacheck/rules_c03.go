package main

// C03 — a partition consumer delivers the log exactly once, in order, unaltered (structural clauses).

import (
	"fmt"
	"go/token"
	"sort"
	"strings"

	"golang.org/x/tools/go/ssa"
)

// literal describes a composite literal &T{…} built in SSA: the Alloc and the values stored to
// its fields.
type literal struct {
	fn     *ssa.Function
	alloc  *ssa.Alloc
	fields map[string]ssa.Value
	stores map[string]*ssa.Store
}

func (p *Program) literalsOf(fn *ssa.Function, typeName string) []literal {
	var out []literal
	for _, b := range fn.Blocks {
		for _, in := range b.Instrs {
			al, ok := in.(*ssa.Alloc)
			if !ok || !isPtrToNamed(al.Type(), typeName) {
				continue
			}
			l := literal{fn: fn, alloc: al, fields: map[string]ssa.Value{}, stores: map[string]*ssa.Store{}}
			for _, r := range *al.Referrers() {
				fa, ok := r.(*ssa.FieldAddr)
				if !ok {
					continue
				}
				ch := fieldChain(fa)
				name := ch[len(ch)-1].name
				for _, r2 := range *fa.Referrers() {
					if st, ok := r2.(*ssa.Store); ok && st.Addr == fa {
						l.fields[name] = st.Val
						l.stores[name] = st
					}
				}
			}
			out = append(out, l)
		}
	}
	return out
}

// phiEdges flattens a (possibly nested) phi into its leaf values; non-phi gives itself.
func phiEdges(v ssa.Value) []ssa.Value {
	seen := map[ssa.Value]bool{}
	var out []ssa.Value
	var walk func(v ssa.Value)
	walk = func(v ssa.Value) {
		if seen[v] {
			return
		}
		seen[v] = true
		if ph, ok := v.(*ssa.Phi); ok {
			for _, e := range ph.Edges {
				walk(e)
			}
			return
		}
		out = append(out, v)
	}
	walk(v)
	return out
}

// AllEdges: every leaf of the phi satisfies one of ms, and every m is used by at least one leaf.
func AllEdges(ms ...VM) VM {
	return func(v ssa.Value) bool {
		used := make([]bool, len(ms))
		for _, e := range phiEdges(v) {
			ok := false
			for i, m := range ms {
				if m(e) {
					ok, used[i] = true, true
					break
				}
			}
			if !ok {
				return false
			}
		}
		for _, u := range used {
			if !u {
				return false
			}
		}
		return true
	}
}

// rootBase: the base value at the root of the field chain of v.
func rootBase(v ssa.Value) ssa.Value {
	ch := fieldChain(strip(v))
	if len(ch) == 0 {
		return nil
	}
	return ch[0].base
}

func init() {
	register(&propDef{
		ID:    "C03",
		Title: "A partition consumer delivers the log exactly once, in order, unaltered",
		Explain: "Decides structural necessary conditions on every path of consumer.go: a ConsumerMessage is only built for offsets ≥ child.offset and child.offset is then advanced to exactly that offset+1 (C03.advance); every field of the delivered message comes from the corresponding field of the parsed record/message, and the fetch request asks for (topic, partition, child.offset, fetchSize) of the same child (C03.fields/request); " +
			"the fetch/parse hand-shake: one acks.Done per response per subscription, Add→feed→Wait→handleResponses order (C03.acks); every subscription result class is redispatched exactly once and dropped from the broker worker, a timed-out feeder resubscribes itself (C03.redispatch); tabled senders on messages and writers of child.offset (C03.who); a response holding only a truncated record always changes something before the next fetch — the fetch size doubles, or at the configured maximum ErrMessageTooLarge is reported and the record stepped over; the size is reset only after records arrived (C03.partial-progress); what decompress() returns is never storage it puts back into a pool — the decoders slice keys and values out of it without copying (C04.owned-output, shared). " +
			"NOT covered: base-offset arithmetic of v1 wrappers, the int32 overflow clamp of the doubled fetch size, progress under faults in general, decompression.",
		Rules: []func(*Ctx){c03Advance, c03ResponseSkip, c03PartialProgress, c03EmptyEntry, c04OwnedOutput, c18Consumer, c03Fields, c03Request, c03Acks, c03Redispatch, c03Who, c03FetchFields, c03FreshElement, c11Rules, c11ControlTolerant, c03ErrLost, c12Refcount, c03FreshFetchRequest, c12DispatcherObservesDying, c03CountVsCompressedSize, c11DecodedElementKept, c03TimerRearmed, c11EveryBatchCounted, c03AbortAbandons, c09MessageSetStopsAtV2, c03VerdictConsumed, c10MessageSetConsumesOrFlags, c03HandedOverBatch, c10NoNilIntoPool},
	})
}

func c03Advance(c *Ctx) {
	p := c.P
	rule := "C03.advance"
	c.Doc(rule, "parseRecords/parseMessages: a ConsumerMessage is built only under !(offset < child.offset), with the same offset value stored in the message; on every path child.offset = offset+1 follows; the empty-result fallback child.offset++ is guarded by len(messages)==0")
	c.Floor(rule, 6)
	childOff := FieldLoad("partitionConsumer.offset")
	for _, name := range []string{"partitionConsumer.parseRecords", "partitionConsumer.parseMessages"} {
		fn := c.NeedFn(rule, name)
		if fn == nil {
			continue
		}
		fi := Info(fn)
		lits := p.literalsOf(fn, "ConsumerMessage")
		if len(lits) != 1 {
			c.Unresolved(rule, "the ConsumerMessage literal of "+name)
			continue
		}
		lit := lits[0]
		off := lit.fields["Offset"]
		l := fi.InnermostLoop(lit.alloc.Block())
		if off == nil || l == nil {
			c.Unresolved(rule, "Offset field / record loop of "+name)
			continue
		}
		reg := fi.Iteration(l)
		site := Item{In: lit.alloc}
		g, path := reg.Guarded(site, Cmp{token.GEQ, Same(off), childOff})
		c.Check(g, rule, fn, "deliver-guard", lit.alloc, "message built only under offset >= child.offset (same offset value as stored in the message)",
			"a ConsumerMessage can be built without the test offset >= child.offset: records before the requested offset are delivered (duplicates after a re-fetch)", path)
		adv := StoreTo(BinOpOf(token.ADD, Same(off), ConstInt(1)), "partitionConsumer.offset")
		esc, path2 := reg.From(site.After()).Escape(adv)
		c.Check(!esc, rule, fn, "advance", lit.alloc, "child.offset = offset+1 follows the delivery on every path",
			"after building a message child.offset is not set to that offset+1: the record is fetched and delivered again, or a later one is skipped", path2)
		// other stores to child.offset in this function: only the fallback ++ under len(messages)==0
		for _, s := range fi.Find(StoreTo(nil, "partitionConsumer.offset")) {
			if adv(s) {
				continue
			}
			st := s.In.(*ssa.Store)
			isInc := BinOpOf(token.ADD, childOff, ConstInt(1))(st.Val)
			g, path := WholeFn(fn).Guarded(s, Cmp{token.EQL, LenOf(AnyV()), ConstInt(0)})
			c.Check(isInc && g, rule, fn, "fallback-advance", st, "fallback child.offset++ only when no message was produced (len(messages)==0)",
				"child.offset is modified outside the delivery path without the len(messages)==0 guard: offsets skipped", path)
		}
	}
}

// c03ResponseSkip: parseResponse itself may move child.offset only to step over an oversized message, i.e.
// when the block holds no complete record at all.
func c03ResponseSkip(c *Ctx) {
	p := c.P
	rule := "C03.advance"
	fn := c.NeedFn(rule, "partitionConsumer.parseResponse")
	if fn == nil {
		return
	}
	reg := WholeFn(fn)
	nrecs := p.ResultOf(0, "FetchResponseBlock.numRecords")
	for _, s := range Info(fn).Find(StoreTo(nil, "partitionConsumer.offset")) {
		g, path := reg.Guarded(s, Cmp{token.EQL, nrecs, ConstInt(0)})
		c.Check(g, rule, fn, "response-level-skip-only-when-empty", s.Instr(), "parseResponse moves child.offset itself only when the block holds no complete record (oversized-message skip)",
			"parseResponse advances child.offset although the response carried records (whose own parsing already advanced it): the next visible record is skipped", path)
	}
}

// c03PartialProgress: a response that carries only a truncated record must change something before the
// same fetch is repeated — a larger fetch size, or (at the configured maximum) an error and a skip.
func c03PartialProgress(c *Ctx) {
	p := c.P
	rule := "C03.partial-progress"
	c.Doc(rule, "parseResponse, on every path after block.isPartial() is true: either child.fetchSize is stored with fetchSize*2 (growth), or ErrMessageTooLarge is reported and child.offset advanced — the latter only under fetchSize == Consumer.Fetch.Max with Max > 0; and the fetch size is reset to Consumer.Fetch.Default only when the block held records")
	c.Floor(rule, 3)
	fn := c.NeedFn(rule, "partitionConsumer.parseResponse")
	if fn == nil {
		return
	}
	reg := WholeFn(fn)
	partial := p.ResultOf(0, "FetchResponseBlock.isPartial")
	fsz := FieldLoad("partitionConsumer.fetchSize")
	grow := StoreTo(OrV(BinOpOf(token.MUL, fsz, ConstInt(2)), BinOpOf(token.SHL, fsz, ConstInt(1))), "partitionConsumer.fetchSize")
	tooLarge := p.CallWith("partitionConsumer.sendError", 1, p.ErrVal("ErrMessageTooLarge"))
	edges := reg.EstablishingEdges(Truth{partial, true})
	if len(edges) == 0 {
		c.Unresolved(rule, "branch on block.isPartial() in parseResponse")
		return
	}
	for _, e := range edges {
		esc, path := reg.From(Pt{e.To, 0}).Escape(func(it Item) bool { return grow(it) || tooLarge(it) })
		c.Check(!esc, rule, fn, "partial-grows-or-reports", lastInstr(e.From), "a truncated record leads to a larger fetch size or to ErrMessageTooLarge",
			"a response holding only a truncated record can leave fetch size and offset unchanged: the consumer re-fetches the same bytes forever and never delivers the record", path)
	}
	fmax := FieldLoad("Config.Consumer.Fetch.Max")
	for _, s := range Info(fn).Find(tooLarge) {
		g1, path := reg.Guarded(s, Cmp{token.EQL, fsz, fmax})
		g2, _ := reg.Guarded(s, Cmp{token.GTR, fmax, ConstInt(0)})
		c.Check(g1 && g2, rule, fn, "give-up-only-at-max", s.Instr(), "ErrMessageTooLarge (and the skip) only when the fetch size has reached a configured maximum",
			"a record larger than the current fetch size is skipped with ErrMessageTooLarge although the fetch size could still grow: a deliverable record is lost", path)
		// the skip accompanies the report
		esc, pth := reg.From(s.After()).Escape(StoreTo(nil, "partitionConsumer.offset"))
		c.Check(!esc, rule, fn, "give-up-skips", s.Instr(), "the oversized record is stepped over after the error", "ErrMessageTooLarge is reported but the offset is not advanced: the same oversized record is fetched and reported forever", pth)
	}
	nrecs := p.ResultOf(0, "FetchResponseBlock.numRecords")
	for _, s := range Info(fn).Find(StoreTo(FieldLoad("Config.Consumer.Fetch.Default"), "partitionConsumer.fetchSize")) {
		g, path := reg.Guarded(s, Cmp{token.NEQ, nrecs, ConstInt(0)})
		c.Check(g, rule, fn, "reset-only-with-records", s.Instr(), "the fetch size returns to the default only after a response with records", "the grown fetch size is reset although no record was received: the growth never takes effect", path)
	}
}

// c03EmptyEntry: parseRecords steps over one offset when a batch yields no message (all its records are
// invisible).  A records entry that holds no complete record at all — the truncated tail of a response — must
// therefore not reach it unless it is the only entry of the block (where parseResponse handles it through
// isPartial()); FetchResponseBlock.decode is what guarantees that.
func c03EmptyEntry(c *Ctx) {
	p := c.P
	rule := "C03.empty-entry"
	c.Doc(rule, "FetchResponseBlock.decode: a decoded records entry is appended to RecordsSet only if it holds at least one complete record (numRecords() > 0) or the set is still empty")
	c.Floor(rule, 1)
	fn := c.NeedFn(rule, "FetchResponseBlock.decode")
	if fn == nil {
		return
	}
	fi := Info(fn)
	set := FieldLoad("FetchResponseBlock.RecordsSet")
	isAppend := func(it Item) bool {
		st, ok := it.In.(*ssa.Store)
		if !ok || !FieldAddrOf("FetchResponseBlock.RecordsSet")(st.Addr) {
			return false
		}
		cl, ok := st.Val.(*ssa.Call)
		if !ok {
			return false
		}
		b, ok := cl.Call.Value.(*ssa.Builtin)
		return ok && b.Name() == "append"
	}
	apps := fi.Find(isAppend)
	if len(apps) == 0 {
		c.Unresolved(rule, "append to FetchResponseBlock.RecordsSet in decode")
		return
	}
	n := p.ResultOf(0, "Records.numRecords")
	safe := AnyOf{Cmp{token.GTR, n, ConstInt(0)}, Cmp{token.EQL, LenOf(set), ConstInt(0)}}
	for _, a := range apps {
		reg := WholeFn(fn)
		if l := fi.InnermostLoop(itemBlock(a)); l != nil {
			reg = fi.Iteration(l)
		}
		r2 := *reg
		r2.Cut = func(from, to *ssa.BasicBlock) bool { return Establishes(from, to, safe) }
		it, path := r2.Reach(IsItem(a), nil)
		c.Check(it.IsZero(), rule, fn, "kept-only-with-records-or-alone", a.Instr(), "an entry is kept only if it has a complete record or is the block's first entry",
			"a records entry without a single complete record (the truncated tail of the response) can be kept after complete batches: parseRecords then delivers nothing for it and steps child.offset over the first undelivered record, which is never delivered", path)
	}
}

func c03Fields(c *Ctx) {
	p := c.P
	rule := "C03.fields"
	c.Doc(rule, "provenance of every field of the delivered ConsumerMessage: Key/Value/Headers/offset/timestamp come from the same record (or legacy message) being iterated, Topic/Partition from the partition consumer")
	c.Floor(rule, 14)
	check := func(fn *ssa.Function, lit literal, field string, m VM, want string) {
		v, ok := lit.fields[field]
		if !ok {
			c.Fail(rule, fn, "field:"+field, lit.alloc, "field "+field+" of the delivered message is never set (expected "+want+")", nil)
			return
		}
		c.Check(m(v), rule, fn, "field:"+field, lit.stores[field], field+" ← "+want, field+" of the delivered message does not come from "+want+" (got "+describe(v)+")", nil)
	}
	if fn := c.NeedFn(rule, "partitionConsumer.parseRecords"); fn != nil {
		fi := Info(fn)
		if lits := p.literalsOf(fn, "ConsumerMessage"); len(lits) == 1 {
			lit := lits[0]
			l := fi.InnermostLoop(lit.alloc.Block())
			rec := func(path string) VM {
				return FieldLoadOf(path, func(b ssa.Value) bool {
					_, lp, ok := rangeElem(fi, b)
					return ok && lp == l
				})
			}
			check(fn, lit, "Key", rec("Record.Key"), "rec.Key")
			check(fn, lit, "Value", rec("Record.Value"), "rec.Value")
			check(fn, lit, "Headers", rec("Record.Headers"), "rec.Headers")
			check(fn, lit, "Offset", BinOpOf(token.ADD, FieldLoad("RecordBatch.FirstOffset"), rec("Record.OffsetDelta")), "batch.FirstOffset + rec.OffsetDelta")
			tsAdd := func(v ssa.Value) bool {
				cl, ok := strip(v).(*ssa.Call)
				if !ok || p.CalleeName(&cl.Call) != "(time.Time).Add" || len(cl.Call.Args) != 2 {
					return false
				}
				return FieldLoad("RecordBatch.FirstTimestamp")(cl.Call.Args[0]) && rec("Record.TimestampDelta")(cl.Call.Args[1])
			}
			check(fn, lit, "Timestamp", AllEdges(tsAdd, FieldLoad("RecordBatch.MaxTimestamp")), "FirstTimestamp+rec.TimestampDelta, or MaxTimestamp under LogAppendTime")
			// the MaxTimestamp alternative only under batch.LogAppendTime
			if ph, ok := lit.fields["Timestamp"].(*ssa.Phi); ok {
				for i, e := range ph.Edges {
					if FieldLoad("RecordBatch.MaxTimestamp")(e) {
						pred := ph.Block().Preds[i]
						g := Establishes(pred.Preds[0], pred, Truth{FieldLoad("RecordBatch.LogAppendTime"), true}) || (len(pred.Preds) == 1 && Establishes(pred.Preds[0], pred, Truth{FieldLoad("RecordBatch.LogAppendTime"), true}))
						if !g {
							// the phi predecessor may be the branch block itself
							g = Establishes(pred, ph.Block(), Truth{FieldLoad("RecordBatch.LogAppendTime"), true})
						}
						c.Check(g, rule, fn, "field:Timestamp:log-append-guard", ph, "MaxTimestamp used only under batch.LogAppendTime", "MaxTimestamp replaces the record timestamp without the LogAppendTime test", nil)
					}
				}
			}
			check(fn, lit, "Topic", FieldLoad("partitionConsumer.topic"), "child.topic")
			check(fn, lit, "Partition", FieldLoad("partitionConsumer.partition"), "child.partition")
		} else {
			c.Unresolved(rule, "ConsumerMessage literal in parseRecords")
		}
	}
	if fn := c.NeedFn(rule, "partitionConsumer.parseMessages"); fn != nil {
		fi := Info(fn)
		if lits := p.literalsOf(fn, "ConsumerMessage"); len(lits) == 1 {
			lit := lits[0]
			inner := fi.InnermostLoop(lit.alloc.Block())
			elemOf := func(v ssa.Value, l *Loop) bool {
				_, lp, ok := rangeElem(fi, v)
				return ok && lp == l
			}
			var outer *Loop
			for _, l := range fi.Loops {
				if l != inner && l.Blocks[inner.Head] {
					outer = l
				}
			}
			if outer == nil {
				c.Unresolved(rule, "outer loop of parseMessages")
				return
			}
			innerF := func(path string) VM {
				return FieldLoadOf(path, func(b ssa.Value) bool { return elemOf(b, inner) })
			}
			outerF := func(path string) VM {
				return FieldLoadOf(path, func(b ssa.Value) bool { return elemOf(b, outer) })
			}
			check(fn, lit, "Key", innerF("MessageBlock.Msg.Key"), "msg.Msg.Key (inner message)")
			check(fn, lit, "Value", innerF("MessageBlock.Msg.Value"), "msg.Msg.Value (inner message)")
			check(fn, lit, "Offset", AllEdges(innerF("MessageBlock.Offset"), BinOpOf(token.ADD, innerF("MessageBlock.Offset"), AnyV())), "msg.Offset (+ wrapper base when Version ≥ 1)")
			// v1 wrapper rebasing: offset += wrapper.Offset − (offset of the last inner message), only under Version >= 1
			if ph, ok := lit.fields["Offset"].(*ssa.Phi); ok {
				okBase, okGuard := false, false
				for i, e := range ph.Edges {
					bo, isB := e.(*ssa.BinOp)
					if !isB || bo.Op != token.ADD {
						continue
					}
					base, isB2 := bo.Y.(*ssa.BinOp)
					if !isB2 {
						base, isB2 = bo.X.(*ssa.BinOp)
					}
					if isB2 && base.Op == token.SUB && outerF("MessageBlock.Offset")(base.X) && FieldLoad("MessageBlock.Offset")(base.Y) {
						// the subtrahend is the element at index len(inner)-1
						if u, isU := strip(base.Y).(*ssa.UnOp); isU {
							if fa, isFA := u.X.(*ssa.FieldAddr); isFA {
								if ld, isL := fa.X.(*ssa.UnOp); isL {
									if ia, isIA := ld.X.(*ssa.IndexAddr); isIA && BinOpOf(token.SUB, LenOf(AnyV()), ConstInt(1))(ia.Index) {
										okBase = true
									}
								}
							}
						}
					}
					pred := ph.Block().Preds[i]
					g, _ := fi.Iteration(inner).Guarded(Item{In: lastInstr(pred)}, Cmp{token.GEQ, FieldLoad("Message.Version"), ConstInt(1)})
					if g {
						okGuard = true
					}
				}
				c.Check(okBase && okGuard, rule, fn, "v1-rebase", ph, "relative inner offsets rebased by wrapper.Offset − last inner offset, only for message version ≥ 1", "legacy v1 inner offsets are not rebased on (wrapper offset − last inner offset) under Version ≥ 1: offsets of compressed sets are wrong (records re-delivered or skipped)", nil)
			}
			check(fn, lit, "Timestamp", AllEdges(innerF("MessageBlock.Msg.Timestamp"), outerF("MessageBlock.Msg.Timestamp")), "msg.Msg.Timestamp or the wrapper's under LogAppendTime")
			check(fn, lit, "BlockTimestamp", outerF("MessageBlock.Msg.Timestamp"), "msgBlock.Msg.Timestamp")
			check(fn, lit, "Topic", FieldLoad("partitionConsumer.topic"), "child.topic")
			check(fn, lit, "Partition", FieldLoad("partitionConsumer.partition"), "child.partition")
		} else {
			c.Unresolved(rule, "ConsumerMessage literal in parseMessages")
		}
	}
}

func describe(v ssa.Value) string {
	if v == nil {
		return "<nil>"
	}
	if s := PathOf(v); s != "" {
		return s
	}
	return fmt.Sprintf("%s = %s", v.Name(), v.String())
}

func c03Request(c *Ctx) {
	p := c.P
	rule := "C03.request"
	c.Doc(rule, "fetchNewMessages: AddBlock(child.topic, child.partition, child.offset, child.fetchSize) with all four read from the same subscription")
	c.Floor(rule, 1)
	fn := c.NeedFn(rule, "brokerConsumer.fetchNewMessages")
	if fn == nil {
		return
	}
	calls := Info(fn).Find(p.CallTo("FetchRequest.AddBlock"))
	if len(calls) == 0 {
		c.Unresolved(rule, "AddBlock call in fetchNewMessages")
	}
	for _, s := range calls {
		a := callArgs(s)
		want := []string{"partitionConsumer.topic", "partitionConsumer.partition", "partitionConsumer.offset", "partitionConsumer.fetchSize"}
		ok := len(a) == 5
		var base ssa.Value
		for i := 0; ok && i < 4; i++ {
			if !FieldLoad(want[i])(a[i+1]) {
				ok = false
				break
			}
			b := rootBase(a[i+1])
			if base == nil {
				base = b
			} else if !sameValue(base, b) {
				ok = false
			}
		}
		c.Check(ok, rule, fn, "addblock-args", s.Instr(), "AddBlock(child.topic, child.partition, child.offset, child.fetchSize) of one subscription",
			"the fetch block is not built from (topic, partition, offset, fetchSize) of the same subscription: wrong offset fetched", nil)
	}
}

func c03Acks(c *Ctx) {
	p := c.P
	rule := "C03.acks"
	c.Doc(rule, "responseFeeder: exactly one broker.acks.Done() per response taken from child.feeder, on every path; subscriptionConsumer: acks.Add(len(subscriptions)) precedes the feeds, acks.Wait() follows them and precedes handleResponses()")
	c.Floor(rule, 4)
	acks := "brokerConsumer.acks"
	if fn := c.NeedFn(rule, "partitionConsumer.responseFeeder"); fn != nil {
		fi := Info(fn)
		loops, _ := rangeChanLoops(fi, FieldLoad("partitionConsumer.feeder"))
		if len(loops) != 1 {
			c.Unresolved(rule, "range child.feeder loop")
		} else {
			cr := fi.Iteration(loops[0]).Count(p.WG("Done", acks))
			switch {
			case cr.HasNone():
				c.Fail(rule, fn, "done-once", nil, "a path of the feeder iteration does not call acks.Done(): the broker worker waits forever and the partition stalls", cr.NonePath)
			case cr.HasTwo():
				c.Fail(rule, fn, "done-once", cr.Second.Instr(), "acks.Done() twice for one response (first at "+p.Pos(cr.First.Instr())+"): negative WaitGroup counter panics", nil)
			default:
				c.OK(rule, fn, "done-once", nil, fmt.Sprintf("exactly one acks.Done() per response on every path (%d sites)", len(cr.Sites)))
			}
		}
	}
	if fn := c.NeedFn(rule, "brokerConsumer.subscriptionConsumer"); fn != nil {
		fi := Info(fn)
		loops, _ := rangeChanLoops(fi, FieldLoad("brokerConsumer.newSubscriptions"))
		if len(loops) != 1 {
			c.Unresolved(rule, "range bc.newSubscriptions loop")
			return
		}
		reg := fi.Iteration(loops[0])
		add := func(it Item) bool {
			if !p.WG("Add", acks)(it) {
				return false
			}
			return LenOf(FieldLoad("brokerConsumer.subscriptions"))(callArgs(it)[1])
		}
		feed := SendOn(FieldLoad("partitionConsumer.feeder"), nil)
		wait := p.WG("Wait", acks)
		handle := p.CallTo("brokerConsumer.handleResponses")
		if len(reg.Find(add)) == 0 || len(reg.Find(feed)) == 0 || len(reg.Find(wait)) == 0 || len(reg.Find(handle)) == 0 {
			c.Fail(rule, fn, "handshake", nil, "acks.Add(len(subscriptions)) / feed / acks.Wait / handleResponses not all present in the fetch loop", nil)
			return
		}
		it, path := reg.MustPrecede(add, feed)
		c.Check(it.IsZero(), rule, fn, "add-before-feed", nil, "acks.Add(len(subscriptions)) precedes the feeds", "a response can be fed before acks.Add: a fast feeder's Done makes the counter negative (panic)", path)
		s2, path2 := reg.MustFollow(feed, wait)
		c.Check(s2.IsZero(), rule, fn, "wait-after-feed", nil, "acks.Wait() follows the feeds on every path", "feeds not followed by acks.Wait(): results are handled while feeders still parse", path2)
		it3, path3 := reg.MustPrecede(wait, handle)
		c.Check(it3.IsZero(), rule, fn, "wait-before-handle", nil, "acks.Wait() precedes handleResponses()", "handleResponses can run before acks.Wait(): it reads responseResult while feeders still write it", path3)
	}
}

func c03Redispatch(c *Ctx) {
	_ = c.P
	rule := "C03.redispatch"
	c.Doc(rule, "handleResponses, one subscription per iteration: at most one trigger event (send on / close of child.trigger), each followed by delete(bc.subscriptions, child); for a non-nil result exactly one delete and — except for errTimedOut, where the feeder re-subscribes itself — a trigger event on every path; responseFeeder: the errTimedOut store is followed by child.broker.input <- child; abort: every subscription gets a trigger")
	c.Floor(rule, 6)
	trig := Or(SendOn(FieldLoad("partitionConsumer.trigger"), nil), CloseOf(FieldLoad("partitionConsumer.trigger")))
	del := MapDeleteOn(FieldLoad("brokerConsumer.subscriptions"))
	if fn := c.NeedFn(rule, "brokerConsumer.handleResponses"); fn != nil {
		fi := Info(fn)
		if len(fi.Loops) == 0 {
			c.Unresolved(rule, "subscription loop of handleResponses")
		} else {
			reg := fi.Iteration(fi.Loops[0])
			cr := reg.Count(trig)
			c.Check(!cr.HasTwo(), rule, fn, "trigger-at-most-once", nil, fmt.Sprintf("at most one trigger event per subscription (%d sites)", len(cr.Sites)),
				"two trigger events for one subscription on one path: the partition is dispatched twice (double fetch, duplicate delivery) or a closed channel is sent on", nil)
			s, path := reg.MustFollow(trig, del)
			c.Check(s.IsZero(), rule, fn, "trigger-then-delete", nil, "every trigger event is followed by delete(bc.subscriptions, child)",
				"a subscription is redispatched but stays subscribed on the old broker worker: it is fetched by two workers (duplicates)", path)
			// result value
			// (the local copy of the result may live in a cell once a literal captures it — a predicate helper
			// inlined back: look through a cell that is stored once)
			result := func(v ssa.Value) bool {
				return FieldLoad("partitionConsumer.responseResult")(v) || FieldLoad("partitionConsumer.responseResult")(throughCell(v))
			}
			nonNil := Cmp{token.NEQ, result, IsNil()}
			timedOut := Cmp{token.EQL, result, GlobalLoad("errTimedOut")}
			n := 0
			for _, e := range reg.EstablishingEdges(nonNil) {
				{
					b, su := e.From, e.To
					n++
					sub := reg.From(Pt{su, 0})
					dcr := sub.Count(del)
					c.Check(!dcr.HasNone() && !dcr.HasTwo(), rule, fn, "failed-result-deleted", lastInstr(b),
						"a subscription with a non-nil result is removed from the worker exactly once on every path",
						"a subscription with a failed fetch stays on the broker worker (or is deleted twice): it keeps fetching from a broker that refused it", dcr.NonePath)
					sub2 := *sub
					sub2.Cut = func(from, to *ssa.BasicBlock) bool { return Establishes(from, to, timedOut) }
					esc, path := sub2.Escape(trig)
					c.Check(!esc, rule, fn, "failed-result-redispatched", lastInstr(b),
						"every non-nil result class except errTimedOut triggers a redispatch (or closes the trigger)",
						"a failed subscription is dropped from the worker without any trigger event: the partition consumer stalls forever", path)
				}
			}
			if n == 0 {
				c.Unresolved(rule, "branch on result != nil in handleResponses")
			}
		}
	}
	if fn := c.NeedFn(rule, "partitionConsumer.responseFeeder"); fn != nil {
		fi := Info(fn)
		loops, _ := rangeChanLoops(fi, FieldLoad("partitionConsumer.feeder"))
		if len(loops) == 1 {
			reg := fi.Iteration(loops[0])
			to := StoreTo(GlobalLoad("errTimedOut"), "partitionConsumer.responseResult")
			resub := SendOn(FieldLoad("brokerConsumer.input"), nil)
			if len(reg.Find(to)) == 0 {
				c.Unresolved(rule, "store responseResult = errTimedOut in responseFeeder")
			} else {
				s, path := reg.MustFollow(to, resub)
				c.Check(s.IsZero(), rule, fn, "timed-out-resubscribes", nil, "after reporting errTimedOut the feeder re-subscribes itself (child.broker.input <- child) on every path",
					"a slow reader is unsubscribed (errTimedOut) but never re-subscribes: the partition stalls", path)
			}
		}
	}
	if fn := c.NeedFn(rule, "brokerConsumer.abort"); fn != nil {
		fi := Info(fn)
		n := 0
		for _, l := range fi.Loops {
			reg := fi.Iteration(l)
			if len(reg.Find(trig)) == 0 {
				continue
			}
			// innermost loops containing a trigger
			inner := true
			for _, l2 := range fi.Loops {
				if l2 != l && l.Blocks[l2.Head] && len(fi.Iteration(l2).Find(trig)) > 0 {
					inner = false
				}
			}
			if !inner {
				continue
			}
			n++
			cr := reg.Count(trig)
			c.Check(!cr.HasNone() && !cr.HasTwo(), rule, fn, "abort-triggers-each", l.Head.Instrs[0], "every subscription of an aborted worker gets exactly one trigger",
				"a subscription of an aborted worker gets no (or two) trigger events: it stalls", cr.NonePath)
		}
		if n < 2 {
			c.Fail(rule, fn, "abort-triggers-each", nil, fmt.Sprintf("expected two trigger loops in abort (current and pending subscriptions), found %d", n), nil)
		}
		// the aborted worker keeps serving bc.newSubscriptions until that channel is closed (its last reference is
		// gone): the loop over it has no other way out.  A partition consumer that was unsubscribed for the moment
		// (slow reader, errTimedOut) re-subscribes later and must still be told to move on
		for _, l := range fi.Loops {
			isSubs := false
			for _, in := range l.Head.Instrs {
				if u, ok := in.(*ssa.UnOp); ok && u.Op == token.ARROW && FieldLoad("brokerConsumer.newSubscriptions")(u.X) {
					isSubs = true
				}
			}
			for b := range l.Blocks {
				for _, in := range b.Instrs {
					if u, ok := in.(*ssa.UnOp); ok && u.Op == token.ARROW && FieldLoad("brokerConsumer.newSubscriptions")(u.X) && b == l.Head {
						isSubs = true
					}
				}
			}
			if !isSubs {
				continue
			}
			bad := earlyExit(fi, l)
			var at ssa.Instruction
			if bad != nil {
				at = lastInstr(bad)
			}
			c.Check(bad == nil, rule, fn, "abort-serves-until-closed", at, "the aborted worker leaves its loop over newSubscriptions only when the channel is closed", "the aborted worker can leave its loop over bc.newSubscriptions while partition consumers still reference it: one that re-subscribes later (a slow reader that was unsubscribed with errTimedOut) is buffered by the subscription manager and never told to find a new broker — it stalls for ever without an error and its Close hangs", nil)
		}
	}
}

func c03Who(c *Ctx) {
	p := c.P
	rule := "C03.who"
	c.Doc(rule, "sends on partitionConsumer.messages occur only in responseFeeder; partitionConsumer.offset is written only by chooseStartingOffset, parseRecords, parseMessages, parseResponse")
	c.Floor(rule, 2)
	who := func(ev Ev) []string {
		var out []string
		for _, f := range p.Fns {
			if hasItem(f, ev) {
				out = append(out, p.Name(f))
			}
		}
		sort.Strings(out)
		return out
	}
	s := who(SendOn(FieldLoad("partitionConsumer.messages"), nil))
	c.Check(len(s) == 1 && s[0] == "partitionConsumer.responseFeeder", rule, nil, "senders:messages", nil, "only responseFeeder sends on messages", "sends on partitionConsumer.messages in "+strings.Join(s, ", ")+" (expected only responseFeeder): delivery order/at-most-once no longer follows from the feeder loop", nil)
	w := who(StoreTo(nil, "partitionConsumer.offset"))
	allowed := map[string]bool{"partitionConsumer.chooseStartingOffset": true, "partitionConsumer.parseRecords": true, "partitionConsumer.parseMessages": true, "partitionConsumer.parseResponse": true}
	bad := ""
	for _, n := range w {
		if !allowed[n] {
			bad = n
		}
	}
	c.Check(bad == "" && len(w) >= 3, rule, nil, "writers:offset", nil, "child.offset written only by "+strings.Join(w, ", "), "child.offset written by "+bad+" outside the tabled functions", nil)
}
