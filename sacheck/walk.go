package main

// E1: events and path queries over the SSA control-flow graph.

import (
	"go/constant"
	"go/token"
	"sort"

	"golang.org/x/tools/go/ssa"
)

// Item is one step of a path: a real instruction, or the virtual "case k of this select was
// taken" step which lives on the CFG edge into that case's body.
type Item struct {
	In   ssa.Instruction
	Sel  *ssa.Select
	Case int
	From *ssa.BasicBlock // select items: the edge From->To
	To   *ssa.BasicBlock
}

func (it Item) IsZero() bool { return it.In == nil && it.Sel == nil }

// After returns the point right after the item.
func (it Item) After() Pt {
	if it.Sel != nil {
		return Pt{it.To, 0}
	}
	b := it.In.Block()
	for i, x := range b.Instrs {
		if x == it.In {
			return Pt{b, i + 1}
		}
	}
	return Pt{b, len(b.Instrs)}
}

func (it Item) Instr() ssa.Instruction {
	if it.Sel != nil {
		return it.Sel
	}
	return it.In
}

type Ev func(it Item) bool

func Or(evs ...Ev) Ev {
	return func(it Item) bool {
		for _, e := range evs {
			if e != nil && e(it) {
				return true
			}
		}
		return false
	}
}

type Pt struct {
	B *ssa.BasicBlock
	I int
}

type Loop struct {
	Head   *ssa.BasicBlock
	Blocks map[*ssa.BasicBlock]bool
}

type FnInfo struct {
	Fn    *ssa.Function
	Loops []*Loop
	// edge items: select case taken, keyed by (from block, successor index)
	edge map[*ssa.BasicBlock]map[int][]Item
}

var fnInfoCache = map[*ssa.Function]*FnInfo{}

func resetCaches() {
	fnInfoCache = map[*ssa.Function]*FnInfo{}
	iifeCache = map[*ssa.Function]*ssa.Call{}
	iifeKnown = map[*ssa.Function]bool{}
}

func Info(fn *ssa.Function) *FnInfo {
	if fi, ok := fnInfoCache[fn]; ok {
		return fi
	}
	fi := &FnInfo{Fn: fn, edge: map[*ssa.BasicBlock]map[int][]Item{}}
	fnInfoCache[fn] = fi
	fi.Loops = loopsOf(fn)
	// select cases
	for _, b := range fn.Blocks {
		for _, in := range b.Instrs {
			sel, ok := in.(*ssa.Select)
			if !ok {
				continue
			}
			for _, ref := range *sel.Referrers() {
				ex, ok := ref.(*ssa.Extract)
				if !ok || ex.Index != 0 {
					continue
				}
				for _, r2 := range *ex.Referrers() {
					bo, ok := r2.(*ssa.BinOp)
					if !ok || bo.Op != token.EQL {
						continue
					}
					c, ok := bo.Y.(*ssa.Const)
					if !ok || c.Value == nil || c.Value.Kind() != constant.Int {
						continue
					}
					k := int(c.Int64())
					if k < 0 || k >= len(sel.States) {
						continue
					}
					for _, r3 := range *bo.Referrers() {
						iff, ok := r3.(*ssa.If)
						if !ok {
							continue
						}
						fb := iff.Block()
						if fi.edge[fb] == nil {
							fi.edge[fb] = map[int][]Item{}
						}
						fi.edge[fb][0] = append(fi.edge[fb][0], Item{Sel: sel, Case: k, From: fb, To: fb.Succs[0]})
					}
				}
			}
			// a blocking select with a single state has no index test: attach to the fallthrough
			if len(sel.States) == 1 && sel.Blocking {
				// single-case selects are compiled to plain send/recv by the builder; nothing to do
			}
		}
	}
	return fi
}

func loopsOf(fn *ssa.Function) []*Loop {
	byHead := map[*ssa.BasicBlock]*Loop{}
	for _, b := range fn.Blocks {
		for _, s := range b.Succs {
			if s.Dominates(b) { // back edge b->s
				l := byHead[s]
				if l == nil {
					l = &Loop{Head: s, Blocks: map[*ssa.BasicBlock]bool{s: true}}
					byHead[s] = l
				}
				stack := []*ssa.BasicBlock{b}
				for len(stack) > 0 {
					x := stack[len(stack)-1]
					stack = stack[:len(stack)-1]
					if l.Blocks[x] {
						continue
					}
					l.Blocks[x] = true
					stack = append(stack, x.Preds...)
				}
			}
		}
	}
	var ls []*Loop
	for _, l := range byHead {
		ls = append(ls, l)
	}
	sort.Slice(ls, func(i, j int) bool { return ls[i].Head.Index < ls[j].Head.Index })
	return ls
}

// ---- immediately-invoked function literals ---------------------------------------------------------
//
// `x := func() T { … }()` is what the source-level inliner (normalise.go) leaves behind when it cannot
// reduce a call completely.  Such a literal has exactly one call site, so it is analysed as part of its
// parent: walkers step into it at the call and come back at its returns, enumerations include its
// instructions, loop membership is that of the call site, and value matchers look through captured
// variables and the returned value (match.go strip/canon).

var iifeCache = map[*ssa.Function]*ssa.Call{}
var iifeKnown = map[*ssa.Function]bool{}

// iifeCall: the unique call of fn if fn is a function literal that is invoked where it is written.
func iifeCall(fn *ssa.Function) *ssa.Call {
	if fn == nil || fn.Parent() == nil {
		return nil
	}
	if iifeKnown[fn] {
		return iifeCache[fn]
	}
	iifeKnown[fn] = true
	var found *ssa.Call
	n := 0
	for _, b := range fn.Parent().Blocks {
		for _, in := range b.Instrs {
			for _, op := range in.Operands(nil) {
				switch x := (*op).(type) {
				case *ssa.MakeClosure:
					if x.Fn == ssa.Value(fn) {
						if cl, ok := in.(*ssa.Call); ok && cl.Call.Value == ssa.Value(x) {
							found = cl
						}
						n++
					}
				case *ssa.Function:
					if x == fn {
						if _, isMake := in.(*ssa.MakeClosure); isMake {
							continue // the creation of the closure value; its uses are counted through the value
						}
						if cl, ok := in.(*ssa.Call); ok && cl.Call.Value == ssa.Value(x) {
							found = cl
						}
						n++
					}
				}
			}
		}
	}
	if n != 1 {
		found = nil
	}
	iifeCache[fn] = found
	return found
}

// iifeCallee: in is the call of an immediately-invoked literal; returns the literal.
func iifeCallee(in ssa.Instruction) *ssa.Function {
	cl, ok := in.(*ssa.Call)
	if !ok || cl.Call.IsInvoke() {
		return nil
	}
	var g *ssa.Function
	switch x := cl.Call.Value.(type) {
	case *ssa.MakeClosure:
		g, _ = x.Fn.(*ssa.Function)
	case *ssa.Function:
		g = x
	}
	if g == nil || len(g.Blocks) == 0 || iifeCall(g) != cl {
		return nil
	}
	return g
}

// rootBlock maps a block of an immediately-invoked literal (at any nesting depth) to the block of its call
// site in root; nil if b does not belong to root that way.
func rootBlock(root *ssa.Function, b *ssa.BasicBlock) *ssa.BasicBlock {
	for d := 0; b != nil && d < 8; d++ {
		if b.Parent() == root {
			return b
		}
		cl := iifeCall(b.Parent())
		if cl == nil {
			return nil
		}
		b = cl.Block()
	}
	return nil
}

// resumeAfter: the point after the call site of the immediately-invoked literal that owns block b.
func resumeAfter(b *ssa.BasicBlock) (Pt, bool) {
	cl := iifeCall(b.Parent())
	if cl == nil {
		return Pt{}, false
	}
	cb := cl.Block()
	for i, x := range cb.Instrs {
		if x == ssa.Instruction(cl) {
			return Pt{cb, i + 1}, true
		}
	}
	return Pt{}, false
}

func edgeItemsOf(b *ssa.BasicBlock, k int) []Item { return Info(b.Parent()).EdgeItems(b, k) }

// EdgeItems returns the virtual items on the edge b -> b.Succs[k].
func (fi *FnInfo) EdgeItems(b *ssa.BasicBlock, k int) []Item {
	if m := fi.edge[b]; m != nil {
		return m[k]
	}
	return nil
}

// Each enumerates every item of the function (instructions in block order, then edge items).
func (fi *FnInfo) Each(f func(it Item)) {
	for _, b := range fi.Fn.Blocks {
		for _, in := range b.Instrs {
			f(Item{In: in})
			if g := iifeCallee(in); g != nil {
				Info(g).Each(f)
			}
		}
		for k := range b.Succs {
			for _, it := range fi.EdgeItems(b, k) {
				f(it)
			}
		}
	}
}

// Find returns all items matching ev.
func (fi *FnInfo) Find(ev Ev) []Item {
	var out []Item
	fi.Each(func(it Item) {
		if ev(it) {
			out = append(out, it)
		}
	})
	return out
}

// InnermostLoop containing block b (nil if none).
func (fi *FnInfo) InnermostLoop(b *ssa.BasicBlock) *Loop {
	if b != nil && b.Parent() != fi.Fn {
		if rb := rootBlock(fi.Fn, b); rb != nil {
			b = rb
		}
	}
	var best *Loop
	for _, l := range fi.Loops {
		if l.Blocks[b] && (best == nil || len(l.Blocks) < len(best.Blocks)) {
			best = l
		}
	}
	return best
}

// Region: a sub-graph in which path queries are evaluated.
type Region struct {
	Fi      *FnInfo
	Starts  []Pt
	Allowed map[*ssa.BasicBlock]bool // nil = whole function
	Head    *ssa.BasicBlock          // edges into Head end a path (next iteration)
	Cut     func(from, to *ssa.BasicBlock) bool
	// ExitIsEnd: an edge leaving Allowed counts as the end of a path (default true)
	NoExitEnd bool
}

func WholeFn(fn *ssa.Function) *Region {
	return &Region{Fi: Info(fn), Starts: []Pt{{fn.Blocks[0], 0}}}
}

// Iteration returns the region "one iteration of loop l": entry is the body entry, extent the
// blocks dominated by it, a path ends at a Return, at the edge back to the header or when it leaves
// the dominated set.
func (fi *FnInfo) Iteration(l *Loop) *Region {
	r := &Region{Fi: fi, Head: l.Head}
	var entry *ssa.BasicBlock
	if iff, ok := lastInstr(l.Head).(*ssa.If); ok && iff != nil {
		in0, in1 := l.Blocks[l.Head.Succs[0]], l.Blocks[l.Head.Succs[1]]
		if in0 && !in1 {
			entry = l.Head.Succs[0]
		} else if in1 && !in0 {
			entry = l.Head.Succs[1]
		}
	}
	if entry == nil {
		entry = l.Head // unconditional loop: the header is the body
	}
	r.Starts = []Pt{{entry, 0}}
	r.Allowed = map[*ssa.BasicBlock]bool{}
	for _, b := range fi.Fn.Blocks {
		if entry.Dominates(b) {
			r.Allowed[b] = true
		}
	}
	return r
}

// From returns a copy of the region starting after the given item.
func (r *Region) From(pts ...Pt) *Region {
	c := *r
	c.Starts = pts
	return &c
}

func lastInstr(b *ssa.BasicBlock) ssa.Instruction {
	if len(b.Instrs) == 0 {
		return nil
	}
	return b.Instrs[len(b.Instrs)-1]
}

type wstate struct {
	b   *ssa.BasicBlock
	i   int
	via *ssa.BasicBlock // predecessor we came from; tracked only for blocks that branch on a bool phi
}

// phiCond: the block ends in `if φ` (possibly negated) with φ a bool phi defined in this block —
// the shape go/ssa gives to `a && b` / `a || b` in value position (switch cases, assignments).
func phiCond(b *ssa.BasicBlock) (*ssa.Phi, bool) {
	iff, ok := lastInstr(b).(*ssa.If)
	if !ok {
		return nil, false
	}
	cond, neg := iff.Cond, false
	for {
		if u, ok := cond.(*ssa.UnOp); ok && u.Op == token.NOT {
			cond, neg = u.X, !neg
			continue
		}
		break
	}
	ph, ok := cond.(*ssa.Phi)
	if !ok || ph.Block() != b {
		return nil, false
	}
	return ph, neg
}

// nilPhiCond: the block ends in `if φ != nil` / `if φ == nil` (possibly negated) with φ a phi defined in this
// block — the shape of `r := <result variable merged from several assignments>; if r != nil`, which is what
// a spliced helper with several returns leaves behind.  isNE: the true branch is taken when φ is non-nil.
func nilPhiCond(b *ssa.BasicBlock) (ph *ssa.Phi, isNE bool) {
	iff, ok := lastInstr(b).(*ssa.If)
	if !ok {
		return nil, false
	}
	cond, neg := iff.Cond, false
	for {
		if u, ok := cond.(*ssa.UnOp); ok && u.Op == token.NOT {
			cond, neg = u.X, !neg
			continue
		}
		break
	}
	bo, ok := cond.(*ssa.BinOp)
	if !ok || (bo.Op != token.NEQ && bo.Op != token.EQL) {
		return nil, false
	}
	x, y := bo.X, bo.Y
	if c, ok := x.(*ssa.Const); ok && c.Value == nil {
		x, y = y, x
	}
	c, ok := y.(*ssa.Const)
	if !ok || c.Value != nil {
		return nil, false
	}
	ph, ok = x.(*ssa.Phi)
	if !ok || ph.Block() != b {
		return nil, false
	}
	return ph, (bo.Op == token.NEQ) != neg
}

// nilnessAt: is v known to be nil / non-nil at the end of block at?  Known when v is the nil constant, or when a
// dominating test `v != nil` / `v == nil` settles it (v itself may be a phi; one level of copies is followed).
func nilnessAt(v ssa.Value, at *ssa.BasicBlock) (isNil bool, known bool) {
	if c, ok := v.(*ssa.Const); ok {
		if c.Value == nil {
			return true, true
		}
		return false, false
	}
	switch v.(type) {
	case *ssa.MakeInterface, *ssa.Alloc, *ssa.MakeMap, *ssa.MakeSlice, *ssa.MakeChan, *ssa.MakeClosure:
		return false, true
	}
	for d := at; d != nil; d = d.Idom() {
		p := d.Idom()
		if p == nil {
			break
		}
		iff, ok := lastInstr(p).(*ssa.If)
		if !ok || len(p.Succs) != 2 || p.Succs[0] == p.Succs[1] {
			continue
		}
		// d must be entered only through one branch of p
		if len(d.Preds) != 1 || d.Preds[0] != p {
			continue
		}
		bo, ok := iff.Cond.(*ssa.BinOp)
		if !ok || (bo.Op != token.NEQ && bo.Op != token.EQL) {
			continue
		}
		x, y := bo.X, bo.Y
		if c, ok := x.(*ssa.Const); ok && c.Value == nil {
			x, y = y, x
		}
		if c, ok := y.(*ssa.Const); !ok || c.Value != nil || x != v {
			continue
		}
		onTrue := p.Succs[0] == d
		nonNil := (bo.Op == token.NEQ) == onTrue
		return !nonNil, true
	}
	return false, false
}

// mkState: state for entering succ from b.
func mkState(b, succ *ssa.BasicBlock) wstate {
	if lastInstr(succ) != nil {
		if _, ok := lastInstr(succ).(*ssa.If); ok {
			if ph, _ := phiCond(succ); ph != nil {
				return wstate{succ, 0, b}
			}
			if ph, _ := nilPhiCond(succ); ph != nil {
				return wstate{succ, 0, b}
			}
		}
	}
	return wstate{succ, 0, nil}
}

// feasible: may the walker leave b through successor k, given it entered b from via?  When b
// branches on a bool phi whose incoming value from via is a constant, only one successor is.
func feasible(b *ssa.BasicBlock, k int, via *ssa.BasicBlock) bool {
	if iff, ok := lastInstr(b).(*ssa.If); ok {
		if c, ok := iff.Cond.(*ssa.Const); ok && c.Value != nil && c.Value.Kind() == constant.Bool {
			if constant.BoolVal(c.Value) {
				return k == 0
			}
			return k == 1
		}
	}
	if via == nil {
		return true
	}
	ph, neg := phiCond(b)
	if ph == nil {
		// a test of a merged result variable against nil: decided by what flowed in from via
		if nph, isNE := nilPhiCond(b); nph != nil {
			for i, pred := range b.Preds {
				if pred != via {
					continue
				}
				if isNil, known := nilnessAt(nph.Edges[i], pred); known {
					takeTrue := isNil != isNE
					if takeTrue {
						return k == 0
					}
					return k == 1
				}
			}
		}
		return true
	}
	for i, pred := range b.Preds {
		if pred != via {
			continue
		}
		c, ok := ph.Edges[i].(*ssa.Const)
		if !ok || c.Value == nil || c.Value.Kind() != constant.Bool {
			return true
		}
		val := constant.BoolVal(c.Value) != neg
		if val {
			return k == 0
		}
		return k == 1
	}
	return true
}

// Reach: the first item matching target that can be reached from the region starts without
// executing an item matching stop.  Returns the zero Item if none.
func (r *Region) Reach(target Ev, stop Ev) (Item, []*ssa.BasicBlock) {
	seen := map[wstate]bool{}
	parent := map[*ssa.BasicBlock]*ssa.BasicBlock{}
	var stack []wstate
	for _, s := range r.Starts {
		stack = append(stack, wstate{s.B, s.I, nil})
	}
	for len(stack) > 0 {
		s := stack[len(stack)-1]
		stack = stack[:len(stack)-1]
		if seen[s] {
			continue
		}
		seen[s] = true
		b := s.b
		blocked := false
		for i := s.i; i < len(b.Instrs); i++ {
			it := Item{In: b.Instrs[i]}
			if _, isRet := b.Instrs[i].(*ssa.Return); isRet && b.Parent() != r.Fi.Fn {
				// the return of an immediately-invoked literal is not an event of the function under analysis:
				// go on after its call
				if pt, ok := resumeAfter(b); ok {
					if _, ok := parent[pt.B]; !ok && pt.B != b {
						parent[pt.B] = b
					}
					stack = append(stack, wstate{pt.B, pt.I, nil})
				}
				blocked = true
				break
			}
			if target(it) {
				return it, pathTo(parent, b)
			}
			if stop != nil && stop(it) {
				blocked = true
				break
			}
			if isDeadEnd(b.Instrs[i]) {
				blocked = true
				break
			}
			if g := iifeCallee(b.Instrs[i]); g != nil {
				// step into the immediately-invoked literal; its returns come back here
				if _, ok := parent[g.Blocks[0]]; !ok {
					parent[g.Blocks[0]] = b
				}
				stack = append(stack, wstate{g.Blocks[0], 0, nil})
				blocked = true
				break
			}
			if _, isRet := b.Instrs[i].(*ssa.Return); isRet && b.Parent() != r.Fi.Fn {
				if pt, ok := resumeAfter(b); ok {
					if _, ok := parent[pt.B]; !ok && pt.B != b {
						parent[pt.B] = b
					}
					stack = append(stack, wstate{pt.B, pt.I, nil})
				}
				blocked = true
				break
			}
		}
		if blocked {
			continue
		}
		for k, succ := range b.Succs {
			if !feasible(b, k, s.via) {
				continue
			}
			if r.Cut != nil && r.Cut(b, succ) {
				continue
			}
			edgeBlocked := false
			for _, it := range edgeItemsOf(b, k) {
				if target(it) {
					return it, pathTo(parent, b)
				}
				if stop != nil && stop(it) {
					edgeBlocked = true
				}
			}
			if edgeBlocked {
				continue
			}
			if r.Head != nil && succ == r.Head {
				continue
			}
			if r.Allowed != nil && succ.Parent() == r.Fi.Fn && !r.Allowed[succ] {
				continue
			}
			if _, ok := parent[succ]; !ok && succ != b {
				parent[succ] = b
			}
			stack = append(stack, mkState(b, succ))
		}
	}
	return Item{}, nil
}

// Escape: is there a path from the starts to an end of the region (a Return, the edge back to
// Head, an edge leaving Allowed) that executes no item matching avoid?  Panics are dead ends.
func (r *Region) Escape(avoid Ev) (bool, []*ssa.BasicBlock) {
	seen := map[wstate]bool{}
	parent := map[*ssa.BasicBlock]*ssa.BasicBlock{}
	var stack []wstate
	for _, s := range r.Starts {
		stack = append(stack, wstate{s.B, s.I, nil})
	}
	for len(stack) > 0 {
		s := stack[len(stack)-1]
		stack = stack[:len(stack)-1]
		if seen[s] {
			continue
		}
		seen[s] = true
		b := s.b
		blocked := false
		for i := s.i; i < len(b.Instrs); i++ {
			in := b.Instrs[i]
			if _, isRet := in.(*ssa.Return); isRet && b.Parent() != r.Fi.Fn {
				if pt, ok := resumeAfter(b); ok {
					if _, ok := parent[pt.B]; !ok && pt.B != b {
						parent[pt.B] = b
					}
					stack = append(stack, wstate{pt.B, pt.I, nil})
				}
				blocked = true
				break
			}
			if avoid != nil && avoid(Item{In: in}) {
				blocked = true
				break
			}
			if _, ok := in.(*ssa.Return); ok {
				if b.Parent() != r.Fi.Fn {
					// the return of an immediately-invoked literal: go on after its call
					if pt, ok := resumeAfter(b); ok {
						if _, ok := parent[pt.B]; !ok && pt.B != b {
							parent[pt.B] = b
						}
						stack = append(stack, wstate{pt.B, pt.I, nil})
					}
					blocked = true
					break
				}
				return true, pathTo(parent, b)
			}
			if isDeadEnd(in) {
				blocked = true
				break
			}
			if g := iifeCallee(in); g != nil {
				if _, ok := parent[g.Blocks[0]]; !ok {
					parent[g.Blocks[0]] = b
				}
				stack = append(stack, wstate{g.Blocks[0], 0, nil})
				blocked = true
				break
			}
		}
		if blocked {
			continue
		}
		for k, succ := range b.Succs {
			if !feasible(b, k, s.via) {
				continue
			}
			if r.Cut != nil && r.Cut(b, succ) {
				continue
			}
			edgeBlocked := false
			for _, it := range edgeItemsOf(b, k) {
				if avoid != nil && avoid(it) {
					edgeBlocked = true
				}
			}
			if edgeBlocked {
				continue
			}
			if r.Head != nil && succ == r.Head {
				return true, append(pathTo(parent, b), succ)
			}
			if r.Allowed != nil && succ.Parent() == r.Fi.Fn && !r.Allowed[succ] {
				if r.NoExitEnd {
					continue
				}
				return true, append(pathTo(parent, b), succ)
			}
			if _, ok := parent[succ]; !ok && succ != b {
				parent[succ] = b
			}
			stack = append(stack, mkState(b, succ))
		}
	}
	return false, nil
}

func pathTo(parent map[*ssa.BasicBlock]*ssa.BasicBlock, b *ssa.BasicBlock) []*ssa.BasicBlock {
	var rev []*ssa.BasicBlock
	seen := map[*ssa.BasicBlock]bool{}
	for x := b; x != nil && !seen[x]; x = parent[x] {
		seen[x] = true
		rev = append(rev, x)
	}
	for i, j := 0, len(rev)-1; i < j; i, j = i+1, j-1 {
		rev[i], rev[j] = rev[j], rev[i]
	}
	return rev
}

func isDeadEnd(in ssa.Instruction) bool {
	switch x := in.(type) {
	case *ssa.Panic:
		return true
	case *ssa.Call:
		if f := x.Call.StaticCallee(); f != nil {
			s := f.String()
			if s == "os.Exit" || s == "runtime.Goexit" {
				return true
			}
		}
	}
	return false
}

// Items in the region (reachable from the starts) that match ev.
func (r *Region) Find(ev Ev) []Item {
	var out []Item
	seenItem := map[ssa.Instruction]bool{}
	seen := map[wstate]bool{}
	var stack []wstate
	for _, s := range r.Starts {
		stack = append(stack, wstate{s.B, s.I, nil})
	}
	for len(stack) > 0 {
		s := stack[len(stack)-1]
		stack = stack[:len(stack)-1]
		if seen[s] {
			continue
		}
		seen[s] = true
		b := s.b
		dead := false
		for i := s.i; i < len(b.Instrs); i++ {
			it := Item{In: b.Instrs[i]}
			if _, isRet := b.Instrs[i].(*ssa.Return); isRet && b.Parent() != r.Fi.Fn {
				if pt, ok := resumeAfter(b); ok {
					stack = append(stack, wstate{pt.B, pt.I, nil})
				}
				dead = true
				break
			}
			if ev(it) && !seenItem[b.Instrs[i]] {
				seenItem[b.Instrs[i]] = true
				out = append(out, it)
			}
			if isDeadEnd(b.Instrs[i]) {
				dead = true
				break
			}
			if g := iifeCallee(b.Instrs[i]); g != nil {
				stack = append(stack, wstate{g.Blocks[0], 0, nil})
				dead = true
				break
			}
			if _, isRet := b.Instrs[i].(*ssa.Return); isRet && b.Parent() != r.Fi.Fn {
				if pt, ok := resumeAfter(b); ok {
					stack = append(stack, wstate{pt.B, pt.I, nil})
				}
				dead = true
				break
			}
		}
		if dead {
			continue
		}
		for k, succ := range b.Succs {
			if !feasible(b, k, s.via) {
				continue
			}
			if r.Cut != nil && r.Cut(b, succ) {
				continue
			}
			for _, it := range edgeItemsOf(b, k) {
				if ev(it) {
					dup := false
					for _, o := range out {
						if o.Sel == it.Sel && o.Case == it.Case && o.From == it.From {
							dup = true
						}
					}
					if !dup {
						out = append(out, it)
					}
				}
			}
			if r.Head != nil && succ == r.Head {
				continue
			}
			if r.Allowed != nil && succ.Parent() == r.Fi.Fn && !r.Allowed[succ] {
				continue
			}
			stack = append(stack, mkState(b, succ))
		}
	}
	return out
}

// CountResult of an exactly/at-most/at-least query.
type CountResult struct {
	Sites    []Item
	NonePath []*ssa.BasicBlock // non-nil: a path to an end with zero events
	First    Item              // with Second: two events on one path
	Second   Item
}

func (c CountResult) HasNone() bool { return c.NonePath != nil }
func (c CountResult) HasTwo() bool  { return !c.Second.IsZero() }

// Count evaluates how many ev items a path through the region can execute.
func (r *Region) Count(ev Ev) CountResult {
	var res CountResult
	res.Sites = r.Find(ev)
	if esc, path := r.Escape(ev); esc {
		res.NonePath = path
		if res.NonePath == nil {
			res.NonePath = []*ssa.BasicBlock{}
		}
	}
	for _, s := range res.Sites {
		if it, _ := r.From(s.After()).Reach(ev, nil); !it.IsZero() {
			res.First, res.Second = s, it
			break
		}
	}
	return res
}

// MustPrecede: every path from the region starts to an item matching b executes an item matching
// a first.  Returns the offending b-item reachable a-free (zero Item if the rule holds).
func (r *Region) MustPrecede(a, b Ev) (Item, []*ssa.BasicBlock) {
	return r.Reach(b, a)
}

// MustFollow: after every item matching a, every path to an end executes an item matching b.
// Returns the offending a-item.
func (r *Region) MustFollow(a, b Ev) (Item, []*ssa.BasicBlock) {
	for _, s := range r.Find(a) {
		if esc, path := r.From(s.After()).Escape(b); esc {
			return s, path
		}
	}
	return Item{}, nil
}
