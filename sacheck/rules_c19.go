package main

// C19 — admin operations reach the right broker and report its verdict (structural clauses).

import (
	"fmt"
	"go/constant"
	"go/token"
	"go/types"
	"os"
	"sort"
	"strings"

	"golang.org/x/tools/go/ssa"
)

func init() {
	register(&propDef{
		ID:    "C19",
		Title: "Admin operations reach the right broker and report its verdict",
		Explain: "Decides: retryOnError calls the operation before any return, whatever Admin.Retry.Max is (C19.attempt); the retried operation carries no state from one attempt to the next — every variable it both writes and reads is its own or re-initialised first — so a later clean acknowledgement is not overruled by an earlier attempt's error (C19.attempt-local); each controller-bound operation sends its request to the broker returned by Controller() inside the retried closure, refreshes the controller on NOT_CONTROLLER and returns an error the retry predicate recognises (C19.controller); success (nil) is returned only when the item is present and its error code is ErrNoError (C19.verdict); leader/coordinator-bound operations take their broker from Leader()/Coordinator(), per item when they span several (C19.routing); " +
			"every constant request version stored anywhere in the library is guarded by a configured-version test that implies the version the request type itself requires, so Broker.send cannot refuse it with ErrUnsupportedVersion (C19.version); the fan-out operations pair every WaitGroup.Add with a Done (C12.pairing, shared). " +
			"the per-item verdicts the operations read are decoded one object per item (C09.fresh-element over the admin responses, shared). " +
			"NOT covered: number of controller moves versus Retry.Max at run time, the brokers' verdicts themselves.",
		Rules: []func(*Ctx){c19Attempt, c19AttemptLocal, c19PerRequestFresh, c19Controller, c19Verdict, c19KErrorOrdered, c19Routing, c19Version, c19VersionFloor, c12Pairing, c15Brokers, c19ErrLost, c15Deadline, c19FreshElement, c19FailureEndsFanOut},
	})
}

func c19Attempt(c *Ctx) {
	rule := "C19.attempt"
	c.Doc(rule, "retryOnError: every return is preceded by a call of the operation fn")
	c.Floor(rule, 1)
	fn := c.NeedFn(rule, "clusterAdmin.retryOnError")
	if fn == nil {
		return
	}
	reg := WholeFn(fn)
	callFn := func(it Item) bool {
		cc, ok := callCommon(it)
		return ok && !cc.IsInvoke() && ParamN(2)(cc.Value)
	}
	it, path := reg.MustPrecede(callFn, func(it Item) bool { return IsReturn()(it) && !IsRecoverBlock(it.In.Block()) })
	c.Check(it.IsZero() && len(reg.Find(callFn)) > 0, rule, fn, "attempt-before-return", it.Instr(), "the operation is attempted at least once before retryOnError returns",
		"retryOnError can return without ever calling the operation (Admin.Retry.Max = 0): success is reported although nothing was sent", path)
}

// c19AttemptLocal: a captured variable that the retried closure writes and also reads survives from one
// attempt to the next (an error list, a flag); the verdict of the acknowledged attempt then depends on
// earlier, superseded attempts.
func c19AttemptLocal(c *Ctx) {
	p := c.P
	rule := "C19.attempt-local"
	c.Doc(rule, "every closure passed to retryOnError: each captured variable (or captured pointer's cell) that the closure stores into is never read by the closure, unless every read is preceded on every path from the closure's entry by one of the closure's own stores (re-initialised per attempt)")
	c.Floor(rule, 4)
	hosts, ops := p.retriedClosures()
	for i, op := range ops {
		bad := ""
		var at ssa.Instruction
		for _, fv := range op.FreeVars {
			isStore := func(it Item) bool { st, ok := it.In.(*ssa.Store); return ok && st.Addr == ssa.Value(fv) }
			isLoad := func(it Item) bool {
				u, ok := it.In.(*ssa.UnOp)
				return ok && u.Op == token.MUL && u.X == ssa.Value(fv)
			}
			fi := Info(op)
			if len(fi.Find(isStore)) == 0 {
				continue
			}
			if it, _ := WholeFn(op).MustPrecede(isStore, isLoad); !it.IsZero() {
				bad = fv.Name()
				at = it.Instr()
			}
		}
		c.Check(bad == "", rule, hosts[i], "no-state-across-attempts", at, "the retried operation reads no captured variable it also writes (each attempt decides on its own response only)",
			"the retried operation writes and reads the captured variable `"+bad+"`, which lives across attempts: what an earlier attempt recorded (e.g. a NOT_CONTROLLER error) overrules the later attempt's acknowledgement, or the other way round", nil)
	}
}

// c19PerRequestFresh: an operation that sends one request per broker (or per item) in a loop builds each
// request from containers created in that iteration.  A map or slice created before the loop, filled inside
// it and placed into the request carries the previous brokers' items along: the next broker is asked about
// partitions it does not lead.
func c19PerRequestFresh(c *Ctx) {
	p := c.P
	rule := "C19.per-request-fresh"
	c.Doc(rule, "admin.go, every loop that contains a broker request call: no map or slice that is created outside the loop and updated inside it is reachable from the request argument (through struct fields, map values and local variables)")
	c.Floor(rule, 2)
	for _, fn := range p.Fns {
		if fn.Pkg != p.Sarama || !p.inFile(fn, "admin.go") {
			continue
		}
		fi := Info(fn)
		for _, rq := range p.brokerRequestCalls(fn) {
			l := fi.InnermostLoop(itemBlock(rq))
			if l == nil {
				continue
			}
			// outermost loop containing the request
			for _, l2 := range fi.Loops {
				if l2.Blocks[itemBlock(rq)] && len(l2.Blocks) > len(l.Blocks) {
					l = l2
				}
			}
			args := callArgs(rq)
			if len(args) < 2 {
				continue
			}
			// containers reachable from the request
			seen := map[ssa.Value]bool{}
			var containers []ssa.Value
			var visit func(v ssa.Value, d int)
			visit = func(v ssa.Value, d int) {
				v = strip(v)
				if v == nil || seen[v] || d > 8 {
					return
				}
				seen[v] = true
				switch x := v.(type) {
				case *ssa.MakeMap, *ssa.MakeSlice:
					containers = append(containers, v)
				case *ssa.UnOp:
					if x.Op == token.MUL {
						visit(x.X, d+1)
					}
					return
				case *ssa.Phi:
					for _, e := range x.Edges {
						visit(e, d+1)
					}
					return
				case *ssa.Call:
					if b, ok := x.Call.Value.(*ssa.Builtin); ok && b.Name() == "append" {
						for _, a := range x.Call.Args {
							visit(a, d+1)
						}
					}
					return
				case *ssa.Alloc:
				default:
					return
				}
				// what is stored into it: fields of a struct, the cell of a local, values of a map, elements
				if refs := v.Referrers(); refs != nil {
					for _, r := range *refs {
						switch y := r.(type) {
						case *ssa.Store:
							if y.Addr == v {
								visit(y.Val, d+1)
							}
						case *ssa.FieldAddr:
							for _, r2 := range *y.Referrers() {
								if st, ok := r2.(*ssa.Store); ok && st.Addr == ssa.Value(y) {
									visit(st.Val, d+1)
								}
							}
						case *ssa.IndexAddr:
							for _, r2 := range *y.Referrers() {
								if st, ok := r2.(*ssa.Store); ok && st.Addr == ssa.Value(y) {
									visit(st.Val, d+1)
								}
							}
						case *ssa.MapUpdate:
							if y.Map == v {
								visit(y.Value, d+1)
							}
						}
					}
				}
			}
			visit(args[1], 0)
			bad := ""
			var at ssa.Instruction
			for _, m := range containers {
				in := m.(ssa.Instruction)
				if l.Blocks[in.Block()] {
					continue // created in the iteration
				}
				// updated inside the loop?
				for _, r := range *m.Referrers() {
					if mu, ok := r.(*ssa.MapUpdate); ok && mu.Map == m && l.Blocks[mu.Block()] {
						bad, at = describe(m), mu
					}
					if cl, ok := r.(*ssa.Call); ok && l.Blocks[cl.Block()] {
						if b, ok := cl.Call.Value.(*ssa.Builtin); ok && b.Name() == "append" {
							bad, at = describe(m), cl
						}
					}
				}
			}
			c.Check(bad == "", rule, fn, "request-built-per-iteration", at, "every container placed into the per-broker request is created in the same iteration",
				"the request sent to each broker is built from a container ("+bad+") that is created before the loop and filled inside it: a broker visited later also receives the items of the brokers before it and answers for partitions it does not lead", nil)
		}
	}
}

// retriedClosures: the closures passed as operation to retryOnError, with their host.
func (p *Program) retriedClosures() (hosts []*ssa.Function, ops []*ssa.Function) {
	for _, fn := range p.Fns {
		for _, s := range Info(fn).Find(p.CallTo("clusterAdmin.retryOnError")) {
			if cl := p.closureArg(s, 2); cl != nil {
				hosts = append(hosts, fn)
				ops = append(ops, cl)
			}
		}
	}
	return
}

// brokerRequestCalls: calls of exported Broker methods that send a request (receiver type *Broker,
// result is (response, error) or error), excluding Open/Close/ID/Addr…
func (p *Program) brokerRequestCalls(fn *ssa.Function) []Item {
	skip := map[string]bool{"Open": true, "Close": true, "ID": true, "Addr": true, "Connected": true, "Rack": true, "AsyncProduce": true}
	return Info(fn).Find(func(it Item) bool {
		cc, ok := callCommon(it)
		if !ok || cc.IsInvoke() {
			return false
		}
		f := cc.StaticCallee()
		if f == nil || f.Signature.Recv() == nil || !isPtrToNamed(f.Signature.Recv().Type(), "Broker") {
			return false
		}
		return token.IsExported(f.Name()) && !skip[f.Name()]
	})
}

// brokerSource classifies where a *Broker value comes from.
func (p *Program) brokerSource(v ssa.Value, depth int) string {
	if depth > 6 {
		return "?"
	}
	v = canonLoadCell(v)
	switch x := v.(type) {
	case *ssa.Extract:
		if cl, ok := x.Tuple.(*ssa.Call); ok && x.Index == 0 {
			switch n := p.CalleeName(&cl.Call); n {
			case "clusterAdmin.Controller", "Client.Controller":
				return "Controller"
			case "Client.Coordinator":
				return "Coordinator"
			case "Client.Leader":
				return "Leader"
			case "clusterAdmin.findBroker":
				return "findBroker"
			case "clusterAdmin.findAnyBroker":
				return "findAnyBroker"
			case "clusterAdmin.refreshController", "Client.RefreshController":
				return "RefreshController"
			default:
				return "call:" + n
			}
		}
		// key of a ranged map
		if nx, ok := x.Tuple.(*ssa.Next); ok && x.Index == 1 {
			if rg, ok := nx.Iter.(*ssa.Range); ok {
				return p.mapKeySource(rg.X, depth+1)
			}
		}
	case *ssa.Phi:
		set := map[string]bool{}
		for _, e := range x.Edges {
			if IsNil()(e) {
				continue
			}
			set[p.brokerSource(e, depth+1)] = true
		}
		var out []string
		for s := range set {
			out = append(out, s)
		}
		sort.Strings(out)
		return strings.Join(out, "|")
	case *ssa.Parameter:
		fn := x.Parent()
		if par := fn.Parent(); par != nil {
			// argument at the go/call site of the closure
			idx := -1
			for i, q := range fn.Params {
				if q == x {
					idx = i
				}
			}
			for _, b := range par.Blocks {
				for _, in := range b.Instrs {
					ci, ok := in.(ssa.CallInstruction)
					if !ok {
						continue
					}
					if f := p.FuncOfValue(ci.Common().Value); f == fn && idx < len(ci.Common().Args) {
						return p.brokerSource(ci.Common().Args[idx], depth+1)
					}
				}
			}
		}
		return "param"
	case *ssa.UnOp:
		if x.Op == token.MUL {
			if ia, ok := x.X.(*ssa.IndexAddr); ok {
				if cl, ok := strip(ia.X).(*ssa.Call); ok {
					return "elem:" + p.CalleeName(&cl.Call)
				}
			}
		}
	}
	return "?"
}

// canonLoadCell: a value loaded from a local cell written once → the value written.
func canonLoadCell(v ssa.Value) ssa.Value {
	v = strip(v)
	u, ok := v.(*ssa.UnOp)
	if !ok || u.Op != token.MUL {
		return v
	}
	var cellRefs *[]ssa.Instruction
	switch cx := u.X.(type) {
	case *ssa.Alloc:
		cellRefs = cx.Referrers()
	case *ssa.FreeVar:
		// resolve through the MakeClosure binding
		fn := cx.Parent()
		idx := -1
		for i, fv := range fn.FreeVars {
			if fv == cx {
				idx = i
			}
		}
		if par := fn.Parent(); par != nil && idx >= 0 {
			for _, b := range par.Blocks {
				for _, in := range b.Instrs {
					if mc, ok := in.(*ssa.MakeClosure); ok && mc.Fn == fn {
						if al, ok := mc.Bindings[idx].(*ssa.Alloc); ok {
							cellRefs = al.Referrers()
						}
					}
				}
			}
		}
	}
	if cellRefs == nil {
		return v
	}
	var stored ssa.Value
	n := 0
	for _, r := range *cellRefs {
		if st, ok := r.(*ssa.Store); ok {
			if _, isAddr := st.Addr.(*ssa.Alloc); isAddr {
				n++
				stored = st.Val
			}
		}
	}
	if n == 1 {
		return strip(stored)
	}
	return v
}

func (p *Program) mapKeySource(m ssa.Value, depth int) string {
	m = canonLoadCell(m)
	set := map[string]bool{}
	if mm, ok := m.(*ssa.MakeMap); ok {
		for _, r := range *mm.Referrers() {
			if mu, ok := r.(*ssa.MapUpdate); ok && mu.Map == ssa.Value(mm) {
				set[p.brokerSource(mu.Key, depth+1)] = true
			}
		}
	}
	var out []string
	for s := range set {
		out = append(out, s)
	}
	sort.Strings(out)
	if len(out) == 0 {
		return "?"
	}
	return "key:" + strings.Join(out, "|")
}

func c19Controller(c *Ctx) {
	p := c.P
	rule := "C19.controller"
	c.Doc(rule, "every closure retried with isErrNoController: its request goes to the broker returned by ca.Controller() inside the closure; wherever a response error equals ErrNotController, refreshController() is called before returning, and the value returned is of a type isErrNoController recognises")
	c.Floor(rule, 8)
	hosts, ops := p.retriedClosures()
	if len(ops) < 4 {
		c.Unresolved(rule, fmt.Sprintf("closures passed to retryOnError (found %d, expected ≥ 4)", len(ops)))
	}
	recognised := map[string]bool{"*TopicError": true, "*TopicPartitionError": true, "KError": true}
	notCtl, _ := p.ConstNamed("ErrNotController")
	// does retryOnError itself refresh the controller whenever the operation's error is retriable — before it
	// returns as well as before it tries again?
	loopRefreshes, loopHasRefresh := false, false
	var loopPath []*ssa.BasicBlock
	refreshCall := p.CallTo("clusterAdmin.refreshController", "Client.RefreshController")
	// the refresh may also live in the predicate handed to retryOnError (a method that answers "retry?" and, where
	// the answer is yes, refreshes the controller first): calling the predicate is then the refresh
	predRefreshes := false
	{
		nSites, nGood := 0, 0
		for _, fn := range p.Fns {
			for _, s := range Info(fn).Find(p.CallTo("clusterAdmin.retryOnError")) {
				a := callArgs(s)
				if len(a) < 3 {
					continue
				}
				nSites++
				pred := p.FuncOfValue(a[1])
				// a method value: the bound wrapper calls the method
				for d := 0; d < 2 && pred != nil && !hasItem(pred, refreshCall); d++ {
					var next *ssa.Function
					Info(pred).Each(func(it Item) {
						if cc, ok := callCommon(it); ok && !cc.IsInvoke() && cc.StaticCallee() != nil && cc.StaticCallee().Pkg == p.Sarama && next == nil {
							next = cc.StaticCallee()
						}
					})
					pred = next
				}
				if pred == nil || !hasItem(pred, refreshCall) {
					continue
				}
				// every `return true` of the predicate is preceded by the refresh
				if it, _ := WholeFn(pred).MustPrecede(refreshCall, func(it Item) bool { return IsReturn()(it) && returnsBool(true)(it) }); it.IsZero() {
					nGood++
				}
			}
		}
		predRefreshes = nSites > 0 && nGood == nSites
	}
	if ro := p.Fn("clusterAdmin.retryOnError"); ro != nil && (predRefreshes || hasItem(ro, refreshCall)) {
		loopHasRefresh = true
		rreg := WholeFn(ro)
		isFnCall := func(it Item) bool {
			cc, ok := callCommon(it)
			return ok && !cc.IsInvoke() && ParamN(2)(cc.Value)
		}
		retriable := func(v ssa.Value) bool {
			cl, ok := v.(*ssa.Call)
			return ok && !cl.Call.IsInvoke() && ParamN(1)(cl.Call.Value)
		}
		loopRefreshes = true
		for _, fc := range rreg.Find(isFnCall) {
			errV := fc.In.(*ssa.Call)
			sub := *rreg.From(fc.After())
			// paths on which the error is nil or not retriable need no refresh
			sub.Cut = func(from, to *ssa.BasicBlock) bool {
				return Establishes(from, to, Truth{retriable, false}) || Establishes(from, to, Cmp{token.EQL, Same(errV), IsNil()})
			}
			next := func(it Item) bool {
				return isFnCall(it) || (IsReturn()(it) && !IsRecoverBlock(it.In.Block()))
			}
			refreshEv := refreshCall
			if predRefreshes {
				refreshEv = Or(refreshCall, func(it Item) bool {
					cl, ok := it.In.(*ssa.Call)
					return ok && retriable(cl)
				})
			}
			if it, p2 := sub.MustPrecede(refreshEv, next); !it.IsZero() {
				loopRefreshes, loopPath = false, p2
			}
		}
	}
	for i, op := range ops {
		host := hosts[i]
		reqs := p.brokerRequestCalls(op)
		if len(reqs) != 1 {
			c.Fail(rule, op, "request", nil, fmt.Sprintf("expected exactly one broker request in the retried closure of %s, found %d", p.Name(host), len(reqs)), nil)
			continue
		}
		src := p.brokerSource(callArgs(reqs[0])[0], 0)
		if src == "Controller" && !hasItem(op, p.CallTo("clusterAdmin.Controller", "Client.Controller")) {
			src = "Controller looked up once outside the retried closure"
		}
		c.Check(src == "Controller", rule, op, "sent-to-controller", reqs[0].Instr(), "request sent to the broker returned by Controller() on each attempt", "controller-bound request of "+p.Name(host)+" is sent to "+src+" instead of the current controller (looked up on each attempt)", nil)
		// NOT_CONTROLLER handling
		reg := WholeFn(op)
		kerrIs := func(v ssa.Value) bool { n, _ := NamedOf(v.Type()); return n == "KError" }
		es := reg.EstablishingEdges(Cmp{token.EQL, kerrIs, ConstInt(notCtl)})
		// the test-and-refresh may have been extracted into a helper taking the response's error code:
		// helper(code) { if code == ErrNotController { refreshController() } }
		type start struct {
			pt   Pt
			at   ssa.Instruction
			done bool // refresh already established by the helper
		}
		var starts []start
		for _, e := range es {
			starts = append(starts, start{Pt{e.To, 0}, lastInstr(e.From), false})
		}
		for _, s := range Info(op).Find(func(it Item) bool {
			cl, ok := it.In.(*ssa.Call)
			return ok && !cl.Call.IsInvoke() && cl.Call.StaticCallee() != nil
		}) {
			cl := s.In.(*ssa.Call)
			h := cl.Call.StaticCallee()
			if h.Pkg != p.Sarama || len(h.Blocks) == 0 {
				continue
			}
			for k, prm := range h.Params {
				if !kerrIs(prm) || k >= len(cl.Call.Args) {
					continue
				}
				hes := WholeFn(h).EstablishingEdges(Cmp{token.EQL, Same(prm), ConstInt(notCtl)})
				good := len(hes) > 0
				for _, he := range hes {
					if it, _ := WholeFn(h).From(Pt{he.To, 0}).MustPrecede(p.CallTo("clusterAdmin.refreshController", "Client.RefreshController"), IsReturn()); !it.IsZero() {
						good = false
					}
				}
				if good {
					starts = append(starts, start{s.After(), cl, true})
				}
			}
		}
		if len(starts) == 0 {
			// the refresh may live in retryOnError itself: then it must happen whenever the error is retriable — also on
			// the last permitted attempt, or the next operation starts from the stale controller again
			if loopHasRefresh {
				c.Check(loopRefreshes, rule, op, "not-controller-refresh-in-retry-loop", nil, "retryOnError refreshes the controller whenever the operation's error is retriable, before returning or trying again",
					"the controller refresh was moved into retryOnError but is skipped on some path with a retriable error (for instance on the last permitted attempt): with Admin.Retry.Max ≤ 1 the cached controller is never corrected and every later operation goes to the old controller", loopPath)
				continue
			}
			c.Fail(rule, op, "not-controller-handled", nil, "the closure of "+p.Name(host)+" never tests the response for ErrNotController: after a controller move the stale controller is asked again and the error is not recognised as retriable", nil)
			continue
		}
		for _, st := range starts {
			sub := reg.From(st.pt)
			it, path := sub.MustPrecede(p.CallTo("clusterAdmin.refreshController", "Client.RefreshController"), IsReturn())
			if st.done || loopRefreshes {
				it, path = Item{}, nil
			}
			okType := true
			var badType string
			for _, r := range sub.Find(IsReturn()) {
				rv := RetVals(r.In.(*ssa.Return))
				if len(rv) != 1 {
					continue
				}
				if mi, isMI := rv[0].(*ssa.MakeInterface); isMI {
					t := mi.X.Type().String()
					t = strings.ReplaceAll(t, saramaPath+".", "")
					if !recognised[t] {
						okType, badType = false, t
					}
				} else if !IsNil()(rv[0]) {
					// an error value of unknown dynamic type
					if _, isPhi := rv[0].(*ssa.Phi); !isPhi {
						okType, badType = false, describe(rv[0])
					}
				}
			}
			c.Check(it.IsZero() && okType, rule, op, "not-controller-refresh-and-retry", st.at, "on ErrNotController the controller is refreshed and a retriable error returned",
				"on ErrNotController "+p.Name(host)+" does not refresh the controller before returning, or returns an error ("+badType+") that isErrNoController does not recognise: no retry on the new controller", path)
		}
	}
}

// c19KErrorOrdered: Kafka error codes are labels, not magnitudes — ErrUnknown is -1.  A test such as
// `code > 0` lets a negative code through as success.
func c19KErrorOrdered(c *Ctx) {
	p := c.P
	rule := "C19.verdict"
	n := 0
	for _, fn := range p.Fns {
		if fn.Pkg != p.Sarama || p.inFile(fn, "mockbroker.go") || p.inFile(fn, "mockresponses.go") {
			continue
		}
		for _, b := range fn.Blocks {
			for _, in := range b.Instrs {
				bo, ok := in.(*ssa.BinOp)
				if !ok {
					continue
				}
				nx, _ := NamedOf(bo.X.Type())
				ny, _ := NamedOf(bo.Y.Type())
				if nx != "KError" && ny != "KError" {
					continue
				}
				switch bo.Op {
				case token.EQL, token.NEQ:
					n++
				case token.LSS, token.GTR, token.LEQ, token.GEQ:
					n++
					c.Fail(rule, fn, "kerror-compared-by-order", bo, "a Kafka error code is tested with an ordering comparison ("+bo.Op.String()+"): codes are labels, ErrUnknown is -1 — a negative code passes as success (or a positive one as failure); compare with ErrNoError using == / !=", nil)
				}
			}
		}
	}
	if n < 50 {
		c.Unresolved(rule, fmt.Sprintf("comparisons of KError values (found %d, expected ≥ 50)", n))
	} else {
		c.OK(rule, nil, "kerror-compared-by-equality", nil, fmt.Sprintf("%d comparisons of KError values in the package, none by order", n))
	}
}

func c19Verdict(c *Ctx) {
	p := c.P
	rule := "C19.verdict"
	c.Doc(rule, "operations that look an item up in the response (rsp.X[key]) return nil only when the item is present (ok) and its error code equals ErrNoError")
	c.Floor(rule, 4)
	noErr, _ := p.ConstNamed("ErrNoError")
	kerrIs := func(v ssa.Value) bool { n, _ := NamedOf(v.Type()); return n == "KError" }
	n := 0
	for _, fn := range p.Fns {
		if !p.inFile(fn, "admin.go") {
			continue
		}
		if fn.Signature.Results().Len() != 1 || fn.Signature.Results().At(0).Type().String() != "error" {
			continue
		}
		// a comma-ok lookup in a response map
		var okVal ssa.Value
		Info(fn).Each(func(it Item) {
			if lk, isL := it.In.(*ssa.Lookup); isL && lk.CommaOk {
				if ch := fieldChain(strip(lk.X)); len(ch) > 0 && strings.HasSuffix(ch[len(ch)-1].owner, "Response") {
					for _, r := range *lk.Referrers() {
						if ex, ok := r.(*ssa.Extract); ok && ex.Index == 1 {
							okVal = ex
						}
					}
				}
			}
		})
		if okVal == nil {
			continue
		}
		n++
		reg := WholeFn(fn)
		// aggregate idiom: errors are collected in a local slice and nil is returned only when it is empty
		if aggOK, isAgg := aggregateVerdict(p, fn, okVal, kerrIs, noErr); isAgg {
			c.Check(aggOK == "", rule, fn, "nil-only-when-no-error-collected", nil, "every missing item / error code is collected and nil returned only when nothing was collected", aggOK, nil)
			continue
		}
		for _, r := range reg.Find(ReturnNilErr()) {
			g1, p1 := reg.Guarded(r, Truth{Same(okVal), true})
			g2, p2 := reg.Guarded(r, Cmp{token.EQL, kerrIs, ConstInt(noErr)})
			path := p1
			if g1 {
				path = p2
			}
			c.Check(g1 && g2, rule, fn, "nil-only-on-noerror", r.Instr(), "nil returned only for a present item with ErrNoError",
				"success can be reported although the item is missing from the response or carries an error code", path)
		}
	}
	if n < 4 {
		c.Fail(rule, nil, "operations", nil, fmt.Sprintf("expected ≥ 4 operations with a per-item verdict, found %d", n), nil)
	}
}

func c19Routing(c *Ctx) {
	p := c.P
	rule := "C19.routing"
	c.Doc(rule, "frozen routing table of the operations the property names: controller-bound → Controller(); DeleteRecords → the partition's Leader (grouped per broker); group operations → Coordinator(group)")
	c.Floor(rule, 8)
	want := map[string]string{
		"clusterAdmin.CreateTopic":                 "Controller",
		"clusterAdmin.DeleteTopic":                 "Controller",
		"clusterAdmin.CreatePartitions":            "Controller",
		"clusterAdmin.AlterPartitionReassignments": "Controller",
		"clusterAdmin.DeleteRecords":               "key:Leader",
		"clusterAdmin.DescribeConsumerGroups":      "key:Coordinator",
		"clusterAdmin.ListConsumerGroupOffsets":    "Coordinator",
		"clusterAdmin.DeleteConsumerGroup":         "Coordinator",
	}
	found := map[string][]string{}
	var others []string
	for _, fn := range p.Fns {
		if !p.inFile(fn, "admin.go") {
			continue
		}
		host := fn
		for host.Parent() != nil {
			host = host.Parent()
		}
		for _, s := range p.brokerRequestCalls(fn) {
			src := p.brokerSource(callArgs(s)[0], 0)
			name := p.Name(host)
			found[name] = append(found[name], src)
			if _, tabled := want[name]; !tabled {
				others = append(others, name+"→"+src)
			}
		}
	}
	names := make([]string, 0, len(want))
	for n := range want {
		names = append(names, n)
	}
	sort.Strings(names)
	for _, n := range names {
		fn := p.Fn(n)
		srcs := found[n]
		ok := len(srcs) > 0
		for _, s := range srcs {
			if s != want[n] {
				ok = false
			}
		}
		c.Check(ok, rule, fn, "route", nil, n+" → "+want[n], n+" sends its request to "+strings.Join(srcs, ",")+" instead of "+want[n], nil)
	}
	sort.Strings(others)
	c.Notes = append(c.Notes, rule+": routing of the other operations as found (informational): "+strings.Join(others, "; "))
}

// ---------------------------------------------------------------- C19.version

type kver [4]int

func (a kver) leq(b kver) bool {
	for i := 0; i < 4; i++ {
		if a[i] != b[i] {
			return a[i] < b[i]
		}
	}
	return true
}

// versionGlobals: V* package variables initialised by newKafkaVersion(a,b,c,d) in the package init.
func (p *Program) versionGlobals() map[string]kver {
	out := map[string]kver{}
	init := p.Sarama.Func("init")
	if init == nil {
		return out
	}
	for _, b := range init.Blocks {
		for _, in := range b.Instrs {
			st, ok := in.(*ssa.Store)
			if !ok {
				continue
			}
			g, ok := st.Addr.(*ssa.Global)
			if !ok {
				continue
			}
			cl, ok := st.Val.(*ssa.Call)
			if !ok || p.CalleeName(&cl.Call) != "newKafkaVersion" || len(cl.Call.Args) != 4 {
				// aliases: MinVersion = V0_8_2_0 …
				if u, ok := st.Val.(*ssa.UnOp); ok && u.Op == token.MUL {
					if g2, ok := u.X.(*ssa.Global); ok {
						if v, ok := out[g2.Name()]; ok {
							out[g.Name()] = v
						}
					}
				}
				continue
			}
			var v kver
			okc := true
			for i, a := range cl.Call.Args {
				k, isC := a.(*ssa.Const)
				if !isC || k.Value == nil || k.Value.Kind() != constant.Int {
					okc = false
					break
				}
				v[i] = int(k.Int64())
			}
			if okc {
				out[g.Name()] = v
			}
		}
	}
	return out
}

// requiredVersionTable: for type T with method requiredVersion(): version k → global name.
func (p *Program) requiredVersionTable(typeName string) (cases map[int64]string, def string, ok bool) {
	fn := p.Fn(typeName + ".requiredVersion")
	if fn == nil {
		return nil, "", false
	}
	cases = map[int64]string{}
	retGlobal := func(b *ssa.BasicBlock) string {
		// follow jumps to the return
		for i := 0; i < 4; i++ {
			if r, ok := lastInstr(b).(*ssa.Return); ok {
				rv := RetVals(r)
				if u, ok := strip(rv[0]).(*ssa.UnOp); ok && u.Op == token.MUL {
					if g, ok := u.X.(*ssa.Global); ok {
						return g.Name()
					}
				}
				return ""
			}
			if len(b.Succs) == 1 {
				b = b.Succs[0]
				continue
			}
			return ""
		}
		return ""
	}
	verVal := func(v ssa.Value) bool {
		ch := fieldChain(strip(v))
		return len(ch) > 0 && ch[len(ch)-1].name == "Version" || isCallNamed(p, v, typeName+".version")
	}
	cc := constCases(fn, verVal)
	for tgt, ks := range cc {
		g := retGlobal(tgt)
		if g == "" {
			return nil, "", false
		}
		for _, k := range ks {
			cases[k] = g
		}
	}
	// default: the return reached when every case test fails
	r := WholeFn(fn)
	r.Cut = func(from, to *ssa.BasicBlock) bool {
		_, isCase := cc[to]
		_, isIf := lastInstr(from).(*ssa.If)
		return isCase && isIf && from.Succs[0] == to
	}
	if len(cc) == 0 {
		// no switch: single return
		def = retGlobal(fn.Blocks[0])
		return cases, def, def != ""
	}
	for _, it := range r.Find(IsReturn()) {
		if g := retGlobal(it.In.Block()); g != "" {
			def = g
		}
	}
	return cases, def, true
}

func isCallNamed(p *Program, v ssa.Value, name string) bool {
	cl, ok := strip(v).(*ssa.Call)
	return ok && p.CalleeName(&cl.Call) == name
}

func c19Version(c *Ctx) { versionRule(c, 25, func(string) bool { return true }) }

// c06Version: the same rule restricted to the offset manager's requests (shared with C06).
func c06Version(c *Ctx) {
	versionRule(c, 2, func(fn string) bool { return strings.HasPrefix(fn, "offsetManager.") })
}

func versionRule(c *Ctx, floor int, include func(fn string) bool) {
	p := c.P
	rule := "C19.version"
	c.Doc(rule, "every store of a constant to the Version field of a request type that has requiredVersion(): the configured-version tests (conf.Version.IsAtLeast(Vx)) guarding the store — or the documented floor of the component — imply requiredVersion(k); otherwise Broker.send refuses the request with ErrUnsupportedVersion for some accepted configuration")
	c.Floor(rule, floor)
	vers := p.versionGlobals()
	if len(vers) < 20 {
		c.Unresolved(rule, fmt.Sprintf("version globals (found %d)", len(vers)))
		return
	}
	minV, okMin := vers["MinVersion"]
	if !okMin {
		minV = vers["V0_8_2_0"]
	}
	// component floors established elsewhere in the code (function-level preconditions)
	floors := map[string]string{}
	// newConsumerGroup refuses configurations below V0_10_2_0: everything reachable only through a consumer group
	for _, f := range []string{"consumerGroup.joinGroupRequest", "consumerGroup.syncGroupRequest", "consumerGroup.heartbeatRequest", "consumerGroup.leave"} {
		floors[f] = "V0_10_2_0"
	}
	if fn := p.Fn("newConsumerGroup"); fn != nil {
		reg := WholeFn(fn)
		okFloor := false
		for _, e := range reg.EstablishingEdges(Truth{p.IsAtLeast("V0_10_2_0"), false}) {
			if it, _ := reg.From(Pt{e.To, 0}).Reach(ReturnNilErr(), nil); it.IsZero() {
				okFloor = true
			}
		}
		if !okFloor {
			c.Fail(rule, fn, "component-floor", nil, "newConsumerGroup no longer refuses configurations below V0_10_2_0: the floor assumed for the group requests is void", nil)
		}
	}
	tables := map[string]bool{}
	type site struct {
		fn  *ssa.Function
		st  *ssa.Store
		typ string
		k   int64
		vs  verSite
	}
	var sites []site
	for _, fn := range p.Fns {
		if fn.Pkg != p.Sarama && (fn.Parent() == nil || fn.Parent().Pkg != p.Sarama) {
			continue
		}
		if strings.HasPrefix(p.Name(fn), "Mock") || p.inFile(fn, "mockresponses.go") || p.inFile(fn, "mockbroker.go") {
			continue
		}
		recvTyp := ""
		if recv := fn.Signature.Recv(); recv != nil {
			recvTyp, _ = NamedOf(recv.Type())
		}
		vs, owners, _ := versionSites(fn, "")
		for _, v := range vs {
			typ := owners[v.st]
			if p.Fn(typ+".requiredVersion") == nil || !strings.HasSuffix(typ, "Request") {
				continue
			}
			// stores inside the type's own methods (decode) are not version selections
			if recvTyp == typ {
				continue
			}
			if v.k == 0 {
				continue // the API's first version: if the configured version predates the API, refusing the call is the right answer
			}
			sites = append(sites, site{fn, v.st, typ, v.k, v})
			tables[typ] = true
		}
	}
	var vnames []string
	for n := range vers {
		if strings.HasPrefix(n, "V") {
			vnames = append(vnames, n)
		}
	}
	sort.Strings(vnames)
	for _, s := range sites {
		if !include(p.Name(s.fn)) {
			continue
		}
		cases, def, ok := p.requiredVersionTable(s.typ)
		if !ok {
			c.Fail(rule, s.fn, "version:"+s.typ, s.st, "cannot evaluate "+s.typ+".requiredVersion() statically", nil)
			continue
		}
		need, has := cases[s.k]
		if !has {
			need = def
		}
		needV, okV := vers[need]
		if !okV {
			c.Fail(rule, s.fn, "version:"+s.typ, s.st, "requiredVersion("+fmt.Sprint(s.k)+") = "+need+" is not a known version constant", nil)
			continue
		}
		// strongest guard
		reg := WholeFn(s.fn)
		best := minV
		bestName := "MinVersion"
		if fl, ok := floors[p.Name(s.fn)]; ok {
			best, bestName = vers[fl], fl+" (component floor)"
		}
		for _, vn := range vnames {
			gf, gt := s.vs.guardBlock()
			if guardedAt(reg, gf, gt, Truth{p.IsAtLeast(vn), true}) {
				if best.leq(vers[vn]) {
					best, bestName = vers[vn], vn
				}
			}
		}
		if os.Getenv("SACHECK_DEBUG_VERS") != "" && needV != best {
			fmt.Fprintf(os.Stderr, "VERS %s %s=%d need=%s guard=%s\n", p.Name(s.fn), s.typ, s.k, need, bestName)
		}
		c.Check(needV.leq(best), rule, s.fn, fmt.Sprintf("version:%s=%d", s.typ, s.k), s.st,
			fmt.Sprintf("%s v%d requires %s; guaranteed configured version ≥ %s", s.typ, s.k, need, bestName),
			fmt.Sprintf("%s.Version = %d requires %s but the store is only guarded by configured version ≥ %s: with a configured version in between Broker.send refuses every such request with ErrUnsupportedVersion", s.typ, s.k, need, bestName), nil)
	}
	_ = types.Typ
}

// aggregateVerdict recognises `errs = append(errs, …)` collection with `if len(errs) > 0 { return … }`.
// Returns ("", true) when every !ok edge and every err != ErrNoError edge is followed by an append
// to the collected slice and nil is returned only under len(errs) <= 0.
func aggregateVerdict(p *Program, fn *ssa.Function, okVal ssa.Value, kerrIs VM, noErr int64) (string, bool) {
	reg := WholeFn(fn)
	isErrSlice := func(v ssa.Value) bool {
		sl, ok := v.Type().Underlying().(*types.Slice)
		return ok && sl.Elem().String() == "error"
	}
	collect := func(it Item) bool {
		cc, ok := callCommon(it)
		if !ok {
			return false
		}
		b, ok := cc.Value.(*ssa.Builtin)
		return ok && b.Name() == "append" && isErrSlice(cc.Args[0])
	}
	if len(reg.Find(collect)) == 0 {
		return "", false
	}
	for _, r := range reg.Find(ReturnNilErr()) {
		if g, _ := reg.Guarded(r, Cmp{token.LEQ, LenOf(isErrSlice), ConstInt(0)}); !g {
			return "nil can be returned without testing that no error was collected", true
		}
	}
	fi := Info(fn)
	check := func(pr Pred, what string) string {
		for _, e := range reg.EstablishingEdges(pr) {
			r2 := reg
			if l := fi.InnermostLoop(e.To); l != nil {
				r2 = fi.Iteration(l)
			}
			if esc, _ := r2.From(Pt{e.To, 0}).Escape(collect); esc {
				return what + " is not recorded as an error on every path"
			}
		}
		return ""
	}
	if s := check(Truth{Same(okVal), false}, "an item missing from the response"); s != "" {
		return s, true
	}
	if s := check(Cmp{token.NEQ, kerrIs, ConstInt(noErr)}, "an item's error code"); s != "" {
		return s, true
	}
	return "", true
}

// C19.version-floor: request versions the property cannot do without are selected as soon as the configured version
// allows them (the guard is exactly what requiredVersion() names, not something later).
func c19VersionFloor(c *Ctx) {
	p := c.P
	rule := "C19.version-floor"
	c.Doc(rule, "clusterAdmin.ListConsumerGroupOffsets selects OffsetFetchRequest v2 — the first version that can ask for all partitions of a group (nil partition list) and that carries a group-level error code — under exactly conf.Version.IsAtLeast(requiredVersion(2)): with a later gate, configurations in between send v1, where a nil partition list means 'no partitions' and a coordinator error has no field to travel in, so the operation reports success with nothing")
	c.Floor(rule, 1)
	vt := p.versionTable()
	for _, t := range []struct {
		fn, typ string
		k       int64
	}{{"clusterAdmin.ListConsumerGroupOffsets", "OffsetFetchRequest", 2}} {
		fn := c.NeedFn(rule, t.fn)
		if fn == nil {
			continue
		}
		cases, def, ok := p.requiredVersionTable(t.typ)
		if !ok {
			c.Unresolved(rule, t.typ+".requiredVersion")
			continue
		}
		need, has := cases[t.k]
		if !has {
			need = def
		}
		var st *ssa.Store
		var site verSite
		vs, _, _ := versionSites(fn, t.typ)
		for _, v := range vs {
			if v.k == t.k {
				st, site = v.st, v
			}
		}
		if st == nil {
			c.Fail(rule, fn, fmt.Sprintf("floor:%s=%d", t.typ, t.k), nil, fmt.Sprintf("%s never selects %s v%d", t.fn, t.typ, t.k), nil)
			continue
		}
		gf, gt := site.guardBlock()
		got := vt.atLeast(WholeFn(rootOf(fn)), gf, gt)
		c.Check(got == need, rule, fn, fmt.Sprintf("floor:%s=%d", t.typ, t.k), st, fmt.Sprintf("%s v%d selected from %s on", t.typ, t.k, need),
			fmt.Sprintf("%s v%d is selected only for configured versions ≥ %s although it is available from %s on: in between the older request is sent, which cannot ask for all partitions of the group nor carry the coordinator's error — the operation reports success with no offsets", t.typ, t.k, orNone(got), need), nil)
	}
}
