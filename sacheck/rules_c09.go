package main

// C09 — wire encoding round-trips for every message type and version (structural clauses).

import (
	"fmt"
	"go/constant"
	"go/token"
	"go/types"
	"sort"
	"strings"

	"golang.org/x/tools/go/ssa"
)

func init() {
	register(&propDef{
		ID:    "C09",
		Title: "Wire encoding round-trips for every message type and version",
		Explain: "Decides shape agreement, not value equality: for every type that has both encode and decode and for every protocol version 0..max+1 mentioned in its code, the language of wire-token sequences its encoder can emit is included in the language its decoder accepts — automata are built from the SSA control-flow graphs, nested encode/decode calls spliced in, version branches evaluated, data branches non-deterministic (C09.mirror); push/pop are balanced on every successful path (C09.balance); allocateBody maps every key to a type with that key and every sendAndReceive pairs a request and a response of the same API key (C09.keys); " +
			"for every put* method the sizing pass (prepEncoder) and the writing pass (realEncoder) account for the same number of bytes, compared as symbolic linear forms per argument condition (C09.prep-real); length and CRC fields are written and checked over the same byte range with the same polynomial per container (C09.crc-len, the polynomial via C09.mirror tokens). " +
			"no encoding step whose error is non-nil is answered with `return nil` or ignored (C09.enc-err, 338 steps). " +
			"NOT covered: value-level equality (which bytes), compression codecs, varint arithmetic, agreement with the Kafka specification itself.",
		Rules: []func(*Ctx){c09Mirror, c09Order, c09Balance, c09Keys, c09PrepReal, c09Null, c09CrcLen, c09EncErr, c09EarlyAccept, c09FreshElement, c10ErrLost, c09PoolOnce, c09Sentinel, c04OwnedOutput, c09NullVsEmpty, c09DecodedElementKept, c09PoolOnceDeferredClosure, c09VarintFastPath, c09VersionThreaded, c09MessageSetStopsAtV2, c09FlatArrayUncapped, c09RecordsFresh, c09SlabNotReused, c10NoNilIntoPool, c09VarintReserve},
	})
}

// mirrorExclusions: types whose automaton cannot be compared alone, with the reason.
var mirrorExclusions = map[string]string{
	"request":                          "dispatches to a dynamic body (protocolBody); its header is covered by C09.keys, each body by its own entry",
	"ControlRecord":                    "decode reads two streams (key and value decoders); encode writes one",
	"alterPartitionReassignmentsBlock": "nested-only helper: its trailing tagged-field array is written by the block but read by its parent; compared through AlterPartitionReassignmentsRequest",
}

type encDecPair struct {
	name     string
	enc, dec *ssa.Function
}

func (p *Program) encDecPairs() []encDecPair {
	var pairs []encDecPair
	for name, m := range p.Sarama.Members {
		t, ok := m.(*ssa.Type)
		if !ok {
			continue
		}
		var enc, dec *ssa.Function
		for _, ty := range []types.Type{t.Type(), types.NewPointer(t.Type())} {
			ms := p.Prog.MethodSets.MethodSet(ty)
			for i := 0; i < ms.Len(); i++ {
				f := p.Prog.MethodValue(ms.At(i))
				if f == nil || f.Synthetic != "" || len(f.Params) < 2 || f.Blocks == nil {
					continue
				}
				if f.Name() == "encode" && isStreamType(f.Params[1].Type()) {
					enc = f
				}
				if f.Name() == "decode" && isStreamType(f.Params[1].Type()) {
					dec = f
				}
			}
		}
		if enc != nil && dec != nil {
			pairs = append(pairs, encDecPair{name, enc, dec})
		}
	}
	sort.Slice(pairs, func(i, j int) bool { return pairs[i].name < pairs[j].name })
	return pairs
}

func c09Mirror(c *Ctx) {
	p := c.P
	rule := "C09.mirror"
	c.Doc(rule, "for every type with encode and decode, and every version v in 0..max+1 (max = largest constant its code compares the version with): L(encoder_v) ⊆ L(decoder_v) over wire tokens (i8 i16 i32 i64 varint uvarint str16 cstr bytes32 vbytes cbytes raw crc32:<poly> …)")
	c.Floor(rule, 120)
	pairs := p.encDecPairs()
	totalPairs, states, tokens := 0, 0, 0
	for _, pr := range pairs {
		if why, ex := mirrorExclusions[pr.name]; ex {
			c.OK(rule, pr.enc, "excluded:"+pr.name, nil, "excluded from the comparison: "+why)
			continue
		}
		wb := newWireBuilder(p)
		wb.mk(pr.enc, 0)
		wb.mk(pr.dec, 0)
		mv := wb.maxConst + 1
		v0 := 0
		// a body whose version() is a constant is only ever encoded/decoded at that version
		if k, ok := constResult(p.Fn(pr.name + ".version")); ok {
			v0, mv = int(k), int(k)
		}
		var bad []string
		var badV int
		nv := 0
		for v := v0; v <= mv; v++ {
			a, as := wb.mk(pr.enc, v)
			b, bs := wb.mk(pr.dec, v)
			nv++
			totalPairs++
			ok, cex, st := wIncluded(a, as, b, bs)
			states += st
			if !ok && bad == nil {
				bad, badV = cex, v
			}
		}
		// vacuity: an encoder that uses the stream must yield token transitions
		ntok := 0
		{
			a, _ := wb.mk(pr.enc, v0)
			for _, es := range a.edges {
				for _, e := range es {
					if e.tok != "" {
						ntok++
					}
				}
			}
			tokens += ntok
			usesStream := hasItem(pr.enc, func(it Item) bool {
				cc, ok := callCommon(it)
				return ok && cc.IsInvoke() && isStreamType(cc.Value.Type())
			})
			if ntok == 0 && usesStream {
				wb.problem("encoder uses the stream but its automaton has no token transition")
			}
		}
		var probs []string
		for s := range wb.problems {
			probs = append(probs, s)
		}
		sort.Strings(probs)
		switch {
		case len(probs) > 0:
			c.Fail(rule, pr.enc, "mirror:"+pr.name, nil, "automaton cannot be built (unrecognised use of the encoder/decoder value): "+strings.Join(probs, "; "), nil)
		case bad != nil:
			c.Fail(rule, pr.enc, "mirror:"+pr.name, nil, fmt.Sprintf("version %d: the encoder can emit [%s] which the decoder does not read in that layout: decoding what was encoded fails or yields different fields", badV, strings.Join(bad, " ")), nil)
		default:
			c.OK(rule, pr.enc, "mirror:"+pr.name, nil, fmt.Sprintf("encoder ⊆ decoder for versions %d..%d", v0, mv))
		}
	}
	c.Notes = append(c.Notes, fmt.Sprintf("%s: %d types, %d (type, version) pairs, %d product states explored, %d token transitions in the encoder automata", rule, len(pairs), totalPairs, states, tokens))
	c.Check(tokens >= 700, rule, nil, "vacuity:tokens", nil, fmt.Sprintf("%d token transitions in the encoder automata", tokens), fmt.Sprintf("only %d token transitions in all encoder automata (expected ≥ 700): the stream operations are no longer recognised", tokens), nil)
}

// c09Balance: push/pop depth is consistent at every merge, never negative, and 0 at every successful return.
func c09Balance(c *Ctx) {
	p := c.P
	rule := "C09.balance"
	c.Doc(rule, "in every encode/decode method: the number of outstanding push()es is the same on all paths reaching a block, never negative, and zero at every return that may report success (the documented partial-data returns of RecordBatch.decode excepted)")
	c.Floor(rule, 250)
	partialOK := map[string]bool{"RecordBatch.decode": true}
	for _, fn := range p.Fns {
		if fn.Parent() != nil || fn.Signature.Recv() == nil || (fn.Name() != "encode" && fn.Name() != "decode") || len(fn.Params) < 2 || !isStreamType(fn.Params[1].Type()) {
			continue
		}
		stream := fn.Params[1]
		isOn := func(cc *ssa.CallCommon, m string) bool {
			return cc.IsInvoke() && cc.Method.Name() == m && cc.Value == ssa.Value(stream)
		}
		depth := map[*ssa.BasicBlock]int{fn.Blocks[0]: 0}
		work := []*ssa.BasicBlock{fn.Blocks[0]}
		bad := ""
		var badAt ssa.Instruction
		seen := map[*ssa.BasicBlock]bool{}
		for len(work) > 0 && bad == "" {
			b := work[0]
			work = work[1:]
			if seen[b] {
				continue
			}
			seen[b] = true
			d := depth[b]
			for _, in := range b.Instrs {
				if cl, ok := in.(*ssa.Call); ok {
					if isOn(&cl.Call, "push") {
						d++
					} else if isOn(&cl.Call, "pop") {
						d--
						if d < 0 {
							bad, badAt = "pop without a matching push", in
						}
					}
				}
				if r, ok := in.(*ssa.Return); ok && !IsRecoverBlock(b) && !wireRejecting(r, b) && d != 0 {
					if partialOK[p.Name(fn)] && d == 1 {
						// partial trailing record: decode stops inside the CRC-covered range by design
						continue
					}
					bad, badAt = fmt.Sprintf("a return that may report success leaves %d push()es without pop: the length/CRC field is never written or checked", d), in
				}
			}
			for _, s := range b.Succs {
				if old, ok := depth[s]; ok {
					if old != d && bad == "" {
						// error paths may merge with different depths only into rejecting returns; tolerate if s only leads to rejecting returns
						if !onlyRejecting(s) {
							bad, badAt = fmt.Sprintf("paths reach the same point with %d and %d outstanding push()es", old, d), lastInstr(b)
						}
					}
				} else {
					depth[s] = d
				}
				work = append(work, s)
			}
		}
		c.Check(bad == "", rule, fn, "balanced", badAt, "push/pop balanced on every path", bad, nil)
	}
}

func onlyRejecting(b *ssa.BasicBlock) bool {
	seen := map[*ssa.BasicBlock]bool{}
	var walk func(x *ssa.BasicBlock) bool
	walk = func(x *ssa.BasicBlock) bool {
		if seen[x] {
			return true
		}
		seen[x] = true
		if r, ok := lastInstr(x).(*ssa.Return); ok {
			return wireRejecting(r, x)
		}
		for _, s := range x.Succs {
			if !walk(s) {
				return false
			}
		}
		return true
	}
	return walk(b)
}

// constResult: the constant returned by a niladic method (key(), version-independent), if unique.
func constResult(fn *ssa.Function) (int64, bool) {
	if fn == nil {
		return 0, false
	}
	var val int64
	have := false
	for _, b := range fn.Blocks {
		r, ok := lastInstr(b).(*ssa.Return)
		if !ok || len(r.Results) != 1 {
			continue
		}
		k, ok := RetVals(r)[0].(*ssa.Const)
		if !ok || k.Value == nil || k.Value.Kind() != constant.Int {
			return 0, false
		}
		i, _ := constant.Int64Val(k.Value)
		if have && i != val {
			return 0, false
		}
		val, have = i, true
	}
	return val, have
}

func c09Keys(c *Ctx) {
	p := c.P
	rule := "C09.keys"
	c.Doc(rule, "allocateBody: every `case K: return &T{}` has T.key() == K (the request wrapper decodes an encoded request into the type that was encoded)")
	c.Floor(rule, 30)
	keyOf := func(t types.Type) (int64, string, bool) {
		n, _ := NamedOf(t)
		k, ok := constResult(p.Fn(n + ".key"))
		return k, n, ok
	}
	if fn := c.NeedFn(rule, "allocateBody"); fn != nil {
		cases := constCases(fn, ParamN(0))
		if len(cases) < 30 {
			c.Unresolved(rule, fmt.Sprintf("switch on key in allocateBody (%d cases)", len(cases)))
		}
		var tgts []*ssa.BasicBlock
		for t := range cases {
			tgts = append(tgts, t)
		}
		sort.Slice(tgts, func(i, j int) bool { return tgts[i].Index < tgts[j].Index })
		for _, tgt := range tgts {
			ks := cases[tgt]
			// the type allocated in this arm
			var alloc *ssa.Alloc
			for b, n := tgt, 0; b != nil && n < 4 && alloc == nil; n++ {
				for _, in := range b.Instrs {
					if a, ok := in.(*ssa.Alloc); ok && a.Heap {
						alloc = a
					}
				}
				if len(b.Succs) == 1 {
					b = b.Succs[0]
				} else {
					b = nil
				}
			}
			if alloc == nil {
				c.Fail(rule, fn, fmt.Sprintf("case:%v", ks), tgt.Instrs[0], "no body allocated in this case arm", nil)
				continue
			}
			k, n, ok := keyOf(alloc.Type())
			good := ok && len(ks) == 1 && ks[0] == k
			c.Check(good, rule, fn, "case:"+n, alloc, fmt.Sprintf("case %d → &%s{} whose key() is %d", ks[0], n, k), fmt.Sprintf("allocateBody case %v allocates %s whose key() is %d: requests of that API are decoded as another type", ks, n, k), nil)
		}
	}
	// Not armed: "req.key() == res.key() at every sendAndReceive call site".  key() of a response type is never
	// used at run time (only request.encode writes body.key()), so a mismatch (AlterConfigsResponse.key() = 32,
	// EndTxnResponse.key() = 25 on the pinned tree) changes no behaviour; demanding it would exceed the property.
}

func c09CrcLen(c *Ctx) {
	p := c.P
	rule := "C09.crc-len"
	c.Doc(rule, "lengthField and crc32Field: run (encoder) and check (decoder) address the field at startOffset and cover the bytes from startOffset+4 to the current offset; both directions of crc32Field use the same crc() helper")
	c.Floor(rule, 4)
	// lengthField: run stores curOffset-startOffset-4 ; check compares the same expression
	exprOf := func(fn *ssa.Function) string {
		var out []string
		Info(fn).Each(func(it Item) {
			bo, ok := it.In.(*ssa.BinOp)
			if !ok {
				return
			}
			out = append(out, bo.Op.String()+"("+shortOperand(bo.X)+","+shortOperand(bo.Y)+")")
		})
		sort.Strings(out)
		return strings.Join(out, " ")
	}
	run, chk := p.Fn("lengthField.run"), p.Fn("lengthField.check")
	if run == nil || chk == nil {
		c.Unresolved(rule, "lengthField.run/check")
	} else {
		want := "-(-(p:curOffset,f:startOffset),4)"
		okRun := strings.Contains(exprOf(run), want)
		okChk := strings.Contains(exprOf(chk), want)
		c.Check(okRun && okChk, rule, run, "length-range", nil, "run writes and check compares curOffset-startOffset-4", "lengthField.run and lengthField.check do not compute the same covered length (curOffset-startOffset-4): a length prefix that disagrees with the data goes unnoticed or every message is rejected", nil)
	}
	// dynamic length prefixes (varint): the sizing pass corrects its running total by what adjustLength returns —
	// the signed difference between the prefix size for the new length and the size reserved before.  Anything else
	// (a clamp at zero, an absolute value) makes the sizing pass disagree with the writing pass whenever a prefix shrinks.
	nAdj := 0
	for _, fn := range p.Fns {
		if fn.Pkg != p.Sarama || fn.Name() != "adjustLength" || fn.Signature.Recv() == nil {
			continue
		}
		nAdj++
		reg := WholeFn(fn)
		ok := true
		var at ssa.Instruction
		rets := 0
		for _, r := range reg.Find(IsReturn()) {
			ret := r.In.(*ssa.Return)
			if IsRecoverBlock(ret.Block()) {
				continue
			}
			rets++
			good := false
			if bo, isB := RetVals(ret)[0].(*ssa.BinOp); isB && bo.Op == token.SUB {
				after, ok1 := bo.X.(*ssa.Call)
				before, ok2 := bo.Y.(*ssa.Call)
				if ok1 && ok2 && after != before && strings.HasSuffix(p.CalleeName(&after.Call), ".reserveLength") && strings.HasSuffix(p.CalleeName(&before.Call), ".reserveLength") {
					// the new length is stored between the two measurements
					st := reg.Find(func(it Item) bool {
						s, isS := it.In.(*ssa.Store)
						if !isS {
							return false
						}
						ch := fieldChain(s.Addr)
						return len(ch) > 0 && ch[len(ch)-1].name == "length"
					})
					if len(st) == 1 {
						b1, _ := reg.From(Item{In: before}.After()).Reach(IsItem(st[0]), nil)
						b2, _ := reg.From(st[0].After()).Reach(Is(after), nil)
						good = !b1.IsZero() && !b2.IsZero()
					}
				}
			}
			if !good {
				ok, at = false, ret
			}
		}
		c.Check(ok && rets > 0, rule, fn, "adjust-length-signed-difference", at, "adjustLength returns reserveLength() after the new length is stored minus reserveLength() before",
			"adjustLength does not return the signed difference of the prefix sizes on every path: when the length prefix of a re-encoded record shrinks, the sizing pass keeps the larger size while the writing pass reserves the smaller one — the buffer has a stray trailing byte that the enclosing length and CRC fields cover", nil)
	}
	if nAdj == 0 {
		c.Unresolved(rule, "adjustLength of the dynamic length fields")
	}
	crun, cchk, ccrc := p.Fn("crc32Field.run"), p.Fn("crc32Field.check"), p.Fn("crc32Field.crc")
	if crun == nil || cchk == nil || ccrc == nil {
		c.Unresolved(rule, "crc32Field.run/check/crc")
	} else {
		both := hasItem(crun, p.CallTo("crc32Field.crc")) && hasItem(cchk, p.CallTo("crc32Field.crc"))
		c.Check(both, rule, crun, "crc-same-helper", nil, "run and check compute the checksum with the same helper crc()", "crc32Field.run and crc32Field.check compute the checksum differently", nil)
		// crc covers buf[startOffset+4 : curOffset]
		okRange := false
		Info(ccrc).Each(func(it Item) {
			sl, ok := it.In.(*ssa.Slice)
			if !ok || sl.Low == nil || sl.High == nil {
				return
			}
			lo, ok := sl.Low.(*ssa.BinOp)
			if ok && lo.Op.String() == "+" && FieldLoad("crc32Field.startOffset")(lo.X) && ConstInt(4)(lo.Y) && ParamN(1)(sl.High) {
				okRange = true
			}
		})
		c.Check(okRange, rule, ccrc, "crc-range", nil, "checksum covers buf[startOffset+4 : curOffset]", "the checksum does not cover exactly the bytes after the CRC field up to the current offset", nil)
		// polynomial dispatch: Castagnoli table only for crcCastagnoli
		okPoly := false
		for _, e := range WholeFn(ccrc).EstablishingEdges(Cmp{token.EQL, FieldLoad("crc32Field.polynomial"), p.NamedConst("crcCastagnoli")}) {
			if it, _ := WholeFn(ccrc).From(Pt{e.To, 0}).Reach(func(it Item) bool {
				u, ok := it.In.(*ssa.UnOp)
				if !ok {
					return false
				}
				g, ok := u.X.(*ssa.Global)
				return ok && g.Name() == "castagnoliTable"
			}, nil); !it.IsZero() {
				okPoly = true
			}
		}
		c.Check(okPoly, rule, ccrc, "crc-polynomial", nil, "the Castagnoli table is used exactly for crcCastagnoli", "the CRC polynomial is not selected by the field's polynomial", nil)
	}
}

func shortOperand(v ssa.Value) string {
	switch x := strip(v).(type) {
	case *ssa.Parameter:
		return "p:" + x.Name()
	case *ssa.Const:
		if x.Value != nil {
			return x.Value.String()
		}
		return "nil"
	case *ssa.BinOp:
		return x.Op.String() + "(" + shortOperand(x.X) + "," + shortOperand(x.Y) + ")"
	}
	if ch := fieldChain(strip(v)); len(ch) > 0 && isFieldRead(strip(v)) {
		return "f:" + ch[len(ch)-1].name
	}
	return "?"
}

// c09PrepReal: sizing pass and writing pass account for the same bytes.
func c09PrepReal(c *Ctx) {
	p := c.P
	rule := "C09.prep-real"
	c.Doc(rule, "for every method implemented by both prepEncoder and realEncoder (put*, push): per nil-condition of the arguments, the bytes added to prepEncoder.length equal the bytes realEncoder.off advances, as symbolic linear forms over {1, len(arg), varint(e), uvarint(e), Σ over a ranged argument}")
	c.Floor(rule, 22)
	pe := newSizeEngine(p, "prepEncoder", "length")
	re := newSizeEngine(p, "realEncoder", "off")
	var names []string
	for _, fn := range p.Fns {
		if fn.Parent() == nil && fn.Signature.Recv() != nil && isPtrToNamed(fn.Signature.Recv().Type(), "prepEncoder") && (strings.HasPrefix(fn.Name(), "put") || fn.Name() == "push") {
			if p.Fn("realEncoder."+fn.Name()) != nil {
				names = append(names, fn.Name())
			}
		}
	}
	sort.Strings(names)
	render := func(ps []sizePath) string {
		m := map[string]map[string]bool{}
		for _, sp := range ps {
			cs := append([]string{}, sp.cond...)
			sort.Strings(cs)
			// drop duplicate conditions
			var uc []string
			for i, s := range cs {
				if i == 0 || cs[i-1] != s {
					uc = append(uc, s)
				}
			}
			// a path that needs an argument to be nil and not nil at once (a put* that checks for nil and then
			// delegates to its nullable twin, which checks again) is not a path
			infeasible := false
			for _, a := range uc {
				if strings.HasSuffix(a, "!=nil") {
					for _, b := range uc {
						if b == strings.TrimSuffix(a, "!=nil")+"==nil" {
							infeasible = true
						}
					}
				}
			}
			if infeasible {
				continue
			}
			k := strings.Join(uc, "&")
			if m[k] == nil {
				m[k] = map[string]bool{}
			}
			m[k][sp.form.String()] = true
		}
		var ks []string
		for k := range m {
			ks = append(ks, k)
		}
		sort.Strings(ks)
		var out []string
		for _, k := range ks {
			var fs []string
			for f := range m[k] {
				fs = append(fs, f)
			}
			sort.Strings(fs)
			out = append(out, "["+k+"] "+strings.Join(fs, " | "))
		}
		return strings.Join(out, " ; ")
	}
	for _, n := range names {
		pf, rf := p.Fn("prepEncoder."+n), p.Fn("realEncoder."+n)
		ps, rs := pe.summary(pf), re.summary(rf)
		if why := pe.bad[pf]; why != "" {
			c.Fail(rule, pf, "size:"+n, nil, "cannot summarise prepEncoder."+n+": "+why, nil)
			continue
		}
		if why := re.bad[rf]; why != "" {
			c.Fail(rule, rf, "size:"+n, nil, "cannot summarise realEncoder."+n+": "+why, nil)
			continue
		}
		a, b := render(ps), render(rs)
		c.Check(a == b && a != "", rule, pf, "size:"+n, nil, "both passes: "+a, "sizing pass and writing pass disagree for "+n+": prepEncoder counts {"+a+"}, realEncoder writes {"+b+"}: the buffer is too small (panic in the writing pass) or has trailing garbage", nil)
	}
}

// ---------------------------------------------------------------- C09.order (field alignment)

type fieldOp struct {
	field string
	in    ssa.Instruction
}

// rootFieldOf: the top-level field of `recv` that value v is derived from (through loads, indexing,
// len(), conversions, range elements), "" if none.
func rootFieldOf(v ssa.Value, recv ssa.Value, depth int) string {
	if depth > 8 || v == nil {
		return ""
	}
	switch x := v.(type) {
	case *ssa.FieldAddr:
		if x.X == recv {
			st := x.X.Type().Underlying().(*types.Pointer).Elem().Underlying().(*types.Struct)
			return st.Field(x.Field).Name()
		}
		return rootFieldOf(x.X, recv, depth+1)
	case *ssa.Field:
		return rootFieldOf(x.X, recv, depth+1)
	case *ssa.UnOp:
		return rootFieldOf(x.X, recv, depth+1)
	case *ssa.IndexAddr:
		return rootFieldOf(x.X, recv, depth+1)
	case *ssa.Index:
		return rootFieldOf(x.X, recv, depth+1)
	case *ssa.Lookup:
		return rootFieldOf(x.X, recv, depth+1)
	case *ssa.Convert:
		return rootFieldOf(x.X, recv, depth+1)
	case *ssa.ChangeType:
		return rootFieldOf(x.X, recv, depth+1)
	case *ssa.MakeInterface:
		return rootFieldOf(x.X, recv, depth+1)
	case *ssa.Slice:
		return rootFieldOf(x.X, recv, depth+1)
	case *ssa.Extract:
		return rootFieldOf(x.Tuple, recv, depth+1)
	case *ssa.Next:
		return rootFieldOf(x.Iter, recv, depth+1)
	case *ssa.Range:
		return rootFieldOf(x.X, recv, depth+1)
	case *ssa.BinOp:
		if f := rootFieldOf(x.X, recv, depth+1); f != "" {
			return f
		}
		return rootFieldOf(x.Y, recv, depth+1)
	case *ssa.Call:
		if b, ok := x.Call.Value.(*ssa.Builtin); ok && b.Name() == "len" {
			return rootFieldOf(x.Call.Args[0], recv, depth+1)
		}
		// value methods on a field (e.g. r.ThrottleTime / time conversions, Timestamp{…})
		for _, a := range x.Call.Args {
			if f := rootFieldOf(a, recv, depth+1); f != "" {
				return f
			}
		}
	case *ssa.Phi:
		for _, e := range x.Edges {
			if f := rootFieldOf(e, recv, depth+1); f != "" {
				return f
			}
		}
	}
	return ""
}

// streamOps: calls that move the stream: invokes on the stream parameter and nested encode/decode
// calls receiving it.
func streamOps(fn *ssa.Function) []*ssa.Call {
	var out []*ssa.Call
	stream := fn.Params[1]
	for _, b := range fn.Blocks {
		for _, in := range b.Instrs {
			cl, ok := in.(*ssa.Call)
			if !ok {
				continue
			}
			if cl.Call.IsInvoke() && cl.Call.Value == ssa.Value(stream) {
				if t, known := wireToken(cl.Call.Method.Name()); known && t != "" {
					out = append(out, cl)
				}
				continue
			}
			for _, a := range cl.Call.Args {
				if a == ssa.Value(stream) {
					out = append(out, cl)
					break
				}
			}
		}
	}
	return out
}

func encoderFieldOps(fn *ssa.Function) []fieldOp {
	recv := ssa.Value(fn.Params[0])
	var out []fieldOp
	for _, cl := range streamOps(fn) {
		f := ""
		if cl.Call.IsInvoke() {
			for _, a := range cl.Call.Args {
				if f = rootFieldOf(a, recv, 0); f != "" {
					break
				}
			}
		} else {
			for _, a := range cl.Call.Args {
				if a == ssa.Value(fn.Params[1]) {
					continue
				}
				if f = rootFieldOf(a, recv, 0); f != "" {
					break
				}
			}
		}
		if f != "" {
			out = append(out, fieldOp{f, cl})
		}
	}
	return out
}

func decoderFieldOps(fn *ssa.Function) []fieldOp {
	recv := ssa.Value(fn.Params[0])
	var out []fieldOp
	derives := func(v ssa.Value, c *ssa.Call) bool {
		return derivesFrom(v, func(x ssa.Value) bool { return x == ssa.Value(c) }, 0)
	}
	for _, cl := range streamOps(fn) {
		f := ""
		if !cl.Call.IsInvoke() {
			// nested decode: the receiver argument is (an element of) a field
			if len(cl.Call.Args) > 0 {
				f = rootFieldOf(cl.Call.Args[0], recv, 0)
			}
		}
		if f == "" {
			// a store into a field of the receiver whose value derives from this call
			for _, b := range fn.Blocks {
				for _, in := range b.Instrs {
					st, ok := in.(*ssa.Store)
					if !ok || !derives(st.Val, cl) {
						continue
					}
					if g := rootFieldOf(st.Addr, recv, 0); g != "" && f == "" {
						f = g
					}
				}
			}
		}
		if f != "" {
			out = append(out, fieldOp{f, cl})
		}
	}
	return out
}

func instrBefore(a, b ssa.Instruction) bool {
	if a.Block() == b.Block() {
		for _, in := range a.Block().Instrs {
			if in == a {
				return true
			}
			if in == b {
				return false
			}
		}
	}
	return a.Block().Dominates(b.Block()) && a.Block() != b.Block()
}

func c09Order(c *Ctx) {
	p := c.P
	rule := "C09.order"
	c.Doc(rule, "field alignment: for any two receiver fields whose stream operations are ordered (by dominance) in both the encoder and the decoder of a type, the order is the same — catches swaps of adjacent fields of the same wire type, which the token language cannot see")
	c.Floor(rule, 100)
	for _, pr := range p.encDecPairs() {
		if _, ex := mirrorExclusions[pr.name]; ex {
			continue
		}
		eo, do := encoderFieldOps(pr.enc), decoderFieldOps(pr.dec)
		first := func(ops []fieldOp) map[string]ssa.Instruction {
			m := map[string]ssa.Instruction{}
			for _, o := range ops {
				if _, ok := m[o.field]; !ok {
					m[o.field] = o.in
				}
			}
			return m
		}
		ef, df := first(eo), first(do)
		var fields []string
		for f := range ef {
			if _, ok := df[f]; ok {
				fields = append(fields, f)
			}
		}
		sort.Strings(fields)
		bad := ""
		npairs := 0
		for i := 0; i < len(fields); i++ {
			for j := i + 1; j < len(fields); j++ {
				a, b := fields[i], fields[j]
				eab, eba := instrBefore(ef[a], ef[b]), instrBefore(ef[b], ef[a])
				dab, dba := instrBefore(df[a], df[b]), instrBefore(df[b], df[a])
				if (eab || eba) && (dab || dba) {
					npairs++
					if eab != dab && bad == "" {
						x, y := a, b
						if eba {
							x, y = b, a
						}
						bad = fmt.Sprintf("the encoder writes %s before %s but the decoder reads %s before %s", x, y, y, x)
					}
				}
			}
		}
		if len(fields) < 2 {
			continue
		}
		c.Check(bad == "", rule, pr.enc, "order:"+pr.name, nil, fmt.Sprintf("%d fields, %d ordered pairs agree between encode and decode", len(fields), npairs), pr.name+": "+bad+": a round trip swaps the two values", nil)
	}
}

// c09Null: nil and empty are different values on the wire.
func c09Null(c *Ctx) {
	p := c.P
	rule := "C09.null"
	c.Doc(rule, "nil vs empty: an encoder method writes the null marker (length −1, or uvarint 0 for nullable compact forms) only under `arg == nil`; a realDecoder getter returns a nil value with a nil error only under the null marker (length == −1, compact n == 0)")
	c.Floor(rule, 8)
	for _, recv := range []string{"prepEncoder", "realEncoder"} {
		for _, fn := range p.Fns {
			if fn.Parent() != nil || fn.Signature.Recv() == nil || !isPtrToNamed(fn.Signature.Recv().Type(), recv) || !strings.HasPrefix(fn.Name(), "put") || len(fn.Params) != 2 {
				continue
			}
			arg := fn.Params[1]
			switch arg.Type().Underlying().(type) {
			case *types.Slice, *types.Pointer:
			default:
				continue
			}
			reg := WholeFn(fn)
			nullable := strings.Contains(fn.Name(), "Nullable")
			marker := func(it Item) bool {
				cc, ok := callCommon(it)
				if !ok || cc.StaticCallee() == nil || len(cc.Args) != 2 {
					return false
				}
				n := cc.StaticCallee().Name()
				k, isK := dConstInt(dStrip(cc.Args[1]))
				if !isK {
					return false
				}
				switch n {
				case "putInt16", "putInt32", "putVarint":
					return k == -1
				case "putUVarint", "putInt8":
					return nullable && k == 0
				}
				return false
			}
			// prepEncoder.putNullableString adds the bare length without a call: `length += 2; return nil` under in == nil
			for _, s := range reg.Find(marker) {
				g, path := reg.Guarded(s, Cmp{token.EQL, Same(arg), IsNil()})
				c.Check(g, rule, fn, "null-marker-only-for-nil", s.Instr(), "null marker written only under "+arg.Name()+" == nil",
					recv+"."+fn.Name()+" writes the null marker without the test "+arg.Name()+" == nil (e.g. for every empty value): an empty key/value/string is decoded as null — a different value (for record values: a tombstone)", path)
			}
		}
	}
	for _, name := range []string{"realDecoder.getBytes", "realDecoder.getVarintBytes", "realDecoder.getNullableString", "realDecoder.getCompactNullableString"} {
		fn := c.NeedFn(rule, name)
		if fn == nil {
			continue
		}
		reg := WholeFn(fn)
		n := 0
		for _, r := range reg.Find(ReturnNilErr()) {
			rv := RetVals(r.In.(*ssa.Return))
			if !IsNil()(rv[0]) {
				continue
			}
			n++
			isLen := func(v ssa.Value) bool {
				switch x := dStrip(v).(type) {
				case *ssa.Extract:
					_, ok := x.Tuple.(*ssa.Call)
					return ok && x.Index == 0
				case *ssa.Convert:
					return true
				case *ssa.BinOp:
					return true
				}
				return false
			}
			// the null marker of this form: -1 for int16/int32/varint lengths, 0 for the compact (uvarint, length+1) forms
			var marker Pred = Cmp{token.EQL, isLen, ConstInt(-1)}
			if strings.Contains(name, "Compact") {
				marker = AnyOf{Cmp{token.LSS, isLen, ConstInt(0)}, Cmp{token.EQL, isLen, ConstInt(0)}}
			}
			g1, path := reg.Guarded(r, marker)
			// `return nil, err` with err == nil known only after the length test: accept when guarded by the null test
			c.Check(g1, rule, fn, "nil-only-for-null-marker", r.Instr(), "a nil value is returned (without error) only behind the test for the null marker", name+" can return a nil value for a non-null length", path)
		}
		_ = n
	}
}

// c09EncErr: an encoding step that reports an error (a string or array too long for its length prefix, a
// nested encode that failed) must not be answered with success: the request would go out truncated.
func c09EncErr(c *Ctx) {
	p := c.P
	rule := "C09.enc-err"
	c.Doc(rule, "every call of a packetEncoder/pushEncoder method or nested encode that returns an error, anywhere in the package outside the mock broker: the error is looked at, and after it was found non-nil no `return nil` is reachable")
	c.Floor(rule, 300)
	for _, fn := range p.Fns {
		if fn.Pkg != p.Sarama || p.inFile(fn, "mockbroker.go") || p.inFile(fn, "mockresponses.go") {
			continue
		}
		fi := Info(fn)
		reg := WholeFn(fn)
		fi.Each(func(it Item) {
			cl, ok := it.In.(*ssa.Call)
			if !ok {
				return
			}
			enc := false
			if cl.Call.IsInvoke() {
				nn, _ := NamedOf(cl.Call.Value.Type())
				enc = nn == "packetEncoder" || nn == "pushEncoder" || nn == "dynamicPushEncoder" || nn == "encoder" || nn == "encoderWithHeader" || (nn == "protocolBody" && cl.Call.Method.Name() == "encode")
			} else if cal := cl.Call.StaticCallee(); cal != nil && cal.Name() == "encode" && cal.Pkg == p.Sarama {
				enc = true
			}
			if !enc {
				return
			}
			res := cl.Call.Signature().Results()
			if res.Len() == 0 || res.At(res.Len()-1).Type().String() != "error" {
				return
			}
			var errV ssa.Value = cl
			if res.Len() > 1 {
				errV = nil
				for _, r := range *cl.Referrers() {
					if ex, ok := r.(*ssa.Extract); ok && ex.Index == res.Len()-1 {
						errV = ex
					}
				}
			}
			if errV == nil || len(*errV.Referrers()) == 0 {
				c.Fail(rule, fn, "ignored:"+p.CalleeName(&cl.Call), cl, "the error of an encoding step is never looked at: an over-long string or array is cut off silently and the peer reads garbage", nil)
				return
			}
			bad := false
			var path []*ssa.BasicBlock
			if fn.Signature.Results().Len() > 0 {
				for _, e := range reg.EstablishingEdges(Cmp{token.NEQ, Same(errV), IsNil()}) {
					if r, pth := reg.From(Pt{e.To, 0}).Reach(ReturnNilErr(), nil); !r.IsZero() {
						bad, path = true, pth
					}
				}
			}
			c.Check(!bad, rule, fn, "err:"+p.CalleeName(&cl.Call), cl, "a failure of this encoding step is never answered with success", "the function returns nil although this encoding step failed: a request or record that could not be encoded completely is sent as if it were", path)
		})
	}
}

// c09EarlyAccept: `if n == 0 { return nil }` right after an array length is a common shortcut in decoders.  It is
// only right when nothing follows the array on the wire: the encoder writes the fields after an empty array all
// the same, so a decoder that stops there leaves them unread and the frame is refused ("invalid length").  The
// automata of C09.mirror treat the test on n as a free choice and cannot see this.
func c09EarlyAccept(c *Ctx) {
	p := c.P
	rule := "C09.early-accept"
	c.Doc(rule, "every decode method: where a successful return is taken because a decoded array length is 0, no read from the decoder is reachable after the loop over that array on the other branch (version-gated trailing fields included)")
	c.Floor(rule, 8)
	isRead := func(it Item) bool {
		cl, ok := it.In.(*ssa.Call)
		if !ok {
			return false
		}
		if cl.Call.IsInvoke() {
			n, _ := NamedOf(cl.Call.Value.Type())
			return n == "packetDecoder"
		}
		cal := cl.Call.StaticCallee()
		return cal != nil && cal.Name() == "decode" && cal.Pkg == p.Sarama
	}
	for _, fn := range p.Fns {
		if fn.Pkg != p.Sarama || fn.Name() != "decode" || fn.Signature.Recv() == nil {
			continue
		}
		fi := Info(fn)
		reg := WholeFn(fn)
		for _, b := range fn.Blocks {
			iff, ok := lastInstr(b).(*ssa.If)
			if !ok {
				continue
			}
			bo, ok := iff.Cond.(*ssa.BinOp)
			if !ok || (bo.Op != token.EQL && bo.Op != token.LEQ && bo.Op != token.LSS) || !ConstInt(0)(bo.Y) && !(bo.Op == token.LSS && ConstInt(1)(bo.Y)) {
				continue
			}
			n := bo.X
			if !p.ResultOf(0, "packetDecoder.getArrayLength", "packetDecoder.getCompactArrayLength")(n) {
				continue
			}
			// the true branch returns nil without reading
			tb := b.Succs[0]
			r, isRet := lastInstr(tb).(*ssa.Return)
			if !isRet || len(tb.Instrs) > 3 {
				continue
			}
			rv := RetVals(r)
			if cst, ok := rv[len(rv)-1].(*ssa.Const); !ok || cst.Value != nil {
				continue
			}
			// loops bounded by n on the other branch, and what is read after them
			var after []Item
			for _, l := range fi.Loops {
				bounded := false
				for _, in := range l.Head.Instrs {
					if cmp, ok := in.(*ssa.BinOp); ok && cmp.Op == token.LSS && cmp.Y == n {
						bounded = true
					}
				}
				if !bounded {
					continue
				}
				for _, s := range l.Head.Succs {
					if !l.Blocks[s] {
						after = append(after, reg.From(Pt{s, 0}).Find(isRead)...)
					}
				}
			}
			var at ssa.Instruction = iff
			if len(after) > 0 {
				at = after[0].Instr()
			}
			c.Check(len(after) == 0, rule, fn, "empty-array-shortcut", at, "the decoder stops at an empty array only where nothing follows the array",
				"the decoder returns successfully as soon as an array length is 0, but further fields follow the array (on the other branch they are read after the loop): a value with an empty array is encoded with those fields and cannot be decoded again — the frame is refused with \"invalid length\"", nil)
		}
	}
}

// C09.fresh-element: every decoded element is its own object.
func c09FreshElement(c *Ctx) { freshElementRule(c, 60, nil) }

// c04FreshElement / c03FreshElement: the same rule restricted to the files the property is anchored in.
func c04FreshElement(c *Ctx) {
	freshElementRule(c, 1, []string{"produce_response.go", "produce_request.go", "produce_set.go", "async_producer.go"})
}

func c03FreshElement(c *Ctx) {
	freshElementRule(c, 5, []string{"fetch_response.go", "fetch_request.go", "consumer.go", "records.go", "record_batch.go", "record.go", "message_set.go", "message.go"})
}

func freshElementRule(c *Ctx, floor int, files []string) {
	p := c.P
	rule := "C09.fresh-element"
	c.Doc(rule, "in every loop of the package that stores a pointer to a struct variable into a map entry or slice element, the struct is allocated inside that loop (one object per slot), or the loop never writes it: a variable hoisted out of the loop — or a `for _, x := range` variable, which is one variable per loop in this module's Go version — whose address is stored on every iteration makes all slots alias the last element decoded (decode(encode(v)) ≠ v; a produce response reports another partition's offset; only the last aborted transaction survives)")
	n := 0
	for _, fn := range p.Fns {
		if rootOf(fn).Pkg != p.Sarama || fn.Blocks == nil {
			continue
		}
		if files != nil {
			in := false
			for _, f := range files {
				if p.inFile(fn, f) {
					in = true
				}
			}
			if !in {
				continue
			}
		}
		for _, f := range sharedElementFindings(fn) {
			n++
			c.Check(!f.shared, rule, fn, "slot:"+describeShort(f.obj), f.at, "a fresh object per slot", "the address of one variable ("+f.obj.Comment+", allocated outside the loop and rewritten in it) is stored into "+f.what+" on every iteration: all entries end up pointing at the same object holding the last element's values", nil)
		}
	}
	c.Floor(rule, floor)
}

func describeShort(a *ssa.Alloc) string {
	if a.Comment != "" {
		return a.Comment
	}
	return "object"
}

// C09.pool-once: an object taken from a pool goes back at most once.
func c09PoolOnce(c *Ctx) {
	p := c.P
	rule := "C09.pool-once"
	c.Doc(rule, "every object handed back to a pool (releaseLengthField, releaseCrc32Field, (*sync.Pool).Put) is handed back at most once on every path of the function, deferred releases included: an object put back twice is handed out to two users at once — for the length and CRC fields of the decoders that means two nested (or concurrent) decodes overwrite each other's start offset and a valid message is rejected or a corrupt one accepted")
	c.Floor(rule, 5)
	isRelease := func(cc *ssa.CallCommon) (ssa.Value, bool) {
		switch p.CalleeName(cc) {
		case "releaseLengthField", "releaseCrc32Field":
			if len(cc.Args) == 1 {
				return canon(cc.Args[0]), true
			}
		case "(*sync.Pool).Put":
			if len(cc.Args) == 2 {
				return canon(cc.Args[1]), true
			}
		}
		return nil, false
	}
	n := 0
	for _, fn := range p.Fns {
		if rootOf(fn).Pkg != p.Sarama || fn.Blocks == nil {
			continue
		}
		objs := map[ssa.Value]bool{}
		var order []ssa.Value
		for _, b := range fn.Blocks {
			for _, in := range b.Instrs {
				var cc *ssa.CallCommon
				switch x := in.(type) {
				case *ssa.Call:
					cc = &x.Call
				case *ssa.Defer:
					cc = &x.Call
				}
				if cc == nil {
					continue
				}
				if v, ok := isRelease(cc); ok && !objs[v] {
					objs[v] = true
					order = append(order, v)
				}
			}
		}
		namesSeen := map[string]int{}
		for _, v := range order {
			n++
			name := p.poolObjName(v)
			namesSeen[name]++
			if namesSeen[name] > 1 {
				name = fmt.Sprintf("%s#%d", name, namesSeen[name])
			}
			rel := func(it Item) bool {
				var cc *ssa.CallCommon
				switch x := it.In.(type) {
				case *ssa.Call:
					cc = &x.Call
				case *ssa.Defer:
					cc = &x.Call
				}
				if cc == nil {
					return false
				}
				w, ok := isRelease(cc)
				return ok && w == v
			}
			cr := WholeFn(fn).Count(rel)
			c.Check(!cr.HasTwo(), rule, fn, "released-at-most-once:"+name, cr.Second.Instr(), "handed back to its pool at most once per path", "an object can be handed back to its pool twice on one path (a release on a failure path in addition to the deferred one): the pool then gives the same object to two users, whose pushes and pops overwrite each other", nil)
		}
	}
	if n < 5 {
		c.Unresolved(rule, fmt.Sprintf("pool releases (found %d)", n))
	}
}

func describeShortV(v ssa.Value) string { return v.Type().String() }

// poolObjName: a stable name for an object taken from a pool — the acquiring call, or the pool it was taken from.
func (p *Program) poolObjName(v ssa.Value) string {
	switch x := v.(type) {
	case *ssa.Call:
		n := p.CalleeName(&x.Call)
		if n == "(*sync.Pool).Get" && len(x.Call.Args) == 1 {
			if g, ok := x.Call.Args[0].(*ssa.Global); ok {
				return g.Name() + ".Get"
			}
		}
		return n
	case *ssa.TypeAssert:
		return p.poolObjName(x.X)
	case *ssa.Extract:
		return p.poolObjName(x.Tuple)
	case *ssa.Phi:
		for _, e := range x.Edges {
			if n := p.poolObjName(e); n != "" {
				return n
			}
		}
	}
	return v.Type().String()
}
