package main

import (
	"go/token"
	"go/types"

	"golang.org/x/tools/go/ssa"
)

// Rules for steps that look redundant and are not (round-15/16 seeds: two siblings merged and the small difference
// lost; a check, a reset, a close or a case removed with a plausible argument).

// C01.broker-shutdown / flush-alongside-responses: a broker worker hands its last buffers to the bridge only in a select
// that also takes responses.
func c01ShutdownSelects(c *Ctx) {
	rule := "C01.broker-shutdown"
	fn := c.NeedFn(rule, "brokerProducer.shutdown")
	if fn == nil {
		return
	}
	out := FieldLoad("brokerProducer.output")
	resp := FieldLoad("brokerProducer.responses")
	n := 0
	for _, b := range fn.Blocks {
		for _, in := range b.Instrs {
			switch x := in.(type) {
			case *ssa.Send:
				if out(x.Chan) {
					n++
					c.Fail(rule, fn, "flush-alongside-responses", in, "shutdown sends the buffer to the bridge with a plain send: the bridge may be blocked handing back the response of the request in flight (the responses channel is unbuffered) while the worker is blocked here — neither moves again, the messages of both sets get no outcome and Close hangs", nil)
				}
			case *ssa.Select:
				sends, takes := false, false
				for _, st := range x.States {
					if st.Dir == types.SendOnly && out(st.Chan) {
						sends = true
					}
					if st.Dir == types.RecvOnly && resp(st.Chan) {
						takes = true
					}
				}
				if sends {
					n++
					c.Check(takes && x.Blocking, rule, fn, "flush-alongside-responses", in, "the send on bp.output is one case of a blocking select whose other case takes a response", "shutdown hands the buffer to the bridge in a select that does not also take responses: with a request in flight the bridge is blocked on the unbuffered responses channel and the two goroutines deadlock", nil)
				}
			}
		}
	}
	if n == 0 {
		c.Unresolved(rule, "the send on bp.output in brokerProducer.shutdown")
	}
}

// C16.check-before-add / room-rechecked: after a response waitForSpace says "there is room" only if there is.
func c16RoomRechecked(c *Ctx) {
	p := c.P
	rule := "C16.check-before-add"
	fn := c.NeedFn(rule, "brokerProducer.waitForSpace")
	if fn == nil {
		return
	}
	reg := WholeFn(fn)
	handled := reg.Find(p.CallTo("brokerProducer.handleResponse"))
	if len(handled) == 0 {
		c.Unresolved(rule, "handleResponse in brokerProducer.waitForSpace")
		return
	}
	over := p.CallTo("produceSet.wouldOverflow")
	roll := p.CallTo("brokerProducer.rollOver")
	for _, h := range handled {
		// from the handled response to a `return nil` without having asked wouldOverflow again (or rolled over)
		it, path := reg.From(h.After()).Reach(ReturnNilErr(), Or(over, roll))
		c.Check(it.IsZero(), rule, fn, "room-rechecked-after-response", h.Instr(), "after a response, nil is returned only behind a fresh wouldOverflow test (or a roll-over)", "waitForSpace can answer 'there is room' after a response without asking wouldOverflow again: an ordinary success leaves the buffer as full as it was — the message is added on top, a request carries Flush.MaxMessages+1 messages, a batch exceeds MaxMessageBytes", path)
		// and the test's outcome matters: from the edge wouldOverflow == true no return nil without roll-over
		for _, o := range reg.From(h.After()).Find(over) {
			ov, ok := o.In.(ssa.Value)
			if !ok {
				continue
			}
			for _, e := range reg.EstablishingEdges(Truth{Same(ov), true}) {
				it2, pth := reg.From(Pt{e.To, 0}).Reach(ReturnNilErr(), Or(roll, IsItem(h)))
				c.Check(it2.IsZero(), rule, fn, "room-rechecked-after-response:outcome", o.Instr(), "with wouldOverflow true, nil is returned only after a roll-over", "waitForSpace can return nil although wouldOverflow just said the message does not fit", pth)
			}
		}
	}
}

// C03.redispatch / abort-abandons-first: an aborting broker worker takes itself out of the consumer's table.
func c03AbortAbandons(c *Ctx) {
	p := c.P
	rule := "C03.redispatch"
	fn := c.NeedFn(rule, "brokerConsumer.abort")
	if fn == nil {
		return
	}
	reg := WholeFn(fn)
	abandon := p.CallTo("consumer.abandonBrokerConsumer")
	served := Or(SendOn(FieldLoad("partitionConsumer.trigger"), nil), RecvFrom(FieldLoad("brokerConsumer.newSubscriptions")))
	if len(reg.Find(abandon)) == 0 {
		c.Fail(rule, fn, "abort-abandons-first", nil, "brokerConsumer.abort never takes the worker out of consumer.brokerConsumers (abandonBrokerConsumer): the entry goes only when the last partition has un-referenced the worker — a partition that is (re)dispatched to the same broker before that is handed the aborted worker, gets the old error, waits, un-references (never the last one) and is handed it again: no fetch is ever sent again although the broker is reachable", nil)
		return
	}
	it, path := reg.MustPrecede(abandon, served)
	c.Check(it.IsZero(), rule, fn, "abort-abandons-first", it.Instr(), "abandonBrokerConsumer precedes the hand-back of the subscriptions", "brokerConsumer.abort can hand subscriptions back before the worker is out of consumer.brokerConsumers: a partition redispatched to the same broker is handed the aborted worker", path)
}

// C15.progress / only-the-head-seed-is-popped.
func c15PopOnlyHeadSeed(c *Ctx) {
	rule := "C15.progress"
	fn := c.NeedFn(rule, "client.deregisterBroker")
	if fn == nil {
		return
	}
	reg := WholeFn(fn)
	pops := reg.Find(StoreTo(nil, "client.seedBrokers"))
	if len(pops) == 0 {
		c.Unresolved(rule, "the pop of client.seedBrokers in deregisterBroker")
		return
	}
	head := func(v ssa.Value) bool {
		u, ok := strip(v).(*ssa.UnOp)
		if !ok || u.Op != token.MUL {
			return false
		}
		ia, ok := u.X.(*ssa.IndexAddr)
		return ok && ConstInt(0)(ia.Index) && FieldLoad("client.seedBrokers")(ia.X)
	}
	for _, s := range pops {
		g, path := reg.Guarded(s, Cmp{token.EQL, ParamNamed("broker"), head})
		c.Check(g, rule, fn, "only-the-head-seed-is-popped", s.Instr(), "the seed list is popped only under broker == seedBrokers[0]", "deregisterBroker pops the head of the seed list without having tested that the failed broker is that head: two refreshes that failed on the same seed pop two seeds — the second one a healthy seed that was never tried; the candidate list runs dry and the refresh fails although a seed was reachable", path)
	}
}

// C01.sync / close-leaves-the-results-to-the-forwarders.
func c01SyncCloseDoesNotDrain(c *Ctx) {
	p := c.P
	rule := "C01.sync"
	fn := c.NeedFn(rule, "syncProducer.Close")
	if fn == nil {
		return
	}
	fi := Info(fn)
	bad := fi.Find(func(it Item) bool {
		cc, ok := callCommon(it)
		if !ok {
			return false
		}
		switch p.CalleeName(cc) {
		case "AsyncProducer.Close", "asyncProducer.Close", "AsyncProducer.Successes", "AsyncProducer.Errors":
			return true
		}
		return false
	})
	var at ssa.Instruction
	if len(bad) > 0 {
		at = bad[0].Instr()
	}
	starts := len(fi.Find(p.CallTo("AsyncProducer.AsyncClose", "asyncProducer.AsyncClose"))) > 0
	waits := len(fi.Find(p.WG("Wait", "syncProducer.wg"))) > 0
	c.Check(len(bad) == 0 && starts && waits, rule, fn, "close-leaves-results-to-forwarders", at, "Close starts the asynchronous shutdown and waits for its two forwarders; it does not read the result channels itself", "syncProducer.Close reads the async producer's result channels itself (AsyncProducer.Close drains Successes and Errors) or no longer does AsyncClose + wg.Wait: the forwarders handleSuccesses/handleErrors are the only code that routes an outcome to the SendMessage call waiting for it — an event taken by a competing reader never reaches its caller, SendMessage blocks for ever", nil)
}

// C04.record / inner-legacy-message-uncompressed.
func c04InnerMessagePlain(c *Ctx) {
	p := c.P
	rule := "C04.record"
	fn := c.NeedFn(rule, "produceSet.add")
	if fn == nil {
		return
	}
	n := 0
	Info(fn).Each(func(it Item) {
		st, ok := it.In.(*ssa.Store)
		if !ok {
			return
		}
		ch := fieldChain(st.Addr)
		if len(ch) == 0 || ch[len(ch)-1].owner != "Message" {
			return
		}
		f := ch[len(ch)-1].name
		if f != "Codec" && f != "CompressionLevel" {
			return
		}
		n++
		if f == "Codec" {
			c.Check(ConstInt(0)(st.Val), rule, fn, "inner-legacy-message-uncompressed", st, "a message added to a legacy message set has Codec CompressionNone", "produceSet.add gives a message of a v0/v1 message set a compression codec: only the wrapper message built in buildRequest is compressed — a broker (and any other client) decodes one level and finds inner messages whose values are compressed bytes with codec bits set: rejected as corrupt, or stored as something other than what was submitted", nil)
		}
	})
	_ = p
	c.Check(true, rule, fn, "inner-legacy-message-uncompressed:sites", nil, "stores to Message.Codec in produceSet.add examined", "", nil)
	_ = n
}

// C05.epoch / clear-resets-all: what is handed back to the application carries no producer-internal state.
func c05ClearResetsAll(c *Ctx) {
	p := c.P
	rule := "C05.epoch"
	fn := c.NeedFn(rule, "ProducerMessage.clear")
	if fn == nil {
		return
	}
	named := p.Sarama.Pkg.Scope().Lookup("ProducerMessage")
	if named == nil {
		c.Unresolved(rule, "type ProducerMessage")
		return
	}
	st, ok := named.Type().Underlying().(*types.Struct)
	if !ok {
		return
	}
	reg := WholeFn(fn)
	for i := 0; i < st.NumFields(); i++ {
		f := st.Field(i)
		if f.Exported() || f.Name() == "expectation" {
			continue
		}
		name := f.Name()
		reset := func(it Item) bool {
			s, ok := it.In.(*ssa.Store)
			if !ok {
				return false
			}
			fa, ok := s.Addr.(*ssa.FieldAddr)
			if !ok {
				return false
			}
			_, fname, _, ok := ownerField(fa)
			if !ok || fname != name {
				return false
			}
			if k, isC := s.Val.(*ssa.Const); isC {
				return k.Value == nil || ConstInt(0)(s.Val) || ConstBool(false)(s.Val)
			}
			return false
		}
		esc, path := reg.Escape(reset)
		c.Check(!esc, rule, fn, "clear-resets:"+name, nil, "clear() zeroes ProducerMessage."+name, "ProducerMessage.clear leaves the internal field "+name+" as it was: the struct goes back to the application on Successes()/Errors() and may be submitted again — a stale hasSequence makes a purely local refusal of the re-submitted message (too large, no leader) bump the producer epoch and reset every partition's sequence numbers while batches are in flight (a lost-acknowledgement resend is then appended twice, the next fresh batch is taken for a duplicate); stale retries/flags make the dispatcher take it for an internal retry", path)
	}
}

// C06.recover / broker-closed-on-commit-error.
func c06CloseOnCommitError(c *Ctx) {
	p := c.P
	rule := "C06.recover"
	fn := c.NeedFn(rule, "offsetManager.flushToBroker")
	if fn == nil {
		return
	}
	reg := WholeFn(fn)
	commits := reg.Find(p.CallTo("Broker.CommitOffset"))
	if len(commits) == 0 {
		return // reported elsewhere
	}
	closeIt := p.CallTo("Broker.Close")
	for _, s := range commits {
		cl, ok := s.In.(*ssa.Call)
		if !ok {
			continue
		}
		errV := p.ResultOf(1, "Broker.CommitOffset")
		_ = cl
		for _, e := range reg.EstablishingEdges(Cmp{token.NEQ, errV, IsNil()}) {
			esc, path := reg.From(Pt{e.To, 0}).Escape(closeIt)
			c.Check(!esc, rule, fn, "broker-closed-on-commit-error", s.Instr(), "after a failed CommitOffset the broker is closed (as well as released)", "after a failed CommitOffset the broker object is released but not closed: when the coordinator comes back under the same id and address the client keeps that very object, whose connection is dead and whose receive loop has latched its error — Open is a no-op on it, so every later commit (the final ones of Close included) fails locally and the marks are never stored", path)
		}
	}
}

// C07.order / managers-before-setup: every claim's offset manager exists before the handler sees the session.
func c07ManagersBeforeSetup(c *Ctx) {
	p := c.P
	rule := "C07.order"
	fn := c.NeedFn(rule, "newConsumerGroupSession")
	if fn == nil {
		return
	}
	reg := WholeFn(fn)
	setup := p.CallTo("ConsumerGroupHandler.Setup")
	manage := p.CallTo("offsetManager.ManagePartition", "OffsetManager.ManagePartition")
	if len(reg.Find(setup)) == 0 || len(reg.Find(manage)) == 0 {
		c.Unresolved(rule, "Setup / ManagePartition in newConsumerGroupSession")
		return
	}
	for _, s := range reg.Find(setup) {
		it, path := reg.From(s.After()).Reach(manage, nil)
		c.Check(it.IsZero(), rule, fn, "managers-before-setup", s.Instr(), "no offset manager is created after handler.Setup", "an offset manager can still be created (and fail) after handler.Setup has run: the failure path releases the session without Cleanup — the handler sees Setup (and possibly ConsumeClaim for earlier partitions) and never Cleanup; marks made in Setup for partitions not yet managed are dropped", path)
	}
}

// C08.complete / topics-of-every-member: the leader plans for the union of the members' subscriptions.
func c08TopicsOfEveryMember(c *Ctx) {
	p := c.P
	rule := "C08.eligible"
	fn := c.NeedFn(rule, "consumerGroup.balance")
	if fn == nil {
		return
	}
	fi := Info(fn)
	plans := fi.Find(p.CallTo("BalanceStrategy.Plan"))
	if len(plans) == 0 {
		c.Unresolved(rule, "strategy.Plan in consumerGroup.balance")
		return
	}
	for _, s := range plans {
		a := callArgs(s)
		if len(a) < 3 {
			// invoke: args exclude the receiver
			a = append([]ssa.Value{nil}, s.In.(ssa.CallInstruction).Common().Args...)
		}
		topics := a[len(a)-1]
		// some key put into that map comes from a member's Topics
		ok := false
		for _, u := range fi.Find(MapUpdateOn(func(v ssa.Value) bool { return sameValue(v, topics) })) {
			mu := u.In.(*ssa.MapUpdate)
			k := strip(mu.Key)
			// the range variable over meta.Topics: an element load from a slice read from the field Topics of ConsumerGroupMemberMetadata
			for d := 0; d < 4 && k != nil; d++ {
				switch x := k.(type) {
				case *ssa.UnOp:
					if ia, isIA := x.X.(*ssa.IndexAddr); isIA {
						if FieldLoad("ConsumerGroupMemberMetadata.Topics")(ia.X) || PathOf(ia.X) == "ConsumerGroupMemberMetadata.Topics" {
							ok = true
						}
						k = nil
						continue
					}
					k = x.X
				case *ssa.Extract:
					k = x.Tuple
				default:
					k = nil
				}
			}
		}
		c.Check(ok, rule, fn, "topics-of-every-member", s.Instr(), "the topic set handed to Plan is filled from every member's Topics", "the topic → partitions map handed to strategy.Plan is not built from the members' own subscriptions (from the leader's topics, say): a topic that some member subscribes to and the leader does not is missing, and every strategy silently assigns none of its partitions", nil)
	}
}

// C09.mixed-formats / message-set-stops-at-v2.
func c09MessageSetStopsAtV2(c *Ctx) {
	p := c.P
	rule := "C09.null"
	_ = rule
	r := "C09.order"
	fn := c.NeedFn(r, "MessageSet.decode")
	if fn == nil {
		return
	}
	reg := WholeFn(fn)
	blocks := reg.Find(p.CallTo("MessageBlock.decode"))
	if len(blocks) == 0 {
		c.Unresolved(r, "MessageBlock.decode in MessageSet.decode")
		return
	}
	magic := p.ResultOf(0, "magicValue")
	for _, s := range blocks {
		ok := false
		// … in the same iteration: a magic byte looked at before the loop says nothing about the next block
		reg := reg
		if l := Info(fn).InnermostLoop(itemBlock(s)); l != nil {
			reg = Info(fn).Iteration(l)
		}
		for _, pr := range []Pred{Cmp{token.LEQ, magic, ConstInt(1)}, Cmp{token.LSS, magic, ConstInt(2)}} {
			if g, _ := reg.Guarded(s, pr); g {
				ok = true
			}
		}
		c.Check(ok, r, fn, "message-set-stops-at-v2", s.Instr(), "a block is decoded as a v0/v1 message only where its magic byte was found ≤ 1", "MessageSet.decode decodes the next block as a legacy message without having looked at its magic byte: Records.decode picks the format from the first block only and FetchResponseBlock.decode relies on the message-set decoder stopping, without error, at the first v2 batch — a records section that holds a legacy set followed by a record batch (what a broker sends mid format upgrade, and what the encoder writes for RecordsSet{legacy, default}) fails with 'unknown magic byte'", nil)
	}
}

// C09.sizes / flat-array-uncapped: what the encoder can write the decoder can read.
func c09FlatArrayUncapped(c *Ctx) {
	p := c.P
	rule := "C09.order"
	for _, name := range []string{"realDecoder.getInt32Array", "realDecoder.getInt64Array", "realDecoder.getStringArray"} {
		fn := c.NeedFn(rule, name)
		if fn == nil {
			continue
		}
		bad := Info(fn).Find(p.CallTo("realDecoder.getArrayLength"))
		var at ssa.Instruction
		if len(bad) > 0 {
			at = bad[0].Instr()
		}
		c.Check(len(bad) == 0, rule, fn, "flat-array-uncapped", at, "the count of a flat array is not read through getArrayLength", name+" reads its count through getArrayLength, which refuses more than 2·MaxUint16 entries (a sanity cap for arrays of structures): putInt32Array/putInt64Array/putStringArray write any count — a list of more than 131070 topics, partitions or replicas encodes and then fails to decode", nil)
	}
}

// C02.retry-state-kept / syn-only-from-the-partition-worker: who may reopen a partition on a broker worker.
func c02MarkerCreators(c *Ctx) {
	p := c.P
	rule := "C02.retry-state-kept"
	allowed := map[string]map[string]bool{
		"syn":      {"partitionProducer.dispatch": true, "partitionProducer.updateLeader": true},
		"fin":      {"partitionProducer.newHighWatermark": true},
		"shutdown": {"asyncProducer.shutdown": true},
	}
	seen := map[string]int{}
	for _, m := range p.markerAllocs() {
		fl := flagName(p, m.flag)
		name := p.Name(rootFn(m.fn))
		seen[fl]++
		tab, known := allowed[fl]
		c.Check(known && tab[name], rule, m.fn, "marker-creator:"+fl+":"+name, m.alloc, "the "+fl+" marker is created by its tabled owner", "a "+fl+" marker is created in "+name+", which is not its owner (syn: the partition worker when it has (re)selected a leader; fin: the partition worker when it raises its retry level; shutdown: asyncProducer.shutdown): a syn reopens the partition on the broker worker — sent from the batch-resend path it clears the retrying mark that handleSuccess set a moment before, the messages queued behind the failed batch are accepted with sequence numbers ahead of the retried ones (out-of-order sequence, lost messages) and the fin that follows is written to the log as an empty record", nil)
	}
	for _, fl := range []string{"syn", "fin", "shutdown"} {
		if seen[fl] == 0 {
			c.Unresolved(rule, "creation of the "+fl+" marker")
		}
	}
}
