package main

import (
	"go/token"

	"golang.org/x/tools/go/ssa"
)

// Rules for conventions that two sites share (round-17 seeds: two edits, each harmless alone, that break a property
// together).  Each rule pins down one half of a convention where it is established, so that the other half may go on
// relying on it.

// C03.redispatch / verdict-consumed-once: the broker worker consumes a partition's verdict when it reads it.
func c03VerdictConsumed(c *Ctx) {
	rule := "C03.redispatch"
	fn := c.NeedFn(rule, "brokerConsumer.handleResponses")
	if fn == nil {
		return
	}
	fi := Info(fn)
	if len(fi.Loops) == 0 {
		c.Unresolved(rule, "the loop over bc.subscriptions in handleResponses")
		return
	}
	var outer *Loop
	for _, l := range fi.Loops {
		if outer == nil || len(l.Blocks) > len(outer.Blocks) {
			outer = l
		}
	}
	reg := fi.Iteration(outer)
	reads := reg.Find(func(it Item) bool {
		u, ok := it.In.(*ssa.UnOp)
		return ok && u.Op == token.MUL && FieldAddrOf("partitionConsumer.responseResult")(u.X)
	})
	if len(reads) == 0 {
		c.Unresolved(rule, "the read of child.responseResult in handleResponses")
		return
	}
	reset := StoreTo(IsNil(), "partitionConsumer.responseResult")
	esc, path := reg.Escape(reset)
	// the other half of the convention: does the feeder give every response a verdict of its own before it
	// acknowledges?  Only where neither half holds can a verdict outlive its round.
	if esc {
		if fd := c.P.Fn("partitionConsumer.responseFeeder"); fd != nil && fd.Blocks != nil {
			ffi := Info(fd)
			if ls, _ := rangeChanLoops(ffi, FieldLoad("partitionConsumer.feeder")); len(ls) == 1 {
				freg := ffi.Iteration(ls[0])
				verdict := StoreTo(nil, "partitionConsumer.responseResult")
				done := c.P.WG("Done", "brokerConsumer.acks")
				if it, _ := freg.Reach(done, verdict); it.IsZero() {
					esc = false // every acknowledged response has stored a verdict: a reset elsewhere (dispatch) is enough
				}
			}
		}
	}
	c.Check(!esc, rule, fn, "verdict-consumed-once", reads[0].Instr(), "every round resets child.responseResult after reading it", "handleResponses can finish a round for a partition without resetting child.responseResult: a verdict stays behind for the next round — errTimedOut in particular, whose partition re-subscribes itself from the feeder without passing through dispatch(): at the next round, where the reader kept up (or the response was skipped), the stale verdict makes the worker drop the subscription again and this time nobody re-subscribes — fetching stops without an error, and a Close waits for a trigger nobody closes", path)
}

// C04.deltas / timestamps-floored: one rounding convention for timestamps on the produce path.
func c04TimestampsFloored(c *Ctx) {
	p := c.P
	rule := "C04.deltas"
	// two halves of one convention: the producer truncates before it stores, the encoder floors.  Either alone keeps
	// the wire value right; the log holds a wrong timestamp only where an untruncated value meets a rounding encoder.
	rounds := false
	var roundAt ssa.Instruction
	var encFn *ssa.Function
	untruncated := false
	if fn := c.NeedFn(rule, "Timestamp.encode"); fn != nil {
		bad := Info(fn).Find(p.CallTo("(time.Time).Round"))
		var at ssa.Instruction
		if len(bad) > 0 {
			at = bad[0].Instr()
		}
		rounds = len(bad) > 0
		roundAt, encFn = at, fn
		_ = func() {
			c.Check(len(bad) == 0, rule, fn, "timestamp-floored-on-the-wire", at, "Timestamp.encode converts by integer division (floor), not by rounding to nearest", "Timestamp.encode rounds to the nearest millisecond: a supplied timestamp with a sub-millisecond part ≥ 0.5 ms goes out one millisecond late wherever the caller did not truncate first (x.9995 s rolls into the next second) — the log does not hold the timestamp that was supplied", nil)
		}
	}
	if fn := c.NeedFn(rule, "produceSet.add"); fn != nil {
		trunc := p.ResultOf(0, "(time.Time).Truncate")
		n := 0
		_ = untruncated
		Info(fn).Each(func(it Item) {
			st, ok := it.In.(*ssa.Store)
			if !ok {
				return
			}
			ch := fieldChain(st.Addr)
			if len(ch) == 0 {
				return
			}
			last := ch[len(ch)-1]
			if !((last.owner == "Message" && last.name == "Timestamp") || (last.owner == "RecordBatch" && last.name == "FirstTimestamp")) {
				return
			}
			n++
			v := throughCell(st.Val)
			ok2 := trunc(v)
			if ph, isPhi := v.(*ssa.Phi); isPhi {
				ok2 = true
				for _, e := range ph.Edges {
					if !trunc(throughCell(e)) {
						ok2 = false
					}
				}
			}
			c.Check(ok2 || !rounds, rule, fn, "timestamp-truncated:"+last.owner+"."+last.name, st, "the timestamp stored is truncated to milliseconds, or the encoder floors", "produceSet.add stores a timestamp that was not truncated to milliseconds ("+describe(st.Val)+") and Timestamp.encode rounds to the nearest millisecond instead of flooring: a supplied timestamp with a sub-millisecond part ≥ 0.5 ms goes out one millisecond late (x.9995 s rolls into the next second) — the log does not hold the timestamp that was supplied", nil)
			if !ok2 {
				untruncated = true
			}
		})
		if n == 0 {
			c.Unresolved(rule, "stores of timestamps in produceSet.add")
		}
	}
	if encFn != nil {
		c.Check(!(rounds && untruncated), rule, encFn, "timestamp-floored-on-the-wire", roundAt, "Timestamp.encode floors, or everything it is handed on the produce path is already whole milliseconds", "Timestamp.encode rounds to the nearest millisecond and produceSet.add hands it an untruncated timestamp", nil)
	}
}

// C08.complete / fixed-members-restored-last: the members set aside come back after the revert decision.
func c08FixedRestoredLast(c *Ctx) {
	p := c.P
	rule := "C08.eligible"
	fn := c.NeedFn(rule, "stickyBalanceStrategy.balance")
	if fn == nil {
		return
	}
	reg := WholeFn(fn)
	scores := reg.Find(p.CallTo("getBalanceScore"))
	if len(scores) == 0 {
		c.Unresolved(rule, "getBalanceScore in balance")
		return
	}
	// the restoration: a store into currentAssignment of a value ranged out of fixedAssignments (a local map made here)
	var fixed ssa.Value
	for _, b := range fn.Blocks {
		for _, in := range b.Instrs {
			if mk, ok := in.(*ssa.MakeMap); ok {
				if ref := mk.Referrers(); ref != nil {
					for _, r := range *ref {
						if mu, isMU := r.(*ssa.MapUpdate); isMU && mu.Map == ssa.Value(mk) {
							if lk, isLk := strip(mu.Value).(*ssa.Lookup); isLk && ParamNamed("currentAssignment")(lk.X) {
								fixed = mk
							}
						}
					}
				}
			}
		}
	}
	if fixed == nil {
		c.Unresolved(rule, "the fixedAssignments map of balance")
		return
	}
	restore := func(it Item) bool {
		mu, ok := it.In.(*ssa.MapUpdate)
		if !ok {
			return false
		}
		// value taken from a range over fixed
		v := strip(mu.Value)
		ex, ok := v.(*ssa.Extract)
		if !ok {
			return false
		}
		nx, ok := ex.Tuple.(*ssa.Next)
		if !ok {
			return false
		}
		rg, ok := nx.Iter.(*ssa.Range)
		return ok && sameValue(rg.X, fixed)
	}
	rs := reg.Find(restore)
	if len(rs) == 0 {
		c.Fail(rule, fn, "sticky:fixed-members-restored-last", nil, "balance never puts the members it set aside (fixedAssignments) back into the assignment: their partitions are assigned to nobody", nil)
		return
	}
	score := p.CallTo("getBalanceScore")
	for _, s := range rs {
		it, path := reg.From(s.After()).Reach(score, nil)
		c.Check(it.IsZero(), rule, fn, "sticky:fixed-members-restored-last", s.Instr(), "the balance score is taken before the fixed members are put back", "the fixed members are put back before the balance score is compared with the pre-balance one: the score then counts members the snapshot does not, the revert fires spuriously and restores a snapshot without the fixed members — their partitions are assigned to nobody and they are missing from the plan", path)
	}
	esc, path := reg.Escape(restore)
	_ = esc
	_ = path
}

// C09.fresh-element / records-decoded-into-a-fresh-object.
func c09RecordsFresh(c *Ctx) {
	p := c.P
	rule := "C09.fresh-element"
	fn := c.NeedFn(rule, "Records.decode")
	if fn == nil {
		return
	}
	n := 0
	for _, s := range Info(fn).Find(p.CallTo("MessageSet.decode", "RecordBatch.decode")) {
		a := callArgs(s)
		if len(a) == 0 {
			continue
		}
		n++
		_, ok := allocLeaves(throughCell(a[0]), fn)
		if !ok {
			// the receiver is a load of r.MsgSet / r.RecordBatch: the value stored there
			if u, isU := strip(a[0]).(*ssa.UnOp); isU && u.Op == token.MUL {
				if fa, isFA := u.X.(*ssa.FieldAddr); isFA {
					ok = true
					found := false
					for _, b := range fn.Blocks {
						for _, in := range b.Instrs {
							if st, isSt := in.(*ssa.Store); isSt {
								if fa2, isFA2 := st.Addr.(*ssa.FieldAddr); isFA2 && fa2.Field == fa.Field && sameValue(fa2.X, fa.X) {
									found = true
									if _, fresh := allocLeaves(st.Val, fn); !fresh {
										ok = false
									}
								}
							}
						}
					}
					if !found {
						ok = false
					}
					// and the store is unconditional before the call: the call is not reachable without it
					if ok {
						reg := WholeFn(fn)
						it, _ := reg.Reach(IsItem(s), func(x Item) bool {
							st, isSt := x.In.(*ssa.Store)
							if !isSt {
								return false
							}
							fa2, isFA2 := st.Addr.(*ssa.FieldAddr)
							return isFA2 && fa2.Field == fa.Field && sameValue(fa2.X, fa.X)
						})
						if !it.IsZero() {
							ok = false
						}
					}
				}
			}
		}
		c.Check(ok, rule, fn, "records-decoded-into-fresh-object", s.Instr(), "Records.decode decodes into a message set / record batch it allocates itself", "Records.decode can decode into a MessageSet/RecordBatch that was already there (allocated only when the field is nil): a caller that reuses one Records value for several partitions (a scratch variable hoisted out of the loop) makes every copy stored so far point at the object holding the partition decoded last — decode(encode(v)) ≠ v", nil)
	}
	if n == 0 {
		c.Unresolved(rule, "the nested decode calls of Records.decode")
	}
}

// C10.loop-progress / message-set-consumes-or-flags: what MessageSet.decode leaves unread it reports.
func c10MessageSetConsumesOrFlags(c *Ctx) {
	p := c.P
	rule := "C10.loop-progress"
	fn := c.NeedFn(rule, "MessageSet.decode")
	if fn == nil {
		return
	}
	reg := WholeFn(fn)
	rem := func(v ssa.Value) bool {
		cl, ok := strip(v).(*ssa.Call)
		return ok && p.CalleeName(&cl.Call) == "packetDecoder.remaining"
	}
	exhausted := AnyOf{Cmp{token.LEQ, rem, ConstInt(0)}, Cmp{token.EQL, rem, ConstInt(0)}, Cmp{token.LSS, rem, ConstInt(1)}}
	magic := p.ResultOf(0, "magicValue")
	v2 := AnyOf{Cmp{token.GTR, magic, ConstInt(1)}, Cmp{token.GEQ, magic, ConstInt(2)}}
	flagged := Or(StoreTo(ConstBool(true), "MessageSet.PartialTrailingMessage"), StoreTo(ConstBool(true), "MessageSet.OverflowMessage"))
	r := *reg
	r.Cut = func(from, to *ssa.BasicBlock) bool {
		return Establishes(from, to, exhausted) || Establishes(from, to, v2)
	}
	it, path := r.Reach(ReturnNilErr(), flagged)
	c.Check(it.IsZero(), rule, fn, "message-set-consumes-or-flags", it.Instr(), "MessageSet.decode returns nil only with the input exhausted, a v2 batch ahead, or the partial/overflow flag set", "MessageSet.decode can return nil with bytes left that it neither consumed nor flagged (PartialTrailingMessage / OverflowMessage) and that are not a v2 batch: FetchResponseBlock.decode loops `for remaining() > 0` and relies on every Records.decode making progress, failing, or reporting a partial set — a trailing stub of a few bytes decodes as 'empty, complete, nothing consumed' and the loop never ends", path)
}

// C13.balance-test / is-balanced-sorts-itself.
func c13IsBalancedSortsItself(c *Ctx) {
	p := c.P
	rule := "C13.balance-test"
	fn := c.NeedFn(rule, "isBalanced")
	if fn == nil {
		return
	}
	reg := WholeFn(fn)
	sorts := reg.Find(p.CallWith("sortMemberIDsByPartitionAssignments", 0, ParamNamed("currentAssignment")))
	var at ssa.Instruction
	if len(sorts) > 0 {
		at = sorts[0].Instr()
	}
	ok := len(sorts) > 0
	if ok {
		// min and max are read through that fresh order: no return before it
		it, _ := reg.Reach(IsReturn(), IsItem(sorts[0]))
		ok = it.IsZero()
	}
	// the other half: can the caller's list be stale?  In balance every removal of a member from the assignment is
	// followed by a re-sort before the reassignment pass; only where that is no longer so does a borrowed order mislead
	if !ok {
		stale := false
		if bal := p.Fn("stickyBalanceStrategy.balance"); bal != nil && bal.Blocks != nil {
			breg := WholeFn(bal)
			fresh := Or(p.CallTo("sortMemberIDsByPartitionAssignments"), p.CallTo("assignPartition"))
			pass := p.CallTo("stickyBalanceStrategy.performReassignments")
			for _, d := range breg.Find(MapDeleteOn(ParamNamed("currentAssignment"))) {
				if it, _ := breg.From(d.After()).Reach(pass, fresh); !it.IsZero() {
					stale = true
				}
			}
		} else {
			stale = true
		}
		if !stale {
			ok = true
		}
	}
	c.Check(ok, rule, fn, "is-balanced-sorts-itself", at, "isBalanced orders the members itself, or its caller re-sorts after every removal", "isBalanced takes the order of the members from its caller instead of sorting currentAssignment itself: the caller's list goes stale whenever members are removed without a re-sort (the fixed members set aside in balance) — min/max are read off entries that are no longer in the assignment (length 0), 'balanced' is answered at once and performReassignments stops without moving anything", nil)
}

// C17.consistent / hash-partitioner-always-consistent.
func c17HashAlwaysConsistent(c *Ctx) {
	rule := "C17.consistent"
	fn := c.NeedFn(rule, "hashPartitioner.RequiresConsistency")
	if fn == nil {
		return
	}
	ok := true
	var at ssa.Instruction
	n := 0
	for _, s := range WholeFn(fn).Find(IsReturn()) {
		rv := RetVals(s.In.(*ssa.Return))
		n++
		if len(rv) != 1 || !ConstBool(true)(rv[0]) {
			ok, at = false, s.Instr()
		}
	}
	// the other half: does the producer consult the static answer for a partitioner that can answer per message?
	if !ok {
		if pm := c.P.Fn("topicProducer.partitionMessage"); pm != nil {
			consults := false
			for _, g := range append([]*ssa.Function{pm}, pm.AnonFuncs...) {
				if g.Blocks == nil {
					continue
				}
				greg := WholeFn(g)
				isDyn := func(v ssa.Value) bool {
					ex, isEx := v.(*ssa.Extract)
					if !isEx || ex.Index != 1 {
						return false
					}
					ta, isTA := ex.Tuple.(*ssa.TypeAssert)
					if !isTA || !ta.CommaOk {
						return false
					}
					nm, _ := NamedOf(ta.AssertedType)
					return nm == "DynamicConsistencyPartitioner"
				}
				for _, st := range greg.Find(c.P.CallTo("Partitioner.RequiresConsistency", "DynamicConsistencyPartitioner.RequiresConsistency")) {
					if g2, _ := greg.Guarded(st, Truth{isDyn, false}); !g2 {
						consults = true // asked also where the partitioner can answer per message
					}
				}
			}
			if !consults {
				ok = true // the producer asks such a partitioner per message only: its static answer decides nothing here
			}
		}
	}
	c.Check(ok && n > 0, rule, fn, "hash-partitioner-always-consistent", at, "hashPartitioner.RequiresConsistency answers true", "hashPartitioner.RequiresConsistency no longer answers true (it defers to the keyless fallback, say): whoever asks the static question first — the mocks, partitionMessage after a restructuring — offers keyed messages only the writable partitions, and a key's partition changes while some partition has no leader", nil)
}
