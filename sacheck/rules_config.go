package main

import (
	"fmt"
	"go/token"
	"go/types"
	"strings"

	"golang.org/x/tools/go/ssa"
)

// Rules about which configuration value governs what (round-9 seeds: an option read at the wrong level, a bound of
// the wrong kind).  Each is a small table filled from the code's own conventions and checked on the resolved program.

// C01.close-drains: asyncProducer.Close empties whichever channels the application was told it need not read.
func c01CloseDrains(c *Ctx) {
	p := c.P
	rule := "C01.close-drains"
	c.Doc(rule, "asyncProducer.Close: the goroutine that drains p.successes is started exactly where conf.Producer.Return.Successes is true, and p.errors is ranged over (collected) exactly where conf.Producer.Return.Errors is true: with the successes of a Return.Successes producer left undrained, returnSuccesses blocks, inFlight never reaches zero, the channels are never closed and Close never returns")
	c.Floor(rule, 2)
	fn := c.NeedFn(rule, "asyncProducer.Close")
	if fn == nil {
		return
	}
	reg := WholeFn(fn)
	drains := func(f *ssa.Function, ch string) bool {
		if f == nil {
			return false
		}
		loops, _ := rangeChanLoops(Info(f), FieldLoad(ch))
		return len(loops) > 0
	}
	// (1) the successes drainer
	found := false
	for _, s := range reg.Find(func(it Item) bool { _, ok := it.In.(*ssa.Go); return ok }) {
		tgt := p.GoTarget(s)
		ok := drains(tgt, pSuccessCh)
		if !ok && tgt != nil {
			for _, g := range p.Fns {
				if g.Parent() == tgt && drains(g, pSuccessCh) {
					ok = true
				}
			}
		}
		if !ok {
			// go withRecover(func(){ for range p.successes {} }): the literal is an argument
			if g, isGo := s.In.(*ssa.Go); isGo {
				for _, a := range g.Call.Args {
					if f := p.FuncOfValue(a); f != nil && drains(f, pSuccessCh) {
						ok = true
					}
				}
			}
		}
		if !ok {
			continue
		}
		found = true
		g1, path := reg.Guarded(s, Truth{FieldLoad("Config.Producer.Return.Successes"), true})
		c.Check(g1, rule, fn, "successes-drained-iff-returned", s.Instr(), "the successes drainer runs under Return.Successes", "the goroutine that drains p.successes is not started under conf.Producer.Return.Successes: with Return.Successes = true and Return.Errors = false nobody reads the successes of the messages still in flight at Close — the broker worker blocks in returnSuccesses, inFlight never drains, Close hangs", path)
		// and it is not skipped where Return.Successes is true
		for _, e := range reg.EstablishingEdges(Truth{FieldLoad("Config.Producer.Return.Successes"), true}) {
			if esc, pth := reg.From(Pt{e.To, 0}).Escape(IsItem(s)); esc {
				c.Fail(rule, fn, "successes-drained-iff-returned", s.Instr(), "with Return.Successes = true a path of Close does not start the successes drainer", pth)
			}
		}
	}
	if !found {
		c.Fail(rule, fn, "successes-drained-iff-returned", nil, "Close never drains p.successes", nil)
	}
	// (2) the errors: collected under Return.Errors, otherwise waited for
	loops, _ := rangeChanLoops(Info(fn), FieldLoad(pErrorsCh))
	if len(loops) == 0 {
		c.Fail(rule, fn, "errors-collected-iff-returned", nil, "Close never ranges over p.errors", nil)
	}
	for _, l := range loops {
		at := l.Head.Instrs[0]
		g, path := reg.Guarded(Item{In: at}, Truth{FieldLoad("Config.Producer.Return.Errors"), true})
		c.Check(g, rule, fn, "errors-collected-iff-returned", at, "p.errors is collected under Return.Errors", "Close ranges over p.errors without Return.Errors being established", path)
	}
}

// C04.headers-gate: a message with headers is refused wherever the legacy format is used.
func c04HeadersGate(c *Ctx) {
	p := c.P
	rule := "C04.headers-gate"
	c.Doc(rule, "asyncProducer.dispatcher: on the branch where conf.Version.IsAtLeast(G) is false (G = the version required by ProduceRequest v3, i.e. the record-batch format) a message whose Headers are non-nil never reaches the size check / the partition dispatch: it is refused (returnError).  The legacy message formats have no header field, produceSet.add drops the headers silently and the message would be reported as written")
	c.Floor(rule, 1)
	fn := c.NeedFn(rule, "asyncProducer.dispatcher")
	if fn == nil {
		return
	}
	cases, def, ok := p.requiredVersionTable("ProduceRequest")
	if !ok {
		c.Unresolved(rule, "ProduceRequest.requiredVersion")
		return
	}
	gate, has := cases[3]
	if !has {
		gate = def
	}
	fi := Info(fn)
	loops, _ := rangeChanLoops(fi, FieldLoad(pInputCh))
	if len(loops) != 1 {
		c.Unresolved(rule, "range p.input loop")
		return
	}
	reg := fi.Iteration(loops[0])
	edges := reg.EstablishingEdges(Truth{p.IsAtLeast(gate), false})
	if len(edges) == 0 {
		c.Unresolved(rule, "the test conf.Version.IsAtLeast("+gate+") in the dispatcher")
		return
	}
	noHeaders := Cmp{token.EQL, FieldLoad("ProducerMessage.Headers"), IsNil()}
	forward := p.CallTo("ProducerMessage.byteSize")
	if len(reg.Find(forward)) == 0 {
		c.Unresolved(rule, "the size check (byteSize) in the dispatcher")
		return
	}
	// the paths of one iteration on which the configured version is below the gate (edges that establish it are cut
	// away) and the headers were not found nil
	r := *reg
	r.Cut = func(from, to *ssa.BasicBlock) bool {
		return Establishes(from, to, Truth{p.IsAtLeast(gate), true}) || Establishes(from, to, noHeaders)
	}
	it, path := r.Reach(forward, nil)
	c.Check(it.IsZero(), rule, fn, "legacy-format-refuses-headers", lastInstr(edges[0].From), "below "+gate+" a message with headers is refused on every path", "below "+gate+" a message with non-nil Headers can continue to the size check and the partition dispatch (for some versions): produceSet.add writes a legacy message without the headers and the producer reports success — the log entry does not hold what was submitted", path)
}

// C09.sentinel: OffsetRequest's replica id: "unset" is exactly -1.
func c09Sentinel(c *Ctx) {
	p := c.P
	rule := "C09.sentinel"
	c.Doc(rule, "OffsetRequest: encode writes the replica id when it was set and -1 otherwise; decode marks it as set (SetReplicaID) exactly for values other than the sentinel: under v >= 0, v > -1 or v != -1 — broker ids start at 0, and a request with replica id 0 must decode to what was encoded")
	c.Floor(rule, 1)
	fn := c.NeedFn(rule, "OffsetRequest.decode")
	if fn == nil {
		return
	}
	reg := WholeFn(fn)
	calls := reg.Find(p.CallTo("OffsetRequest.SetReplicaID"))
	if len(calls) == 0 {
		c.Fail(rule, fn, "set-iff-not-sentinel", nil, "OffsetRequest.decode never marks the replica id as set", nil)
	}
	for _, s := range calls {
		a := callArgs(s)
		if len(a) < 2 {
			continue
		}
		v := Same(a[1])
		ok := false
		for _, pr := range []Pred{Cmp{token.GEQ, v, ConstInt(0)}, Cmp{token.GTR, v, ConstInt(-1)}, Cmp{token.NEQ, v, ConstInt(-1)}} {
			if g, _ := reg.Guarded(s, pr); g {
				ok = true
			}
		}
		// and not under anything stronger: from the edges v >= 0 the call is reached on every path
		if ok {
			for _, pr := range []Pred{Cmp{token.GEQ, v, ConstInt(0)}, Cmp{token.GTR, v, ConstInt(-1)}, Cmp{token.NEQ, v, ConstInt(-1)}} {
				for _, e := range reg.EstablishingEdges(pr) {
					if esc, _ := reg.From(Pt{e.To, 0}).Escape(IsItem(s)); esc {
						ok = false
					}
				}
			}
		}
		c.Check(ok, rule, fn, "set-iff-not-sentinel", s.Instr(), "the replica id is marked as set exactly for values ≥ 0", "OffsetRequest.decode does not mark the replica id as set for every value other than -1 (for instance not for 0): a request carrying replica id 0 decodes to 'unset' and re-encodes as -1 — decode(encode(v)) ≠ v", nil)
	}
}

// C12.retry-observes-close: every round of the session set-up retry looks at c.closed.
func c12RetryObservesClose(c *Ctx) {
	p := c.P
	rule := "C12.retry-observes-close"
	c.Doc(rule, "consumerGroup.retryNewSession: on every path a select case / receive on c.closed precedes the next attempt (newSession, RefreshCoordinator): the retry chain after a failed coordinator lookup recurses without consuming its budget, so this test is the only thing that ends it when the group is closed — whatever Rebalance.Retry.Backoff is, zero included")
	c.Floor(rule, 1)
	fn := c.NeedFn(rule, "consumerGroup.retryNewSession")
	if fn == nil {
		return
	}
	reg := WholeFn(fn)
	next := p.CallTo("consumerGroup.newSession", "Client.RefreshCoordinator")
	if len(reg.Find(next)) == 0 {
		c.Unresolved(rule, "the next attempt (newSession / RefreshCoordinator) in retryNewSession")
		return
	}
	closed := FieldLoad("consumerGroup.closed")
	looksAtClosed := func(it Item) bool {
		switch x := it.In.(type) {
		case *ssa.Select:
			for _, st := range x.States {
				if st.Dir == types.RecvOnly && closed(st.Chan) {
					return true
				}
			}
		case *ssa.UnOp:
			return x.Op == token.ARROW && closed(x.X)
		}
		return false
	}
	it, path := reg.MustPrecede(looksAtClosed, next)
	c.Check(it.IsZero(), rule, fn, "closed-tested-before-next-attempt", it.Instr(), "c.closed is looked at before every further attempt", "retryNewSession can start its next attempt without having looked at c.closed (for instance when the configured backoff is zero): with the coordinator unreachable Consume retries for ever while holding the group's lock, and Close blocks behind it", path)
}

// C15.deadline: metadata refreshes are bounded by Metadata.Timeout and by nothing else.
func c15Deadline(c *Ctx) {
	p := c.P
	rule := "C15.deadline"
	c.Doc(rule, "every call of client.tryRefreshMetadata passes as deadline the zero time, or time.Now().Add(conf.Metadata.Timeout) on a path where Metadata.Timeout > 0 was established, or its own deadline parameter (the retry); and inside it the test that decides whether another candidate broker is tried is pastDeadline(0) — candidates are tried as long as the deadline has not passed, not as long as some other allowance (a read timeout, a refresh period of 0) fits")
	c.Floor(rule, 3)
	try := p.Fn("client.tryRefreshMetadata")
	if try == nil {
		c.Unresolved(rule, "client.tryRefreshMetadata")
		return
	}
	iDeadline := paramIdxByName(try, "deadline", 3)
	timeout := FieldLoad("Config.Metadata.Timeout")
	for _, fn := range p.Fns {
		if rootOf(fn).Pkg != p.Sarama {
			continue
		}
		for _, s := range Info(fn).Find(p.CallTo("client.tryRefreshMetadata")) {
			if s.Instr() == nil || s.Instr().Parent() != fn {
				continue
			}
			a := callArgs(s)
			if iDeadline >= len(a) {
				continue
			}
			reg := WholeFn(fn)
			var okVal func(v ssa.Value, from, to *ssa.BasicBlock, d int) bool
			okVal = func(v ssa.Value, from, to *ssa.BasicBlock, d int) bool {
				if d > 4 {
					return false
				}
				v = canon(v)
				switch x := v.(type) {
				case *ssa.Parameter:
					return rootOf(fn) == try || fn == try
				case *ssa.FreeVar:
					return rootFn(fn) == try
				case *ssa.Const:
					return true // the zero time.Time
				case *ssa.Alloc:
					// a local time.Time variable: every store is an acceptable value
					stores := 0
					for _, r := range *x.Referrers() {
						if st, ok := r.(*ssa.Store); ok && st.Addr == ssa.Value(x) {
							stores++
							if !okVal(st.Val, st.Block(), nil, d+1) {
								return false
							}
						}
					}
					return true
				case *ssa.Call:
					if p.CalleeName(&x.Call) == "(time.Time).Add" && len(x.Call.Args) == 2 && timeout(x.Call.Args[1]) {
						g, _ := reg.Guarded(Item{In: x}, Cmp{token.GTR, timeout, ConstInt(0)})
						return g
					}
					return false
				case *ssa.Phi:
					for _, e := range x.Edges {
						if !okVal(e, nil, nil, d+1) {
							return false
						}
					}
					return true
				case *ssa.UnOp:
					if x.Op == token.MUL {
						return okVal(x.X, nil, nil, d+1)
					}
				}
				if cellOf(v) != v {
					return okVal(cellOf(v), nil, nil, d+1)
				}
				return false
			}
			ok := okVal(a[iDeadline], nil, nil, 0)
			c.Check(ok, rule, fn, "deadline-from-metadata-timeout", s.Instr(), "the deadline is the zero time, now + Metadata.Timeout (when > 0), or the caller's own deadline", "tryRefreshMetadata is given a deadline that does not come from Metadata.Timeout ("+describe(a[iDeadline])+"): with that other option at 0 (or small) the refresh gives up before contacting any broker — a controller or metadata lookup fails although brokers would answer", nil)
		}
	}
	// the candidate loop: the call of the pastDeadline closure in a loop condition has argument 0
	n := 0
	fi := Info(try)
	for _, l := range fi.Loops {
		for b := range l.Blocks {
			for _, in := range b.Instrs {
				cl, ok := in.(*ssa.Call)
				if !ok || len(cl.Call.Args) != 1 {
					continue
				}
				f := p.FuncOfValue(cl.Call.Value)
				if f == nil {
					// a closure kept in a local variable (it is captured by another closure): the cell's one store
					if u, isU := cl.Call.Value.(*ssa.UnOp); isU && u.Op == token.MUL {
						if al, isA := u.X.(*ssa.Alloc); isA {
							for _, r := range *al.Referrers() {
								if st, isS := r.(*ssa.Store); isS && st.Addr == ssa.Value(al) {
									f = p.FuncOfValue(st.Val)
								}
							}
						}
					}
				}
				if f == nil || f.Parent() != try || !hasItem(f, p.CallTo("(time.Time).After")) {
					continue
				}
				n++
				c.Check(ConstInt(0)(cl.Call.Args[0]), rule, try, "candidates-until-deadline", cl, "the candidate loop stops only when the deadline itself has passed", "the loop over candidate brokers gives up while the deadline has not passed (it adds "+describe(cl.Call.Args[0])+" to the current time): a healthy broker further down the list is never asked, and the refresh fails although it would have answered in time", nil)
			}
		}
	}
	// the same test written out in the loop (the closure turned into a helper and inlined back):
	// time.Now().Add(X).After(deadline) inside the candidate loop has X = 0
	for _, l := range fi.Loops {
		var blocks []*ssa.BasicBlock
		for b := range l.Blocks {
			blocks = append(blocks, b)
			// literals invoked on the spot inside the loop (what is left of a helper inlined into a loop condition)
			for _, in := range b.Instrs {
				if cl, isCall := in.(*ssa.Call); isCall {
					if mc, isMC := cl.Call.Value.(*ssa.MakeClosure); isMC {
						if g, isF := mc.Fn.(*ssa.Function); isF && g.Parent() == try {
							blocks = append(blocks, g.Blocks...)
						}
					}
				}
			}
		}
		for _, b := range blocks {
			for _, in := range b.Instrs {
				cl, ok := in.(*ssa.Call)
				if !ok || p.CalleeName(&cl.Call) != "(time.Time).Add" || len(cl.Call.Args) != 2 {
					continue
				}
				feedsAfter := false
				for _, r := range *cl.Referrers() {
					if c2, isC := r.(*ssa.Call); isC && p.CalleeName(&c2.Call) == "(time.Time).After" {
						feedsAfter = true
					}
				}
				if !feedsAfter {
					continue
				}
				n++
				c.Check(ConstInt(0)(strip(cl.Call.Args[1])), rule, try, "candidates-until-deadline", cl, "the candidate loop stops only when the deadline itself has passed", "the loop over candidate brokers gives up while the deadline has not passed (it adds "+describe(cl.Call.Args[1])+" to the current time): a healthy broker further down the list is never asked, and the refresh fails although it would have answered in time", nil)
			}
		}
	}
	if n == 0 {
		c.Unresolved(rule, "the deadline test of the candidate loop in tryRefreshMetadata")
	}
}

// C16.exact-size: the exact size check of every outgoing request is against MaxRequestSize.
func c16ExactSize(c *Ctx) {
	_ = c.P
	rule := "C16.exact-size"
	c.Doc(rule, "encode() (encoder_decoder.go), which sizes every outgoing request exactly before it is written, refuses it with an error when the size exceeds MaxRequestSize — that global, not MaxResponseSize or another limit: wouldOverflow only estimates (it underestimates the per-message overhead of legacy messages and admits any single message into an empty buffer), this test is what keeps an oversized request off the wire")
	c.Floor(rule, 1)
	fn := c.NeedFn(rule, "encode")
	if fn == nil {
		return
	}
	reg := WholeFn(fn)
	length := FieldLoad("prepEncoder.length")
	tooBig := Cmp{token.GTR, length, func(v ssa.Value) bool { return GlobalLoad("MaxRequestSize")(strip(v)) }}
	edges := reg.EstablishingEdges(tooBig)
	ok := len(edges) > 0
	var wpath []*ssa.BasicBlock
	for _, e := range edges {
		if it, path := reg.From(Pt{e.To, 0}).Reach(ReturnNilErr(), nil); !it.IsZero() {
			ok, wpath = false, path
		}
	}
	// no comparison of the length with another global limit
	other := ""
	for _, b := range fn.Blocks {
		for _, in := range b.Instrs {
			bo, isB := in.(*ssa.BinOp)
			if !isB {
				continue
			}
			for _, pair := range [][2]ssa.Value{{bo.X, bo.Y}, {bo.Y, bo.X}} {
				if length(pair[0]) {
					if u, isU := strip(pair[1]).(*ssa.UnOp); isU {
						if g, isG := u.X.(*ssa.Global); isG && g.Name() != "MaxRequestSize" {
							other = g.Name()
						}
					}
				}
			}
		}
	}
	c.Check(ok && other == "", rule, fn, "refuses-above-MaxRequestSize", nil, "a request larger than MaxRequestSize is refused with an error", "encode() does not refuse a request whose exact size exceeds MaxRequestSize"+map[bool]string{true: " (it compares with " + other + ")", false: ""}[other != ""]+": a request that passed the estimate of wouldOverflow but is really over the limit goes out on the wire", wpath)
}

// C20.every-pair-stored: SetPartitions records every count it is given.
func c20EveryPairStored(c *Ctx) {
	rule := "C20.every-pair-stored"
	c.Doc(rule, "mocks.TopicConfig.SetPartitions: in every iteration of its loop over the given map the pair is stored into overridePartitions (a map update with the loop's key and value, on every path), and nothing is deleted from overridePartitions: an explicit count equal to the current default is still an explicit count and must survive a later SetDefaultPartitions")
	c.Floor(rule, 1)
	fn := c.NeedFn(rule, "mocks.TopicConfig.SetPartitions")
	if fn == nil {
		return
	}
	fi := Info(fn)
	over := FieldLoad("TopicConfig.overridePartitions")
	if len(fi.Loops) == 0 {
		c.Unresolved(rule, "the loop of SetPartitions")
		return
	}
	for _, l := range fi.Loops {
		reg := fi.Iteration(l)
		esc, path := reg.Escape(MapUpdateOn(over))
		del, _ := WholeFn(fn).Reach(MapDeleteOn(over), nil)
		c.Check(!esc && del.IsZero(), rule, fn, "pair-stored-on-every-path", l.Head.Instrs[0], "every given (topic, count) pair is stored", "SetPartitions skips (or deletes) an entry for some given values: the topic silently follows the default — and any later SetDefaultPartitions — instead of the count the test configured, so the partitioner is handed the wrong number of partitions", path)
	}
}

var _ = fmt.Sprintf
var _ = strings.Join

// fieldTypeByPath resolves "Type.a.b.c" (fields of nested anonymous structs included) to the field's type.
func (p *Program) fieldTypeByPath(path string) types.Type {
	parts := strings.Split(path, ".")
	obj := p.Sarama.Pkg.Scope().Lookup(parts[0])
	if obj == nil {
		return nil
	}
	t := obj.Type()
	for _, name := range parts[1:] {
		st, ok := t.Underlying().(*types.Struct)
		if !ok {
			return nil
		}
		var next types.Type
		for i := 0; i < st.NumFields(); i++ {
			if st.Field(i).Name() == name {
				next = st.Field(i).Type()
			}
		}
		if next == nil {
			return nil
		}
		t = next
	}
	return t
}

// C02.retry-level-width: the per-message retry level can count as far as the configured budget.
func c02RetryLevelWidth(c *Ctx) {
	p := c.P
	rule := "C02.retry-level-width"
	c.Doc(rule, "ProducerMessage.retries (the retry level that orders a partition's messages across retries) and partitionProducer.highWatermark have the type of Config.Producer.Retry.Max (int): Validate accepts any budget ≥ 0, and a narrower level wraps round to 0 in the middle of a long retry sequence — the wrapped message looks like a first submission and later messages overtake it")
	c.Floor(rule, 2)
	budget := p.fieldTypeByPath("Config.Producer.Retry.Max")
	if budget == nil {
		c.Unresolved(rule, "Config.Producer.Retry.Max")
		return
	}
	for _, f := range []string{"ProducerMessage.retries", "partitionProducer.highWatermark"} {
		t := p.fieldTypeByPath(f)
		if t == nil {
			c.Unresolved(rule, f)
			continue
		}
		c.Check(types.Identical(t, budget), rule, nil, "width:"+f, nil, f+" has the budget's type ("+budget.String()+")", f+" has type "+t.String()+" while the retry budget Config.Producer.Retry.Max is "+budget.String()+": for budgets beyond the narrower type's range the level wraps round, a retried message re-enters as if it were new and the per-partition order is lost", nil)
	}
}
