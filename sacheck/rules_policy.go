package main

import (
	"go/token"

	"golang.org/x/tools/go/ssa"
)

// Rules about error classification and retry policy (round-18 seeds).

var retriableProduceCodes = []string{"ErrInvalidMessage", "ErrUnknownTopicOrPartition", "ErrLeaderNotAvailable", "ErrNotLeaderForPartition", "ErrRequestTimedOut", "ErrNotEnoughReplicas", "ErrNotEnoughReplicasAfterAppend"}

// C01.route / first-pass-defers: what the second pass retries the first pass does not dispose of.
func c01FirstPassDefers(c *Ctx) {
	p := c.P
	rule := "C01.route"
	fn := c.NeedFn(rule, "brokerProducer.handleSuccess")
	if fn == nil {
		return
	}
	// the first-pass callback: the closure that appends to retryTopics
	var first *ssa.Function
	for _, g := range fn.AnonFuncs {
		if hasItem(g, func(it Item) bool {
			cl, ok := it.In.(*ssa.Call)
			if !ok {
				return false
			}
			b, isB := cl.Call.Value.(*ssa.Builtin)
			return isB && b.Name() == "append" && len(cl.Call.Args) > 0 && func() bool {
				_, isStr := cl.Type().Underlying().(interface{ Elem() interface{} })
				_ = isStr
				return cl.Type().String() == "[]string"
			}()
		}) {
			first = g
		}
	}
	if first == nil {
		c.Unresolved(rule, "the first-pass callback of handleSuccess (the one that fills retryTopics)")
		return
	}
	reg := WholeFn(first)
	dispose := p.CallTo("asyncProducer.returnErrors", "asyncProducer.returnError", "asyncProducer.returnSuccesses")
	noRetries := AnyOf{Cmp{token.LEQ, FieldLoad("Config.Producer.Retry.Max"), ConstInt(0)}, Cmp{token.LSS, FieldLoad("Config.Producer.Retry.Max"), ConstInt(1)}}
	errF := FieldLoad("ProduceResponseBlock.Err")
	n := 0
	for _, code := range retriableProduceCodes {
		k := p.ErrVal(code)
		edges := reg.EstablishingEdges(Cmp{token.EQL, errF, k})
		if len(edges) == 0 {
			// the case list lives in a predicate literal (`case isRetriable(block.Err):` inlined back): the true edge
			// of the branch on that literal is the edge on which the code is one of the listed ones
			if kv, okc := p.ConstNamed(code); okc {
				cases := constCases(first, errF)
				for _, b := range first.Blocks {
					iff, isIf := lastInstr(b).(*ssa.If)
					if !isIf || len(b.Succs) != 2 {
						continue
					}
					if cl, isCall := iff.Cond.(*ssa.Call); !isCall || iifeCallee(cl) == nil {
						continue
					}
					for _, have := range cases[b.Succs[0]] {
						if have == kv {
							edges = append(edges, Edge{From: b, To: b.Succs[0]})
						}
					}
				}
			}
		}
		for _, e := range edges {
			n++
			r := *reg.From(Pt{e.To, 0})
			r.Cut = func(from, to *ssa.BasicBlock) bool { return Establishes(from, to, noRetries) }
			it, path := r.Reach(dispose, nil)
			c.Check(it.IsZero(), rule, first, "first-pass-defers:"+code, it.Instr(), "with retries enabled the first pass leaves "+code+" to the second pass", "the first pass of handleSuccess disposes of the messages of a partition answered with "+code+" although retries are enabled (Retry.Max > 0): the second pass still lists that code as retriable and runs whenever any partition of the response needs a retry — the same messages are then re-queued and get a second outcome later (two terminal events, inFlight decremented twice: negative WaitGroup)", path)
		}
	}
	if n < 5 {
		c.Unresolved(rule, "the retriable cases of the first pass of handleSuccess")
	}
}

// C05.batch / idempotent-resends-whole-batch: a failed sequenced batch goes back as it was.
func c05ResendWholeBatch(c *Ctx) {
	p := c.P
	rule := "C05.batch"
	fn := c.NeedFn(rule, "brokerProducer.handleSuccess")
	if fn == nil {
		return
	}
	n := 0
	for _, g := range append([]*ssa.Function{fn}, fn.AnonFuncs...) {
		if g.Blocks == nil {
			continue
		}
		reg := WholeFn(g)
		for _, s := range reg.Find(p.CallTo("asyncProducer.retryMessages")) {
			a := callArgs(s)
			if len(a) < 2 || !FieldLoad("partitionSet.msgs")(strip(a[1])) {
				continue // the messages dropped from the pending buffer: always per message
			}
			n++
			g1, path := reg.Guarded(s, Truth{FieldLoad("Config.Producer.Idempotent"), false})
			c.Check(g1, rule, g, "idempotent-resends-whole-batch", s.Instr(), "the messages of a failed sent set are re-queued one by one only when the producer is not idempotent", "with Idempotent on, the messages of a failed sent set can be re-queued one by one (for some error codes) instead of being resent as the batch they were: they keep their sequence numbers but are re-batched with whatever else is pending — the resend is not the identical batch, a broker that already appended the first copy (REQUEST_TIMED_OUT comes after the local append) rejects it as out of order and messages that are in the log are reported failed", path)
		}
	}
	if n == 0 {
		c.Unresolved(rule, "retryMessages(pSet.msgs, …) in handleSuccess")
	}
}

// C06.close / final-flush-ends-only-when-clean: the retry budget of the final flush is not cut short.
func c06FinalFlushExits(c *Ctx) {
	p := c.P
	rule := "C06.close"
	fn := c.NeedFn(rule, "offsetManager.Close")
	if fn == nil {
		return
	}
	var body *ssa.Function
	for _, s := range Info(fn).Find(p.CallTo("(*sync.Once).Do")) {
		body = p.closureArg(s, 1)
	}
	if body == nil {
		return
	}
	fi := Info(body)
	flushes := fi.Find(p.CallTo("offsetManager.flushToBroker"))
	if len(flushes) == 0 {
		return
	}
	l := fi.InnermostLoop(flushes[0].Instr().Block())
	if l == nil {
		return // reported by bounded-flush-loop
	}
	clean := Cmp{token.EQL, p.ResultOf(0, "offsetManager.releasePOMs"), ConstInt(0)}
	for b := range l.Blocks {
		for _, su := range b.Succs {
			if l.Blocks[su] {
				continue
			}
			// an exit edge: the loop condition (in the header or its for.loop block: a comparison with Retry.Max), or
			// "nothing left to release"
			if iff, ok := lastInstr(b).(*ssa.If); ok {
				if bo, isBo := iff.Cond.(*ssa.BinOp); isBo && (FieldLoad("Config.Consumer.Offsets.Retry.Max")(bo.Y) || FieldLoad("Config.Consumer.Offsets.Retry.Max")(bo.X)) {
					continue
				}
			}
			ok := Establishes(b, su, clean)
			c.Check(ok, rule, body, "final-flush-ends-only-when-clean", lastInstr(b), "the final flush loop is left early only when releasePOMs(false) == 0", "the final flush loop of Close can be left early for another reason than 'every partition is clean and released' (one partition's permanent rejection, say): the retry budget Consumer.Offsets.Retry.Max is shared by all partitions — the others, which only met a retriable answer, lose their remaining attempts and are force-released with their marks uncommitted", nil)
		}
	}
}

// C07.start-offset / initial-offset-from-the-coordinator: "nothing committed" is said by the coordinator, not inferred.
func c07InitialOffsetFromCoordinator(c *Ctx) {
	p := c.P
	rule := "C07.start-offset"
	fn := c.NeedFn(rule, "offsetManager.fetchInitialOffset")
	if fn == nil {
		return
	}
	reg := WholeFn(fn)
	n := 0
	for _, s := range reg.Find(ReturnNilErr()) {
		rv := RetVals(s.In.(*ssa.Return))
		if len(rv) != 3 {
			continue
		}
		n++
		ok := FieldLoad("OffsetFetchResponseBlock.Offset")(strip(throughCell(rv[0])))
		c.Check(ok, rule, fn, "initial-offset-from-the-coordinator", s.Instr(), "a successful fetchInitialOffset returns the offset of the coordinator's answer", "fetchInitialOffset can succeed with an offset that is not the one in the coordinator's answer ("+describe(rv[0])+" — 'nothing committed' assumed after an error code): the claim then starts at Consumer.Offsets.Initial although a commit exists; with OffsetNewest every record between the commit and the log end is skipped, and the next commit moves the group past them", nil)
	}
	// results of the recursive retry are passed on as they are: fine (they are successes of an inner call)
	if n == 0 {
		// all successes come from the recursion or none at all
		rec := reg.Find(p.CallTo("offsetManager.fetchInitialOffset"))
		if len(rec) == 0 {
			c.Unresolved(rule, "successful return of fetchInitialOffset")
		}
	}
}

// C15.progress / io-error-not-an-auth-verdict: a connection that dies during authentication is an I/O failure.
func c15IOErrorNotAuthVerdict(c *Ctx) {
	p := c.P
	rule := "C15.progress"
	n := 0
	for _, fn := range p.Fns {
		if fn.Blocks == nil || fn.Pkg != p.Sarama || !p.inFile(fn, "broker.go") {
			continue
		}
		reg := WholeFn(fn)
		verdict := func(it Item) bool {
			ret, ok := it.In.(*ssa.Return)
			if !ok {
				return false
			}
			for _, v := range RetVals(ret) {
				if p.ErrVal("ErrSASLAuthenticationFailed")(strip(throughCell(v))) {
					return true
				}
				if mi, isMI := v.(*ssa.MakeInterface); isMI && p.ErrVal("ErrSASLAuthenticationFailed")(mi.X) {
					return true
				}
			}
			return false
		}
		rets := reg.Find(verdict)
		if len(rets) == 0 {
			continue
		}
		n += len(rets)
		// I/O results: the error of Broker.readFull / Broker.write / io.ReadFull
		ioErr := OrV(p.ResultOf(1, "Broker.readFull"), p.ResultOf(1, "Broker.write"), p.ResultOf(1, "io.ReadFull"))
		for _, e := range reg.EstablishingEdges(Cmp{token.NEQ, ioErr, IsNil()}) {
			it, path := reg.From(Pt{e.To, 0}).Reach(verdict, nil)
			c.Check(it.IsZero(), rule, fn, "io-error-not-an-auth-verdict", it.Instr(), "a failed read or write is not reported as ErrSASLAuthenticationFailed", p.Name(fn)+" reports a failed read/write on the connection as ErrSASLAuthenticationFailed: tryRefreshMetadata treats that verdict as final for the whole cluster (wrong credentials fail everywhere) and returns at once, without setting the broker aside or trying the next one — a single broker that dies during the handshake makes client creation and every refresh fail although healthy brokers answer", path)
		}
	}
	c.Check(true, rule, nil, "io-error-not-an-auth-verdict", nil, "functions of broker.go returning ErrSASLAuthenticationFailed examined", "", nil)
	_ = n
}
