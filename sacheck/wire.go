package main

// E6: wire-shape automata.  Every encode/decode method is turned into a finite automaton directly
// from its SSA control-flow graph: calls on the packetEncoder/packetDecoder value are transitions
// labelled with the wire token they write/read, CFG edges are ε-transitions, nested encode/decode
// calls are spliced in, branches on the protocol version are evaluated for a concrete version,
// all other branches are non-deterministic.  For each type and version L(encoder) ⊆ L(decoder).

import (
	"fmt"
	"go/constant"
	"go/token"
	"go/types"
	"sort"
	"strings"

	"golang.org/x/tools/go/ssa"
)

type wEdge struct {
	to  int
	tok string // "" = ε
}

type wNFA struct {
	edges  [][]wEdge
	accept map[int]bool
}

func (n *wNFA) newState() int { n.edges = append(n.edges, nil); return len(n.edges) - 1 }
func (n *wNFA) add(a, b int, tok string) {
	n.edges[a] = append(n.edges[a], wEdge{b, tok})
}

// wireToken: wire format written/read by a packetEncoder/packetDecoder method ("" = nothing).
func wireToken(name string) (string, bool) {
	n := strings.TrimPrefix(strings.TrimPrefix(name, "put"), "get")
	switch n {
	case "Int8", "Bool":
		return "i8", true
	case "Int16":
		return "i16", true
	case "Int32", "ArrayLength":
		return "i32", true
	case "Int64":
		return "i64", true
	case "Varint":
		return "varint", true
	case "UVarint", "EmptyTaggedFieldArray", "CompactArrayLength":
		return "uvarint", true
	case "Bytes":
		return "bytes32", true
	case "VarintBytes":
		return "vbytes", true
	case "CompactBytes":
		return "cbytes", true
	case "RawBytes":
		return "raw", true
	case "String", "NullableString":
		return "str16", true
	case "CompactString", "CompactNullableString", "NullableCompactString":
		return "cstr", true
	case "CompactInt32Array", "NullableCompactInt32Array":
		return "ci32arr", true
	case "Int32Array":
		return "i32arr", true
	case "Int64Array":
		return "i64arr", true
	case "StringArray":
		return "strarr", true
	case "pop", "remaining", "peek", "peekInt8", "offset", "metricRegistry", "StringLength":
		return "", true
	}
	return "", false
}

var wireArrayExp = map[string][2]string{
	"ci32arr": {"uvarint", "i32"},
	"i32arr":  {"i32", "i32"},
	"i64arr":  {"i32", "i64"},
	"strarr":  {"i32", "str16"},
}

type wireCtx struct {
	cst    map[ssa.Value]int64 // values with a known constant (Version of a freshly allocated, never versioned body)
	stream map[ssa.Value]bool
	ver    map[ssa.Value]bool
	v      int
	depth  int
}

type wireBuilder struct {
	p        *Program
	problems map[string]bool
	maxConst int
	recvKey  ssa.Value
}

func newWireBuilder(p *Program) *wireBuilder {
	return &wireBuilder{p: p, problems: map[string]bool{}, recvKey: &ssa.Const{}}
}

func isStreamType(t types.Type) bool {
	n, pk := NamedOf(t)
	return pk == saramaPath && (n == "packetEncoder" || n == "packetDecoder")
}

func wStrip(v ssa.Value) ssa.Value {
	for {
		switch x := v.(type) {
		case *ssa.Convert:
			v = x.X
		case *ssa.ChangeType:
			v = x.X
		default:
			return v
		}
	}
}

func (wb *wireBuilder) evalInt(c *wireCtx, v ssa.Value) (int64, bool) {
	switch x := v.(type) {
	case *ssa.Const:
		if x.Value != nil && x.Value.Kind() == constant.Int {
			i, ok := constant.Int64Val(x.Value)
			return i, ok
		}
	case *ssa.Convert:
		return wb.evalInt(c, x.X)
	case *ssa.ChangeType:
		return wb.evalInt(c, x.X)
	}
	if c.ver[v] {
		return int64(c.v), true
	}
	if k, ok := c.cst[v]; ok {
		return k, true
	}
	return 0, false
}

func (wb *wireBuilder) evalBool(c *wireCtx, v ssa.Value) (bool, bool) {
	switch x := v.(type) {
	case *ssa.BinOp:
		a, ok1 := wb.evalInt(c, x.X)
		b, ok2 := wb.evalInt(c, x.Y)
		if ok1 && ok2 {
			switch x.Op {
			case token.EQL:
				return a == b, true
			case token.NEQ:
				return a != b, true
			case token.LSS:
				return a < b, true
			case token.LEQ:
				return a <= b, true
			case token.GTR:
				return a > b, true
			case token.GEQ:
				return a >= b, true
			}
		}
	case *ssa.UnOp:
		if x.Op == token.NOT {
			b, ok := wb.evalBool(c, x.X)
			return !b, ok
		}
	case *ssa.Const:
		if x.Value != nil && x.Value.Kind() == constant.Bool {
			return constant.BoolVal(x.Value), true
		}
	case *ssa.Phi:
		// all incoming values known and equal
		var val, have bool
		for _, e := range x.Edges {
			b, ok := wb.evalBool(c, e)
			if !ok {
				return false, false
			}
			if have && b != val {
				return false, false
			}
			val, have = b, true
		}
		return val, have
	}
	return false, false
}

func (wb *wireBuilder) noteConsts(fn *ssa.Function, c *wireCtx) {
	for _, b := range fn.Blocks {
		for _, in := range b.Instrs {
			if bo, ok := in.(*ssa.BinOp); ok {
				for _, pair := range [][2]ssa.Value{{bo.X, bo.Y}, {bo.Y, bo.X}} {
					if c.ver[wStrip(pair[0])] || c.ver[pair[0]] {
						if k, ok := pair[1].(*ssa.Const); ok && k.Value != nil && k.Value.Kind() == constant.Int {
							i, _ := constant.Int64Val(k.Value)
							if int(i) > wb.maxConst && i < 64 {
								wb.maxConst = int(i)
							}
						}
					}
				}
			}
		}
	}
}

func (wb *wireBuilder) markVersion(fn *ssa.Function, c *wireCtx, bindParams map[*ssa.Parameter]bool) {
	for _, p := range fn.Params {
		if bindParams[p] {
			c.ver[p] = true
		}
	}
	var recv *ssa.Parameter
	if fn.Signature.Recv() != nil && len(fn.Params) > 0 {
		recv = fn.Params[0]
	}
	for _, b := range fn.Blocks {
		for _, in := range b.Instrs {
			switch x := in.(type) {
			case *ssa.UnOp:
				if x.Op == token.MUL {
					if fa, ok := x.X.(*ssa.FieldAddr); ok && recv != nil && fa.X == ssa.Value(recv) && c.ver[wb.recvKey] {
						st := fa.X.Type().Underlying().(*types.Pointer).Elem().Underlying().(*types.Struct)
						f := st.Field(fa.Field)
						if f.Name() == "Version" && f.Type().String() == "int16" {
							c.ver[x] = true
						}
					}
				}
			case *ssa.Convert:
				if c.ver[x.X] {
					c.ver[x] = true
				}
			case *ssa.Call:
				if cal := x.Call.StaticCallee(); cal != nil && cal.Name() == "version" && recv != nil && len(x.Call.Args) == 1 && x.Call.Args[0] == ssa.Value(recv) && c.ver[wb.recvKey] {
					c.ver[x] = true
				}
			}
		}
	}
}

func (wb *wireBuilder) problem(s string) { wb.problems[s] = true }

// condBlock: a block consisting only of phis and an If on one of those phis (value-position &&/||).
func condBlock(b *ssa.BasicBlock) (*ssa.Phi, bool) {
	ph, neg := phiCond(b)
	if ph == nil {
		return nil, false
	}
	for _, in := range b.Instrs[:len(b.Instrs)-1] {
		switch in.(type) {
		case *ssa.Phi, *ssa.UnOp, *ssa.DebugRef:
		default:
			return nil, false
		}
	}
	return ph, neg
}

// pureCondBlock: nothing but phis, comparisons and the branch (no wire effect that threading would skip).
func pureCondBlock(b *ssa.BasicBlock) bool {
	for _, in := range b.Instrs[:len(b.Instrs)-1] {
		switch in.(type) {
		case *ssa.Phi, *ssa.UnOp, *ssa.BinOp, *ssa.DebugRef:
		default:
			return false
		}
	}
	return true
}

func (wb *wireBuilder) build(n *wNFA, fn *ssa.Function, c *wireCtx, streamParams, verParams map[*ssa.Parameter]bool, recvVer bool, recvConst *int64) (int, []int) {
	if fn.Blocks == nil || c.depth > 10 {
		wb.problem("no body or too deep: " + wb.p.Name(fn))
		s := n.newState()
		return s, []int{s}
	}
	lc := &wireCtx{stream: map[ssa.Value]bool{}, ver: map[ssa.Value]bool{}, cst: map[ssa.Value]int64{}, v: c.v, depth: c.depth + 1}
	if recvConst != nil && fn.Signature.Recv() != nil && len(fn.Params) > 0 {
		// the receiver is a fresh value whose Version is a known constant: its Version reads are that
		// constant — unless this method sets the field itself
		storesVersion := false
		var loads []ssa.Value
		for _, b := range fn.Blocks {
			for _, in := range b.Instrs {
				isVer := func(a ssa.Value) bool {
					fa, ok := a.(*ssa.FieldAddr)
					if !ok || fa.X != ssa.Value(fn.Params[0]) {
						return false
					}
					st := fa.X.Type().Underlying().(*types.Pointer).Elem().Underlying().(*types.Struct)
					f := st.Field(fa.Field)
					return f.Name() == "Version" && f.Type().String() == "int16"
				}
				switch x := in.(type) {
				case *ssa.UnOp:
					if x.Op == token.MUL && isVer(x.X) {
						loads = append(loads, x)
					}
				case *ssa.Store:
					if isVer(x.Addr) {
						storesVersion = true
					}
				}
			}
		}
		if !storesVersion {
			for _, l := range loads {
				lc.cst[l] = *recvConst
			}
		}
	}
	for p := range streamParams {
		lc.stream[p] = true
	}
	if recvVer {
		lc.ver[wb.recvKey] = true
	}
	wb.markVersion(fn, lc, verParams)
	wb.noteConsts(fn, lc)
	in := make([]int, len(fn.Blocks))
	for i := range fn.Blocks {
		in[i] = n.newState()
	}
	// edge from `cur` (end of block b) to successor s, threading through value-position condition blocks
	var link func(cur int, b, s *ssa.BasicBlock, depth int)
	link = func(cur int, b, s *ssa.BasicBlock, depth int) {
		if nph, isNE := nilPhiCond(s); nph != nil && depth < 4 && pureCondBlock(s) {
			for i, pred := range s.Preds {
				if pred != b {
					continue
				}
				if isNil, known := nilnessAt(nph.Edges[i], pred); known {
					if isNil != isNE {
						link(cur, s, s.Succs[0], depth+1)
					} else {
						link(cur, s, s.Succs[1], depth+1)
					}
					return
				}
			}
		}
		if ph, neg := condBlock(s); ph != nil && depth < 4 {
			for i, pred := range s.Preds {
				if pred != b {
					continue
				}
				if val, known := wb.evalBool(lc, ph.Edges[i]); known {
					if val != neg {
						link(cur, s, s.Succs[0], depth+1)
					} else {
						link(cur, s, s.Succs[1], depth+1)
					}
					return
				}
			}
		}
		n.add(cur, in[s.Index], "")
	}
	var accepts []int
	for _, b := range fn.Blocks {
		cur := in[b.Index]
		for _, ins := range b.Instrs {
			call, ok := ins.(ssa.CallInstruction)
			if !ok {
				switch x := ins.(type) {
				case *ssa.ChangeInterface:
					if lc.stream[x.X] {
						lc.stream[x] = true
					}
				case *ssa.MakeInterface:
					if lc.stream[x.X] {
						lc.stream[x] = true
					}
				case *ssa.Extract:
					if lc.stream[x.Tuple] && x.Index == 0 {
						lc.stream[x] = true
					}
				case *ssa.Phi:
					for _, e := range x.Edges {
						if lc.stream[e] {
							lc.stream[x] = true
						}
					}
				case *ssa.Convert:
					if lc.ver[x.X] {
						lc.ver[x] = true
					}
				}
				continue
			}
			if _, isDefer := ins.(*ssa.Defer); isDefer {
				continue
			}
			cc := call.Common()
			if cc.IsInvoke() && lc.stream[cc.Value] {
				name := cc.Method.Name()
				if name == "getSubset" {
					if v, ok := ins.(ssa.Value); ok {
						lc.stream[v] = true
					}
					continue
				}
				if name == "push" {
					nxt := n.newState()
					n.add(cur, nxt, wb.pushToken(cc.Args[0]))
					cur = nxt
					continue
				}
				tok, ok := wireToken(name)
				if !ok {
					wb.problem(wb.p.Name(fn) + ": unknown stream method " + name)
					continue
				}
				if exp, isArr := wireArrayExp[tok]; isArr {
					nxt := n.newState()
					n.add(cur, nxt, exp[0])
					n.add(nxt, nxt, exp[1])
					cur = nxt
					continue
				}
				if tok != "" {
					nxt := n.newState()
					n.add(cur, nxt, tok)
					cur = nxt
				}
				continue
			}
			passes := false
			for _, a := range cc.Args {
				if lc.stream[a] {
					passes = true
				}
			}
			if !passes {
				continue
			}
			callee := cc.StaticCallee()
			if callee == nil {
				// interface dispatch with the stream as argument: the single implementation, if unique
				if cc.IsInvoke() {
					var impls []*ssa.Function
					for _, f := range wb.p.Fns {
						if f.Parent() == nil && f.Signature.Recv() != nil && f.Name() == cc.Method.Name() && types.Identical(f.Signature.Params(), cc.Signature().Params()) &&
							types.Implements(f.Signature.Recv().Type(), cc.Value.Type().Underlying().(*types.Interface)) {
							impls = append(impls, f)
						}
					}
					if len(impls) == 1 {
						callee = impls[0]
						args := append([]ssa.Value{cc.Value}, cc.Args...)
						cur = wb.splice(n, cur, fn, callee, lc, args, false)
						continue
					}
				}
				wb.problem(wb.p.Name(fn) + ": dynamic call with the stream as argument: " + cc.String())
				continue
			}
			rv := false
			if callee.Signature.Recv() != nil && fn.Signature.Recv() != nil && len(cc.Args) > 0 && len(fn.Params) > 0 && cc.Args[0] == ssa.Value(fn.Params[0]) {
				rv = recvVer
			}
			cur = wb.splice(n, cur, fn, callee, lc, cc.Args, rv)
		}
		switch t := lastInstr(b).(type) {
		case *ssa.If:
			// a test of an error value against nil: the wire language is that of the paths on which nothing failed,
			// so only the edge with the nil error is followed.  For `if err != nil { return err }` this is what not
			// accepting at a rejecting return already did; it also covers errors merged into one variable
			// (`err := put(a); if err == nil { err = put(b) }; return err`), where the failure path skips writes and
			// ends in a return that is not known to reject.
			if bo, isBo := t.Cond.(*ssa.BinOp); isBo && (bo.Op == token.EQL || bo.Op == token.NEQ) {
				var x ssa.Value
				switch {
				case IsNil()(bo.Y):
					x = bo.X
				case IsNil()(bo.X):
					x = bo.Y
				}
				if x != nil && x.Type().String() == "error" {
					if bo.Op == token.EQL {
						link(cur, b, b.Succs[0], 0)
					} else {
						link(cur, b, b.Succs[1], 0)
					}
					continue
				}
			}
			if val, known := wb.evalBool(lc, t.Cond); known {
				if val {
					link(cur, b, b.Succs[0], 0)
				} else {
					link(cur, b, b.Succs[1], 0)
				}
			} else {
				link(cur, b, b.Succs[0], 0)
				link(cur, b, b.Succs[1], 0)
			}
		case *ssa.Jump:
			link(cur, b, b.Succs[0], 0)
		case *ssa.Return:
			if !IsRecoverBlock(b) && !wireRejecting(t, b) {
				accepts = append(accepts, cur)
			}
		}
	}
	return in[0], accepts
}

// freshVersion: v is `new(T)`/&T{…} allocated in the caller whose Version field is only ever stored
// constants of one value there (none = the zero value): that constant.
func freshVersion(v ssa.Value) (int64, bool) {
	al, ok := v.(*ssa.Alloc)
	if !ok {
		return 0, false
	}
	val, have := int64(0), false
	for _, r := range *al.Referrers() {
		if fa, ok := r.(*ssa.FieldAddr); ok {
			st := fa.X.Type().Underlying().(*types.Pointer).Elem().Underlying().(*types.Struct)
			if st.Field(fa.Field).Name() == "Version" {
				for _, r2 := range *fa.Referrers() {
					if stv, isStore := r2.(*ssa.Store); isStore {
						k, isK := stv.Val.(*ssa.Const)
						if !isK || k.Value == nil || k.Value.Kind() != constant.Int {
							return 0, false
						}
						i, _ := constant.Int64Val(k.Value)
						if have && i != val {
							return 0, false
						}
						val, have = i, true
					}
				}
			}
		}
	}
	return val, true
}

func (wb *wireBuilder) splice(n *wNFA, cur int, fn, callee *ssa.Function, lc *wireCtx, args []ssa.Value, rv bool) int {
	sparams := map[*ssa.Parameter]bool{}
	vparams := map[*ssa.Parameter]bool{}
	for i, a := range args {
		if i < len(callee.Params) {
			if lc.stream[a] {
				sparams[callee.Params[i]] = true
			}
			if lc.ver[wStrip(a)] || lc.ver[a] {
				vparams[callee.Params[i]] = true
			}
		}
	}
	var rz *int64
	if callee.Signature.Recv() != nil && len(args) > 0 {
		if k, ok := freshVersion(args[0]); ok {
			rz = &k
		}
	}
	s, accs := wb.build(n, callee, lc, sparams, vparams, rv, rz)
	n.add(cur, s, "")
	nxt := n.newState()
	for _, a := range accs {
		n.add(a, nxt, "")
	}
	return nxt
}

// wireRejecting: the returned error is known non-nil (constant, or tested != nil on a dominating edge).
func wireRejecting(r *ssa.Return, b *ssa.BasicBlock) bool {
	rv := RetVals(r)
	if len(rv) == 0 {
		return false
	}
	ev := rv[len(rv)-1]
	if ev.Type().String() != "error" {
		return false
	}
	if k, ok := ev.(*ssa.Const); ok {
		return !k.IsNil()
	}
	if _, ok := ev.(*ssa.MakeInterface); ok {
		return true
	}
	if u, ok := ev.(*ssa.UnOp); ok {
		if _, isG := u.X.(*ssa.Global); isG {
			return true
		}
	}
	same := func(x ssa.Value) bool {
		if x == ev || x == r.Results[len(r.Results)-1] {
			return true
		}
		// spilled named result: compare the cell's stored value
		if u, ok := x.(*ssa.UnOp); ok && u.Op == token.MUL {
			if al, ok := u.X.(*ssa.Alloc); ok {
				for _, rf := range *al.Referrers() {
					if st, ok := rf.(*ssa.Store); ok && st.Val == ev {
						return true
					}
				}
			}
		}
		return false
	}
	for d := b; d != nil; d = d.Idom() {
		if len(d.Preds) == 1 && Establishes(d.Preds[0], d, Cmp{token.NEQ, same, IsNil()}) {
			return true
		}
	}
	return false
}

func (wb *wireBuilder) pushToken(v ssa.Value) string {
	if mi, ok := v.(*ssa.MakeInterface); ok {
		v = mi.X
	}
	// a variable captured by a closure (a deferred release, say) lives in a cell: the one value stored there
	if u, ok := v.(*ssa.UnOp); ok && u.Op == token.MUL {
		if al, ok := u.X.(*ssa.Alloc); ok {
			var stored []ssa.Value
			for _, rf := range *al.Referrers() {
				if st, ok := rf.(*ssa.Store); ok && st.Addr == ssa.Value(al) {
					stored = append(stored, st.Val)
				}
			}
			if len(stored) == 1 {
				v = stored[0]
			}
		}
	}
	n, _ := NamedOf(v.Type())
	switch n {
	case "lengthField":
		return "i32"
	case "varintLengthField":
		return "varint"
	case "crc32Field":
		// polynomial from the constructor call
		if c, ok := v.(*ssa.Call); ok && len(c.Call.Args) == 1 {
			if k, ok := c.Call.Args[0].(*ssa.Const); ok && k.Value != nil {
				return "crc32:" + k.Value.String()
			}
		}
		return "crc32:?"
	}
	return "push:" + n
}

// ---------------------------------------------------------------- language inclusion

func wClosure(n *wNFA, set map[int]bool) map[int]bool {
	var stack []int
	for s := range set {
		stack = append(stack, s)
	}
	for len(stack) > 0 {
		s := stack[len(stack)-1]
		stack = stack[:len(stack)-1]
		for _, e := range n.edges[s] {
			if e.tok == "" && !set[e.to] {
				set[e.to] = true
				stack = append(stack, e.to)
			}
		}
	}
	return set
}

func wKey(set map[int]bool) string {
	ks := make([]int, 0, len(set))
	for k := range set {
		ks = append(ks, k)
	}
	sort.Ints(ks)
	return fmt.Sprint(ks)
}

func wStep(n *wNFA, set map[int]bool, tok string) map[int]bool {
	out := map[int]bool{}
	for s := range set {
		for _, e := range n.edges[s] {
			if e.tok == tok {
				out[e.to] = true
			}
		}
	}
	return wClosure(n, out)
}

func wToks(n *wNFA, set map[int]bool) []string {
	m := map[string]bool{}
	for s := range set {
		for _, e := range n.edges[s] {
			if e.tok != "" {
				m[e.tok] = true
			}
		}
	}
	var r []string
	for t := range m {
		r = append(r, t)
	}
	sort.Strings(r)
	return r
}

func wAcc(n *wNFA, set map[int]bool) bool {
	for s := range set {
		if n.accept[s] {
			return true
		}
	}
	return false
}

func wCanAccept(n *wNFA, set map[int]bool) bool {
	seen := map[int]bool{}
	var stack []int
	for s := range set {
		stack = append(stack, s)
	}
	for len(stack) > 0 {
		s := stack[len(stack)-1]
		stack = stack[:len(stack)-1]
		if seen[s] {
			continue
		}
		seen[s] = true
		if n.accept[s] {
			return true
		}
		for _, e := range n.edges[s] {
			stack = append(stack, e.to)
		}
	}
	return false
}

// wIncluded: L(a) ⊆ L(b)?  Returns a counterexample token sequence otherwise.
func wIncluded(a *wNFA, as int, b *wNFA, bs int) (bool, []string, int) {
	type pair struct {
		A, B map[int]bool
		path []string
	}
	start := pair{wClosure(a, map[int]bool{as: true}), wClosure(b, map[int]bool{bs: true}), nil}
	seen := map[string]bool{}
	queue := []pair{start}
	for len(queue) > 0 {
		p := queue[0]
		queue = queue[1:]
		k := wKey(p.A) + "|" + wKey(p.B)
		if seen[k] {
			continue
		}
		seen[k] = true
		if wAcc(a, p.A) && !wAcc(b, p.B) {
			return false, append(p.path, "<encoder stops, decoder expects more>"), len(seen)
		}
		for _, t := range wToks(a, p.A) {
			na := wStep(a, p.A, t)
			nb := wStep(b, p.B, t)
			np := append(append([]string{}, p.path...), t)
			if len(nb) == 0 {
				if wCanAccept(a, na) {
					return false, append(np, "<decoder cannot read this here>"), len(seen)
				}
				continue
			}
			queue = append(queue, pair{na, nb, np})
		}
	}
	return true, nil, len(seen)
}

func (wb *wireBuilder) mk(fn *ssa.Function, v int) (*wNFA, int) {
	n := &wNFA{accept: map[int]bool{}}
	sparams := map[*ssa.Parameter]bool{}
	vparams := map[*ssa.Parameter]bool{}
	for _, p := range fn.Params {
		if isStreamType(p.Type()) {
			sparams[p] = true
		}
		if p.Type().String() == "int16" {
			vparams[p] = true
		}
	}
	c := &wireCtx{v: v}
	s, accs := wb.build(n, fn, c, sparams, vparams, true, nil)
	for _, a := range accs {
		n.accept[a] = true
	}
	return n, s
}
